#!/usr/bin/env python3
"""mk_seed_prompts.py <round> : development tool. Creates, for every property, a scratch git worktree of /repo under
/tmp/wt<round>-<ID> and a self-contained prompt /tmp/prompts<round>/<ID>.txt for a sub-agent that plays the adversary.
The prompt holds only the property's text (from properties.jsonl) and the worktree path -- nothing about the checks."""
import json, os, subprocess, sys
rnd = sys.argv[1]
ROOT = os.path.dirname(os.path.dirname(os.path.abspath(__file__)))
props = {json.loads(l)['id']: json.loads(l) for l in open(os.path.join(ROOT, 'properties.jsonl'))}
tmpl = '''You are helping test a verification framework by playing the adversary. You work ONLY inside the scratch git worktree {wt} (a checkout of the Rust crate kaj/ructe, "Rust Compiled Templates": a build-time compiler that parses Twirl-like templates with nom and emits Rust functions, plus static-file embedding). Do NOT read, list or modify anything under /verif or /repo; everything you need is in {wt}. The sandbox has no network: always build with `cargo ... --offline` and set `CARGO_TARGET_DIR={wt}/target` so that build output stays inside your worktree.

Here is a semantic property that ructe is supposed to satisfy:

PROPERTY {pid}: {title}
Statement: {statement}
Quantified over: {quant}
Relevant code: {anchors}

Your task: produce THREE DIFFERENT changes (mutations) to ructe's source under {wt}/src, each of which
  (a) still compiles, and with which the existing test suite still passes (`cd {wt} && CARGO_TARGET_DIR={wt}/target cargo test --offline` : all tests pass),
  (b) BREAKS the property above in a realistic way (the kind of bug a refactoring, an "optimisation", a dependency-upgrade adaptation or a well-meant fix could introduce),
  (c) needs something SPECIFIC to manifest -- an unusual input, a particular size or byte value, a particular position/offset, a multi-step sequence of operations, a particular ordering, a failure at a particular point, or two cooperating code sites that each look fine alone -- and does NOT show up on the most ordinary use (a trivial template / a single small file must still work).
{extra}Avoid the first mutation that comes to mind at the most obvious line: prefer SUBTLE changes (boundary conditions, state carried from one call to the next, error paths, rarely taken branches, interactions between two features, behaviour that depends on what is already on disk or on what came earlier in the input). The three changes must be in different mechanisms / code sites, and each must violate a different clause of the statement if the statement has several.

For each change i in {{1,2,3}} write into the directory {wt}/mutants/ :
  - patch{{i}}.diff : the output of `git diff` for that change alone, relative to the unmodified worktree (apply cleanly with `git apply` on a clean checkout),
  - demo{{i}}.md : what the change does, a section titled "What is needed for it to manifest", and a concrete demonstration: a small Rust program / shell script that exits non-zero (shows the property violated) with the change and exits 0 without it. Include the exact commands you ran and their observed output with and without the change.
  - the demonstration itself in {wt}/mutants/demo{{i}}/ : either a scratch crate (Cargo.toml with `ructe = {{ path = "{wt}" }}`, optional features) that is run with `cargo run --offline` from that directory, or a script `run.sh` in that directory (then the script is what is run, with the worktree root as current directory). Its exit status must be 0 when the property holds and non-zero when it is violated.
Work on one change at a time: make it, run the test suite, run your demonstration, save `git diff` to the patch file, then `git checkout -- .` (keeping mutants/ which is untracked) before starting the next. When done, leave the worktree clean (`git status` shows only the untracked mutants/ directory) and reply with a short summary of the three changes (which file/function, what triggers them).
Useful facts: the generated code for templates can be exercised the way examples/ in the repo do (a build.rs using ructe::Ructe, then include!(concat!(env!("OUT_DIR"), "/templates.rs"))); a faster way for a demonstration is a tiny scratch crate under {wt}/mutants/demoN/ whose main.rs calls ructe::Ructe::new(outdir) / compile_templates / statics() directly on temp directories and inspects the generated files, or compiles them with rustc. The optional cargo features are sass, mime03, http-types.'''
os.makedirs('/tmp/prompts%s' % rnd, exist_ok=True)
for pid, p in props.items():
    wt = '/tmp/wt%s-%s' % (rnd, pid)
    if not os.path.isdir(wt):
        subprocess.run(['git', '-C', '/repo', 'worktree', 'add', '--detach', wt, 'HEAD'], check=True, capture_output=True)
    anchors = "; ".join("%s (%s)" % (m['name'], m['where']) for m in p['anchors'].get('mechanism', []))
    extra = ""
    if int(rnd) >= 3:
        extra = ("Look beyond the functions named above: helper functions, Display / Drop / Default impls, error paths, feature-gated code (sass, mime03, http-types), "
                 "the code that is copied into the generated crate (src/templates/*.rs), interactions between two public entry points called in sequence, "
                 "and behaviour that differs between the first and a later run into the same output directory are all fair game, as long as the change breaks THIS property. ")
    if int(rnd) >= 4:
        extra += ("Think about the edges of the input space as well: empty inputs and empty collections, a single element, very long inputs, names and contents that are not ASCII, "
                  "names that contain the separators the code splits on, the same call made twice on one object, calls made in an unusual order, inputs that are almost but not quite "
                  "what a special case tests for, and counters or lengths that only matter beyond some threshold. ")
    if int(rnd) >= 5:
        extra += ("Prefer changes whose effect is SILENT (the build succeeds, the generated code compiles, and only the behaviour or the bytes are wrong) over ones that make the build fail loudly; "
                  "changes that depend on a combination of two conditions (for example a certain nesting together with a certain character, or a certain call order together with a certain file name); "
                  "and changes in code that runs only for one of several equivalent ways of writing the same thing. ")
    if int(rnd) >= 6:
        extra += ("Also worth a look: the less common public entry points and options of the API, template-syntax corners documented in src/Template_syntax.rs, the interplay with Rust's own lexing "
                  "(raw strings, char literals, lifetimes, nested generics, closures, macros with unusual delimiters), arithmetic on lengths and indices, and places where two data structures "
                  "must stay in step (a map and its reverse map, a list and a counter, a buffer and its length). ")
    if int(rnd) >= 7:
        extra += ("Before you start, write down at least eight candidate ideas, discard the five that a person would think of first, and implement three of the remaining ones: "
                  "the goal is changes unlike the usual suspects (not another off-by-one on a buffer size, not another 'compare sizes instead of contents', not another missing case conversion). ")
    if int(rnd) >= 12:
        extra += ("Earlier rounds already covered the single-site, single-input kind of change well. This time favour changes whose effect depends on HISTORY or COMBINATION: the second or later of several similar inputs "
                  "in one run, something remembered from an earlier element (a flag, a cache, a buffer, a counter) that leaks into a later one, an entry point behaving differently after another one was used, "
                  "an optional cargo feature combined with an unusual input, or an error on one element changing how the following elements are treated. ")
    open('/tmp/prompts%s/%s.txt' % (rnd, pid), 'w').write(tmpl.format(wt=wt, pid=pid, title=p['title'], statement=p['statement'], quant=p['quantifier']['text'], anchors=anchors, extra=extra))
print("ok", len(props))
