#!/bin/bash
# setup_cmd: build everything from files on disk only (offline).
set -e
cd "$(dirname "$0")/.."
export CARGO_NET_OFFLINE=true
python3 - <<'PY'
import sys, os
sys.path.insert(0, "lib")
import vlib
with vlib.Lock():
    vlib.build_harness()
    print("harness built")
    print("tables:", vlib.regenerate_tables())
    ok, out = vlib.coq_make()
    if not ok:
        print(out[-5000:]); sys.exit(1)
    print("coq development built")
    vlib.build_driver()
    print("driver built")
probs = vlib.scan_sources()
if probs:
    print("\n".join(probs)); sys.exit(1)
PY
