#!/usr/bin/env python3
"""eval_all_mutants.py [ids...]   (development tool, not a registered check)
Re-run, for every kept seeded change under seeded/, the quick checks recorded in its meta.json (its own property first)
against /repo with the change applied, and refresh meta.json's checks_run.  /repo is restored after each change."""
import sys, os, json, subprocess
ROOT = os.path.dirname(os.path.dirname(os.path.abspath(__file__)))
ids = sys.argv[1:] or sorted(os.listdir(os.path.join(ROOT, "seeded")))
summary = []
for sid in ids:
    d = os.path.join(ROOT, "seeded", sid)
    mp = os.path.join(d, "meta.json")
    if not os.path.exists(mp): continue
    meta = json.load(open(mp))
    props = [meta["property"]] + [k for k in meta.get("checks_run", {}) if k != meta["property"]]
    r = subprocess.run([os.path.join(ROOT, "bin/eval_mutant.py"), os.path.join(d, "patch.diff")] + props, capture_output=True, text=True)
    try: res = json.loads(r.stdout.strip().split("\n")[-1])
    except Exception:
        print(sid, "EVAL FAILED", r.stdout[-300:], r.stderr[-300:]); continue
    meta["checks_run"] = {k: dict(exit=v["rc"], lines=v["lines"], why=v["why"], seconds=v["s"]) for k, v in res.items()}
    json.dump(meta, open(mp, "w"), indent=1)
    own = res[meta["property"]]
    kind = "MISSED" if own["rc"] == 0 else ("no-failing-input" if any("no-failing-input-found" in l for l in own["lines"]) else ("failing-input" if own["lines"] else "CHECK-CRASHED"))
    summary.append((sid, kind, (own["why"] or [""])[0][:160], {k: v["rc"] for k, v in res.items() if k != meta["property"]}))
    print(*summary[-1], flush=True)
