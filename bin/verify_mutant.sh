#!/bin/bash
# verify_mutant.sh <worktree> <i>: confirm a seeded change in its scratch worktree:
#  with the patch: crate compiles, existing tests pass, demonstration fails; without: demonstration passes.
wt=$1; i=$2
cd $wt || exit 2
export CARGO_TARGET_DIR=$wt/target CARGO_NET_OFFLINE=true
git checkout -q -- . ; git apply mutants/patch$i.diff || { echo "APPLY-FAILED"; exit 2; }
t=$(cargo test --offline 2>&1 | grep "test result" | tr '\n' ' ')
echo "tests-with-patch: $t"
demo=mutants/demo$i
run_demo() {
  cmd=$(grep -m1 -o "cargo run[^;|\`)#]*" mutants/demo$i.md | sed 's/2>.*//')
  [ -z "$cmd" ] && cmd="cargo run --offline --quiet"
  case "$cmd" in *--offline*) ;; *) cmd="$cmd --offline";; esac
  rundir=$demo; case "$cmd" in *--manifest-path*) rundir=$wt;; esac
  if [ -f $demo/run.sh ]; then (cd $wt && timeout 900 bash $demo/run.sh >/tmp/demo-$$.out 2>&1; echo $?)
  elif [ -f $demo/mime03/Cargo.toml ]; then
    (rc=0; for c in mime03 httptypes; do (cd $demo/$c && DEMO_OUT=$wt/target/demo-out timeout 900 cargo run --offline -q >>/tmp/demo-$$.out 2>&1) || rc=1; done; echo $rc)
  elif [ -f $demo/Cargo.toml ]; then (cd $rundir && timeout 900 bash -c "$cmd" >/tmp/demo-$$.out 2>&1; echo $?)
  elif [ -f $demo/run.sh ]; then (cd $demo && timeout 600 bash run.sh >/tmp/demo-$$.out 2>&1; echo $?)
  else echo "NO-DEMO"; fi
}
with=$(run_demo); tail -3 /tmp/demo-$$.out | cut -c1-200
git checkout -q -- .
without=$(run_demo); tail -2 /tmp/demo-$$.out | cut -c1-200
echo "demo-exit-with-patch=$with demo-exit-without=$without"
rm -f /tmp/demo-$$.out
