#!/usr/bin/env python3
"""eval_mutant.py <patch.diff> <ID> [<ID> ...]   (development tool, not a registered check)
Apply a seeded change to /repo, run the quick checks of the given properties, print their
VIOLATION lines, and undo the change."""
import sys, subprocess, os, json, time
patch = os.path.abspath(sys.argv[1]); ids = sys.argv[2:]
ROOT = os.path.dirname(os.path.dirname(os.path.abspath(__file__)))
assert subprocess.run(["git", "-C", "/repo", "status", "--porcelain", "--untracked-files=no"], capture_output=True, text=True).stdout.strip() == "", "/repo not clean"
subprocess.run(["git", "-C", "/repo", "apply", patch], check=True)
res = {}
try:
    for i in ids:
        t = time.time()
        r = subprocess.run([os.path.join(ROOT, "bin/check"), i, "quick"], capture_output=True, text=True, cwd=ROOT)
        lines = [l for l in r.stdout.split("\n") if l.startswith("VIOLATION") or l.startswith("KNOWN")]
        why = [l.strip() for l in r.stderr.split("\n") if l.startswith("  ")][:1]
        res[i] = dict(rc=r.returncode, lines=lines, why=why, s=round(time.time() - t, 1))
        print(i, "rc=%d" % r.returncode, lines, why, "%.1fs" % (time.time() - t), flush=True)
finally:
    subprocess.run(["git", "-C", "/repo", "checkout", "--", "."], check=True)
    subprocess.run(["git", "-C", "/repo", "clean", "-fdq", "src"], check=False)
print(json.dumps(res))
