#!/usr/bin/env python3
"""adopt_mutant.py <PID> <i> "<what it needs to manifest>" [extra property ids to run]
Dev tool: confirm a sub-agent's seeded change in its scratch worktree, keep it under seeded/, run the checks on it."""
import sys, subprocess, os, json, shutil, re
pid, i, needs = sys.argv[1], sys.argv[2], sys.argv[3]; extra = sys.argv[4:]
ROOT = os.path.dirname(os.path.dirname(os.path.abspath(__file__)))
wt = "/tmp/wt-" + pid
v = subprocess.run([os.path.join(ROOT, "bin/verify_mutant.sh"), wt, i], capture_output=True, text=True).stdout
print(v[-1200:])
m = re.search(r"demo-exit-with-patch=(\S+) demo-exit-without=(\S+)", v)
tests = re.search(r"tests-with-patch: (.*)", v).group(1)
ok_tests = "FAILED" not in tests and "test result: ok" in tests
confirmed = bool(m) and m.group(1) not in ("0", "NO-DEMO") and m.group(2) == "0" and ok_tests
dest = os.path.join(ROOT, "seeded", "%s-%s" % (pid, i))
if not confirmed:
    print("NOT CONFIRMED:", pid, i, tests, m.groups() if m else None); sys.exit(1)
os.makedirs(dest, exist_ok=True)
shutil.copy(os.path.join(wt, "mutants", "patch%s.diff" % i), os.path.join(dest, "patch.diff"))
shutil.copy(os.path.join(wt, "mutants", "demo%s.md" % i), os.path.join(dest, "demo.md"))
d = os.path.join(wt, "mutants", "demo%s" % i)
if os.path.isdir(d):
    shutil.rmtree(os.path.join(dest, "demo"), ignore_errors=True)
    shutil.copytree(d, os.path.join(dest, "demo"), ignore=shutil.ignore_patterns("target", "*.lock", "out*", "work*"))
r = subprocess.run([os.path.join(ROOT, "bin/eval_mutant.py"), os.path.join(dest, "patch.diff"), pid] + extra, capture_output=True, text=True)
print(r.stdout[-1500:], r.stderr[-300:])
res = json.loads(r.stdout.strip().split("\n")[-1])
meta = dict(property=pid, needs_to_manifest=needs,
            confirmed=dict(existing_tests_with_patch=tests.strip(), demo_exit_with_patch=m.group(1), demo_exit_without_patch=m.group(2),
                           how="bin/verify_mutant.sh %s %s (git apply in the scratch worktree, cargo test --offline, the demonstration's own command; then reverted and the demonstration re-run)" % (wt, i)),
            checks_run={k: dict(exit=v["rc"], lines=v["lines"], why=v["why"], seconds=v["s"]) for k, v in res.items()})
json.dump(meta, open(os.path.join(dest, "meta.json"), "w"), indent=1)
print("ADOPTED", pid, i, {k: v["rc"] for k, v in res.items()})
