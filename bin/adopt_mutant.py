#!/usr/bin/env python3
"""adopt_mutant.py <PID> <i> "<what it needs to manifest>" [extra property ids to run]
Dev tool: confirm a sub-agent's seeded change in its scratch worktree, keep it under seeded/, run the checks on it."""
import sys, subprocess, os, json, shutil, re
"""options (environment): ADOPT_WT=<worktree> ADOPT_ID=<number under seeded/> ADOPT_NOEVAL=1 (confirm and copy only);
needs == "auto" takes the section "What is needed for it to manifest" of the demonstration's write-up"""
pid, i, needs = sys.argv[1], sys.argv[2], sys.argv[3]; extra = sys.argv[4:]
ROOT = os.path.dirname(os.path.dirname(os.path.abspath(__file__)))
wt = os.environ.get("ADOPT_WT", "/tmp/wt-" + pid)
sid = os.environ.get("ADOPT_ID", i)
if needs == "auto":
    md = open(os.path.join(wt, "mutants", "demo%s.md" % i)).read()
    m0 = re.search(r"#+\s*What is needed[^\n]*\n(.*?)(\n#+\s|\Z)", md, re.S | re.I)
    needs = re.sub(r"\s+", " ", (m0.group(1) if m0 else md[:600]).strip())[:900]
v = subprocess.run([os.path.join(ROOT, "bin/verify_mutant.sh"), wt, i], capture_output=True, text=True).stdout
print(v[-1200:])
m = re.search(r"demo-exit-with-patch=(\S+) demo-exit-without=(\S+)", v)
tests = re.search(r"tests-with-patch: (.*)", v).group(1)
ok_tests = "FAILED" not in tests and "test result: ok" in tests
confirmed = bool(m) and m.group(1) not in ("0", "NO-DEMO") and m.group(2) == "0" and ok_tests
dest = os.path.join(ROOT, "seeded", "%s-%s" % (pid, sid))
if not confirmed:
    print("NOT CONFIRMED:", pid, i, tests, m.groups() if m else None); sys.exit(1)
os.makedirs(dest, exist_ok=True)
shutil.copy(os.path.join(wt, "mutants", "patch%s.diff" % i), os.path.join(dest, "patch.diff"))
shutil.copy(os.path.join(wt, "mutants", "demo%s.md" % i), os.path.join(dest, "demo.md"))
d = os.path.join(wt, "mutants", "demo%s" % i)
if os.path.isdir(d):
    shutil.rmtree(os.path.join(dest, "demo"), ignore_errors=True)
    shutil.copytree(d, os.path.join(dest, "demo"), ignore=shutil.ignore_patterns("target", "*.lock", "out*", "work*", "*.log"))
if os.environ.get("ADOPT_NOEVAL"):
    res = {k: dict(rc=None, lines=[], why=["not evaluated yet"], s=0) for k in [pid] + extra}
else:
    r = subprocess.run([os.path.join(ROOT, "bin/eval_mutant.py"), os.path.join(dest, "patch.diff"), pid] + extra, capture_output=True, text=True)
    print(r.stdout[-1500:], r.stderr[-300:])
    res = json.loads(r.stdout.strip().split("\n")[-1])
meta = dict(property=pid, needs_to_manifest=needs,
            confirmed=dict(existing_tests_with_patch=tests.strip(), demo_exit_with_patch=m.group(1), demo_exit_without_patch=m.group(2),
                           how="bin/verify_mutant.sh %s %s (git apply in the scratch worktree, cargo test --offline, the demonstration's own command; then reverted and the demonstration re-run)" % (wt, i)),
            checks_run={k: dict(exit=v["rc"], lines=v["lines"], why=v["why"], seconds=v["s"]) for k, v in res.items()})
json.dump(meta, open(os.path.join(dest, "meta.json"), "w"), indent=1)
print("ADOPTED", pid, i, {k: v["rc"] for k, v in res.items()})
