#!/usr/bin/env python3
"""Regenerate MANIFEST.json from the table below (run by hand when a check is added)."""
import json, os
ROOT = os.path.dirname(os.path.dirname(os.path.abspath(__file__)))
props = [json.loads(l) for l in open(os.path.join(ROOT, "properties.jsonl"))]
NOTE = ("Trusted: Coq 8.16.1 kernel; no axioms; hand-written executable model tied to the code by translator-generated tables (re-read from /repo every run) "
        "and a byte-exact differential run of the extracted model (ExtrOcamlBasic only) against the implementation; generators/oracles in Python; see DESIGN.md section 7.")
BUILT = {
 "C01": "text_run_capture, escape_tokens, comment_skipped (any body without *@, trailing stars included), text_node_is_source_slice (EVERY input), leading_trim_only, and text_literal_denotes_text (both literal arms lex back to the text under a model of rustc's literal lexer, for all valid UTF-8) proved; legacy literal/comment refuted; generated code compared with the model on texts over all 128 ASCII code points and multi-byte scalars at every nesting position, compiled with rustc and run",
 "C03": "block_ends_at_its_brace, nothing_swallowed_after_if (else / else-if chains, by induction on the recursion) and _for (EVERY input), emit_structure (else-if flattening), render_control_flow and exec_renders over a big-step semantics of the emitted statements with an oracle for the Rust fragments; nestings to depth 4 compiled with rustc and rendered on argument sets driving every branch",
 "C04": "call_form, block_argument_emission, content_param_rewrite, exec_call, exec_block_in_caller_env and forwarded_block_still_runs_in_the_original_env (closures capture the caller's environment and blocks) proved over the statement semantics; call graphs across root/child/grandchild/sibling modules with 0-3 Content parameters and forwarding intermediates compiled with rustc and rendered",
 "C05": "expression_sound_and_maximal (EVERY input: the fragment is a non-empty valid-UTF-8 prefix and no postfix form parses where it ends), paren_expression, division_is_transparent, fragment_verbatim_once proved; legacy division refuted; grammar-generated expressions x follower classes compared with the model, compiled and evaluated (single evaluation checked with a counter), plus a malformed stream",
 "C11": "compile_never_panics (every Panic outcome of the model -- unwrap, index, subtraction, unreachable!() -- is unreachable, via a predicate closed under every nom combinator), errors_are_inside_input, reject_has_wellformed_diagnostics (at least one diagnostic; line number, caret column and echoed line characterised) proved for EVERY byte string; legacy panics refuted; 3e4 exhaustive/fuzzed/mutated inputs compared outcome-for-outcome (generated code or full diagnostic text) with the model",
 "C13": "signature_shape, param_verbatim_or_content (exactly `Content` after trimming, split at the first colon), formal_argument_is_source_slice, use_line_is_source_slice proved; legacy substring rewrite refuted; declarations over 24 type shapes called from a rustc-compiled program with values of the declared types",
 "C14": "exec_prefix (every statement list, oracle and sink schedule: accepted bytes are a prefix of the full rendering, all of it on Ok), exec_partial_interrupt_invariant, exec_error_propagates, sink_error_is_returned, question_marks_present proved; compiled templates run against sinks failing at every byte offset with one-byte / short / whole accepts and Interrupted sprinkled in",
 "C15": "spacelike_skips (any run of whitespace and closed comments, multi-line and star-ending bodies included), layout_irrelevant_at_spacelike / _after (two layouts at a spacelike position give the same parse), let_condition_respaced proved; metamorphic pairs canonical vs 4 perturbed layouts must give byte-identical code, also compared with the model",
 "C02": "to_html_prefix / to_html_no_fault / decode_escape / escape_no_special / escape_passthrough proved for every chunking of the Display text and every sink schedule over the Gallina model of utils.rs, whose byte tables are regenerated from the source on every run; model tied to the library by a 3e5-case differential run",
 "C06": "html_raw_prefix / to_buffer_eq_to_html / buffer_not_reescaped / buffer_eq_is_equality proved for every value, chunking and schedule; same model and correspondence as C02 with the Html / to_buffer wrappers",
 "C07": "url_name_shape, url_name_history_independent, slug_is_md5_prefix (8 url-safe characters), b64url_6_injective, md5_pad_injective and the RFC 1321 vectors proved over the model's own MD5/base64/StaticFiles state machine; name_changes_partial states exactly what can be proved about 'any byte changes the name' (48-bit prefix equality); correspondence on add_file/add_file_data histories plus hashlib oracle",
 "C08": "bytestring_roundtrip (all byte strings) and path/name_literal_roundtrip (all valid UTF-8, via a proved UTF-8 encode/decode round trip and {:x} <-> \\u{..} round trip) against a model of rustc's literal lexer; item_shape; every generated statics.rs compared with the model and compiled with rustc, content/name read back",
 "C09": "statics_sorted (any op sequence), statics_complete, binary_search_correct (core's branch-free loop, transcribed) and get_exact proved; STATICS line and compiled get() compared with the model over all orders of colliding name sets",
 "C16": "mangle_ascii_legal (every ASCII name), mangle_hashed_not_keyword, names_map_tracks proved; identifiers compared with the model, regex/keyword oracle, and named from a rustc-compiled program",
 "C19": "mime_follows_suffix / mime_case_insensitive / mime_consts_exist proved by computation over the tables the translator re-reads from src/staticfiles.rs and the mime crate on every run; both feature builds enumerated completely, mime03 value read back after rustc",
 "C10": "template_becomes_function, broken_template_reported/_isolated, other_files_ignored, subdir_becomes_module and directory_is_sum_of_entries proved over the model of handle_entries (a writer-monad framing lemma shows every function only appends to plan/stdout/text), with the suffix table regenerated from src/lib.rs; whole OUT_DIR and stdout compared with the model on random trees, every function called through its module path after rustc",
 "C12": "write_if_changed_spec, write_plan_independent_of_outdir, generated_files_equal_clean_build (for EVERY prior OUT_DIR, which covers every crash point and truncation) and second_run_writes_nothing proved; edit histories with garbage, truncations and builds killed at the k-th write (crash hook) compared with clean builds and with the model's write list, sentinel mtimes",
 "C17": "reads_are_announced: for every tree and every program over the public API each path the run reads or lists has its own cargo:rerun-if-changed line (invariant through handle_entries, add_files, recursive add_files_as, sass); stdout compared with the model, coverage recomputed independently from the tree",
 "C18": "template_code_function_of_bytes_and_name, module_decls_permutation_invariant, statics_order_permutation_invariant proved; same template compiled alone / among siblings / elsewhere / twice / under another cwd+environment compared byte for byte and with the model",
 "C20": "static_name_finds_added (every ASCII name, any history), static_name_unknown_is_error, sass_css_added_as_hashed proved over the model of the repaired lookup; legacy lookup refuted on the original witnesses; correspondence through real add_sass_file runs",
}
checks = []
for p in props:
    i = p["id"]
    if i in BUILT:
        checks.append(dict(property_id=i, quick_cmd="bin/check %s quick" % i, thorough_cmd="bin/check %s thorough" % i,
            evidence_file="/verif/evidence/%s.json" % i, replay_cmd_template="bin/check %s quick --replay {path}" % i,
            engine="coq-model+correspondence",
            level_claimed=dict(category="proof", text=BUILT[i], design_ref="DESIGN.md section 8, " + i),
            level_note=NOTE,
            technique="machine-checked proof in Coq over an executable model + model/implementation correspondence"))
na = [dict(property_id=p["id"], reason="check not built yet (work in progress; see DESIGN.md section 11)") for p in props if p["id"] not in BUILT]
m = dict(version=1, setup_cmd="bin/setup.sh",
  hooks=dict(guard="cargo feature verif-hooks", enable="harness depends on ructe = { path = \"/repo\", features = [\"verif-hooks\"] }",
             baseline_off_cmd="cd /repo && cargo test --workspace --no-fail-fast --offline", source_commits=["6126f70"], add_only=True),
  engines=[dict(name="coq-model+correspondence", path="/verif/coq, /verif/ocaml, /verif/harness, /verif/lib, /verif/checks, /verif/gen, /verif/translator",
                serves_properties=sorted(BUILT), kind_free_text="Coq 8.16 theorems over a hand-written executable model; extracted OCaml model vs Rust implementation differential run; translator-generated tables; rustc compile-and-run batches")],
  checks=checks, notes="see DESIGN.md")
if na: m["not_applicable"] = na
json.dump(m, open(os.path.join(ROOT, "MANIFEST.json"), "w"), indent=1)
print("claimed:", sorted(BUILT), "not yet:", [x["property_id"] for x in na])
