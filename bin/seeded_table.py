#!/usr/bin/env python3
"""seeded_table.py   (development tool) print the table of DESIGN.md section 12 from seeded/*/meta.json"""
import os, json, re
ROOT = os.path.dirname(os.path.dirname(os.path.abspath(__file__)))
def key(s):
    p, n = s.split("-"); return (p, int(n))
print("| change | needs, to manifest | reported by its property's quick check | what the check said |")
print("|---|---|---|---|")
tot = {}
for sid in sorted(os.listdir(os.path.join(ROOT, "seeded")), key=key):
    mp = os.path.join(ROOT, "seeded", sid, "meta.json")
    if not os.path.exists(mp): continue
    m = json.load(open(mp)); pid = m["property"]
    cr = m.get("checks_run", {}); own = cr.get(pid) or {}
    if own.get("exit") in (0, None): kind = "MISSED"
    elif any("no-failing-input-found" in l for l in own.get("lines", [])): kind = "broken correspondence / proof (no-failing-input-found)"
    else: kind = "failing input"
    tot[kind] = tot.get(kind, 0) + 1
    others = "; ".join("%s: %s" % (k, "caught" if v.get("exit") else "silent") for k, v in sorted(cr.items()) if k != pid)
    needs = re.sub(r"\s+", " ", m.get("needs_to_manifest", "")).replace("|", "\\|")
    if len(needs) > 230: needs = needs[:227] + "..."
    why = re.sub(r"\s+", " ", (own.get("why") or [""])[0]).replace("|", "\\|")
    if len(why) > 160: why = why[:157] + "..."
    print("| %s | %s | %s | %s |" % (sid, needs, kind + ("; " + others if others else ""), why))
import sys
print(tot, file=sys.stderr)
