"""Histories of StaticFiles operations: running them on the implementation (harness `capture statics`)
and on the extracted model (driver `statics`), and parsing both results."""
import os, re, json
from vlib import *

def hx(b):
    if isinstance(b, str): b = b.encode()
    return b.hex() if b else "-"

def impl_line(history):
    out = []
    for op in history:
        k = op[0]
        if k == 'F': out.append("F:%s:%s" % (hx(op[1]), hx(op[2])))
        elif k == 'A': out.append("A:%s:%s:%s" % (hx(op[1]), hx(op[2]), hx(op[3])))
        elif k == 'D': out.append("D:%s:%s" % (hx(op[1]), hx(op[2])))
        elif k == 'S':
            scss = b'a{b:static_name("' + (op[2].encode() if isinstance(op[2], str) else op[2]) + b'")}'
            out.append("W:%s:%s" % (hx(op[1]), hx(scss)))
            out.append("S:%s" % hx(op[1]))
        else: raise ValueError(op)
    return " ".join(out) if out else " "

def parse_fields(line):
    d = {"op": []}
    for f in line.split(" "):
        if "=" in f:
            k, _, v = f.partition("=")
            if k == "op": d["op"].append(v)
            else: d[k] = v
    return d

def parse_names(v):
    if v in (None, "-", ""): return []
    return [tuple(unhexs(x) for x in kv.split("=")) for kv in v.split(",")]

def join_path(base, p):
    if isinstance(p, str): p = p.encode()
    return p if p.startswith(b"/") else base + b"/" + p

def model_line(history, base, header, mm, probes=()):
    out = [mm, hx(header)]
    for op in history:
        k = op[0]
        if k == 'F': out.append("F:%s:%s" % (hx(join_path(base, op[1])), hx(op[2])))
        elif k == 'A': out.append("A:%s:%s" % (hx(join_path(base, op[1])), hx(op[2])))
        elif k == 'D': out.append("D:%s:%s" % (hx(join_path(base, op[1])), hx(op[2])))
        elif k == 'S': out.append("S:%s:%s" % (hx(join_path(base, op[1])), hx(op[2])))
    for p in probes:
        out.append("%s:%s" % (p[0], hx(p[1])))
    return " ".join(out)

_header_cache = {}
def get_header(harness):
    if harness not in _header_cache:
        r = run_lines(harness, "capture", [" "], shards=1, cwd=None, env=None) if False else None
        import subprocess
        o = subprocess.run([harness, "capture", "statics"], input=b" \n", capture_output=True).stdout.decode()
        d = parse_fields(o.strip())
        try:
            g = unhexs(d["statics"])
            i = g.index(b"\npub static STATICS")
            _header_cache[harness] = g[:i]
        except (KeyError, ValueError):
            # a StaticFiles object that adds nothing wrote no (complete) module: remembered, and reported by the check as a violation
            # with the empty history as the failing input; the header is then read off a one-file history
            HEADER_PROBLEM.append(o.strip()[:300])
            o2 = subprocess.run([harness, "capture", "statics"], input=b"D:612e62:78\n", capture_output=True).stdout.decode()
            g = unhexs(parse_fields(o2.strip()).get("statics", "-"))
            i = g.find(b"\n/// From ")
            _header_cache[harness] = g[:i] if i >= 0 else g
    return _header_cache[harness]
HEADER_PROBLEM = []

def run_capture(harness, stage, lines, shards=NPROC):
    """like run_lines but through the capture wrapper: binary capture <stage>"""
    import subprocess, threading
    n = len(lines)
    if n == 0: return []
    k = max(1, min(shards, (n + 9) // 10))
    chunks = [lines[i::k] for i in range(k)]
    outs = [None] * k
    def work(i):
        p = subprocess.run([harness, "capture", stage], input=("\n".join(chunks[i]) + "\n").encode(), capture_output=True)
        o = p.stdout.decode("utf8", "replace").split("\n")
        if o and o[-1] == "": o = o[:-1]
        outs[i] = o
    ths = [threading.Thread(target=work, args=(i,)) for i in range(k)]
    for t in ths: t.start()
    for t in ths: t.join()
    res = [None] * n
    for i in range(k):
        for j, idx in enumerate(range(i, n, k)):
            res[idx] = outs[i][j] if j < len(outs[i]) else "died=1"
    return res

def run_histories(histories, mm="n", harness=None, probes=None):
    """returns list of dict(impl=parsed, model=parsed, base=...) per history"""
    harness = harness or HARNESS
    header = get_header(harness)
    impl = [parse_fields(l) for l in run_capture(harness, "statics", [impl_line(h) for h in histories])]
    mlines = []
    for i, (h, r) in enumerate(zip(histories, impl)):
        base = unhexs(r.get("base", "-"))
        mlines.append(model_line(h, base, header, mm, probes[i] if probes else ()))
    model = [parse_fields(l) for l in run_model("statics", mlines)]
    out = []
    for h, a, m, ml in zip(histories, impl, model, mlines):
        out.append(dict(history=h, impl=a, model=m, base=unhexs(a.get("base", "-")), model_line=ml))
    return out

def items_of(statics_rs):
    """split generated statics.rs into (header, [item texts], statics line)"""
    i = statics_rs.find(b"\n/// From ")
    j = statics_rs.rfind(b"\npub static STATICS")
    if j < 0: return statics_rs, [], b""
    if i < 0 or i > j: return statics_rs[:j], [], statics_rs[j:]
    body = statics_rs[i:j]
    items = [b"\n/// From " + x for x in body.split(b"\n/// From ")[1:]]
    return statics_rs[:i], items, statics_rs[j:]

def rustc_statics_batch(histories, probes_per_history, harness=None, extra_rustc=(), mime=False):
    """Run the histories on the implementation keeping OUT_DIRs, compile all generated statics.rs
    files into ONE program with rustc, run it, and return per history:
      dict(ok=bool, entries=[(name, content)], idents_ok=bool, gets=[index-or-None per probe], error=str)
    plus the parsed impl results.  Everything lives in a temp dir that is removed before returning."""
    import tempfile, subprocess, shutil
    harness = harness or HARNESS
    root = tempfile.mkdtemp(prefix="rvb-")
    try:
        env = dict(os.environ, RVH_ROOT=root)
        lines = [impl_line(h) for h in histories]
        p = subprocess.run([harness, "capture", "statics"], input=("\n".join(lines) + "\n").encode(), capture_output=True, env=env)
        outs = [parse_fields(l) for l in p.stdout.decode("utf8", "replace").split("\n") if l]
        src = ["#![allow(warnings)]", "fn hx(b: &[u8]) -> String { if b.is_empty() { return \"-\".into(); } b.iter().map(|x| format!(\"{:02x}\", x)).collect() }"]
        main = ["fn main() {"]
        for i, (h, o) in enumerate(zip(histories, outs)):
            od = unhexs(o.get("outdir", "-")).decode()
            st = os.path.join(od, "templates", "statics.rs")
            if not os.path.exists(st):
                main.append('  println!("H %d MISSING");' % i); continue
            idents = [k.decode() for k, _ in parse_names(o.get("names"))]
            src.append("mod m%d { include!(%s); pub fn idents() -> Vec<&'static StaticFile> { vec![%s] } }" % (
                i, json.dumps(st), ", ".join("&" + x for x in idents)))
            main.append('  print!("H %d");' % i)
            main.append('  for s in m%d::STATICS { print!(" {}:{}", hx(s.name.as_bytes()), hx(s.content)); }' % i)
            main.append('  print!(" | {}", m%d::idents().len());' % i)
            for pr in probes_per_history[i] if probes_per_history else []:
                main.append('  print!(" {}", match m%d::StaticFile::get(%s) { Some(s) => hx(s.name.as_bytes()), None => "!".to_string() });' % (
                    i, "std::str::from_utf8(&%s).unwrap()" % list(pr)))
            main.append('  println!();')
        main.append("}")
        prog = os.path.join(root, "batch.rs")
        open(prog, "w").write("\n".join(src + main) + "\n")
        r = subprocess.run(["rustc", "--edition", "2021", "-A", "warnings", "-C", "debuginfo=0", "-C", "codegen-units=16", prog, "-o", os.path.join(root, "batch")] + list(extra_rustc),
                           capture_output=True, cwd=root)
        res = [dict(ok=False, entries=[], gets=[], error="") for _ in histories]
        if r.returncode != 0:
            err = r.stderr.decode("utf8", "replace")
            # attribute errors to histories by the path of the included file
            bad = set()
            for i, o in enumerate(outs):
                od = unhexs(o.get("outdir", "-")).decode()
                if od and od in err: bad.add(i)
            for i in range(len(histories)):
                res[i]["error"] = ("rustc rejected the generated statics module: " + err[:1500]) if (i in bad or not bad) else "batch not run (another module failed to compile)"
            res_meta = dict(compile_failed=True, bad=sorted(bad), stderr=err[:3000])
            return res, outs, res_meta
        out = subprocess.run([os.path.join(root, "batch")], capture_output=True).stdout.decode()
        for l in out.split("\n"):
            if not l.startswith("H "): continue
            f = l.split(" ")
            i = int(f[1])
            if f[2:] == ["MISSING"]:
                res[i]["error"] = "statics.rs missing"; continue
            bar = f.index("|")
            res[i]["entries"] = [tuple(unhexs(x) for x in e.split(":")) for e in f[2:bar]]
            res[i]["n_idents"] = int(f[bar + 1])
            res[i]["gets"] = [None if x == "!" else unhexs(x) for x in f[bar + 2:]]
            res[i]["ok"] = True
        return res, outs, dict(compile_failed=False)
    finally:
        shutil.rmtree(root, ignore_errors=True)
