"""Build-script scenarios (input trees, programs over the public API, prior OUT_DIR contents, crashes):
running them on the implementation (harness `capture build`) and predicting each run with the
extracted model (driver `build`)."""
import os, json
from vlib import *
from statics_lib import hx, run_capture, get_header

LAST_MODEL_LINES = []
def prog_str(program, for_model=False):
    out = []
    for c in program:
        k = c[0]
        if k == 'c': out.append("c" + hx(c[1]))
        elif k == 's': out.append("s")
        elif k in 'fgFG': out.append(k + hx(c[1]))          # upper case: result ignored (implementation-only scenarios)
        elif k in 'atdAT': out.append(k + hx(c[1]) + ";" + hx(c[2]))
        elif k == 'S':
            if for_model and len(c) > 3: out.append("C" + hx(c[1]) + ";" + hx(c[3]))
            else: out.append("S" + hx(c[1]) + (";" + hx(c[2]) if for_model else ""))
        else: raise ValueError(c)
    return ",".join(out) if out else "-"

def step_str(st):
    k = st[0]
    if k in 'WT': return "%s:%s:%s" % (k, hx(st[1]), hx(st[2]))
    if k == 'Y': return "Y:%s:%s" % (hx(st[1]), hx(st[2]))
    if k == 'M': return "M:%s" % hx(st[1])
    if k == 'X': return "X:%s" % hx(st[1])
    if k == 'N': return "N:%s:%s" % (hx(st[1]), hx(st[2]))
    if k == 'O': return "O:%s:%s" % (hx(st[1]), hx(st[2]))
    if k in 'ZLP': return k
    if k == 'R': return "R:" + prog_str(st[1])
    if k == 'C': return "C:%d:%d:%s" % (st[1], st[2], prog_str(st[3]))
    raise ValueError(st)

def scenario_line(steps):
    return " ".join(step_str(s) for s in steps)

def parse_ordered(line):
    out = []
    for f in line.split(" "):
        if "=" in f:
            k, _, v = f.partition("=")
            out.append((k, v))
    return out

def parse_snap(v):
    """-> dict path -> (content bytes | None for directory, touched flag)"""
    d = {}
    if v in ("-", "", None): return d
    for it in v.split(","):
        p, c, fl = it.split(":")
        d[unhexs(p)] = (None if c == "D" else unhexs(c), fl)
    return d

def parse_ls(v):
    """-> dict reldir -> [(name, is_dir)] in read_dir order"""
    d = {}
    for part in v.split(";"):
        rel, _, ents = part.partition(":")
        lst = []
        if ents:
            for e in ents.split(","):
                n, t = e.split("/")
                lst.append((unhexs(n), t == "d"))
        d[unhexs(rel)] = lst
    return d

class Mirror:
    """Python-side mirror of the input tree (contents), updated by W/M/X/N steps"""
    def __init__(self): self.files = {}; self.dirs = set([b""])
    def _b(self, p): return p.encode() if isinstance(p, str) else p
    def mkdirs(self, d):
        parts = d.split(b"/") if d else []
        for i in range(1, len(parts) + 1): self.dirs.add(b"/".join(parts[:i]))
    def apply(self, st):
        k = st[0]
        if k in 'WT':
            p = self._b(st[1]); self.files[p] = self._b(st[2]) if not isinstance(st[2], bytes) else st[2]
            self.mkdirs(p.rsplit(b"/", 1)[0] if b"/" in p else b"")
        elif k == 'M': self.mkdirs(self._b(st[1]))
        elif k == 'X':
            p = self._b(st[1])
            self.files = {f: c for f, c in self.files.items() if f != p and not f.startswith(p + b"/")}
            self.dirs = {d for d in self.dirs if d != p and not d.startswith(p + b"/")}
        elif k == 'N':
            a, b_ = self._b(st[1]), self._b(st[2])
            nf = {}
            for f, c in self.files.items():
                if f == a: nf[b_] = c
                elif f.startswith(a + b"/"): nf[b_ + f[len(a):]] = c
                else: nf[f] = c
            self.files = nf
            nd = set()
            for d in self.dirs:
                if d == a: nd.add(b_)
                elif d.startswith(a + b"/"): nd.add(b_ + d[len(a):])
                else: nd.add(d)
            self.dirs = nd
            self.mkdirs(b_.rsplit(b"/", 1)[0] if b"/" in b_ else b"")

def tree_str(ls, mirror, rel=b""):
    ents = []
    for name, is_dir in ls.get(rel, []):
        p = name if rel == b"" else rel + b"/" + name
        if is_dir: ents.append(hx(name) + "=" + tree_str(ls, mirror, p))
        else:
            c = mirror.files.get(p, b"")
            ents.append(hx(name) + "=F" + (c.hex() if c else ""))
    return "D[" + ";".join(ents) + "]"

def utils_src():
    return open(os.path.join(REPO, "src/templates/utils.rs"), "rb").read()

def run_scenarios(scenarios, mm="n", harness=None, keep_root=None):
    """Each scenario is a list of steps; an 'L' step is inserted before every R/C automatically and a 'P' after.
    Returns per scenario: list of runs, each dict(program, kind 'R'|'C', before(snapshot), after(snapshot), out(bytes),
    status, model=dict(ok, fs, writes, out, reads) (for 'R' runs), base)."""
    harness = harness or HARNESS
    header = get_header(harness)
    utils = utils_src()
    lines = []; plans = []
    for steps in scenarios:
        full = []
        for st in steps:
            if st[0] in 'RC': full += [('P',), ('L',), st, ('P',)]
            else: full.append(st)
        lines.append(scenario_line(full)); plans.append(full)
    env = dict(os.environ, RVH_ROOT=keep_root) if keep_root else None
    if keep_root:
        import subprocess
        p = subprocess.run([harness, "capture", "build"], input=("\n".join(lines) + "\n").encode(), capture_output=True, env=env)
        raw = [l for l in p.stdout.decode("utf8", "replace").split("\n") if l]
    else:
        raw = run_capture(harness, "build", lines)
    results = []; mlines = []; mrefs = []
    for full, r in zip(plans, raw):
        fields = parse_ordered(r)
        base = b""; outdir = b""
        runs = []
        mirror = Mirror()
        fi = 0
        def take(key):
            nonlocal fi
            outs = b""
            while fi < len(fields):
                k, v = fields[fi]; fi += 1
                if k == key: return v, outs
                if k == "out": outs += unhexs(v)
                if k == "base": pass
            return None, outs
        for k, v in fields[:2]:
            if k == "base": base = unhexs(v)
            if k == "outdir": outdir = unhexs(v)
        last_snap = {}; last_ls = {}
        for st in full:
            if st[0] in 'WTMXN': mirror.apply(st)
            elif st[0] == 'P':
                v, _ = take("snap"); last_snap = parse_snap(v) if v is not None else {}
                if runs and runs[-1].get("after") is None: runs[-1]["after"] = last_snap
            elif st[0] == 'L':
                v, _ = take("ls"); last_ls = parse_ls(v) if v else {}
            elif st[0] == 'R':
                v, outs = take("run")
                run = dict(kind='R', program=st[1], before=last_snap, after=None, out=outs, status=v, base=base, outdir=outdir)
                runs.append(run)
                fs0 = ",".join("%s=%s" % (hx(p), hx(c)) for p, (c, _) in sorted(last_snap.items()) if c is not None) or "-"
                mlines.append(" ".join([mm, hx(utils), hx(header), hx(base), tree_str(last_ls, mirror), fs0, prog_str(st[1], for_model=True)]))
                mrefs.append(run)
            elif st[0] == 'C':
                v, outs = take("crash")
                runs.append(dict(kind='C', program=st[3], before=last_snap, after=None, out=outs, status=v, base=base, outdir=outdir))
        results.append(dict(runs=runs, raw=r, died=("died", "1") in fields, base=base, outdir=outdir))
    LAST_MODEL_LINES[:] = mlines
    mo = run_model("build", mlines)
    for run, l in zip(mrefs, mo):
        d = dict(parse_ordered(l))
        run["model"] = dict(ok=d.get("ok"), fs={unhexs(k): unhexs(v) for k, v in (kv.split("=") for kv in d.get("fs", "-").split(",") if "=" in kv)},
                            writes=[unhexs(x) for x in d.get("writes", "-").split(",") if x != "-"] if d.get("writes", "-") != "-" else [],
                            out=unhexs(d.get("out", "-")), reads=[unhexs(x) for x in d.get("reads", "-").split(",")] if d.get("reads", "-") != "-" else [], hyp=d.get("hyp"), raw=l[:200])
    return results

def snap_files(snap):
    return {p: c for p, (c, _) in snap.items() if c is not None}
def snap_touched(snap):
    return sorted(p for p, (c, fl) in snap.items() if c is not None and fl == "w")
