"""Structured template generator: random well-formed templates (and small multi-template programs)
with known renderings, printed canonically or with perturbed layout at the insignificant positions.
Used by C01/C03/C04/C05/C13/C14/C15 both for the model/implementation correspondence (generated
Rust text) and for the impl-side oracle (rendered bytes after rustc)."""
import random, json

DECL = "b: bool, n: usize, s: &str, xs: &[u32], o: Option<u32>, ps: &[(u32, u32)]"
ARGSETS = [
  dict(b=True,  n=0, s="a<bc>", xs=[], o=None, ps=[]),                                   # ends in a special character after a run of plain ones
  dict(b=False, n=1, s="x&'\"\u00e9\u20ac\U0001d11e", xs=[7], o=3, ps=[(1, 2)]),     # special characters and 2-, 3-, 4-byte scalars
  dict(b=True,  n=2, s="",    xs=[1, 2, 3], o=0, ps=[(1, 2), (3, 4)]),
]
def rust_args(a):
    opt = "None" if a["o"] is None else "Some(%d)" % a["o"]
    ps = ", ".join("(%d, %d)" % (x, y) for x, y in a["ps"])
    return '%s, %d, %s, &[%s], %s, &[%s]' % ("true" if a["b"] else "false", a["n"], json.dumps(a["s"], ensure_ascii=False), ", ".join(map(str, a["xs"])), opt, ps)
def esc(t):
    return t.replace("&", "&amp;").replace("<", "&lt;").replace(">", "&gt;").replace('"', "&quot;").replace("'", "&#39;")

IDENT = set("abcdefghijklmnopqrstuvwxyzABCDEFGHIJKLMNOPQRSTUVWXYZ0123456789_")

def follower_ok(kind, nxt, whole=False):
    """may the source text `nxt` directly follow an expression ending in `kind` without extending it?
    whole: nxt is everything that follows up to the end of the template (no quote can appear later)"""
    if nxt == "": return True
    c = nxt[0]
    if c in "([{": return False
    if kind == "name" and c in IDENT: return False
    if kind == "num" and c in "0123456789": return False
    if c == "!" and len(nxt) > 1 and nxt[1] in "([": return False
    if c == "." or nxt.startswith("::"):
        rest = nxt[1:] if c == "." else nxt[2:]
        if rest == "": return True
        d = rest[0]
        if whole and d == '"' and '"' not in rest[1:]: return True      # an unterminated string literal is not an expression: `@name."` is the name, then text
        if d in IDENT or d in '&*"([': return False
        return True
    return True

# expression catalogue: (source, kind of last token, value as Display text)
def exprs(a):
    L = [("s", "name", a["s"]), ("n", "name", str(a["n"])), ("s.len()", "paren", str(len(a["s"].encode()))),
         ("(n+1)", "paren", str(a["n"] + 1)), ("(n + 1)", "paren", str(a["n"] + 1)), ("xs.len()", "paren", str(len(a["xs"]))),
         ('format!("{}-{}", n, s)', "paren", "%d-%s" % (a["n"], a["s"])), ("o.unwrap_or(7)", "paren", str(7 if a["o"] is None else a["o"])),
         ('s.replace("(", "]")', "paren", a["s"].replace("(", "]")), ("(n /* ) */ + 2)", "paren", str(a["n"] + 2)),
         ("(n / 1)", "paren", str(a["n"])), ("&s", "name", a["s"]), ('"q\\"}{"', "str", 'q"}{'), ("42", "num", "42"),
         ("ps.len()", "paren", str(len(a["ps"]))), ("(xs.iter().map(|x| x + 1).sum::<u32>())", "paren", str(sum(x + 1 for x in a["xs"]))),
         ("(n/(1))", "paren", str(a["n"])), ('(n/"s".len())', "paren", str(a["n"])), ("[n, 1][0]", "paren", str(a["n"])),
         ('Some("a<").unwrap()', "paren", "a<"), ("Html(s)", "paren", None), ("s.to_buffer().unwrap()", "paren", None),
         # white space inside string literals (runs of blanks, a tab, a line break with indentation) must reach rustc as written
         ('"a  b"', "str", "a  b"), ('"t\tz  "', "str", "t\tz  "), ('(["x", "y"].join(",\n    "))', "paren", "x,\n    y"),
         ('format!("{}  {}\n  .", n, n)', "paren", "%d  %d\n  ." % (a["n"], a["n"])), ('s.replace("  ", " \t ")', "paren", a["s"].replace("  ", " \t ")),
         # a value of type char (its Display goes through Formatter::write_char) that needs escaping
         ("s.chars().nth(1).unwrap_or('&')", "paren", a["s"][1] if len(a["s"]) > 1 else "&"), ("format!(\"{:<>3}|{:&^5}\", n, n)", "paren", "%s|%s" % (str(a["n"]).rjust(3, "<"), str(a["n"]).center(5, "&")))]
    return L
NEXPR = 29
RAW_EXPRS = {20, 21}   # Html(s): raw; to_buffer: escaped once, written verbatim

CONDS = [("b", lambda a: a["b"]), ("!b", lambda a: not a["b"]), ("n == 0", lambda a: a["n"] == 0),
         ("n != 1 && b", lambda a: a["n"] != 1 and a["b"]), ("n<2 || !b", lambda a: a["n"] < 2 or not a["b"]),
         ('s == "x"', lambda a: a["s"] == "x"), ("n >= 1", lambda a: a["n"] >= 1), ("n <= 1", lambda a: a["n"] <= 1),
         ("n > 1", lambda a: a["n"] > 1), ("! b", lambda a: not a["b"]), ("xs.is_empty()", lambda a: not a["xs"]),
         ("n < 2", lambda a: a["n"] < 2), ("(n == 1)", lambda a: a["n"] == 1),
         ('"a  b".len() ==\n    4', lambda a: True), ('n\t!=\t1  &&\n "t\tz  ".len() == 5', lambda a: a["n"] != 1), ('s !=\n"a \t b"', lambda a: True)]

TEXT_ALPHA = ["a", "Z", " ", "\n", "\r\n", "\t", "<p>", "</p>", ".", ",", ")", "(", "]", "[", "!", ":", "::", '"', "'", "\\", "é", "€", "-", "=", ";", "#", "0", "_", "else", "if", "in", "/", "*", "&", "|", "\0", "\x0c", "\x1b", "\x7f", "​", "̀", "𝄞"]
LAYOUTS = [" ", "  ", "\t", "\n", "\r\n", "@* c *@", "@*\n multi * @ line\n*@", "@**@", "@* ** *@", "@* x **@"]

class Gen:
    def __init__(self, rng, text_alpha=None, kinds=None, depth=3, cmt_bodies=None, max_items=4, callees=None):
        self.R = rng
        self.text_alpha = text_alpha or TEXT_ALPHA
        self.kinds = kinds or ["text", "text", "esc", "cmt", "expr", "expr", "if", "iflet", "for", "match", "call"]
        self.depth = depth
        self.cmt_bodies = cmt_bodies or [" c ", "", " a * b @ c ", "\n x \n", "*", " **", "@", "* @ *", " }{ ", " static/*.css ", " */ ", "/*", " /* x */ ", "*/ \" /*"]
        self.max_items = max_items
        self.fresh = 0
        self.mode = "canon"
        self.callees = callees or {"wrap_html": 2}    # name -> number of Content params (after one Display param)
        self.guards = 0

    # ---------------- layout
    def sp(self, mand=False):
        if self.mode == "canon": return " " if mand else ""
        parts = [self.R.choice(LAYOUTS) for _ in range(self.R.randint(1 if mand else 0, 3))]
        if self.R.random() < 0.04:
            # layout longer than any fixed look-ahead window: a long explanatory comment, a blank line and deep indentation
            parts.append(self.R.choice(["@* " + "a long explanatory comment, " * 4 + "*@", "\n\n" + " " * 90, "@* x *@" + "\t" * 70 + "@* y *@", " " * 63 + "\r\n" + " " * 200]))
        return "".join(parts)

    def var(self):
        self.fresh += 1
        return "v%d" % self.fresh

    def text(self):
        return "".join(self.R.choice(self.text_alpha) for _ in range(self.R.randint(1, 6)))

    # ---------------- AST
    def items(self, depth=None, nlocals=0, kinds=None):
        R = self.R
        top = depth is None
        depth = self.depth if depth is None else depth
        kinds = kinds or self.kinds
        out = []
        if not top:
            r = R.random()
            if r < 0.06: return []                       # an empty body / block
            if r < 0.10: return [("cmt", R.choice(self.cmt_bodies))]   # a comment-only body
        for _ in range(R.randint(1, self.max_items)):
            k = R.choice(kinds if depth > 0 else [x for x in kinds if x in ("text", "esc", "cmt", "expr")] or ["text"])
            if k == "text":
                if out and out[-1][0] == "text": continue
                out.append(("text", self.text()))
            elif k == "esc": out.append(("esc", R.choice("@{}")))
            elif k == "cmt": out.append(("cmt", R.choice(self.cmt_bodies)))
            elif k == "expr": out.append(("expr", R.randrange(NEXPR + nlocals)))
            elif k == "if":
                chain = [(R.randrange(len(CONDS)), self.items(depth - 1, nlocals)) for _ in range(R.randint(1, 3))]
                els = self.items(depth - 1, nlocals) if R.random() < 0.6 else None
                if depth > 1 and R.random() < 0.12:
                    # an else body that holds one nested @if between white space (and perhaps a comment): the white space is text of the else branch, not layout
                    ws = lambda: ("text", R.choice([" ", "\n", "\n    ", "\t", " \r\n", "\u00a0"]))
                    inner = ("if", [(R.randrange(len(CONDS)), self.items(depth - 2, nlocals))], self.items(depth - 2, nlocals) if R.random() < 0.5 else None)
                    els = [ws(), inner] + ([("cmt", R.choice(self.cmt_bodies))] if R.random() < 0.3 else []) + ([ws()] if R.random() < 0.8 else [])
                out.append(("if", chain, els))
                if els is None and R.random() < 0.35:
                    # literal text that reads like the start of an else branch: nothing of it may be swallowed
                    out.append(("text", R.choice([" else we answer", "else", " else if in doubt, ask.", " elsewhere", "\nelse\n", " else if n"])))
            elif k == "iflet":
                v = self.var()
                out.append(("iflet", v, self.items(depth - 1, nlocals + 1), self.items(depth - 1, nlocals) if R.random() < 0.5 else None))
            elif k == "for":
                kind = R.randrange(6); v = self.var(); w = self.var()
                nl = nlocals + (1 if kind in (0, 1, 4) else 2)
                out.append(("for", kind, v, w, self.items(depth - 1, nl)))
            elif k == "match":
                kind = R.randrange(5); v = self.var()
                if kind == 0: arms = [self.items(depth - 1, nlocals + 1), self.items(depth - 1, nlocals)]
                elif kind == 1: arms = [self.items(depth - 1, nlocals) for _ in range(3)]
                elif kind == 2: arms = [self.items(depth - 1, nlocals) for _ in range(4)]
                elif kind == 3: arms = [self.items(depth - 1, nlocals) for _ in range(3)]      # overlapping tuple patterns: the order of the arms decides
                else: arms = [self.items(depth - 1, nlocals) for _ in range(2)]                # `true` before the catch-all
                # arms that are not neighbours with the very same body (the catch-all repeating the first arm)
                if kind in (1, 2, 3) and R.random() < 0.35: arms[-1] = list(arms[0])
                if kind == 2 and R.random() < 0.2: arms[2] = list(arms[0])
                out.append(("match", kind, v, arms))
            elif k == "call":
                name = R.choice(sorted(self.callees))
                blocks = []
                for _ in range(self.callees[name]):
                    r = R.random()
                    blocks.append([] if r < 0.15 else [("cmt", " only ")] if r < 0.25
                                  else [("text", R.choice([" ", "\n", "  \t", " \r\n ", "\n\n"]))] if r < 0.32                      # a block of white space only
                                  else [("text", " "), ("cmt", " todo "), ("text", "\n")] if r < 0.36
                                  else self.dironly(depth - 1, nlocals) if r < 0.5 and depth > 1 else self.items(depth - 1, nlocals))
                out.append(("call", name, R.randrange(NEXPR + nlocals), blocks))
        if out and out[-1][0] in ("if", "iflet", "for", "match") and R.random() < 0.3:
            # punctuation glued to the closing brace of a block (prose: "Hello @if .. {..}, welcome"; lists: "{@x}, "): text like any other
            out.append(("text", R.choice([",", ", and", ",\n", ";", ".", ":", ")", "]", "!", "=", "|", "-", "+", "?", ",,", "(", "["])))
        if out and out[-1][0] in ("call", "expr", "esc", "cmt") and R.random() < 0.1:
            out.append(out[-1])        # the same call / expression / escape / comment twice in a row: two equal nodes, both rendered
        if not top and out and out[-1][0] != "text" and R.random() < 0.2:
            out.append(("text", R.choice([" ", "\n", "\n    ", "\t", " \r\n"])))      # only white space between the last item and the closing brace
        return out

    def dironly(self, depth, nlocals):
        """a block with no text of its own: comments and @if / @for directives whose branches are, each independently, empty, comment-only or real content"""
        R = self.R
        br = lambda: [] if R.random() < 0.35 else [("cmt", R.choice(self.cmt_bodies))] if R.random() < 0.4 else self.items(depth - 1, nlocals, kinds=["text", "expr", "esc"])
        out = []
        for _ in range(R.randint(1, 2)):
            if R.random() < 0.3: out.append(("cmt", R.choice(self.cmt_bodies)))
            if R.random() < 0.75:
                chain = [(R.randrange(len(CONDS)), br()) for _ in range(R.randint(1, 2))]
                out.append(("if", chain, br() if R.random() < 0.8 else None))
            else:
                kind = R.randrange(6); v = self.var(); w = self.var()
                out.append(("for", kind, v, w, self.items(depth - 1, nlocals + (1 if kind in (0, 1, 4) else 2), kinds=["text", "expr", "cmt"])))
        return out

    # ---------------- printing
    def expr_src(self, idx, names):
        if idx < NEXPR:
            e = exprs(ARGSETS[0])[idx]; return e[0], e[1]
        return names[idx - NEXPR], "name"

    def pr(self, items, names, after=""):
        out = []; nxt = after
        for it in reversed(items):
            k = it[0]
            if k == "text": s = it[1]
            elif k == "esc": s = "@" + it[1]
            elif k == "cmt": s = "@*" + it[1] + "*@"
            elif k == "expr":
                e, kind = self.expr_src(it[1], names)
                if follower_ok(kind, nxt): s = "@" + e
                else:
                    self.guards += 1
                    s = "@" + e + "@**@"
            elif k == "if":
                s = ""
                for ci, (c, body) in enumerate(it[1]):
                    kw = "@if " if ci == 0 else self.sp() + "else" + self.sp() + "if"
                    s += kw + self.sp() + CONDS[c][0] + self.sp(True) + "{" + self.pr(body, names, "}") + "}"
                if it[2] is not None: s += self.sp() + "else" + self.sp() + "{" + self.pr(it[2], names, "}") + "}"
            elif k == "iflet":
                _, v, body, els = it
                s = "@if " + self.sp() + "let" + self.sp(True) + "Some(%s)" % v + self.sp() + "=" + self.sp() + "o" + self.sp(True) + "{" + self.pr(body, names + [v], "}") + "}"
                if els is not None: s += self.sp() + "else" + self.sp() + "{" + self.pr(els, names, "}") + "}"
            elif k == "for":
                _, kind, v, w, body = it
                if kind == 0: head, nn = "%s%sin%sxs" % (v, self.sp(True), self.sp(True)), names + [v]
                elif kind == 1: head, nn = "%s%sin%s0..n" % (v, self.sp(True), self.sp(True)), names + [v]
                elif kind == 2: head, nn = "(%s, %s)%sin%sxs.iter().enumerate()" % (v, w, self.sp(), self.sp(True)), names + [v, w]
                elif kind == 3: head, nn = "&(%s, %s)%sin%sps" % (v, w, self.sp(), self.sp(True)), names + [v, w]
                elif kind == 4: head, nn = "%s%sin%s1..=n" % (v, self.sp(True), self.sp(True)), names + [v]
                else: head, nn = "P{a: %s, b: %s}%sin%sps.iter().map(|&(a, b)| P{a, b})" % (v, w, self.sp(), self.sp(True)), names + [v, w]
                s = "@for " + self.sp() + head + self.sp(True) + "{" + self.pr(body, nn, "}") + "}"
            elif k == "match":
                _, kind, v, arms = it
                sp = self.sp
                if kind == 0:
                    pats = ["Some(%s)" % v, "None"]; scr = "o"; nns = [names + [v], names]
                elif kind == 1:
                    pats = ["0", "1", "_"]; scr = "n"; nns = [names] * 3
                elif kind == 2:
                    pats = ['"x"', '"a<bc>"', '""', "_"]; scr = "s"; nns = [names] * 4
                elif kind == 3:
                    pats = ["(_, true)", "(0, _)", "_"]; scr = "(n, b)"; nns = [names] * 3
                else:
                    pats = ["true", "_"]; scr = "b"; nns = [names] * 2
                s = "@match " + sp() + scr + sp(True) + "{" + "".join(sp() + p + sp() + "=>" + sp() + "{" + self.pr(a, nn, "}") + "}" for p, a, nn in zip(pats, arms, nns)) + sp() + "}"
            elif k == "call":
                _, name, idx, blocks = it
                e, kind = self.expr_src(idx, names)
                s = "@:" + name + "(" + e
                for bl in blocks:
                    s += "," + self.sp() + "{" + self.pr(bl, names, "}") + "}" + self.sp()
                s += ")"
            elif k == "slot":
                s = "@:" + it[1] + "()"
            else: raise ValueError(k)
            out.append(s); nxt = s + nxt
        return "".join(reversed(out))

    # ---------------- expected rendering
    def expr_val(self, idx, env, names):
        if idx < NEXPR:
            v = exprs(env)[idx][2]
            if idx == 20: return env["s"]              # Html(s): raw
            if idx == 21: return esc(env["s"])         # buffer: escaped once
            return esc(v)
        return esc(str(env["_l"][names[idx - NEXPR]]))

    def render(self, items, env, names, callee_bodies=None, slots=None):
        r = ""
        L = lambda **kw: dict(env, _l=dict(env.get("_l", {}), **kw))
        for it in items:
            k = it[0]
            if k == "text": r += it[1]
            elif k == "esc": r += it[1]
            elif k == "cmt": pass
            elif k == "expr": r += self.expr_val(it[1], env, names)
            elif k == "if":
                done = False
                for c, body in it[1]:
                    if CONDS[c][1](env): r += self.render(body, env, names, callee_bodies, slots); done = True; break
                if not done and it[2] is not None: r += self.render(it[2], env, names, callee_bodies, slots)
            elif k == "iflet":
                _, v, body, els = it
                if env["o"] is not None: r += self.render(body, L(**{v: env["o"]}), names + [v], callee_bodies, slots)
                elif els is not None: r += self.render(els, env, names, callee_bodies, slots)
            elif k == "for":
                _, kind, v, w, body = it
                if kind == 0: seq = [({v: x}, [v]) for x in env["xs"]]
                elif kind == 1: seq = [({v: x}, [v]) for x in range(env["n"])]
                elif kind == 2: seq = [({v: i, w: x}, [v, w]) for i, x in enumerate(env["xs"])]
                elif kind == 3: seq = [({v: x, w: y}, [v, w]) for x, y in env["ps"]]
                elif kind == 4: seq = [({v: x}, [v]) for x in range(1, env["n"] + 1)]
                else: seq = [({v: x, w: y}, [v, w]) for x, y in env["ps"]]
                for kw, nn in seq: r += self.render(body, L(**kw), names + nn, callee_bodies, slots)
            elif k == "match":
                _, kind, v, arms = it
                if kind == 0:
                    if env["o"] is not None: r += self.render(arms[0], L(**{v: env["o"]}), names + [v], callee_bodies, slots)
                    else: r += self.render(arms[1], env, names, callee_bodies, slots)
                elif kind == 1: r += self.render(arms[min(env["n"], 2)], env, names, callee_bodies, slots)
                elif kind == 2:
                    i = {"x": 0, "a<bc>": 1, "": 2}.get(env["s"], 3)
                    r += self.render(arms[i], env, names, callee_bodies, slots)
                elif kind == 3:
                    i = 0 if env["b"] else 1 if env["n"] == 0 else 2
                    r += self.render(arms[i], env, names, callee_bodies, slots)
                else:
                    r += self.render(arms[0 if env["b"] else 1], env, names, callee_bodies, slots)
            elif k == "call":
                _, name, idx, blocks = it
                val = self.expr_val(idx, env, names)
                thunks = [(lambda bl=bl: self.render(bl, env, names, callee_bodies, slots)) for bl in blocks]
                r += render_callee(name, val, thunks, callee_bodies)
            elif k == "slot":
                r += slots[it[1]]()
        return r

# the standard callee: [<t>|<c>|<d>]
WRAP_SRC = "@(t: impl ToHtml, c: Content, d: Content)\n[@t|@:c()|@:d()]"
def render_callee(name, val, thunks, callee_bodies):
    if callee_bodies and name in callee_bodies:
        return callee_bodies[name](val, thunks)
    return "[" + val + "|" + "|".join(t() for t in thunks) + "]"

PRELUDE = "@use super::wrap_html;\n"
STRUCT_P = "pub struct P { pub a: u32, pub b: u32 }"

def decl_variant(rng):
    """the standard declaration with other whitespace inside it (around colons, after commas, inside the parentheses): same function behaviour"""
    import re
    ps = [p.split(": ", 1) for p in re.split(r", (?=[a-z]+: )", DECL)]
    colon = lambda: rng.choice([": ", ":", " : ", " :", ":  ", ":\n   ", ":\t"])
    comma = lambda: rng.choice([", ", ",", ",\n  ", ",  "])
    out = rng.choice(["", " ", "\n  "])
    for i, (n, t) in enumerate(ps):
        out += n + colon() + t + (comma() if i + 1 < len(ps) else rng.choice(["", " ", "\n"]))
    return out

def make_template(g, items, mode, uses=("super::wrap_html",), lead="|", decl=None):
    g.mode = mode
    body = g.pr(items, [], "")
    decl = decl or DECL
    if mode == "canon":
        head = "".join("@use %s;\n" % u for u in uses) + "@(" + decl + ")\n"
    else:
        head = g.sp() + "".join("@use %s;" % u + g.sp() for u in uses) + "@(" + decl + ")" + g.sp()
    return head + lead + body

def expected(g, items, lead="|", callee_bodies=None):
    return [lead + g.render(items, a, [], callee_bodies) for a in ARGSETS]
