"""Compile-and-run batches: templates -> ructe (real public API, through the harness) -> rustc -> run
against scheduled sinks.  The Rust side only reports (accepted bytes, result); Python judges."""
import os, subprocess, tempfile, shutil, json, re
from vlib import *
from statics_lib import hx, parse_fields

SINK_RS = r'''
#![allow(warnings)]
use std::io::{self, Write};
pub struct P { pub a: u32, pub b: u32 }
pub enum Resp { Accept(usize), Interrupted, Fail(u32) }
pub struct Sink { pub sched: std::collections::VecDeque<Resp>, pub log: Vec<u8>, pub calls_after_fail: usize, pub failed: bool,
                  pub budget: Option<(usize, usize, usize, u32)>, pub calls: usize }
impl Write for Sink {
    fn write(&mut self, d: &[u8]) -> io::Result<usize> {
        if self.failed { self.calls_after_fail += 1; }
        self.calls += 1;
        // byte-budget mode "b<limit>/<step>/<k>/<code>": accept at most <step> bytes per call (0 = all offered),
        // return Interrupted on every <k>-th call (0 = never), fail with <code> once <limit> bytes were accepted
        if let Some((limit, step, k, code)) = self.budget {
            if self.log.len() >= limit { self.failed = true; return Err(io::Error::new(io::ErrorKind::Other, format!("E{code}"))); }
            if k > 0 && self.calls % k == 0 { return Err(io::Error::new(io::ErrorKind::Interrupted, "int")); }
            let mut n = d.len().min(limit - self.log.len());
            if step > 0 { n = n.min(step); }
            self.log.extend_from_slice(&d[..n]);
            return Ok(n);
        }
        match self.sched.pop_front() {
            None => { self.log.extend_from_slice(d); Ok(d.len()) }
            Some(Resp::Accept(k)) => { let n = k.min(d.len()); self.log.extend_from_slice(&d[..n]); Ok(n) }
            Some(Resp::Interrupted) => Err(io::Error::new(io::ErrorKind::Interrupted, "int")),
            Some(Resp::Fail(e)) => { self.failed = true; Err(io::Error::new(io::ErrorKind::Other, format!("E{e}"))) }
        }
    }
    fn flush(&mut self) -> io::Result<()> { Ok(()) }
}
pub fn sched(s: &str) -> Sink {
    let mut q = std::collections::VecDeque::new();
    if let Some(b) = s.strip_prefix('b') {
        let f: Vec<usize> = b.split('/').map(|x| x.parse().unwrap()).collect();
        return Sink { sched: q, log: vec![], calls_after_fail: 0, failed: false, budget: Some((f[0], f[1], f[2], f[3] as u32)), calls: 0 };
    }
    for t in s.split(',').filter(|t| !t.is_empty() && *t != "-") {
        q.push_back(match &t[..1] { "a" => Resp::Accept(t[1..].parse().unwrap()), "i" => Resp::Interrupted, _ => Resp::Fail(t[1..].parse().unwrap()) });
    }
    Sink { sched: q, log: vec![], calls_after_fail: 0, failed: false, budget: None, calls: 0 }
}
pub fn hx(b: &[u8]) -> String { if b.is_empty() { return "-".into(); } b.iter().map(|x| format!("{:02x}", x)).collect() }
pub fn report(i: usize, s: Sink, r: io::Result<()>) {
    let res = match r {
        Ok(()) => "ok".to_string(),
        Err(e) if e.kind() == io::ErrorKind::WriteZero => "wz".to_string(),
        Err(e) => { let m = e.to_string(); match m.strip_prefix('E') { Some(n) if e.kind() == io::ErrorKind::Other => format!("io{n}"), _ => format!("other:{:?}", e.kind()) } }
    };
    println!("{} {} {} {}", i, hx(&s.log), res, s.calls_after_fail);
}
'''

def render_batch(files, calls, program=None, extra_rs="", keep=False):
    """files: dict relpath(str) -> bytes, written under the input root (templates usually under 't/').
    calls: list of (rust call expression using `&mut sink` as first argument, e.g. 'templates::t0_html(&mut sink, true, 0)', schedule str).
    program: build-script program (default compile_templates('t')).
    Returns dict(ok, results=[(log bytes, res str, calls_after_fail int) or None], error=str, stdout=bytes, missing=[...])."""
    from build_lib import run_scenarios, prog_str
    root = tempfile.mkdtemp(prefix="rvr-")
    try:
        steps = [('W', p, c) for p, c in files.items()] + [('R', program or [('c', 't')])]
        rs = run_scenarios([steps], keep_root=root)
        run = rs[0]["runs"][0]
        outdir = rs[0]["outdir"].decode()
        res = dict(ok=False, results=[None] * len(calls), error="", build_stdout=run["out"], run=run, status=run["status"])
        if run["status"] != "ok":
            res["error"] = "build script failed: " + str(run["status"])[:300]
            return res
        main = [SINK_RS, extra_rs, 'include!(%s);' % json.dumps(os.path.join(outdir, "templates.rs")), "fn main() {"]
        for i, (call, sc) in enumerate(calls):
            main.append('  { let mut sink = sched(%s); let r = %s; report(%d, sink, r); }' % (json.dumps(sc), call, i))
        main.append("}")
        prog = os.path.join(root, "main.rs")
        open(prog, "w").write("\n".join(main) + "\n")
        r = subprocess.run(["rustc", "--edition", "2021", "-A", "warnings", "-C", "debuginfo=0", "-C", "codegen-units=16", prog, "-o", os.path.join(root, "main")],
                           capture_output=True, cwd=root)
        if r.returncode != 0:
            res["error"] = "rustc: " + r.stderr.decode("utf8", "replace")[:6000]
            res["rustc_failed"] = True
            return res
        out = subprocess.run([os.path.join(root, "main")], capture_output=True, timeout=600)
        for l in out.stdout.decode().split("\n"):
            f = l.split(" ")
            if len(f) == 4 and f[0].isdigit():
                res["results"][int(f[0])] = (unhexs(f[1]), f[2], int(f[3]))
        res["ok"] = True
        if out.returncode != 0:
            res["error"] = "generated program crashed: " + out.stderr.decode("utf8", "replace")[:1000]
        return res
    finally:
        if not keep: shutil.rmtree(root, ignore_errors=True)

def rustc_blame(err, names):
    """which template files does a rustc error text mention"""
    bad = set()
    for n in names:
        if re.search(r"template_%s\.rs" % re.escape(n), err): bad.add(n)
    return bad
