(* Line-protocol driver around the extracted model (hex I/O only). *)
open Model
let rec pos_of_int i = if i = 1 then XH else if i land 1 = 1 then XI (pos_of_int (i lsr 1)) else XO (pos_of_int (i lsr 1))
let n_of_int i = if i = 0 then N0 else Npos (pos_of_int i)
let rec int_of_pos = function XH -> 1 | XO p -> 2 * int_of_pos p | XI p -> 2 * int_of_pos p + 1
let int_of_n = function N0 -> 0 | Npos p -> int_of_pos p
let rec nat_of_int i = if i = 0 then O else S (nat_of_int (i - 1))
let rec int_of_nat = function O -> 0 | S n -> 1 + int_of_nat n
let hexval c = match c with '0'..'9' -> Char.code c - 48 | 'a'..'f' -> Char.code c - 87 | _ -> failwith "hex"
let bytes_of_hex s =
  if s = "-" then [] else
  let n = String.length s / 2 in
  let rec go i acc = if i < 0 then acc else go (i - 1) (n_of_int (16 * hexval s.[2*i] + hexval s.[2*i+1]) :: acc) in
  go (n - 1) []
let hex_of_bytes l =
  if l = [] then "-" else begin
    let b = Buffer.create 256 in
    List.iter (fun c -> Buffer.add_string b (Printf.sprintf "%02x" (int_of_n c))) l;
    Buffer.contents b end
let fields l = String.split_on_char ' ' l
let each_line f = try while true do f (input_line stdin) done with End_of_file -> ()

let compile_cases () =
  each_line (fun l ->
    match fields l with
    | name :: rest ->
      let src = match rest with s :: _ -> s | [] -> "-" in
      (match compile_m (bytes_of_hex name) (bytes_of_hex src) with
       | Accepted r -> print_string ("OK " ^ hex_of_bytes r ^ "\n")
       | Rejected d -> print_string ("ERR " ^ hex_of_bytes d ^ "\n")
       | Panicked -> print_string "PANIC\n"
       | NoFuel -> print_string "FUEL\n")
    | [] -> ())

let split_commas s = if s = "-" then [] else String.split_on_char ',' s
let parse_sched s =
  List.map (fun t ->
    let n = int_of_string (String.sub t 1 (String.length t - 1)) in
    match t.[0] with
    | 'a' -> Accept (nat_of_int n)
    | 'i' -> Interrupted
    | _ -> Fail (n_of_int n)) (List.filter (fun t -> t <> "i" || true) (split_commas s)
                                |> List.map (fun t -> if t = "i" then "i0" else t))
let res_str = function
  | Done -> "ok"
  | Failed WriteZero -> "wz"
  | Failed (Io e) -> "io" ^ string_of_int (int_of_n e)
  | OutOfFuel -> "FUEL"
let io_cases () =
  each_line (fun l ->
    match fields l with
    | [w; ps; sc] ->
      let ps = List.map bytes_of_hex (split_commas ps) in
      let sink = { sched = parse_sched sc; log = [] } in
      let buf_of v = match to_buffer v with Some b -> b | None -> failwith "to_buffer" in
      let (v, buf) = match w with
        | "D" -> (VDisplay ps, None)
        | "H" -> (VRaw ps, None)
        | "B" | "FB" -> let b = buf_of (VDisplay ps) in (VBuffer b, Some b)   (* FB: a failed to_buffer came before; it leaves nothing behind *)
        | "HB" -> let b = buf_of (VRaw ps) in (VBuffer b, Some b)
        | _ -> let b = buf_of (VBuffer (buf_of (VDisplay ps))) in (VBuffer b, Some b) in
      let (s', r) = to_html v sink in
      (match buf with
       | None -> print_string (hex_of_bytes s'.log ^ " " ^ res_str r ^ "\n")
       | Some b ->
         let f x = if x then "1" else "0" in
         print_string (hex_of_bytes s'.log ^ " " ^ res_str r ^ " " ^ hex_of_bytes b ^ " "
                       ^ f (buffer_eq b b) ^ f (buffer_eq b (b @ [n_of_int 120])) ^ f (buffer_eq b b)
                       ^ (let cr = n_of_int 13 and lf = n_of_int 10 in
                          let rec drop_cr_before_lf l = match l with x :: (y :: _ as r) when x = cr && y = lf -> drop_cr_before_lf r | x :: r -> x :: drop_cr_before_lf r | [] -> [] in
                          let rec add_cr l = match l with x :: r when x = lf -> cr :: lf :: add_cr r | x :: r -> x :: add_cr r | [] -> [] in
                          let strip_last l = match List.rev l with x :: r when x = cr -> List.rev r | _ -> l in
                          f (List.exists (fun v -> v <> b && buffer_eq b v) [drop_cr_before_lf b; strip_last b; b @ [cr]; add_cr b]))
                       ^ "\n"))
    | _ -> print_string "BADCASE\n")

(* statics: <mode n|3|h> <header hex> ops...   ops: F:path:content A:path:url D:path:data
   S:path:ref (fixed-shape sass) Q:name (static_name query) G:name (StaticFile::get probe) *)
let statics_cases () =
  each_line (fun l ->
    match fields l with
    | mode :: header :: ops ->
      let mm = match mode with "3" -> M03 | "h" -> MHttp | _ -> MNone in
      let st = ref (empty_statics (bytes_of_hex header)) in
      let qs = ref [] in
      List.iter (fun op ->
        if op <> "" then
        match String.split_on_char ':' op with
        | ["F"; p; c] -> st := apply_op_m mm !st (OpFile (bytes_of_hex p, bytes_of_hex c))
        | ["A"; p; u] -> st := apply_op_m mm !st (OpFileAs (bytes_of_hex p, bytes_of_hex u))
        | ["D"; p; d] -> st := apply_op_m mm !st (OpData (bytes_of_hex p, bytes_of_hex d))
        | ["S"; p; r] -> let (s', ok) = sass_ref_m mm !st (bytes_of_hex p) (bytes_of_hex r) in
                         st := s'; qs := (if ok then "sass-ok" else "sass-err") :: !qs
        | ["Q"; n] -> qs := (match static_name_m !st (bytes_of_hex n) with
                             | Some u -> hex_of_bytes u | None -> "!") :: !qs
        | ["G"; n] -> qs := (match statics_get_m !st (bytes_of_hex n) with
                             | Some (u, id) -> hex_of_bytes u ^ "=" ^ hex_of_bytes id | None -> "!") :: !qs
        | _ -> qs := "BADOP" :: !qs) ops;
      let names = String.concat "," (List.map (fun (k, v) -> hex_of_bytes k ^ "=" ^ hex_of_bytes v) !st.names) in
      print_string ("statics=" ^ hex_of_bytes (finish !st) ^ " names=" ^ (if names = "" then "-" else names)
                    ^ " q=" ^ (if !qs = [] then "-" else String.concat "," (List.rev !qs)) ^ "\n")
    | _ -> print_string "BADCASE\n")

(* build: <mode> <utils> <statics header> <base> <tree> <fs0> <program>
   tree    ::= F<hex> | D[ <namehex>=<tree> ; ... ]      (no spaces)
   fs0     ::= - | path=content,path=content
   program ::= call,call,...  with c<dir> s f<p> g<d> a<p>;<u> t<d>;<to> d<p>;<data> S<p>;<ref> *)
let parse_tree s : node =
  let pos = ref 0 in
  let n = String.length s in
  let rec tree () =
    let c = s.[!pos] in incr pos;
    if c = 'F' then begin
      let st = !pos in
      while !pos < n && s.[!pos] <> ';' && s.[!pos] <> ']' do incr pos done;
      File (bytes_of_hex (let t = String.sub s st (!pos - st) in if t = "" then "-" else t))
    end else begin
      (* 'D' '[' entries ']' *)
      incr pos;
      let es = ref [] in
      while s.[!pos] <> ']' do
        let st = !pos in
        while s.[!pos] <> '=' do incr pos done;
        let name = bytes_of_hex (String.sub s st (!pos - st)) in
        incr pos;
        let t = tree () in
        es := (name, t) :: !es;
        if s.[!pos] = ';' then incr pos
      done;
      incr pos;
      Dir (List.rev !es)
    end in
  tree ()
let parse_kv s = if s = "-" then [] else
  List.map (fun kv -> match String.split_on_char '=' kv with [k; v] -> (bytes_of_hex k, bytes_of_hex v) | _ -> failwith "kv") (String.split_on_char ',' s)
let parse_program s : call list =
  let calls = if s = "-" then [] else String.split_on_char ',' s in
  let arg c = String.sub c 1 (String.length c - 1) in
  let two c = match String.split_on_char ';' (arg c) with [a; d] -> (bytes_of_hex a, bytes_of_hex d) | _ -> failwith "two" in
  let rec go cs = match cs with
    | [] -> []
    | c :: r when c.[0] = 'c' -> PCompile (bytes_of_hex (arg c)) :: go r
    | "s" :: r ->
      let rec sc l acc = match l with
        | c :: r' when c <> "s" && c.[0] <> 'c' ->
          let x = match c.[0] with
            | 'f' -> SAddFile (bytes_of_hex (arg c))
            | 'g' -> SAddFiles (bytes_of_hex (arg c))
            | 'a' -> let (a, d) = two c in SAddFileAs (a, d)
            | 't' -> let (a, d) = two c in SAddFilesAs (a, d)
            | 'd' -> let (a, d) = two c in SAddData (a, d)
            | 'S' -> let (a, d) = two c in SSassRef (a, d)
            | 'C' -> let (a, d) = two c in SSassCss (a, d)
            | _ -> failwith "scall" in
          sc r' (x :: acc)
        | _ -> (List.rev acc, l) in
      let (scs, rest) = sc r [] in
      PStatics scs :: go rest
    | _ -> failwith "call" in
  go calls
let build_cases () =
  each_line (fun l ->
    match fields l with
    | [mode; utils; hdr; base; tree; fs0; prog] ->
      let mm = match mode with "3" -> M03 | "h" -> MHttp | _ -> MNone in
      let r = run_build_m (bytes_of_hex utils) (bytes_of_hex hdr) mm (parse_tree tree) (bytes_of_hex base) (parse_kv fs0) (parse_program prog) in
      let ok = r.r_ok in
      let hyp = plan_ok_m (bytes_of_hex utils) (bytes_of_hex hdr) mm (parse_tree tree) (bytes_of_hex base) (parse_program prog) in
      let kv l = if l = [] then "-" else String.concat "," (List.map (fun (k, v) -> hex_of_bytes k ^ "=" ^ hex_of_bytes v) l) in
      let ps l = if l = [] then "-" else String.concat "," (List.map hex_of_bytes l) in
      print_string ("ok=" ^ (if ok then "1" else "0") ^ " fs=" ^ kv r.r_fs ^ " writes=" ^ ps r.r_writes ^ " out=" ^ hex_of_bytes r.r_out ^ " reads=" ^ ps r.r_reads ^ " hyp=" ^ (if hyp then "1" else "0") ^ "\n")
    | _ -> print_string "BADCASE\n")

let hash_cases () =
  each_line (fun l -> print_string (hex_of_bytes (checksum_slug (bytes_of_hex l)) ^ " " ^ hex_of_bytes (md5 (bytes_of_hex l)) ^ "\n"))

let () =
  match Sys.argv.(1) with
  | "compile" -> compile_cases ()
  | "io" -> io_cases ()
  | "statics" -> statics_cases ()
  | "hash" -> hash_cases ()
  | "build" -> build_cases ()
  | _ -> prerr_endline "usage: driver compile|..."; exit 2
