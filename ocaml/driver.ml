(* Line-protocol driver around the extracted model (hex I/O only). *)
open Model
let rec pos_of_int i = if i = 1 then XH else if i land 1 = 1 then XI (pos_of_int (i lsr 1)) else XO (pos_of_int (i lsr 1))
let n_of_int i = if i = 0 then N0 else Npos (pos_of_int i)
let rec int_of_pos = function XH -> 1 | XO p -> 2 * int_of_pos p | XI p -> 2 * int_of_pos p + 1
let int_of_n = function N0 -> 0 | Npos p -> int_of_pos p
let rec nat_of_int i = if i = 0 then O else S (nat_of_int (i - 1))
let rec int_of_nat = function O -> 0 | S n -> 1 + int_of_nat n
let hexval c = match c with '0'..'9' -> Char.code c - 48 | 'a'..'f' -> Char.code c - 87 | _ -> failwith "hex"
let bytes_of_hex s =
  if s = "-" then [] else
  let n = String.length s / 2 in
  let rec go i acc = if i < 0 then acc else go (i - 1) (n_of_int (16 * hexval s.[2*i] + hexval s.[2*i+1]) :: acc) in
  go (n - 1) []
let hex_of_bytes l =
  if l = [] then "-" else begin
    let b = Buffer.create 256 in
    List.iter (fun c -> Buffer.add_string b (Printf.sprintf "%02x" (int_of_n c))) l;
    Buffer.contents b end
let fields l = String.split_on_char ' ' l
let each_line f = try while true do f (input_line stdin) done with End_of_file -> ()

let compile_cases () =
  each_line (fun l ->
    match fields l with
    | name :: rest ->
      let src = match rest with s :: _ -> s | [] -> "-" in
      (match compile_m (bytes_of_hex name) (bytes_of_hex src) with
       | Accepted r -> print_string ("OK " ^ hex_of_bytes r ^ "\n")
       | Rejected d -> print_string ("ERR " ^ hex_of_bytes d ^ "\n")
       | Panicked -> print_string "PANIC\n"
       | NoFuel -> print_string "FUEL\n")
    | [] -> ())

let split_commas s = if s = "-" then [] else String.split_on_char ',' s
let parse_sched s =
  List.map (fun t ->
    let n = int_of_string (String.sub t 1 (String.length t - 1)) in
    match t.[0] with
    | 'a' -> Accept (nat_of_int n)
    | 'i' -> Interrupted
    | _ -> Fail (n_of_int n)) (List.filter (fun t -> t <> "i" || true) (split_commas s)
                                |> List.map (fun t -> if t = "i" then "i0" else t))
let res_str = function
  | Done -> "ok"
  | Failed WriteZero -> "wz"
  | Failed (Io e) -> "io" ^ string_of_int (int_of_n e)
  | OutOfFuel -> "FUEL"
let io_cases () =
  each_line (fun l ->
    match fields l with
    | [w; ps; sc] ->
      let ps = List.map bytes_of_hex (split_commas ps) in
      let sink = { sched = parse_sched sc; log = [] } in
      let buf_of v = match to_buffer v with Some b -> b | None -> failwith "to_buffer" in
      let (v, buf) = match w with
        | "D" -> (VDisplay ps, None)
        | "H" -> (VRaw ps, None)
        | "B" -> let b = buf_of (VDisplay ps) in (VBuffer b, Some b)
        | "HB" -> let b = buf_of (VRaw ps) in (VBuffer b, Some b)
        | _ -> let b = buf_of (VBuffer (buf_of (VDisplay ps))) in (VBuffer b, Some b) in
      let (s', r) = to_html v sink in
      (match buf with
       | None -> print_string (hex_of_bytes s'.log ^ " " ^ res_str r ^ "\n")
       | Some b ->
         let f x = if x then "1" else "0" in
         print_string (hex_of_bytes s'.log ^ " " ^ res_str r ^ " " ^ hex_of_bytes b ^ " "
                       ^ f (buffer_eq b b) ^ f (buffer_eq b (b @ [n_of_int 120])) ^ f (buffer_eq b b) ^ "\n"))
    | _ -> print_string "BADCASE\n")

(* statics: <mode n|3|h> <header hex> ops...   ops: F:path:content A:path:url D:path:data
   S:path:ref (fixed-shape sass) Q:name (static_name query) G:name (StaticFile::get probe) *)
let statics_cases () =
  each_line (fun l ->
    match fields l with
    | mode :: header :: ops ->
      let mm = match mode with "3" -> M03 | "h" -> MHttp | _ -> MNone in
      let st = ref (empty_statics (bytes_of_hex header)) in
      let qs = ref [] in
      List.iter (fun op ->
        if op <> "" then
        match String.split_on_char ':' op with
        | ["F"; p; c] -> st := apply_op_m mm !st (OpFile (bytes_of_hex p, bytes_of_hex c))
        | ["A"; p; u] -> st := apply_op_m mm !st (OpFileAs (bytes_of_hex p, bytes_of_hex u))
        | ["D"; p; d] -> st := apply_op_m mm !st (OpData (bytes_of_hex p, bytes_of_hex d))
        | ["S"; p; r] -> let (s', ok) = sass_ref_m mm !st (bytes_of_hex p) (bytes_of_hex r) in
                         st := s'; qs := (if ok then "sass-ok" else "sass-err") :: !qs
        | ["Q"; n] -> qs := (match static_name_m !st (bytes_of_hex n) with
                             | Some u -> hex_of_bytes u | None -> "!") :: !qs
        | ["G"; n] -> qs := (match statics_get_m !st (bytes_of_hex n) with
                             | Some (u, id) -> hex_of_bytes u ^ "=" ^ hex_of_bytes id | None -> "!") :: !qs
        | _ -> qs := "BADOP" :: !qs) ops;
      let names = String.concat "," (List.map (fun (k, v) -> hex_of_bytes k ^ "=" ^ hex_of_bytes v) !st.names) in
      print_string ("statics=" ^ hex_of_bytes (finish !st) ^ " names=" ^ (if names = "" then "-" else names)
                    ^ " q=" ^ (if !qs = [] then "-" else String.concat "," (List.rev !qs)) ^ "\n")
    | _ -> print_string "BADCASE\n")

let hash_cases () =
  each_line (fun l -> print_string (hex_of_bytes (checksum_slug (bytes_of_hex l)) ^ " " ^ hex_of_bytes (md5 (bytes_of_hex l)) ^ "\n"))

let () =
  match Sys.argv.(1) with
  | "compile" -> compile_cases ()
  | "io" -> io_cases ()
  | "statics" -> statics_cases ()
  | "hash" -> hash_cases ()
  | _ -> prerr_endline "usage: driver compile|..."; exit 2
