(* Line-protocol driver around the extracted model (hex I/O only). *)
open Model
let rec pos_of_int i = if i = 1 then XH else if i land 1 = 1 then XI (pos_of_int (i lsr 1)) else XO (pos_of_int (i lsr 1))
let n_of_int i = if i = 0 then N0 else Npos (pos_of_int i)
let rec int_of_pos = function XH -> 1 | XO p -> 2 * int_of_pos p | XI p -> 2 * int_of_pos p + 1
let int_of_n = function N0 -> 0 | Npos p -> int_of_pos p
let rec nat_of_int i = if i = 0 then O else S (nat_of_int (i - 1))
let rec int_of_nat = function O -> 0 | S n -> 1 + int_of_nat n
let hexval c = match c with '0'..'9' -> Char.code c - 48 | 'a'..'f' -> Char.code c - 87 | _ -> failwith "hex"
let bytes_of_hex s =
  if s = "-" then [] else
  let n = String.length s / 2 in
  let rec go i acc = if i < 0 then acc else go (i - 1) (n_of_int (16 * hexval s.[2*i] + hexval s.[2*i+1]) :: acc) in
  go (n - 1) []
let hex_of_bytes l =
  if l = [] then "-" else begin
    let b = Buffer.create 256 in
    List.iter (fun c -> Buffer.add_string b (Printf.sprintf "%02x" (int_of_n c))) l;
    Buffer.contents b end
let fields l = String.split_on_char ' ' l
let each_line f = try while true do f (input_line stdin) done with End_of_file -> ()

let compile_cases () =
  each_line (fun l ->
    match fields l with
    | name :: rest ->
      let src = match rest with s :: _ -> s | [] -> "-" in
      (match compile_m (bytes_of_hex name) (bytes_of_hex src) with
       | Accepted r -> print_string ("OK " ^ hex_of_bytes r ^ "\n")
       | Rejected d -> print_string ("ERR " ^ hex_of_bytes d ^ "\n")
       | Panicked -> print_string "PANIC\n"
       | OutOfFuel -> print_string "FUEL\n")
    | [] -> ())

let () =
  match Sys.argv.(1) with
  | "compile" -> compile_cases ()
  | _ -> prerr_endline "usage: driver compile|..."; exit 2
