"""C11: the parser is total and diagnostics are well-formed: exhaustive token strings, splices and
mutations of the example templates, near misses of generated templates, deep nesting."""
import itertools, glob, random
from vlib import *
from tmpl_checks import compile_pairs, decode_outcome, conclude
from tmpl_gen import *

TOKENS = [b"@", b"{", b"}", b"(", b")", b"[", b"]", b'"', b"*", b"/", b"\\", b" ", b"\n", b"if ", b"for ", b"match ", b"else", b"a", b"1", b"\xff", b"\xc3\xa9", b":", b",", b"=>", b"in", b"let", b".", b";", b"<", b"'"]
CORE = TOKENS[:21]

def check_diag(src, diag):
    """impl-side statement of C11 on one rejection; returns None or a description"""
    try: txt = diag.decode("utf8")
    except UnicodeDecodeError: return "diagnostic is not valid UTF-8"
    lines = txt.split("\n")
    if lines and lines[-1] == "": lines = lines[:-1]
    if len(lines) < 2: return "a rejection carries no diagnostic"
    if len(lines) % 2: return "diagnostic is not a sequence of (line, caret) pairs"
    srclines = src.split(b"\n")
    P = "cargo:warning="
    for i in range(0, len(lines), 2):
        l1, l2 = lines[i], lines[i + 1]
        if not l1.startswith(P) or not l2.startswith(P): return "diagnostic line without the cargo:warning= prefix"
        body = l1[len(P):]
        num, sep, echoed = body.partition(":")
        if sep != ":" or not num.strip().isdigit(): return "no line number in %r" % l1
        ln = int(num.strip())
        if not (1 <= ln <= len(srclines)): return "line number %d outside the input (%d lines)" % (ln, len(srclines))
        raw = srclines[ln - 1]
        try: want = raw.decode("utf8")
        except UnicodeDecodeError: want = "(Failed to display line)"
        if echoed != want: return "echoed line %r is not source line %d (%r)" % (echoed, ln, want)
        c2 = l2[len(P):]
        if not c2.startswith("     "): return "caret line malformed"
        caret = c2[5:]
        k = caret.find("^")
        if k < 0: return "no caret"
        if caret[:k].strip(" ") != "": return "caret line malformed"
        col = k + 1
        nchars = len(raw.decode("utf8", "replace"))
        if not (1 <= col <= max(nchars, len(raw)) + 1): return "caret column %d outside line %d (%d chars)" % (col, ln, nchars)
    return None

def run(pid, tier):
    chk = Check(pid, tier); rng = chk.rng
    info = ensure_all()
    proof = proof_step(pid, thorough=(tier == "thorough"))
    cases = []
    L = 3 if tier == "quick" else 4
    for l in range(0, L + 1):
        for t in itertools.product(CORE, repeat=l):
            s = b"".join(t); cases.append(s); cases.append(b"@()" + s)
    for t in itertools.product(CORE, repeat=L + 1):
        if rng.random() < (0.05 if tier == "quick" else 0.25): cases.append(b"@()" + b"".join(t))
    # the declaration: lifetime lists, argument lists and @use lines over their own token alphabet (every string to length 5 / 6)
    DECL_TOK = [b"@", b"<", b">", b"(", b")", b"'a", b"'b", b",", b" ", b":", b"T", b"x", b"&'a str", b"\n", b"use a::b;", b"'a,", b"u8"]
    LD = 4 if tier == "quick" else 5
    for l in range(0, LD + 1):
        for t in itertools.product(DECL_TOK, repeat=l):
            if l >= 4 and rng.random() > (0.12 if tier == "quick" else 0.2): continue
            cases.append(b"@<'a" + b"".join(t)); 
            if l <= 3: cases.append(b"@(" + b"".join(t)); cases.append(b"".join(t) + b"@()x")
    cases += [b"@<'a(x: &'a str)", b"@<'a, T>(x: T)", b"@<'a, 'b: 'a>()", b"@<'a,>()", b"@<>()", b"@<'a>(x: &'a str)\n@x", b"@<'a b>()", b"@<'a\n>()", b"@< 'a, 'b >(x: &'a str)"]
    # comments (their bodies are not UTF-8 checked) and stray bytes that are not UTF-8, at every position of templates using every construct
    bases = [b"@(a: usize, b: &str)\nx", b"@<'a>(a: &'a str, c: Content)\n@:c()", b"@(v: Vec<(u8, impl ToHtml)>, f: &dyn Fn(u8) -> u8)\n",
             b"@use a::b;\n@(x: impl ToHtml)\n@if x {a} else {b}@for i in xs {@i}@match m { A => {a} _ => {} }@:f(a, {b})@(1 + 2)@x.y(z)[0]"]
    # ... and of rejected ones: the diagnostic of a later, valid line must still echo that line
    bases += [b"@(a: usize)\nline two\n@if {\nfour\n", b"@use a::b;\n@(x: u8)\n<p>\n@for x in {\n", b"@()\nok\n}\n"]
    for base in bases:
        for i in range(len(base) + 1):
            for ins in (b"@*\xff*@", b"@*\xc3*@", b"@* \xc3\xa9 *@", b"\xff", b" @*\x80*@ "):
                if tier != "quick" or rng.random() < 0.5: cases.append(base[:i] + ins + base[i:])
    # examples: splices and mutations
    ex = [open(f, "rb").read() for f in sorted(glob.glob(os.path.join(REPO, "examples", "**", "*.rs.*"), recursive=True))]
    cases += ex
    for _ in range(3000 if tier == "quick" else 40000):
        a = rng.choice(ex); k = rng.random()
        if k < 0.3:
            b2 = rng.choice(ex); i = rng.randrange(len(a) + 1); j = rng.randrange(len(b2) + 1); s = a[:i] + b2[j:]
        elif k < 0.6:
            i = rng.randrange(len(a) + 1); s = a[:i] + rng.choice(TOKENS) + a[i:]
        elif k < 0.8:
            i = rng.randrange(len(a) + 1); j = min(len(a), i + rng.randint(1, 8)); s = a[:i] + a[j:]
        else:
            i = rng.randrange(len(a)); s = a[:i] + bytes([rng.randrange(256)]) + a[i + 1:]
        cases.append(s[:3000])
    # near misses of generated templates
    g = Gen(rng, depth=3)
    for _ in range(600 if tier == "quick" else 6000):
        t = make_template(g, g.items(), rng.choice(["canon", "pert"]), ("super::wrap_html",)).encode()
        i = rng.randrange(len(t)); k = rng.random()
        if k < 0.4: s = t[:i] + t[i + 1:]
        elif k < 0.7: s = t[:i] + rng.choice(TOKENS) + t[i:]
        elif k < 0.85: s = t[:i]
        else: s = t[:i] + bytes([rng.randrange(256)]) + t[i + 1:]
        cases.append(s)
    # nesting to 100 levels (brackets and blocks), closed and unclosed: run apart from the rest, one
    # process per input under a time limit, so that an input that does not terminate is identified
    deep = []
    for d in (10, 16, 22, 28, 50, 100):
        deep += [b"@()@(" + b"(" * d + b"a" + b")" * d + b")", b"@()@a" + b"[" * d + b"1" + b"]" * d, b"@()@a" + b"{" * d + b"}" * d,
                  b"@()" + b"@if a {" * d + b"x" + b"}" * d, b"@()" + b"@if a {" * d + b"x" + b"}" * (d - 1), b"@()@(" + b"(" * d,
                  b"@()@a" + b"[(" * (d // 2) + b"x" + b")]" * (d // 2), b"@()@a" + b"({[" * (d // 3) + b"x" + b"]})" * (d // 3), b"@()@a(" + b"[(" * (d // 2) + b"x" + b")]" * (d // 2 - 1),
                  b"@()" + b"@for a in b {" * d + b"}" * d, b"@()" + b"@:c({" * d + b"})" * d, b"@()@a" + b".a" * d, b"@(a: " + b"Vec<" * d + b"u8" + b">" * d + b")",
                  b"@(a: " + b"(" * d + b"u8" + b")" * d + b")x", b"@()@if " + b"!" * d + b"a {}", b"@()@if a" + b" && a" * d + b" {}"]
    for mark in (4096, 8192):
        for ch in ("é", "€", "𝄞"):
            for back in range(1, len(ch.encode())):
                cases.append(b"@()\n" + b"a" * (mark - back) + ch.encode() + b"tail")
                cases.append(b"@(x: u8)\n@if true {" + b"a" * (mark - back) + ch.encode() + b"}")
    cases = list(dict.fromkeys(cases))
    named = [("t_html", s) for s in cases]
    impl, model = compile_pairs(named)
    dl = ["%s %s" % (hexs(b"t_html"), hexs(s)) for s in deep]
    dimpl = run_impl("compile", dl, shards=len(dl), timeout=25)
    dmodel = run_model("compile", dl, shards=len(dl), timeout=120)
    slow = [(s, a) for s, a in zip(deep, dimpl) if a in ("CRASH", "SKIPPED")]
    cases += deep; impl += dimpl; model += dmodel
    disagree = []; oracle_fail = []; hist = {}
    sizes = {}
    for s, a, m in zip(cases, impl, model):
        st, payload = decode_outcome(a)
        chk.count(s, len(s) > 3)
        hist[st] = hist.get(st, 0) + 1
        b = "<=8" if len(s) <= 8 else "<=64" if len(s) <= 64 else "<=1K" if len(s) <= 1024 else ">1K"
        sizes[b] = sizes.get(b, 0) + 1
        if a != m: disagree.append((s, a, m))
        if st == "CRASH" and s in deep: oracle_fail.append((s, "compilation of this input did not terminate within 25 s (or the process died)", None))
        elif st in ("PANIC", "CRASH"): oracle_fail.append((s, "compilation of this input panics", None))
        elif st == "ERR":
            why = check_diag(s, payload)
            if why: oracle_fail.append((s, why, dict(diagnostic=payload.decode("utf8", "replace")[:800])))
        elif st != "OK": oracle_fail.append((s, "unexpected outcome " + st, None))
    # the same through the public entry point on files: a sample of rejected inputs (those that are not UTF-8 among them) written as
    # template files next to a good one; compile_templates must succeed, print the diagnostic the in-process call gave, and go on
    import build_lib
    rej = [(s, decode_outcome(a)[1]) for s, a in zip(cases, impl) if decode_outcome(a)[0] == "ERR" and 0 < len(s) < 300]
    nonutf = [x for x in rej if not x[0].isascii()]
    pick = rng.sample(nonutf, min(len(nonutf), 6 if tier == "quick" else 40)) + rng.sample(rej, min(len(rej), 6 if tier == "quick" else 40))
    pick += [(b"@()\ncaf\xe9\n@(", None), (b"@* Gr\xfc\xdfe *@\n@()\n@if {", None), (b"@()\n@for x in {\n", None), (b"@()\nok\n}\n", None)]
    fscen = [[('W', 't/bad.rs.html', s), ('W', 't/good.rs.html', '@()\nG'), ('R', [('c', 't')])] for s, _ in pick]
    for (s, diag), r in zip(pick, build_lib.run_scenarios(fscen)):
        run = [x for x in r["runs"] if x["kind"] == "R"][0]
        chk.count(b"file:" + s, True)
        out = run["out"]; files = build_lib.snap_files(run["after"] or {})
        if run["status"] != "ok":
            oracle_fail.append((s, "compile_templates on a directory holding this rejected template did not succeed (%s): a broken template must be reported and skipped" % run["status"], None)); continue
        if b"cargo:warning=Template parse error" not in out or (diag is not None and diag.strip() and diag.strip().split(b"\n")[0] not in out):
            oracle_fail.append((s, "compile_templates rejected the template file without the diagnostic", dict(stdout=out.decode("utf8", "replace")[-600:]))); continue
        if b"templates/template_good_html.rs" not in files:
            oracle_fail.append((s, "the good template next to a rejected one was not compiled", None)); continue
        if "model" in run and run["model"].get("out") not in (None, out):
            disagree.append((s, "OK " + out.hex(), "OK " + run["model"]["out"].hex()))
    # ... and all of them in ONE directory, between good templates: every rejected file gets the diagnostic it gets on its own (whatever the
    # walk met before it), every good one is compiled
    def warn_blocks(out):
        blocks = {}; cur = None
        for ln in out.split(b"\n"):
            m = re.match(rb'cargo:warning=Template parse error in "(.*)":$', ln)
            if m: cur = m.group(1).rsplit(b"/", 1)[-1]; blocks[cur] = []
            elif cur is not None and ln.startswith(b"cargo:warning="): blocks[cur].append(ln)
            elif ln.startswith(b"cargo:"): cur = None
        return blocks
    singles = [warn_blocks(([x for x in r["runs"] if x["kind"] == "R"] or [{"out": b""}])[0]["out"] or b"").get(b"bad.rs.html") for r in build_lib.run_scenarios(fscen)] if pick else []
    for rep in range(2 if tier == "quick" else 6):
        names = rng.sample(sorted(set(a + b_ + c_ for a in "abcdkmqxyzABZ_" for b_ in ["", "0", "7", "_x", "zz"] for c_ in ["", "q", "9", "_"])), 2 * len(pick) + 4)
        rn, gn = names[:len(pick)], names[len(pick):]
        mixed = [('W', 't/%s.rs.html' % n_, s) for n_, (s, _) in zip(rn, pick)] + [('W', 't/%s.rs.html' % n_, '@()\nG%d' % k) for k, n_ in enumerate(gn)]
        rng.shuffle(mixed)
        r = build_lib.run_scenarios([mixed + [('R', [('c', 't')])]])[0]
        run = [x for x in r["runs"] if x["kind"] == "R"][0]
        chk.count(("dir " + build_lib.scenario_line(mixed)[:2000]).encode(), True)
        bl = warn_blocks(run["out"] or b""); files = build_lib.snap_files(run["after"] or {})
        key = build_lib.scenario_line(mixed + [('R', [('c', 't')])]).encode()
        if run["status"] != "ok":
            oracle_fail.append((key, "compile_templates on a directory holding rejected templates between good ones did not succeed (%s)" % run["status"], None)); continue
        for n_, (s, _), alone in zip(rn, pick, singles):
            got = bl.get(("%s.rs.html" % n_).encode())
            if alone is not None and got != alone:
                oracle_fail.append((key, "the rejected template %s.rs.html gets another diagnostic among other templates of its directory than on its own" % n_,
                                    dict(source=s.decode("latin1"), among_others=[x.decode("utf8", "replace") for x in (got or [])][:12], alone=[x.decode("utf8", "replace") for x in alone][:12]))); break
        else:
            for n_ in gn:
                if ("%s.rs.html" % n_).encode() in bl or ("templates/template_%s_html.rs" % n_).encode() not in files:
                    oracle_fail.append((key, "the good template %s.rs.html in a directory that also holds rejected ones is %s" % (n_, "reported as broken" if ("%s.rs.html" % n_).encode() in bl else "not compiled"), None)); break
    for s in cases[5:8] + cases[-3:]: chk.sample(dict(input=s[:200].decode("latin1")))
    chk.notes["outcome_histogram"] = hist; chk.notes["size_histogram"] = sizes
    chk.notes["disagreements_model_vs_impl"] = len(disagree); chk.notes["oracle_failures"] = len(oracle_fail)
    chk.cov["rule"] = ("byte strings: all strings over the 21-token alphabet %s up to length %d (raw and after '@()'), a sample of length %d, splices/insertions/deletions/byte flips of the %d example templates, "
                       "near misses of generated templates, bracket/block/type nesting to 100 levels; outcome (accept + generated code | reject + full diagnostic text | panic) compared with the model; "
                       "oracle: no panic, a rejection has a diagnostic whose line number, caret column and echoed line are consistent with the input. non-trivial = longer than 3 bytes") % (
                        [t.decode("latin1") for t in CORE], L, L + 1, len(ex))
    # the model as the theorems see it (vm_compute inside Coq) against the model as the correspondence runs it (extracted OCaml)
    pool = [c for c in cases if len(c) <= 400]
    xs = [(b"t_html", c) for c in (rng.sample(pool, min(len(pool), 40 if tier == "quick" else 400)) + [c for c in ex if len(c) <= 1500][:5])]
    nx, xbad = extraction_crosscheck(xs)
    chk.notes["extraction_crosscheck"] = "%d inputs evaluated by vm_compute inside Coq and by the extracted driver: %s" % (nx, "equal" if not xbad else xbad[0])
    if xbad and not oracle_fail and not disagree:
        chk.violation("the extracted model no longer computes what the Gallina model computes (%s); the correspondence proves nothing until this is repaired" % xbad[0],
                      dict(stage="extraction", broken="Extract.v / ocaml/driver.ml vs vm_compute", mismatches=xbad[:5]), failing_input_found=False)
    return conclude(chk, proof, info, disagree, oracle_fail, len(cases))
