"""C02 (escaped interpolation) and C06 (raw output, buffers): proof step + correspondence of
Model/Io.v with the library's ToHtml machinery + impl-side oracle."""
import html, itertools
from vlib import *

ALPHA = ['<', '>', '&', '"', "'", 'a', 'é', '€', '𝄞', '¢', 'ü']    # ¢ = C2 A2, ü = C3 BC: continuation bytes that are a special byte + 0x80
SPECIAL = set(b'<>&"\'')

def chunkings(chars, rng, limit):
    """ways to split the char list into write_str pieces (incl. empty pieces now and then)"""
    n = len(chars)
    outs = []
    if n <= 5:
        for mask in range(1 << max(0, n - 1)):
            ps = []; cur = chars[0] if n else ''
            for i in range(1, n):
                if mask >> (i - 1) & 1: ps.append(cur); cur = chars[i]
                else: cur += chars[i]
            if n: ps.append(cur)
            outs.append(ps)
        outs.append([''] + [c for c in chars] + [''])
    else:
        for _ in range(limit):
            ps = []; cur = ''
            for c in chars:
                if rng.random() < 0.3: ps.append(cur); cur = c
                else: cur += c
            ps.append(cur); outs.append(ps)
        outs.append([''.join(chars)])
        # a short piece, then a long one (>= 64 bytes), then the rest: buffering shortcuts live here
        for cut in (1, 3, 7):
            for big in (63, 64, 65, 200):
                if len(chars) > cut + big:
                    outs.append([''.join(chars[:cut]), ''.join(chars[cut:cut + big]), ''.join(chars[cut + big:])])
    if len(outs) > limit:
        outs = rng.sample(outs, limit)
    return outs

def sched_str(s):
    return ",".join(s) if s else "-"

def schedules_for(nbytes, rng, tier, pid="C02"):
    """exhaustive short schedules + failure at every offset of the rendering + random ones"""
    toks = ['a1', 'a2', 'a7', 'i', 'f7', 'a0', 'w8']
    out = [[]]
    L = 3 if tier == "quick" or pid != "C02" else 4      # C06 has six wrappers: length 4 there costs 30 GB and 40 minutes
    for l in range(1, L + 1):
        out += [list(t) for t in itertools.product(toks, repeat=l)]
    for off in range(0, min(nbytes, 40) + 1):
        out.append(['a1'] * off + ['f%d' % (off + 1)])
        out.append(['a1', 'i'] * off + ['a0'])
    for _ in range(20):
        out.append([rng.choice(['a1', 'a2', 'a3', 'a5', 'i', 'i', 'a100']) for _ in range(rng.randint(1, 30))] + rng.choice([[], ['f3'], ['a0'], ['w4', 'a100']]))
    return out

def no_fault(s):
    return all(t != 'a0' and not t.startswith('f') and not t.startswith('w') for t in s)

def gen_cases(pid, tier, rng):
    wrappers = ['D'] if pid == "C02" else ['H', 'B', 'HB', 'BB', 'D', 'FB']
    cases = []   # (wrapper, pieces(list of str), sched(list))
    # thorough: exhaustive to length 4 over the 11 symbols plus a sample of length 5-6 (30000 for the one wrapper of C02, 1500 for
    # the six of C06, which with 4000 took half an hour and 28 GB); length 5 exhaustively was 6*10^7 cases and 35 GB
    L = 3 if tier == "quick" or pid != "C02" else 4
    strings = []
    for l in range(0, L + 1):
        strings += [list(t) for t in itertools.product(ALPHA, repeat=l)]
    if tier != "quick":
        # C06 runs eleven wrappers over every string: exhaustive to length 3 and a sample of lengths 4-6 there (length 4 exhaustively was 21 minutes and 22 GB)
        strings += [[rng.choice(ALPHA) for _ in range(rng.choice([5, 5, 6] if pid == "C02" else [4, 4, 5, 6]))] for _ in range(30000 if pid == "C02" else 5000)]
    for _ in range(300 if tier == "quick" else 3000):
        n = rng.choice([6, 8, 17, 64, 300, 4096 if tier != "quick" else 1000])
        strings.append([rng.choice(ALPHA + ['b', ' ', '\n', '\0', '\x7f', 'ÿ', ' ', '!', '\t', 'c', 'd', '§', '¼', '¾', 'ç', 'æ', 'þ', '¦', '、', '\u2026']) for _ in range(rng.randint(4, n))])
    # a special byte right after a byte below it, at every position of an 8/16-byte window (word-at-a-time scans)
    for sp in '"&\'<>':
        for pre in ' !\n\t#~a':
            for pos in range(0, 17):
                strings.append(list("x" * pos + pre + sp + "y" * (18 - pos)))
    # line endings of every kind inside the text (buffers compare equal to their own text whatever it holds)
    for t in ["a\r\nb", "\r\n", "x\r", "\n\r", "<\r\n>", "a\r\n\r\nb&"]:
        strings.append(list(t))
    # every ASCII byte between two letters: exactly five of them are replaced, every other one passes through unchanged
    for c in range(128):
        strings.append(['a', chr(c), 'b'])
    for chars in strings:
        text = ''.join(chars)
        nb = len(html.escape(text).encode())
        chs = chunkings(chars, rng, 6 if len(chars) > 3 else 8)
        if len(chars) <= 3:
            scheds = schedules_for(nb, rng, tier, pid)
            if len(chars) == 3: scheds = rng.sample(scheds, min(len(scheds), 60 if tier == "quick" else 400))
        else:
            scheds = [[]] + rng.sample(schedules_for(nb, rng, tier, pid), 12 if tier == "quick" else (40 if pid == "C02" else 16))
            scheds += [['a1'] * off + ['f9'] for off in rng.sample(range(nb + 1), min(nb + 1, 6))]
        for w in wrappers:
            for ps in (chs if w in ('D', 'H') else chs[:2]):
                for sc in scheds:
                    cases.append((w, ps, sc))
        # the same text handed over char by char through Formatter::write_char (what `char`, the quotes of `{:?}` and padding do)
        if chars and (len(chars) <= 2 or rng.random() < 0.15):
            for w in wrappers:
                if w == 'FB': continue
                for sc in [[]] + rng.sample(scheds, min(len(scheds), 3)):
                    cases.append((w + 'c', [text], sc))
    # buffers filled by a user's own ToHtml with bytes that are not UTF-8 (Latin-1 text, a character cut in half), with markup next to them
    if pid != "C02":
        for rawp in ([b"<b>caf\xe9</b> &amp;"], [b"\xff"], [b"a\xc3", b"\xa9b"], [b"\xe2\x82"], [b"<\x80>&\"'"], [b"ok <i>", b"\xf0\x9f", b"</i>"], [b"\xc0\xaf<"], [b"plain &lt; text"], [b"\xed\xa0\x80&"]):
            ps = [p.decode("utf8", "surrogateescape") for p in rawp]
            nb = sum(len(p) for p in rawp)
            for sc in [[], ['a1'] * (nb + 2), ['a2', 'i', 'a1000'], ['a1', 'f9'], ['a3', 'w7']]:
                cases.append(('RB', ps, sc))
    # renderings and buffers beyond 1 KiB / 4 KiB / 8 KiB, with special characters in them, alone and one after another
    # (scratch buffers, piecewise writes); a small value right after a large one
    big = []
    for n in ([1100, 4097, 9000] if tier == "quick" else [1023, 1025, 2000, 4095, 4097, 8193, 20000]):
        big.append([rng.choice(ALPHA + ['b', 'c', ' ']) for _ in range(n)])
        big.append(list("<tr>&amp;") * (n // 9 + 1))
    for chars in big:
        text = ''.join(chars)
        for w in wrappers:
            for ps in ([text], [text[:7], text[7:3000], text[3000:]]):
                for sc in ([], ['a1000', 'i', 'a5000'], ['a4096', 'a1', 'i']):
                    cases.append((w, ps, sc))
            cases.append((w, ['<'], []))
    return cases

def line_of(case):
    w, ps, sc = case
    return "%s %s %s" % (w, ",".join(hexs(p.encode("utf8", "surrogateescape")) for p in ps) if ps else "-", sched_str(sc))

def model_line_of(case):
    """Model/Io.v knows pieces, not how the Display impl hands them over: a value written char by char is the value whose pieces are its chars"""
    w, ps, sc = case
    if w.endswith('c'): return line_of((w[:-1], [ch for p in ps for ch in p], sc))
    # a buffer filled with raw bytes by a user's ToHtml is, for the model, the buffer of an Html(..) value with those bytes
    if w == 'RB': return line_of(('HB', ps, sc))
    return line_of(case)

def expected_text(case):
    return ''.join(case[1])

def oracle(case, out, full):
    """impl-side statement of C02/C06 on one result; `full` = what the same value renders on an accept-all sink.
    Returns None or a description of the failure."""
    w, ps, sc = case
    w = w.rstrip('c')
    text = expected_text(case).encode("utf8", "surrogateescape")
    f = out.split(' ')
    if f[0] == 'PANIC' or len(f) < 2: return "panic / malformed result " + out
    lg = unhexs(f[0]); res = f[1]
    if not full.startswith(lg): return "accepted bytes are not a prefix of the full rendering"
    if res == 'ok' and lg != full: return "Ok returned but the sink did not get the whole rendering"
    if no_fault(sc) and res != 'ok': return "fault-free sink (partial accepts / Interrupted only) but result is " + res
    if not no_fault(sc) and res == 'ok' and full != b'':
        # a fault can only be skipped if the rendering finished before the fault was reached
        pass
    if res.startswith('io'):
        codes = [t[1:] for t in sc if t.startswith('f') or t.startswith('w')]
        if res[2:] not in codes: return "returned an error the sink never produced"
    if w == 'D' or w in ('B', 'BB', 'FB'):
        if any(c in SPECIAL - {ord('&')} for c in full): return "raw special byte in escaped output"
        try: dec = html.unescape(full.decode()).encode()
        except UnicodeDecodeError: return "the escaped output is not valid UTF-8 although the Display text is"
        if dec != text: return "decoding the output does not give back the Display text"
    if w in ('H', 'HB'):
        if full != text: return "Html(..) output differs from the Display text"
    if w == 'RB':
        if full != text: return "a buffer does not give back verbatim, once, the bytes that were written into it"
    if len(f) >= 4:
        buf = unhexs(f[2])
        if buf != full and not sc: return "to_buffer differs from what to_html writes"
        if f[3] != "1010": return "HtmlBuffer PartialEq is not byte equality (equal to its bytes, unequal to them plus one, equal to its text, unequal to near misses around line ends): " + f[3]
    return None

def template_level(chk, oracle_fail, disagree, tier):
    """the generated call `<expr>.to_html(_ructe_out_.by_ref())?` and the OUT_DIR copy of the helper:
    @expressions of Display type -- parameters, method results, string literals spelling the special
    characters directly and through every escape rustc accepts -- must render escaped"""
    import tmpl_checks, render_lib
    from tmpl_gen import DECL, ARGSETS, rust_args, esc
    head = "@(" + DECL + ")\n"
    lits = []
    spell = {"<": ["<", "\\x3c", "\\u{3c}", "\\u{003C}"], ">": [">", "\\x3e", "\\u{3e}"], "&": ["&", "\\x26", "\\u{26}"],
             '"': ['\\"', "\\x22", "\\u{22}"], "'": ["'", "\\'", "\\x27", "\\u{27}"]}
    for ch, ways in spell.items():
        for w in ways:
            lits.append(('"a%sb"' % w, "a" + ch + "b"))
            lits.append(('"%s"' % w, ch))
    lits += [('"<script>alert(1)</script>"', "<script>alert(1)</script>"), ('"R\\u{26}D \\x3cb\\x3e"', "R&D <b>"), ('"plain"', "plain"), ('"\\n\\t\\\\"', "\n\t\\")]
    exprs = [(l, (lambda a, v=v: v)) for l, v in lits]
    exprs += [("s", lambda a: a["s"]), ("s.to_uppercase()", lambda a: a["s"].upper()), ('format!("<{}>", s)', lambda a: "<%s>" % a["s"]),
              ("&s", lambda a: a["s"]), ('s.replace("a", "\\"")', lambda a: a["s"].replace("a", '"')), ('(if b { "<&>" } else { "\\"" })', lambda a: "<&>" if a["b"] else '"')]
    T = []
    for i, (src, f) in enumerate(exprs):
        T.append(("e%d_html" % i, (head + "|@" + src + "|").encode(), ["|" + esc(f(a)) + "|" for a in ARGSETS]))
    # the same expressions where the emitter might take another route: alone in a block argument of a call, in the
    # branches of a conditional, in a loop body, as a parenthesised expression
    from tmpl_gen import WRAP_SRC
    ctx_exprs = [e for e in exprs if e[0] in ("s", "&s", 'format!("<{}>", s)', '"<script>alert(1)</script>"', '"a\\x3cb"', '(if b { "<&>" } else { "\\"" })')]
    for i, (src, f) in enumerate(ctx_exprs):
        one = "@" + src if not src.startswith("(") else "@" + src
        par = "@(" + src + ")"
        T.append(("k%da_html" % i, ("@use super::wrap_html;\n" + head + "|@:wrap_html(n, {" + one + "}, {" + par + "})|").encode(),
                  ["|[%d|%s|%s]|" % (a["n"], esc(f(a)), esc(f(a))) for a in ARGSETS]))
        T.append(("k%db_html" % i, (head + "|@if b {" + one + "} else {" + par + "}@for _x in xs {" + one + "}|").encode(),
                  ["|" + esc(f(a)) * (1 + len(a["xs"])) + "|" for a in ARGSETS]))
    named = [(n, s0) for n, s0, _ in T]
    impl, model = tmpl_checks.compile_pairs(named)
    for (n, s0, _), a, m in zip(T, impl, model):
        chk.count(s0, True)
        if a != m: disagree.append((("T", [s0.decode("utf8", "replace")], []), a[:400], m[:400]))
    files = {"t/%s.rs.html" % n[:-5]: s0 for n, s0, _ in T}
    files["t/wrap.rs.html"] = WRAP_SRC.encode()
    calls = [("templates::%s(&mut sink, %s)" % (n, rust_args(a)), "-") for n, _, _ in T for a in ARGSETS]
    rb = render_lib.render_batch(files, calls)
    # the helper is copied verbatim into OUT_DIR
    run = rb.get("run") or {}
    snap = run.get("after") or {}
    utils = (snap.get(b"templates/_utils.rs") or (None, ""))[0]
    if utils is not None and utils != open(os.path.join(REPO, "src/templates/utils.rs"), "rb").read():
        oracle_fail.append((("T", ["_utils.rs"], []), "-", "OUT_DIR/templates/_utils.rs is not a verbatim copy of src/templates/utils.rs"))
    if not rb["ok"]:
        oracle_fail.append((("T", [T[0][1].decode()], []), rb["error"][:300], "templates with @expressions of Display type do not build: " + rb["error"][:600]))
        return
    k = 0
    for n, s0, exp in T:
        bad = None
        for ai, e in enumerate(exp):
            r = rb["results"][k]; k += 1
            if bad is None and (r is None or r[1] != "ok" or r[0] != e.encode()):
                bad = (r, e)
        if bad:
            r, e = bad
            oracle_fail.append((("T", [s0.decode("utf8", "replace")], []), (r[0].decode("utf8", "replace") if r else "no result"),
                                "an @expression of Display type reached the sink unescaped / altered: got %r, expected %r" % (r[0].decode("utf8", "replace") if r else None, e)))
    chk.notes["template_level_expressions"] = len(T)

def run(pid, tier):
    chk = Check(pid, tier)
    info = ensure_all()
    proof = proof_step(pid, thorough=(tier == "thorough"))
    cases = gen_cases(pid, tier, chk.rng)
    lines = [line_of(c) for c in cases]
    impl = run_impl("io", lines)
    model = run_model("io", [model_line_of(c) for c in cases])
    # full renderings on the accept-all sink, from the implementation itself
    base = {}
    for c in cases:
        k = (c[0], tuple(c[1]))
        if k not in base: base[k] = None
    bl = [line_of((w, list(ps), [])) for (w, ps) in base]
    bo = run_impl("io", bl)
    for k, o in zip(list(base), bo):
        base[k] = unhexs(o.split(' ')[0]) if o and o.split(' ')[0] not in ('PANIC', 'CRASH') else b''
    disagree = []; oracle_fail = []
    hist = {}
    for c, a, m in zip(cases, impl, model):
        text = expected_text(c).encode("utf8", "surrogateescape")
        nontriv = any(ch in SPECIAL for ch in text) and (len(c[1]) > 1 or c[2])
        chk.count(line_of(c).encode(), nontriv)
        r = a.split(' ')[1] if ' ' in a else a
        hist[r[:2]] = hist.get(r[:2], 0) + 1
        if a != m: disagree.append((c, a, m))
        why = oracle(c, a, base[(c[0], tuple(c[1]))])
        if why: oracle_fail.append((c, a, why))
    for c in cases[:3] + cases[len(cases)//2:len(cases)//2+2]:
        chk.sample(dict(case=line_of(c), text=expected_text(c)))
    chk.cov["rule"] = ("strings over {<,>,&,\",',a,e-acute,euro,U+1D11E} exhaustive to length %d (thorough: plus a sample of length 5-6) plus random to 4 KiB; all chunkings of short strings into write_str pieces, and the text handed over char by char through write_char; renderings of 1-9 KiB (thorough: to 20 KiB) with special characters through every wrapper; "
                       "schedules exhaustive over {a1,a2,a7,i,f7,a0} to length %d, a failure and a zero-accept at every offset, random long ones; wrappers %s. "
                       "non-trivial = text has a special byte and (several pieces or a non-empty schedule); distinct by case line") % (
                        3 if tier == "quick" or pid != "C02" else 4, 3 if tier == "quick" or pid != "C02" else 4, "D" if pid == "C02" else "H,B,HB,BB,D,FB")
    chk.notes["result_histogram"] = hist
    chk.assumptions += ["Display impls are well-behaved (stop at the first fmt error)", "sinks follow io::Write's contract and do not override write_all"]
    # the model as the theorems see it (vm_compute inside Coq) against the model as the correspondence runs it (extracted OCaml)
    xs = [(c[0], [p.encode() for p in c[1]], list(c[2])) for c in chk.rng.sample([c for c in cases if c[0] in ("D", "H", "B") and len(c[2]) <= 12 and sum(len(p) for p in c[1]) <= 40], 40 if tier == "quick" else 300)]
    nx, xbad = io_crosscheck(xs)
    chk.notes["extraction_crosscheck"] = "%d cases evaluated by vm_compute inside Coq and by the extracted driver: %s" % (nx, "equal" if not xbad else xbad[0])
    if pid == "C02":
        template_level(chk, oracle_fail, disagree, tier)
    chk.notes["disagreements_model_vs_impl"] = len(disagree)
    chk.notes["oracle_failures"] = len(oracle_fail)
    if oracle_fail:
        oracle_fail.sort(key=lambda x: len(line_of(x[0])))
        c, a, why = oracle_fail[0]
        chk.violation(why, dict(stage="io", case=line_of(c), text=expected_text(c), impl=a, replay_cmd="echo '%s' | %s io" % (line_of(c), HARNESS)))
    elif disagree:
        disagree.sort(key=lambda x: len(line_of(x[0])))
        c, a, m = disagree[0]
        chk.violation("correspondence Model/Io.v <-> src/templates/utils.rs broken (no input violating the property found among %d cases)" % len(cases),
                      dict(stage="io", case=line_of(c), impl=a, model=m, broken="correspondence io", theorems=[t["name"] for t in proof["theorems"]]), failing_input_found=False)
    if xbad and not chk.violations:
        chk.violation("the extracted model no longer computes what the Gallina model computes (%s)" % xbad[0],
                      dict(stage="extraction", broken="Extract.v / ocaml/driver.ml vs vm_compute", mismatches=xbad[:5]), failing_input_found=False)
    if not proof["ok"]:
        if not chk.violations:
            chk.violation(proof_violation(chk, proof), dict(stage="proof", broken=proof.get("broken_at"), problems=proof["problems"], log=proof["log"][-1500:]), failing_input_found=False)
    return chk.finish(proof, info)
