"""C07, C08, C09, C16, C20: proof step + correspondence of Model/Static.v with StaticFiles +
impl-side oracles."""
import hashlib, base64, re, os, subprocess, tempfile, shutil
from vlib import *
from statics_lib import *

def py_slug(data):
    return base64.urlsafe_b64encode(hashlib.md5(data).digest()[:6]).rstrip(b"=")

def split_name(path):
    """independent restatement of name_and_ext for plain paths"""
    if isinstance(path, str): path = path.encode()
    f = path.rsplit(b"/", 1)[-1]
    if b"." not in f: return None
    stem, ext = f.rsplit(b".", 1)
    if stem == b"": return None
    return stem, ext

def rand_bytes(rng, n, kind=None):
    kind = kind or rng.choice(["rand", "rand", "zero", "ff", "ascii", "lowent"])
    if kind == "zero": return bytes(n)
    if kind == "ff": return b"\xff" * n
    if kind == "ascii": return bytes(rng.choice(b"abc xyz\n<>&\"'\\{}") for _ in range(n))
    if kind == "lowent": return bytes(rng.choice(b"\x00\x01\x80") for _ in range(n))
    return bytes(rng.getrandbits(8) for _ in range(n))

STEMS = ["a", "black", "a-b", "a.b", "x.tar", "trail", "A", "17", "_x", "a b", "q'uo", "é", "日本", "a--b", "a_b", "n17", "Z9-z.q_"]
EXTS = ["css", "js", "txt", "PNG", "gz", "", "b-c", "ü", "woff2", "x_y"]
DIRS = ["", "", "st/", "a/b/c/", "x.d/", "é/"]

def py_ident(name):
    """independent restatement of the identifier derivation (for generators: distinct identifiers)"""
    if isinstance(name, bytes): name = name.decode()
    r = "".join(c if c.isalnum() else "_" for c in name)
    if r == "" or r[0] in "0123456789": r = "n" + r
    return r
def hashed_ident(path):
    sn = split_name(path)
    return None if sn is None else py_ident(sn[0].decode() + "_" + sn[1].decode())

def finish_checks(chk, proof, info, disagree, oracle_fail, n_cases, stage="statics"):
    chk.notes["disagreements_model_vs_impl"] = len(disagree)
    chk.notes["oracle_failures"] = len(oracle_fail)
    if oracle_fail:
        oracle_fail.sort(key=lambda x: len(str(x[0])))
        h, why, extra = oracle_fail[0]
        chk.violation(why, dict(stage=stage, history=[[str(x) if not isinstance(x, bytes) else x.hex() for x in op] for op in h] if isinstance(h, list) else str(h),
                                impl_line=impl_line(h) if isinstance(h, list) else None, detail=extra,
                                replay_cmd=("echo '%s' | %s capture statics" % (impl_line(h), HARNESS)) if isinstance(h, list) and len(impl_line(h)) < 100000 else None))
    elif disagree:
        disagree.sort(key=lambda x: len(str(x[0])))
        h, field, a, m = disagree[0]
        chk.violation("correspondence Model/Static.v <-> src/staticfiles.rs broken on %s (no input violating the property found among %d cases)" % (field, n_cases),
                      dict(stage=stage, history=[[str(x) if not isinstance(x, bytes) else x.hex() for x in op] for op in h], field=field, impl=a, model=m,
                           broken="correspondence statics/" + field, theorems=[t["name"] for t in proof["theorems"]]), failing_input_found=False)
    if not proof["ok"] and not chk.violations:
        chk.violation(proof_violation(chk, proof), dict(stage="proof", broken=proof.get("broken_at"), problems=proof["problems"], log=proof["log"][-1500:]), failing_input_found=False)
    return chk.finish(proof, info)

# ------------------------------------------------------------------------------------------ C07
def run_c07(pid, tier):
    chk = Check(pid, tier); rng = chk.rng
    info = ensure_all()
    proof = proof_step(pid, thorough=(tier == "thorough"))
    sizes = [0, 1, 2, 3, 5, 6, 7, 55, 56, 57, 63, 64, 65, 119, 120, 121, 127, 128, 129, 1000]
    hist = []
    # (1) every size class x entry point x directory
    for n in sizes + [rng.randint(130, 8192) for _ in range(12 if tier == "quick" else 60)]:
        for k in "FD":
            stem = rng.choice(STEMS); ext = rng.choice(EXTS); d = rng.choice(DIRS)
            hist.append([(k, d + stem + "." + ext, rand_bytes(rng, n))])
    # (2) the same files in different orders, directories and entry points (names must agree)
    groups = []
    for _ in range(40 if tier == "quick" else 300):
        files = []; seen = set()
        for _ in range(rng.randint(2, 5)):
            nm = rng.choice(STEMS) + "." + rng.choice(EXTS)
            if hashed_ident(nm) in seen: continue
            seen.add(hashed_ident(nm))
            files.append((nm, rand_bytes(rng, rng.choice([0, 1, 17, 64, 300]))))
        variants = []
        for _ in range(3):
            fs = files[:]; rng.shuffle(fs)
            variants.append([(rng.choice("FD"), rng.choice(DIRS) + n, c) for n, c in fs])
        groups.append((len(hist), len(variants))); hist += variants
    # (3) single-byte perturbations at first / last / interior offsets
    pert = []
    for n in [1, 2, 64, 65, 4096] + ([] if tier == "quick" else [8192, 20000]):
        c = rand_bytes(rng, n, "rand")
        offs = sorted(set([0, n - 1, n // 2, rng.randrange(n)]))
        ops = [("D", "p%d.bin" % i, c[:o] + bytes([c[o] ^ (1 << rng.randrange(8))]) + c[o+1:]) for i, o in enumerate(offs)]
        pert.append(len(hist)); hist.append([("D", "orig.bin", c)] + ops)
    rs = run_histories(hist)
    disagree = []; oracle_fail = []
    size_hist = {}
    for h, r in zip(hist, rs):
        a, m = r["impl"], r["model"]
        tot = sum(len(op[-1]) for op in h)
        b = "<=64" if tot <= 64 else "<=1K" if tot <= 1024 else ">1K"
        size_hist[b] = size_hist.get(b, 0) + 1
        chk.count(impl_line(h).encode(), tot > 0)
        if a.get("names") != m.get("names"):
            disagree.append((h, "names", a.get("names"), m.get("names")))
        # oracle: every hashed add is published under stem-<slug>.ext
        got = dict(parse_names(a.get("names")))
        vals = set(got.values())
        for op in h:
            sn = split_name(op[1])
            if sn is None: continue
            want = sn[0] + b"-" + py_slug(op[2]) + b"." + sn[1]
            if want not in vals:
                oracle_fail.append((h, "url name of %r is not <stem>-<b64url(md5[..6])>.<ext>: expected %r among %r" % (op[1], want, sorted(vals)), None))
                break
    for start, n in groups:
        sets = [sorted(parse_names(rs[start + i]["impl"].get("names"))) for i in range(n)]
        if any(s != sets[0] for s in sets):
            oracle_fail.append((hist[start + 1], "same files added in another order / directory / entry point got different names", None))
    for i in pert:
        vals = [v for _, v in parse_names(rs[i]["impl"].get("names"))]
        if len(set(vals)) != len(vals):
            oracle_fail.append((hist[i], "a single-byte change of the content did not change the name", None))
    n_cases = len(hist)
    # (4) thorough: several-MB contents, implementation against hashlib only
    if tier == "thorough":
        big = []
        for n in [1 << 20, (1 << 22) + 3, 8 << 20]:
            c = os.urandom(n)
            big.append([("D", "big.bin", c), ("D", "big2.bin", c[:-1] + bytes([c[-1] ^ 1])), ("D", "big3.bin", bytes([c[0] ^ 128]) + c[1:])])
        header = get_header(HARNESS)
        outs = [parse_fields(l) for l in run_capture(HARNESS, "statics", [impl_line(h) for h in big], shards=3)]
        for h, a in zip(big, outs):
            chk.count(b"big%d" % len(h[0][2]), True)
            vals = set(v for _, v in parse_names(a.get("names")))
            for op in h:
                sn = split_name(op[1]); want = sn[0] + b"-" + py_slug(op[2]) + b"." + sn[1]
                if want not in vals:
                    oracle_fail.append(("large content %d bytes" % len(op[2]), "url name of a %d-byte file differs from md5/base64 oracle" % len(op[2]), None))
        n_cases += len(big)
    for h in hist[:2] + hist[groups[0][0]:groups[0][0] + 1]:
        chk.sample(dict(ops=[(op[0], op[1], len(op[-1])) for op in h]))
    chk.cov["rule"] = ("add_file / add_file_data histories: content sizes %s and random to 8 KiB (thorough: 1-8 MiB on the implementation vs hashlib), zero/0xff/random/ascii fillings; "
                       "names from stems %s x extensions; same file sets in 3 orders/directories/entry points; single-byte flips at first/last/interior offsets. "
                       "non-trivial = non-empty content; distinct by op list") % (sizes, STEMS[:8])
    chk.notes["size_histogram"] = size_hist
    chk.assumptions += ["md5 0.7 / base64 0.22 crates: modelled (own MD5 and base64 in Coq), tied by correspondence and by the hashlib oracle",
                        "collision resistance of the 48-bit MD5 prefix is not claimed (name_changes_partial)"]
    return finish_checks(chk, proof, info, disagree, oracle_fail, n_cases)
