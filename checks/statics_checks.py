"""C07, C08, C09, C16, C20: proof step + correspondence of Model/Static.v with StaticFiles +
impl-side oracles."""
import hashlib, base64, re, os, subprocess, tempfile, shutil
from vlib import *
from statics_lib import *

def py_slug(data):
    return base64.urlsafe_b64encode(hashlib.md5(data).digest()[:6]).rstrip(b"=")

def split_name(path):
    """independent restatement of name_and_ext for plain paths"""
    if isinstance(path, str): path = path.encode()
    f = path.rsplit(b"/", 1)[-1]
    if b"." not in f: return None
    stem, ext = f.rsplit(b".", 1)
    if stem == b"": return None
    return stem, ext

def rand_bytes(rng, n, kind=None):
    kind = kind or rng.choice(["rand", "rand", "zero", "ff", "ascii", "lowent", "text", "crlf"])
    if kind == "text": return bytes(rng.choice(b"abc {};:\n\n\t") for _ in range(n))
    if kind == "crlf":
        out = bytearray()
        while len(out) < n: out += bytes(rng.choice(b"abcxyz{}: ") for _ in range(rng.randint(0, 12))) + rng.choice([b"\r\n", b"\r\n", b"\n", b"\r"])
        return bytes(out[:n])
    if kind == "zero": return bytes(n)
    if kind == "ff": return b"\xff" * n
    if kind == "ascii": return bytes(rng.choice(b"abc xyz\n<>&\"'\\{}") for _ in range(n))
    if kind == "lowent": return bytes(rng.choice(b"\x00\x01\x80") for _ in range(n))
    return bytes(rng.getrandbits(8) for _ in range(n))

STEMS = ["a", "black", "a-b", "a.b", "x.tar", "trail", "A", "17", "_x", "a b", "q'uo", "é", "日本", "a--b", "a_b", "n17", "Z9-z.q_", "v2.", "notes..", "css", "a.css", "js.", ".hid"]
EXTS = ["css", "js", "txt", "PNG", "gz", "", "b-c", "ü", "woff2", "x_y"]
DIRS = ["", "", "st/", "a/b/c/", "x.d/", "é/"]

def py_ident(name):
    """independent restatement of the identifier derivation (for generators: distinct identifiers)"""
    if isinstance(name, bytes): name = name.decode()
    r = "".join(c if c.isalnum() else "_" for c in name)
    if r == "" or r[0] in "0123456789": r = "n" + r
    return r
def hashed_ident(path):
    sn = split_name(path)
    return None if sn is None else py_ident(sn[0].decode() + "_" + sn[1].decode())

def finish_checks(chk, proof, info, disagree, oracle_fail, n_cases, stage="statics"):
    import statics_lib
    if statics_lib.HEADER_PROBLEM:
        oracle_fail.append(([], "a StaticFiles object to which nothing is added does not leave a complete statics module (an empty STATICS): " + statics_lib.HEADER_PROBLEM[0][:200], None))
    chk.notes["disagreements_model_vs_impl"] = len(disagree)
    chk.notes["oracle_failures"] = len(oracle_fail)
    if oracle_fail:
        oracle_fail.sort(key=lambda x: len(str(x[0])))
        h, why, extra = oracle_fail[0]
        chk.violation(why, dict(stage=stage, history=[[str(x) if not isinstance(x, bytes) else x.hex() for x in op] for op in h] if isinstance(h, list) else str(h),
                                impl_line=impl_line(h) if isinstance(h, list) else None, detail=extra,
                                replay_cmd=("echo '%s' | %s capture statics" % (impl_line(h), HARNESS)) if isinstance(h, list) and len(impl_line(h)) < 100000 else None))
    elif disagree:
        disagree.sort(key=lambda x: len(str(x[0])))
        h, field, a, m = disagree[0]
        chk.violation("correspondence Model/Static.v <-> src/staticfiles.rs broken on %s (no input violating the property found among %d cases)" % (field, n_cases),
                      dict(stage=stage, history=[[str(x) if not isinstance(x, bytes) else x.hex() for x in op] for op in h], field=field, impl=a, model=m,
                           broken="correspondence statics/" + field, theorems=[t["name"] for t in proof["theorems"]]), failing_input_found=False)
    if not proof["ok"] and not chk.violations:
        chk.violation(proof_violation(chk, proof), dict(stage="proof", broken=proof.get("broken_at"), problems=proof["problems"], log=proof["log"][-1500:]), failing_input_found=False)
    return chk.finish(proof, info)

# ------------------------------------------------------------------------------------------ C07
def run_c07(pid, tier):
    chk = Check(pid, tier); rng = chk.rng
    info = ensure_all()
    proof = proof_step(pid, thorough=(tier == "thorough"))
    sizes = [0, 1, 2, 3, 5, 6, 7, 55, 56, 57, 63, 64, 65, 119, 120, 121, 127, 128, 129, 1000]
    hist = []
    # (1) every size class x entry point x directory
    for n in sizes + [rng.randint(130, 8192) for _ in range(12 if tier == "quick" else 60)]:
        for k in "FD":
            stem = rng.choice(STEMS); ext = rng.choice(EXTS); d = rng.choice(DIRS)
            hist.append([(k, d + stem + "." + ext, rand_bytes(rng, n))])
    # (1a) stems that look as if they carried a hash or a version already (a dash followed by eight word characters, ...)
    for stem in ["app-minified", "site-combined", "hero-1920x108", "icons-20240131", "x-abcdefgh", "a-b-_9abcdEF", "lib-1_2_3_45", "font-awesome", "app-minified2", "q-1234567", "-12345678", "a-AAAAAAAA"]:
        for k in "FD":
            hist.append([(k, rng.choice(DIRS) + stem + "." + rng.choice(["js", "css", "png"]), rand_bytes(rng, rng.choice([0, 3, 40])))])
        hist.append([("A", "src/" + stem + ".js", "to/" + stem + ".js", b"as")])
    # (1b) text-like extensions x line-ending styles (normalising content before hashing would show here)
    for ext in ["css", "js", "svg", "txt", "html", "htm", "json", "xml", "csv", "map", "md", "scss", "CSS", "png", "bin"]:
        for body in [b"a{b:c}\r\nd{e:f}\r\n", b"x\ry\rz", b"x\ny\n", b"\r\n", b"\xef\xbb\xbfbom\r\n", b"tab\there  \r\n  trailing  \r\n"]:
            k = rng.choice("FD")
            hist.append([(k, rng.choice(DIRS) + "t." + ext, body), ("D" if k == "F" else "F", "u/v." + ext, body.replace(b"\r\n", b"\n"))])
    # (1c) sizes around 64 KiB through both entry points (streaming / buffered reads change behaviour there)
    for n in [65535, 65536, 65537] + ([70000] if tier == "quick" else [131072, 200000]):
        c = rand_bytes(rng, n, "rand")
        hist.append([("F", "big%d.bin" % n, c)]); hist.append([("D", "dbig%d.bin" % n, c)])
    # (2) the same files in different orders, directories and entry points (names must agree)
    groups = []
    for _ in range(40 if tier == "quick" else 300):
        files = []; seen = set()
        for _ in range(rng.randint(2, 5)):
            nm = rng.choice(STEMS) + "." + rng.choice(EXTS)
            if hashed_ident(nm) in seen: continue
            seen.add(hashed_ident(nm))
            files.append((nm, rand_bytes(rng, rng.choice([0, 1, 17, 64, 300]))))
        variants = []
        for _ in range(3):
            fs = files[:]; rng.shuffle(fs)
            variants.append([(rng.choice("FD"), rng.choice(DIRS) + n, c) for n, c in fs])
        groups.append((len(hist), len(variants))); hist += variants
    # (3) single-byte perturbations at first / last / interior offsets
    pert = []
    for n in [1, 2, 64, 65, 4096] + ([] if tier == "quick" else [8192, 20000]):
        c = rand_bytes(rng, n, "rand")
        offs = sorted(set([0, n - 1, n // 2, rng.randrange(n)]))
        ops = [("D", "p%d.bin" % i, c[:o] + bytes([c[o] ^ (1 << rng.randrange(8))]) + c[o+1:]) for i, o in enumerate(offs)]
        pert.append(len(hist)); hist.append([("D", "orig.bin", c)] + ops)
    rs = run_histories(hist)
    disagree = []; oracle_fail = []
    size_hist = {}
    for h, r in zip(hist, rs):
        a, m = r["impl"], r["model"]
        tot = sum(len(op[-1]) for op in h)
        b = "<=64" if tot <= 64 else "<=1K" if tot <= 1024 else ">1K"
        size_hist[b] = size_hist.get(b, 0) + 1
        chk.count(impl_line(h).encode(), tot > 0)
        if a.get("names") != m.get("names"):
            disagree.append((h, "names", a.get("names"), m.get("names")))
        # oracle: every hashed add is published under stem-<slug>.ext
        got = dict(parse_names(a.get("names")))
        vals = set(got.values())
        for op in h:
            if op[0] == "A":
                if op[2].encode() not in vals:
                    oracle_fail.append((h, "add_file_as(%r, %r) is not published under the given name: %r" % (op[1], op[2], sorted(vals)), None)); break
                continue
            sn = split_name(op[1])
            if sn is None: continue
            want = sn[0] + b"-" + py_slug(op[2]) + b"." + sn[1]
            if want not in vals:
                oracle_fail.append((h, "url name of %r is not <stem>-<b64url(md5[..6])>.<ext>: expected %r among %r" % (op[1], want, sorted(vals)), None))
                break
    for start, n in groups:
        sets = [sorted(parse_names(rs[start + i]["impl"].get("names"))) for i in range(n)]
        if any(s != sets[0] for s in sets):
            oracle_fail.append((hist[start + 1], "same files added in another order / directory / entry point got different names", None))
    for i in pert:
        vals = [v for _, v in parse_names(rs[i]["impl"].get("names"))]
        if len(set(vals)) != len(vals):
            oracle_fail.append((hist[i], "a single-byte change of the content did not change the name", None))
    n_cases = len(hist)
    # (3b) files without an extension are skipped silently: they must leave no trace in the names of the files added after them
    special = [[("F", "d/README", b"read me first"), ("F", "d/a.css", b"a{}")], [("F", "d/.gitignore", b"target\n"), ("F", "d/b.js", b"b"), ("F", "d/Makefile", b"all:"), ("F", "d/c.png", b"")],
               [("F", "LICENSE", b"MIT" * 50), ("D", "x.css", b"x"), ("F", "q/c.png", b"png")], [("F", "big/NOTICE", rand_bytes(rng, 5000, "rand")), ("F", "big/s.css", b"s"), ("F", "big/t.css", rand_bytes(rng, 6000, "rand"))]]
    for h, r in zip(special, run_histories(special)):
        a, m = r["impl"], r["model"]
        chk.count(impl_line(h).encode(), True)
        if a.get("names") != m.get("names"): disagree.append((h, "names", a.get("names"), m.get("names")))
        vals = sorted(v for _, v in parse_names(a.get("names")))
        want = sorted(split_name(op[1])[0] + b"-" + py_slug(op[2]) + b"." + split_name(op[1])[1] for op in h if split_name(op[1]))
        if vals != want:
            oracle_fail.append((h, "files added after one without an extension are published as %r, expected %r" % (vals, want), None))
    n_cases += len(special)
    # (3c) two hashed additions whose names map to the same identifier (the module would not compile, but every name is still <stem>-<hash>.<ext>)
    coll = [[("F", "a/site-v2.css", b"one"), ("F", "b/site_v2.css", b"two")], [("F", "x/logo.png", b"p1"), ("F", "y/logo.png", b"p2"), ("D", "logo.png", b"p3")],
            [("D", "dup.js", b"d"), ("D", "dup.js", b"d")], [("D", "a b.txt", b"1"), ("F", "q/a-b.txt", b"2"), ("F", "r/a.b.txt", b"3")]]
    for h, r in zip(coll, run_histories(coll)):
        a, m = r["impl"], r["model"]
        chk.count(impl_line(h).encode(), True)
        if a.get("statics") != m.get("statics"): disagree.append((h, "statics.rs", "", ""))
        got = re.findall(rb'\n  name: "((?:[^"\\]|\\.)*)",', unhexs(a.get("statics", "-")))
        want = [split_name(op[1])[0] + b"-" + py_slug(op[2]) + b"." + split_name(op[1])[1] for op in h]
        if got != want:
            oracle_fail.append((h, "files whose names map to one identifier are published as %r, expected %r" % (got, want), None))
    n_cases += len(coll)
    # (4) large contents, implementation against hashlib only (the model's MD5 runs at ~40 KB/s)
    if True:
        big = []
        for n in ([300000] if tier == "quick" else [1 << 20, (1 << 22) + 3, 8 << 20]):
            c = os.urandom(n)
            big.append([("D", "big.bin", c), ("F", "fbig2.bin", c[:-1] + bytes([c[-1] ^ 1])), ("F", "d/fbig3.bin", bytes([c[0] ^ 128]) + c[1:]), ("F", "e/same.bin", c)])
        header = get_header(HARNESS)
        outs = [parse_fields(l) for l in run_capture(HARNESS, "statics", [impl_line(h) for h in big], shards=3)]
        for h, a in zip(big, outs):
            chk.count(b"big%d" % len(h[0][2]), True)
            vals = set(v for _, v in parse_names(a.get("names")))
            for op in h:
                sn = split_name(op[1]); want = sn[0] + b"-" + py_slug(op[2]) + b"." + sn[1]
                if want not in vals:
                    oracle_fail.append(("large content %d bytes" % len(op[2]), "url name of a %d-byte file differs from md5/base64 oracle" % len(op[2]), None))
        n_cases += len(big)
    # (5) the same OUT_DIR over several runs: content replaced by other bytes of the same length with the same
    #     modification time (cp -p, rsync -t, an edit within the same second), and restored again
    import build_lib
    scen = []; wants = []
    for _ in range(12 if tier == "quick" else 80):
        nm = rng.choice(["a.css", "img/l.png", "x-1.js"]); n0 = rng.choice([1, 8, 64, 300])
        c1 = rand_bytes(rng, n0, "rand") or b"x"; c2 = bytes([c1[0] ^ 1]) + c1[1:]
        prog = [('s',), ('g', 'st')] + ([('g', 'st/img')] if nm.startswith("img/") else [])
        scen.append([('W', 'st/' + nm, c1), ('W', 'st/keep.txt', b'k'), ('R', prog), ('T', 'st/' + nm, c2), ('R', prog), ('Z',), ('R', prog), ('T', 'st/' + nm, c1), ('R', prog)])
        wants.append((nm, [c1, c2, c2, c1]))
    for (nm, cs), r in zip(wants, build_lib.run_scenarios(scen)):
        runs = [x for x in r["runs"] if x["kind"] == "R"]
        chk.count(("persist " + nm).encode() + cs[0], True)
        sn = split_name(nm.rsplit("/", 1)[-1])
        for k, (run, c) in enumerate(zip(runs, cs)):
            st = (run["after"].get(b"templates/statics.rs") or (b"", ""))[0] or b""
            want = sn[0] + b"-" + py_slug(c) + b"." + sn[1]
            if run["status"] != "ok" or (b'name: "' + want + b'"') not in st:
                oracle_fail.append(("run %d of 4 on one OUT_DIR, %s rewritten with %d other bytes of the same length and modification time" % (k + 1, nm, len(c)),
                                    "after the content changed (same length, same mtime) the published name is not the hash of the current content: expected %r" % want, None)); break
            if "model" in run and run["model"].get("fs", {}).get(b"templates/statics.rs") not in (None, st):
                disagree.append(("persistent OUT_DIR " + nm, "statics.rs on run %d" % (k + 1), st[-300:], b""))
    n_cases += len(scen)
    # (6) how the file is stored does not matter: a symbolic link to a file of another name, a path through a linked directory,
    #     a path with `..` after a linked directory (the OS resolves it through the link's target) -- implementation against the statement
    scen = []; wants = []
    for k, size in [(k0, n0) for k0 in ("link", "linkdir", "dotdot") for n0 in ([1, 400, 70000] if tier == "quick" else [0, 1, 28, 29, 30, 400, 70000, 300000])]:
        c = rand_bytes(rng, size, "rand"); other = c + b"?"
        if k == "link":
            steps = [('W', 'real/pkg-1.2/style.min.css', c), ('M', 'st'), ('Y', 'st/current.css', '../real/pkg-1.2/style.min.css')]; path = 'st/current.css'
        elif k == "linkdir":
            steps = [('W', 'real/theme/logo.svg', c), ('M', 'st'), ('Y', 'st/active', '../real/theme')]; path = 'st/active/logo.svg'
        else:
            # st/theme -> ../themes/dark : st/theme/../logo.svg is themes/logo.svg, not st/logo.svg
            steps = [('W', 'themes/dark/x.txt', b'd'), ('W', 'themes/logo.svg', c), ('W', 'st/logo.svg', other), ('Y', 'st/theme', '../themes/dark')]; path = 'st/theme/../logo.svg'
        for entry in ('f', 'a'):
            prog = [('s',), ('f', path)] if entry == 'f' else [('s',), ('a', path, 'pub/' + path.rsplit('/', 1)[-1])]
            scen.append(steps + [('R', prog)]); wants.append((k, entry, path, c))
    for (k, entry, path, c), r in zip(wants, build_lib.run_scenarios(scen)):
        run = [x for x in r["runs"] if x["kind"] == "R"][0]
        chk.count(("stored %s %s" % (k, entry)).encode() + c, True)
        st = (run["after"].get(b"templates/statics.rs") or (b"", ""))[0] or b""
        sn = split_name(path.rsplit("/", 1)[-1])
        want = (sn[0] + b"-" + py_slug(c) + b"." + sn[1]) if entry == 'f' else ("pub/" + path.rsplit('/', 1)[-1]).encode()
        if run["status"] != "ok" or (b'name: "' + want + b'"') not in st:
            oracle_fail.append(("%s of %s (%s)" % ("add_file" if entry == 'f' else "add_file_as", path, {"link": "a symbolic link to a file of another name", "linkdir": "a path through a linked directory", "dotdot": "`..` after a linked directory"}[k]),
                                "the file is not published as %r (name from the path it was added under, hash of the bytes the OS reads there)" % want, st[-400:].decode("latin1")))
    n_cases += len(scen)
    for h in hist[:2] + hist[groups[0][0]:groups[0][0] + 1]:
        chk.sample(dict(ops=[(op[0], op[1], len(op[-1])) for op in h]))
    chk.cov["rule"] = ("add_file / add_file_data histories: content sizes %s and random to 8 KiB (thorough: 1-8 MiB on the implementation vs hashlib), zero/0xff/random/ascii fillings; "
                       "names from stems %s x extensions; same file sets in 3 orders/directories/entry points; single-byte flips at first/last/interior offsets; stems that look hashed or versioned already; "
                       "four runs into one OUT_DIR with the content replaced by other bytes of the same length and modification time and restored again; files reached through symbolic links (to a file of another name, through a linked directory, `..` after a linked directory). "
                       "non-trivial = non-empty content; distinct by op list") % (sizes, STEMS[:8])
    chk.notes["size_histogram"] = size_hist
    chk.assumptions += ["md5 0.7 / base64 0.22 crates: modelled (own MD5 and base64 in Coq), tied by correspondence and by the hashlib oracle",
                        "collision resistance of the 48-bit MD5 prefix is not claimed (name_changes_partial)"]
    return finish_checks(chk, proof, info, disagree, oracle_fail, n_cases)

# ------------------------------------------------------------------------------------------ shared generators
PUNCT = "!#$%&'()+,-.;=@[]^_`{}~ \"\\"
def ascii_name(rng, allow_slash=False):
    n = rng.randint(1, 6)
    s = "".join(rng.choice("abXY09_" + PUNCT * 2) for _ in range(n))
    s = s.replace("/", "")
    if s in (".", ".."): s = "d" + s
    return s
def file_name(rng):
    """a final path component with an extension (may contain several dots, trailing dot, odd punctuation)"""
    while True:
        stem = rng.choice(STEMS + [ascii_name(rng), ascii_name(rng), "9" + ascii_name(rng), "_" + ascii_name(rng)])
        ext = rng.choice(EXTS + [ascii_name(rng).replace(".", ""), "css", "js"])
        f = stem + "." + ext
        if "/" in f or "\0" in f or split_name(f) is None or len(f.encode()) > 200: continue
        return f

def distinct_history(rng, nfiles, kinds="FAD", name_pool=None, unicode_ok=True):
    """ops with pairwise distinct derived identifiers and url names"""
    h = []; ids = set(); urls = set()
    tries = 0
    while len(h) < nfiles and tries < 200:
        tries += 1
        k = rng.choice(kinds)
        f = rng.choice(name_pool) if name_pool else file_name(rng)
        if not unicode_ok and not f.isascii(): continue
        c = rand_bytes(rng, rng.choice([0, 1, 2, 5, 20, 64, 300]))
        d = rng.choice(DIRS)
        if k == "A":
            url = rng.choice(["to/", "to/", "to/sub/", "v1.2/"]) + (rng.choice(name_pool) if name_pool else file_name(rng))
            if not unicode_ok and not url.isascii(): continue
            ident = py_ident(url); u = url.encode()
            op = ("A", d + f, url, c)
        else:
            sn = split_name(f); ident = hashed_ident(f)
            u = sn[0] + b"-" + py_slug(c) + b"." + sn[1]
            op = (k, d + f, c)
        # the file written for F/A must not collide with a directory/file used earlier in the case
        if ident in ids or u in urls: continue
        if k in "FA" and any(o[0] in "FA" and (o[1] == op[1] or o[1].startswith(op[1] + "/") or op[1].startswith(o[1] + "/")) for o in h): continue
        ids.add(ident); urls.add(u); h.append(op)
    return h

def published_urls(h):
    out = []
    for op in h:
        if op[0] == "A": out.append(op[2].encode())
        else:
            sn = split_name(op[1]); out.append(sn[0] + b"-" + py_slug(op[2]) + b"." + sn[1])
    return out

# ------------------------------------------------------------------------------------------ C08
def run_c08(pid, tier):
    chk = Check(pid, tier); rng = chk.rng
    info = ensure_all()
    proof = proof_step(pid, thorough=(tier == "thorough"))
    hist = []
    # every byte value alone and all together, through data and through files
    hist.append([("D", "all.bin", bytes(range(256)))])
    hist.append([("F", "all.bin", bytes(range(256)))])
    for v in range(0, 256, 1 if tier == "thorough" else 5):
        hist.append([("D", "b%d.bin" % v, bytes([v])), ("D", "c%d.bin" % v, bytes([v, v ^ 0x5c, 0x22, v]))])
    for n in [0, 1, 2, 3, 100, 4096]:
        hist.append([("D", "len%d.x" % n, rand_bytes(rng, n, "rand")), ("F", "f/len%d.y" % n, rand_bytes(rng, n, "ascii"))])
    # long runs of one byte (chunking / line-continuation / wrapping bugs depend on offsets) and a mixed long text
    for v in [32, 9, 10, 13, 34, 92, 0, 255, 39, 123]:
        hist.append([("D", "run%d.bin" % v, bytes([v]) * 5000), ("F", "f/run%d.bin" % v, bytes([v]) * 2100)])
    hist.append([("D", "mixed.txt", (b" a\tb \n" * 900))])
    # data beyond 16 / 32 / 64 KiB: long literals get wrapped or chunked there; blanks and escapes at the chunk marks
    for v in [32, 9, 10, 92, 34] if tier == "quick" else [32, 9, 10, 13, 92, 34, 0, 255]:
        hist.append([("D", "wide%d.bin" % v, bytes([v]) * (40000 if tier == "quick" else 70000))])
    for mark in [1024, 4096, 8192, 16384, 32768] + ([] if tier == "quick" else [65536]):
        hist.append([("D", "mark%d.css" % mark, b"x" * (mark - 1) + b"   \t \\ \n" + b"y" * 100 + b" " * 3)])
    # names with every ordered pair from a set of characters that matter to Rust literal syntax
    PAIRCH = '"#\\\'{}$r()\n'
    for c1 in PAIRCH:
        for c2 in PAIRCH:
            nm = "p%s%sq.t" % (c1, c2)
            hist.append([("D", nm, b"d"), ("A", "src/y.js", "to/" + nm, b"a")])
            # ... and in the path of a file read from disk (the include_bytes! argument)
            hist.append([("F", "d" + c1 + c2 + "/" + nm, b"f"), ("A", "e" + c1 + c2 + ".q", "to/e.q", b"g")])
    # names: every printable ASCII punctuation character in file names and url names; sampled non-ASCII
    for ch in PUNCT:
        if ch == "/": continue
        nm = "a%sb.t%sx" % (ch, ch if ch not in "./" else "")
        hist.append([("D", nm, b"d"), ("F", "dir/" + "n" + nm, b"f"), ("A", "src/x.js", "to/" + nm, b"a")])
        hist = [h for h in hist if len(set(py_ident(op[2]) if op[0] == "A" else hashed_ident(op[1]) for op in h)) == len(h)]
    for nm in ["é.css", "a\u200bb.txt", "x\u0300.png", "\U0001F600.js", "日本.語", "a\tb.c", "a\nb.c", "tab\x7f.x", "q\"uo.txt", "d\\q.bin", "{x}.{y}", "\ufeffbom.a"]:
        hist.append([("D", nm, b"1"), ("A", "p/" + nm, "to/" + nm, b"2"), ("F", "z/" + "f" + nm, b"3")])
    # names, paths and contents holding the placeholders of a format / replace based generator ({name}, {mime}, {content}, {path}, {rust_name}, {}, {0}, {{, }})
    for k, ph in enumerate(["{name}", "{mime}", "{content}", "{path}", "{rust_name}", "{url_name}", "{}", "{0}", "{{", "}}", "{suffix}"]):
        hist.append([("D", "by-%s.t" % ph, ("data " + ph + " end").encode()), ("A", "src/x%d.js" % k, "lib/%s/tpl.js" % ph, b"a"), ("F", "d%s/x%sy.txt" % (ph, ph), ph.encode())])
    for _ in range(60 if tier == "quick" else 600):
        hist.append(distinct_history(rng, rng.randint(1, 5)))
    # names of one shape that differ only in their non-ASCII letters: distinct items, distinct identifiers
    for pair in [["图片.png", "照片.png"], ["å.css", "ä.css", "ö.css"], ["naïve.txt", "naive.txt", "na_ve.txt"]]:
        hist.append([("D", n, n.encode()) for n in pair]); hist.append([("F", "u/" + n, n.encode()) for n in pair])
    rs = run_histories(hist)
    disagree = []; oracle_fail = []
    for h, r in zip(hist, rs):
        a, m = r["impl"], r["model"]
        chk.count(impl_line(h).encode(), True)
        if a.get("statics") != m.get("statics"):
            ai = items_of(unhexs(a.get("statics", "-")))[1]; mi = items_of(unhexs(m.get("statics", "-")))[1]
            k = next((i for i in range(max(len(ai), len(mi))) if i >= len(ai) or i >= len(mi) or ai[i] != mi[i]), 0)
            disagree.append((h, "item text", (ai[k] if k < len(ai) else b"").decode("latin1"), (mi[k] if k < len(mi) else b"").decode("latin1")))
    # the model as the theorems see it (vm_compute inside Coq) against the model as the correspondence runs it (extracted OCaml)
    small = [r["model_line"] for h, r in zip(hist, rs) if all(op[0] in "FAD" for op in h) and sum(len(op[-1]) for op in h) <= 200 and len(impl_line(h)) < 1500]
    nx, xbad = statics_crosscheck(rng.sample(small, min(len(small), 30 if tier == "quick" else 200)))
    chk.notes["extraction_crosscheck"] = "%d histories evaluated by vm_compute inside Coq and by the extracted driver: %s" % (nx, "equal" if not xbad else xbad[0])
    if xbad: disagree.append((hist[0], "EXTRACTION (Extract.v / ocaml/driver.ml vs vm_compute): " + xbad[0], "", ""))
    # oracle: compile what was generated and read content/name back
    B = 80
    for s in range(0, len(hist), B):
        hs = hist[s:s + B]
        res, outs, meta = rustc_statics_batch(hs, None)
        for h, rr, o in zip(hs, res, outs):
            if not rr["ok"]:
                if meta.get("compile_failed") and "not run" in rr["error"]: continue
                oracle_fail.append((h, rr["error"] or "generated statics module did not compile/run", meta.get("stderr", "")[:1500]))
                continue
            got = sorted(rr["entries"])
            want = sorted(zip(published_urls(h), [op[-1] for op in h]))
            # identifier collisions drop entries from STATICS; only fully distinct histories are judged on completeness
            ids = [py_ident(op[2]) if op[0] == "A" else hashed_ident(op[1]) for op in h]
            if len(set(ids)) == len(ids) and len(set(u for u, _ in want)) == len(want):
                if got != want:
                    oracle_fail.append((h, "compiled StaticFile content/name differ from the source bytes / published url name", dict(got=[(n.decode("latin1"), c.hex()[:80]) for n, c in got], want=[(n.decode("latin1"), c.hex()[:80]) for n, c in want])))
    # add_files / add_files_as over directories that mix files and sub-directories (any read_dir order): name = prefix + relative path, content exact
    import build_lib
    scen = []; wants = []
    for _ in range(15 if tier == "quick" else 120):
        files = {}
        for d in ["", "m/", "m/n/", "z/", "0/", "m/n/o/"]:
            if d == "" or rng.random() < 0.7:
                for _ in range(rng.randint(0 if d else 1, 3)):
                    files[d + rng.choice(["a", "b", "inner", "k", "zz", "0", "M"]) + rng.choice([".txt", ".bin", ".css", ""])] = rand_bytes(rng, rng.choice([0, 1, 9, 70]))
        files = {p: c for p, c in files.items() if not any(q != p and (q.startswith(p + "/") or p.startswith(q + "/")) for q in files)}
        to = rng.choice(["assets", "", "v/1", "lib/", "/", "a b"])     # the rule is prefix + "/" + relative path whenever the prefix is not empty, whatever it ends in
        # symbolic links among the entries (neither file nor directory for the walker: skipped, and they must not disturb their neighbours)
        links = [('Y', 'st/' + d + nm, tgt) for d in ["", "m/", "z/"] for nm, tgt in [("latest1.js", "a.txt"), ("Cur2", "m"), ("l3.css", "/nonexistent")] if rng.random() < 0.3]
        scen.append([('W', 'st/' + p, c) for p, c in sorted(files.items(), key=lambda x: rng.random())] + links + [('R', [('s',), ('t', 'st', to)])])
        wants.append((to, files))
    rsb = build_lib.run_scenarios(scen)
    for sc, r in zip(scen, rsb): r["key"] = build_lib.scenario_line(sc)
    for (to, files), r in zip(wants, rsb):
        run = [x for x in r["runs"] if x["kind"] == "R"][0]
        chk.count(r["key"].encode(), True)
        st = (run["after"].get(b"templates/statics.rs") or (b"", ""))[0] or b""
        got = sorted(re.findall(rb'\n  name: "((?:[^"\\]|\\.)*)",', st))
        want = sorted(((to + "/") if to else "").encode() + p.encode() for p in files)
        if run["status"] != "ok" or got != want:
            oracle_fail.append((r["key"], "add_files_as(st, %r) over a tree mixing files and sub-directories publishes %r, expected %r" % (to, got, want), None)); continue
        if "model" in run and run["model"].get("fs", {}).get(b"templates/statics.rs") not in (None, st):
            disagree.append((r["key"], "statics.rs of add_files_as", st[-300:].decode("latin1"), ""))
    # several runs into one OUT_DIR with fewer / shorter statics each time: the module of every run is the module a fresh directory gets
    scen = []
    for _ in range(4 if tier == "quick" else 30):
        fs3 = {"a.css": rand_bytes(rng, 200, "ascii"), "b.js": rand_bytes(rng, 90, "ascii"), "c.txt": b"c"}
        prog = [('s',), ('g', 'st'), ('d', 'inline.bin', rand_bytes(rng, 300, "rand"))]; prog2 = [('s',), ('g', 'st'), ('d', 'inline.bin', b"\x00")]
        w = [('W', 'st/' + n, c) for n, c in fs3.items()]
        scen.append(w + [('R', prog), ('X', 'st/b.js'), ('X', 'st/c.txt'), ('R', prog2)])     # shrinks on the second run
        scen.append([w[0], ('R', prog2)])                                                       # the same final inputs into a fresh directory
    rr = build_lib.run_scenarios(scen)
    for k in range(0, len(rr), 2):
        two = [x for x in rr[k]["runs"] if x["kind"] == "R"]; one = [x for x in rr[k + 1]["runs"] if x["kind"] == "R"]
        chk.count(b"shrink%d" % k, True)
        got = ((two[1]["after"].get(b"templates/statics.rs") or (b"", ""))[0] or b"").replace(rr[k]["base"], b"<BASE>") if len(two) > 1 and two[1]["after"] else b""
        want = ((one[0]["after"].get(b"templates/statics.rs") or (b"", ""))[0] or b"").replace(rr[k + 1]["base"], b"<BASE>") if one and one[0]["after"] else b"?"
        if got != want:
            oracle_fail.append((build_lib.scenario_line(scen[k])[:3000], "after a second run with fewer and shorter statics into the same OUT_DIR the module (%d bytes) is not the one a fresh directory gets (%d bytes)" % (len(got), len(want)),
                                dict(tail=got[-300:].decode("latin1"))))
    # files read from disk through symbolic links: include_bytes! must name a path at which the OS finds the bytes of the path that was added
    scen = []; wants = []
    for k in ["link", "linkdir", "dotdot"] * (2 if tier == "quick" else 10):
        c = rand_bytes(rng, rng.choice([1, 30, 400]), "rand") or b"x"; other = c + b"?"
        if k == "link": steps = [('W', 'real/pkg-1.2/style.min.css', c), ('M', 'st'), ('Y', 'st/current.css', '../real/pkg-1.2/style.min.css')]; path = 'st/current.css'
        elif k == "linkdir": steps = [('W', 'real/theme/logo.svg', c), ('M', 'st'), ('Y', 'st/active', '../real/theme')]; path = 'st/active/logo.svg'
        else: steps = [('W', 'themes/dark/x.txt', b'd'), ('W', 'themes/logo.svg', c), ('W', 'st/logo.svg', other), ('Y', 'st/theme', '../themes/dark')]; path = 'st/theme/../logo.svg'
        entry = rng.choice(['f', 'a'])
        scen.append(steps + [('R', [('s',), ('f', path)] if entry == 'f' else [('s',), ('a', path, 'pub/x.bin')])]); wants.append((k, path, c))
    keep = tempfile.mkdtemp(prefix="c08links-", dir=BUILD)
    try:
        for (k, path, c), r in zip(wants, build_lib.run_scenarios(scen, keep_root=keep)):
            run = [x for x in r["runs"] if x["kind"] == "R"][0]
            chk.count(("link %s " % k).encode() + c, True)
            st = (run["after"].get(b"templates/statics.rs") or (b"", ""))[0] or b""
            m0 = re.search(rb'content: include_bytes!\("((?:[^"\\]|\\.)*)"\)', st)
            try: got = open(m0.group(1).decode(), "rb").read() if m0 else None
            except OSError as e: got = ("unreadable: %s" % e).encode()
            if run["status"] != "ok" or got != c:
                oracle_fail.append(("file added as %s (%s)" % (path, k), "the generated item embeds %r, where the OS finds %r; the path that was added holds %r" % (m0.group(1)[-60:] if m0 else None, (got or b"")[:40], c[:40]), st[-400:].decode("latin1")))
    finally:
        shutil.rmtree(keep, ignore_errors=True)
    for h in hist[:1] + hist[60:62]:
        chk.sample(dict(ops=[(op[0], op[1], op[2] if op[0] == "A" else len(op[2])) for op in h]))
    chk.cov["rule"] = ("contents: all 256 byte values alone / in context / all together, lengths 0..4096; names with every printable ASCII punctuation character, quotes, backslash, "
                       "control characters and sampled non-ASCII (incl. U+200B, U+0300, U+FEFF), also in the directory part of files read from disk; data of 40000 (70000) equal bytes and blanks / escapes "
                       "at the 1-64 KiB marks; entry points add_file, add_file_as, add_file_data, and add_files_as over trees mixing files and sub-directories; files reached through symbolic links (the embedded path must lead to the same bytes); "
                       "each generated statics.rs compared with the model byte for byte AND compiled with rustc, content/name read back. distinct by op list")
    chk.assumptions += ["rustc's literal lexer: modelled in RustLit.v for the theorems, and exercised directly by the compile-and-read-back batches"]
    return finish_checks(chk, proof, info, disagree, oracle_fail, len(hist))

# ------------------------------------------------------------------------------------------ C09
COLLIDERS = ["a.css", "a-b.css", "ab.css", "a.b.css", "a_b.css2", "A.css", "a.CSS", "a1.css", "a.cs", "a.csss", "b-.x", "b.x", "b_.x", "0.x", "9a.x", "Z.x", "z.x", "a-1.css", "aa.css"]
URLS_AS = ["jquery.js", "jquery/plugin.js", "jquery-ui.js", "lib-2.0.js", "lib/core.js", "lib.js", "a/b", "a-b", "a.b", "a/b/c", "a/b-c", "a",
           "LICENSE", "CNAME", "pkg/README", "pkg/README.md", "pkg.d/x", "pkg-d", "A/b", "a/B", "a b", "a!b", "a/", "é/x.js", "é.js"]
def as_history(rng, n):
    urls = rng.sample(URLS_AS, n)
    if len(set(py_ident(u) for u in urls)) < len(urls): return None
    return [("A", "src/f%d.bin" % i, u, bytes([65 + i])) for i, u in enumerate(urls)]

def run_c09(pid, tier):
    import itertools
    chk = Check(pid, tier); rng = chk.rng
    info = ensure_all()
    proof = proof_step(pid, thorough=(tier == "thorough"))
    hist = []; probes = []
    def add(h):
        urls = published_urls(h)
        pr = list(urls)
        for u in urls[:3]:
            pr += [u[:-1], u + b"x", u.swapcase(), u[:-5] + bytes([u[-5] ^ 1]) + u[-4:] if len(u) > 5 else u, u.replace(b"-", b"_", 1)]
        for u in urls[:2]: pr += [b"/" + u, u + b"/", b" " + u, u + b" ", b"./" + u, u + b"\0", u + b"?v=2", u + b"#top", u + b"?", b"?" + u, u + b";x", u + b"%00"]
        pr += [b"", b"a", b"~", b"to/", b"/"]
        hist.append(h); probes.append(pr)
    # all orders of small sets
    for _ in range(6 if tier == "quick" else 40):
        base = distinct_history(rng, rng.randint(2, 4), name_pool=COLLIDERS, unicode_ok=False)
        for perm in itertools.permutations(base):
            add(list(perm))
    for _ in range(60 if tier == "quick" else 500):
        add(distinct_history(rng, rng.randint(0, 9), name_pool=COLLIDERS if rng.random() < 0.6 else None, unicode_ok=False))
    # more files than fit on a line / in a small table: 17, 33, 40 entries
    for cnt in (17, 33, 40):
        add([("D", "f%02d%s.%s" % (k, rng.choice(["", "-x", ".min"]), rng.choice(["css", "js", "png"])), b"%d" % k) for k in rng.sample(range(cnt), cnt)])
    # verbatim url names (add_file_as): path-like names next to siblings with '-' / '.', names without any dot
    for _ in range(60 if tier == "quick" else 400):
        h = as_history(rng, rng.randint(2, 8))
        if h and all(u.isascii() for _, _, u, _ in h):
            if rng.random() < 0.4: h += distinct_history(rng, 2, name_pool=COLLIDERS, unicode_ok=False)
            ids = [py_ident(op[2]) if op[0] == "A" else hashed_ident(op[1]) for op in h]
            if len(set(ids)) == len(ids): add(h)
    # names whose byte length exceeds their character count (letters only, so that the identifiers stay legal), next to ASCII ones
    for names in [["blåbärssoppa.svg", "a.css"], ["日本語のファイル.png", "zz.js", "é.js"], ["ÅÄÖåäö.txt", "Aao.txt"], ["grüße.css", "grusse.css", "x.css"]]:
        for k in "FD":
            add([(k, ("d/" if k == "F" else "") + n, n.encode()) for n in names])
    # one source file published under two names (add_file, then add_file_as of the same path; the other way round)
    for (p, u) in [("k/key.txt", ".well-known/key.txt"), ("st/app.js", "assets/app.js"), ("logo.png", "img/logo.png")]:
        add([("F", p, b"same"), ("A", p, u, b"same")]); add([("A", p, u, b"same"), ("F", p, b"same"), ("D", "zz.bin", b"z")])
    rs = run_histories(hist, probes=[[("G", p) for p in pr] for pr in probes])
    disagree = []; oracle_fail = []
    for h, r in zip(hist, rs):
        a, m = r["impl"], r["model"]
        chk.count(impl_line(h).encode(), len(h) >= 2)
        al = items_of(unhexs(a.get("statics", "-")))[2]; ml = items_of(unhexs(m.get("statics", "-")))[2]
        if al != ml: disagree.append((h, "STATICS line", al.decode("latin1"), ml.decode("latin1")))
    B = 100
    for s in range(0, len(hist), B):
        hs = hist[s:s + B]; ps = probes[s:s + B]
        res, outs, meta = rustc_statics_batch(hs, ps)
        for k, (h, pr, rr) in enumerate(zip(hs, ps, res)):
            if not rr["ok"]:
                if meta.get("compile_failed") and "not run" in rr["error"]: continue
                oracle_fail.append((h, rr["error"] or "generated statics module did not compile/run", meta.get("stderr", "")[:1500])); continue
            names = [n for n, _ in rr["entries"]]
            want = published_urls(h)
            if any(not (x < y) for x, y in zip(names, names[1:])):
                oracle_fail.append((h, "STATICS is not strictly ascending in byte order of name: %r" % names, None)); continue
            if sorted(names) != sorted(want):
                oracle_fail.append((h, "STATICS does not hold each added file exactly once: %r vs added %r" % (names, want), None)); continue
            for p, g in zip(pr, rr["gets"]):
                if (p in want and g != p) or (p not in want and g is not None):
                    oracle_fail.append((h, "StaticFile::get(%r) returned %r" % (p, g), None)); break
            # model's binary search against the compiled one
            mq = rs[s + k]["model"].get("q", "-")
            mg = [None if x == "!" else unhexs(x.split("=")[0]) for x in mq.split(",")] if mq != "-" else []
            if mg != rr["gets"]:
                disagree.append((h, "get() results", str(rr["gets"]), str(mg)))
    # the same OUT_DIR over several runs: files edited (same length and modification time, or not), added and removed between runs;
    # after every run the module lists exactly the files added in that run, each once, in ascending order
    import build_lib
    scen = []; wants = []
    for _ in range(10 if tier == "quick" else 60):
        files = {"a.css": rand_bytes(rng, rng.choice([1, 9, 40]), "rand") or b"a", "b.js": b"bb", "lib-1.2.js": b"l"}
        prog = [('s',), ('g', 'st')]
        steps = [('W', 'st/' + n, c) for n, c in files.items()] + [('R', prog)]; ws = [dict(files)]
        for _ in range(3):
            k = rng.choice(["same_len", "same_len", "grow", "add", "del"])
            if k in ("same_len", "grow") and "a.css" not in files: k = "add"
            if k == "same_len": files["a.css"] = bytes([files["a.css"][0] ^ 1]) + files["a.css"][1:]; steps.append(('T', 'st/a.css', files["a.css"]))
            elif k == "grow": files["a.css"] += b"}"; steps.append(('W', 'st/a.css', files["a.css"]))
            elif k == "add": nm = "n%d.png" % len(steps); files[nm] = b"p"; steps.append(('W', 'st/' + nm, b"p"))
            elif len(files) > 1 and rng.random() < 0.6:
                nm = sorted(files)[-1]; del files[nm]; steps.append(('X', 'st/' + nm))
            else:
                # everything goes: the next run adds nothing at all
                steps += [('X', 'st/' + nm) for nm in files]; files.clear()
            steps += [('Z',), ('R', prog)]; ws.append(dict(files))
        scen.append(steps); wants.append(ws)
    for ws, r in zip(wants, build_lib.run_scenarios(scen)):
        runs = [x for x in r["runs"] if x["kind"] == "R"]
        chk.count(("persist %r" % sorted(ws[-1].items())).encode(), True)
        for k, (run, files) in enumerate(zip(runs, ws)):
            st = (run["after"].get(b"templates/statics.rs") or (b"", ""))[0] or b""
            want = sorted(split_name(n)[0] + b"-" + py_slug(c) + b"." + split_name(n)[1] for n, c in files.items())
            byid = dict(re.findall(rb'pub static (\w+): StaticFile = StaticFile \{\n  content: [^\n]*\n  name: "([^"]*)"', st))
            lm = re.search(rb'pub static STATICS: &\[&StaticFile\] = &\[([^\]]*)\];', st)
            got = [byid.get(x.strip().lstrip(b"&"), b"?" + x) for x in lm.group(1).split(b",")] if lm and lm.group(1).strip() else []
            if run["status"] != "ok" or got != want or len(byid) != len(want):
                oracle_fail.append(("run %d into one OUT_DIR after edits of the static files" % (k + 1),
                                    "the module does not list exactly the files added in this run, once each, ascending: %r, added %r" % (got, want), None)); break
            if "model" in run and run["model"].get("fs", {}).get(b"templates/statics.rs") not in (None, st):
                disagree.append(("persistent OUT_DIR", "statics.rs on run %d" % (k + 1), st[-300:].decode("latin1"), ""))
    # one directory looked at by two calls (add_files and add_files_as; a sub-directory first, then its parent): every call adds its files
    dscen = []; dwant = []
    fs2 = {"a.css": b"aa", "img/l.png": b"ll", "img/deep/d.svg": b"dd"}
    for prog, names in [([('s',), ('g', 'st'), ('t', 'st', 'v1')], ["H:a.css", "v1/a.css", "v1/img/l.png", "v1/img/deep/d.svg"]),
                        ([('s',), ('t', 'st', 'v1'), ('t', 'st', 'v2')], ["v1/a.css", "v1/img/l.png", "v1/img/deep/d.svg", "v2/a.css", "v2/img/l.png", "v2/img/deep/d.svg"]),
                        ([('s',), ('g', 'st/img'), ('t', 'st', 's')], ["H:img/l.png", "s/a.css", "s/img/l.png", "s/img/deep/d.svg"]),
                        ([('s',), ('t', 'st/img', 'i'), ('t', 'st', 'all'), ('g', 'st/img/deep')], ["i/l.png", "i/deep/d.svg", "all/a.css", "all/img/l.png", "all/img/deep/d.svg", "H:img/deep/d.svg"])]:
        dscen.append([('W', 'st/' + n, c) for n, c in fs2.items()] + [('R', prog)]); dwant.append(names)
    for names, sc, r in zip(dwant, dscen, build_lib.run_scenarios(dscen)):
        run = [x for x in r["runs"] if x["kind"] == "R"][0]
        chk.count(build_lib.scenario_line(sc).encode(), True)
        st = (run["after"].get(b"templates/statics.rs") or (b"", ""))[0] or b""
        want = sorted((split_name(n[2:])[0].rsplit(b"/", 1)[-1] + b"-" + py_slug(fs2[n[2:]]) + b"." + split_name(n[2:])[1]) if n.startswith("H:") else n.encode() for n in names)
        got = sorted(re.findall(rb'\n  name: "((?:[^"\\]|\\.)*)",', st))
        if run["status"] != "ok" or got != want:
            oracle_fail.append((build_lib.scenario_line(sc), "one directory looked at by two calls: the module holds %r, the calls add %r" % (got, want), None))
        elif "model" in run and run["model"].get("fs", {}).get(b"templates/statics.rs") not in (None, st):
            disagree.append(([], "statics.rs of two calls over one directory", st[-300:].decode("latin1"), ""))
    for h in hist[:2] + hist[-1:]:
        chk.sample(dict(ops=[(op[0], op[1], op[2] if op[0] == "A" else len(op[2])) for op in h]))
    chk.cov["rule"] = ("file sets with pairwise distinct identifiers and url names drawn from prefix-colliding names %s plus random ones, through add_file / add_file_as / add_file_data in all orders (sets of 2-4) "
                       "and random orders (up to 9); four runs into one OUT_DIR with files edited (same length and mtime too), added and removed in between; each generated module compiled with rustc; probes = every member plus truncations, extensions, case flips, hash neighbours, '-'->'_', empty string. "
                       "non-trivial = at least 2 files; distinct by op list") % COLLIDERS[:8]
    chk.assumptions += ["core::slice::binary_search_by: transcribed in Static.v (bs_loop) and compared with the compiled get() on every probe"]
    return finish_checks(chk, proof, info, disagree, oracle_fail, len(hist))

# ------------------------------------------------------------------------------------------ C16
RUST_KEYWORDS = set("as break const continue crate else enum extern false fn for if impl in let loop match mod move mut pub ref return self Self static struct super trait true type unsafe use where while async await dyn abstract become box do final macro override priv typeof unsized virtual yield try gen".split())
def run_c16(pid, tier):
    chk = Check(pid, tier); rng = chk.rng
    info = ensure_all()
    proof = proof_step(pid, thorough=(tier == "thorough"))
    hist = []
    for ch in [chr(c) for c in range(32, 127) if chr(c) not in "/"]:
        for nm in ["a%sb.c%sd" % (ch, ch if ch != "." else ""), "%sx.y" % ch if ch != "." else "x.y", "x%s.y" % ch, "9%s.7z" % ch]:
            if split_name(nm) is None: continue
            h = [("D", nm, b"d")]
            if rng.random() < 0.5: h.append(("A", "s/f.js", "to/" + nm, b"a"))
            if rng.random() < 0.3: h.insert(0, ("F", "q/" + nm, b"f"))
            ids = [py_ident(op[2]) if op[0] == "A" else hashed_ident(op[1]) for op in h]
            if len(set(ids)) == len(ids): hist.append(h)
    for nm in ["1.css", "12.3.4", "a..b", "trail.", "_.x", "__a.b_", "a.b.c.d.e", "0", "-.-", "~.~", "é.css", "ß9.²x", "日本.語"]:
        if split_name(nm): hist.append([("D", nm, b"")])
        hist.append([("A", "s/f.js", "to/" + nm, b"")])
    # published names (add_file_as, add_files_as with a version-like prefix) that begin with a digit
    for u in ["3.7.1/jquery.min.js", "404/index.html", "9", "0/0.0", "2x.png", "1-2_3"]:
        hist.append([("A", "s/f.js", u, b"v"), ("D", "plain.css", b"p")])
    for _ in range(80 if tier == "quick" else 800):
        hist.append(distinct_history(rng, rng.randint(1, 6)))
    rs = run_histories(hist)
    disagree = []; oracle_fail = []
    ident_re = re.compile(r"^[A-Za-z_][A-Za-z0-9_]*$")
    for h, r in zip(hist, rs):
        a, m = r["impl"], r["model"]
        chk.count(impl_line(h).encode(), True)
        if a.get("names") != m.get("names"):
            disagree.append((h, "get_names()", str(parse_names(a.get("names"))), str(parse_names(m.get("names")))))
        got = dict(parse_names(a.get("names")))
        urls = published_urls(h)
        for op, u in zip(h, urls):
            src = op[2] if op[0] == "A" else None
            want = py_ident(src) if op[0] == "A" else hashed_ident(op[1])
            asc = (src if op[0] == "A" else op[1]).isascii()
            k = want.encode()
            if k not in got:
                oracle_fail.append((h, "get_names() has no identifier %r for %r (keys: %r)" % (want, op[1], sorted(got)), None)); break
            if got[k] != u:
                oracle_fail.append((h, "get_names()[%r] = %r, published url name is %r" % (want, got[k], u), None)); break
            if asc and (not ident_re.match(want) or want == "_" or want in RUST_KEYWORDS):
                oracle_fail.append((h, "identifier %r derived from ASCII name is not a legal Rust identifier" % want, None)); break
    # a stylesheet compiled in between (add_sass_file works on the same name map): get_names() still maps every file added so far,
    # those added before the stylesheet and those added after it, and the compiled css as well
    shist = []
    for _ in range(16 if tier == "quick" else 120):
        h = [op for op in distinct_history(rng, rng.randint(2, 5), unicode_ok=False) if not any(c in (op[2] if op[0] == "A" else op[1]) for c in '"\\')]
        if len(h) < 2: continue
        k = rng.randint(1, len(h) - 1)
        first = h[0]; ref = first[2] if first[0] == "A" else first[1].rsplit("/", 1)[-1]
        # a third of the stylesheets refer to a file that was never added: add_sass_file fails, the build script carries on
        if rng.random() < 0.35: ref = "never-added.png"
        shist.append((h[:k] + [("S", "scss/sheet%d.scss" % len(shist), ref)] + h[k:], k))
    for (h, k), r in zip(shist, run_histories([x[0] for x in shist])):
        a, m = r["impl"], r["model"]
        chk.count(impl_line(h).encode(), True)
        if a.get("names") != m.get("names"):
            disagree.append((h, "get_names() after add_sass_file", str(parse_names(a.get("names"))), str(parse_names(m.get("names")))))
        got = dict(parse_names(a.get("names")))
        # results come one per harness token: the stylesheet's own sits one further on (its source is written by a token of its own)
        sass_ok = bool(a.get("op")) and len(a["op"]) > k + 1 and a["op"][k + 1] == "ok"
        for i, op in enumerate(h):
            if op[0] == "S" and not sass_ok: continue
            if op[0] == "S": want = "sheet%d_css" % int(re.search(r"sheet(\d+)", op[1]).group(1))
            else: want = py_ident(op[2]) if op[0] == "A" else hashed_ident(op[1])
            if want.encode() not in got:
                oracle_fail.append((h, "after a stylesheet was compiled (operation %d of %d) get_names() has no identifier %r for operation %d (keys: %r)" % (k + 1, len(h), want, i + 1, sorted(got)), None)); break
    # add_files_as: the identifier is derived from the whole published name (prefix + "/" + relative path), so a file or directory
    # whose own name begins with a digit gets no `n` of its own in the middle
    import build_lib
    wfiles = ["3d.js", "sub/2fa.js", "9", "a-b.css", "x.y.z", "sub/7/8.txt", "7up/logo.png", "_.css", "sub/if.js"]
    wsc = []; wto = ["lib", "", "1.0", "v/1", "9"]
    for to in wto:
        wsc.append([('W', 'st/' + f, f.encode()) for f in wfiles] + [('R', [('s',), ('t', 'st', to)])])
    for to, sc, r in zip(wto, wsc, build_lib.run_scenarios(wsc)):
        chk.count(("walk " + build_lib.scenario_line(sc)).encode(), True)
        st = ((([x for x in r["runs"] if x["kind"] == "R"] or [{}])[0].get("after") or {}).get(b"templates/statics.rs") or (b"", ""))[0] or b""
        got = dict((n, i) for i, n in re.findall(rb'\npub static ([^:\s]+): StaticFile = StaticFile \{\n  content: [^\n]*\n  name: "((?:[^"\\]|\\.)*)",\n', st))
        for f in wfiles:
            url = (to + "/" + f) if to else f
            if got.get(url.encode()) != py_ident(url).encode():
                oracle_fail.append((build_lib.scenario_line(sc), "add_files_as(st, %r): the item published as %r is called %r, the rule gives %r" % (to, url, (got.get(url.encode()) or b"<missing>").decode(), py_ident(url)), None)); break
    # identifiers that begin like a template keyword: `@if_ie_css.name` is an expression naming the item, not the start of a block
    from tmpl_checks import compile_pairs, decode_outcome
    kw_names = ["if-ie.css", "for-print.css", "match.js", "if.css", "for_.js", "matches.png", "else-x.css", "in.txt", "iffy.css", "format.css", "if_.x", "match_.rs", "for.ever"]
    kw = [(nm, hashed_ident(nm)) for nm in kw_names]
    named = [("k%d_html" % i, ("@()\n<link href=\"/static/@%s.name\">" % ident).encode()) for i, (nm, ident) in enumerate(kw)]
    impl, model = compile_pairs(named)
    for (nm, ident), (_, src), a, m in zip(kw, named, impl, model):
        chk.count(src, True)
        stt, code = decode_outcome(a)
        if stt != "OK" or (ident + ".name.to_html(").encode() not in code:
            oracle_fail.append(([("D", nm, b"x")], "the item of %r is called %s, and a template that names it as @%s.name is %s" % (nm, ident, ident, "rejected: " + code.decode("utf8", "replace")[:200] if stt != "OK" else "accepted but does not emit the expression"), None))
        elif a != m:
            disagree.append(([("D", nm, b"x")], "template naming the item", a[:300], m[:300]))
    asc_hist = [h for h in hist if all((op[2] if op[0] == "A" else op[1]).isascii() for op in h)]
    B = 120
    for s in range(0, len(asc_hist), B):
        hs = asc_hist[s:s + B]
        res, outs, meta = rustc_statics_batch(hs, None)
        for h, rr in zip(hs, res):
            if not rr["ok"]:
                if meta.get("compile_failed") and "not run" in rr["error"]: continue
                oracle_fail.append((h, "rustc does not accept templates::statics::<ident>: " + rr["error"][:600], None)); continue
            if rr.get("n_idents") != len(h):
                oracle_fail.append((h, "not every file got its own identifier", None))
    for h in hist[:3]:
        chk.sample(dict(ops=[(op[0], op[1], op[2] if op[0] == "A" else len(op[2])) for op in h]))
    chk.cov["rule"] = ("file names with every printable ASCII character at leading / interior / trailing positions of stem and extension, leading digits, multiple dots, trailing dot, leading underscore, "
                       "to/-prefixed url names for add_file_as, plus random histories and a few non-ASCII names (model comparison only); histories with an add_sass_file in between; identifiers checked against the regex, the keyword list, "
                       "the model, and by naming every item in a rustc-compiled program. distinct by op list")
    return finish_checks(chk, proof, info, disagree, oracle_fail, len(hist))

# ------------------------------------------------------------------------------------------ C20
def run_c20(pid, tier):
    chk = Check(pid, tier); rng = chk.rng
    info = ensure_all()
    proof = proof_step(pid, thorough=(tier == "thorough"))
    pool = ["a.css", "a-b.css", "a_b.css", "a.b-c", "a_b.c", "17.css", "9lives.png", "x y.js", "q!z.txt", "a.b.c", "trail.", "_u.v", "n17.css", "A.CSS", "plain.woff2", "d-1.2.min.js"]
    hist = []; expect = []
    for _ in range(150 if tier == "quick" else 1500):
        h = distinct_history(rng, rng.randint(0, 5), name_pool=pool, unicode_ok=False)
        h = [op for op in h if not any(c in (op[2] if op[0] == "A" else op[1]) for c in '"\\')]
        added = {}
        for op, u in zip(h, published_urls(h)):
            if op[0] == "A": added[op[2]] = u
            else: added[op[1].rsplit("/", 1)[-1]] = u
        if added and rng.random() < 0.55:
            ref = rng.choice(sorted(added))
        else:
            ref = rng.choice(pool + ["nope.css", "", "a", "a.b_c", "a-b_css", "17_css", "n17_css"])
        # near misses of members: swap separator characters
        if added and rng.random() < 0.25:
            base = rng.choice(sorted(added)); i = rng.randrange(len(base))
            if base[i] in "-._": ref = base[:i] + rng.choice("-._ !") + base[i+1:]
        # a path that was never added whose last component (or tail) is a member
        if added and rng.random() < 0.2:
            base = rng.choice(sorted(added)); ref = rng.choice(["theme/", "../img/", "x/y/", "/", "./", "to/", "src/"]) + base
            if rng.random() < 0.3 and "/" in base: ref = base.split("/", 1)[1]
        if '"' in ref or "\\" in ref: continue
        hist.append(h + [("S", "scss/m%d%s.scss" % (len(hist), rng.choice(["", "", ".dark", ".v2.min"])), ref)])
        expect.append(added.get(ref))
    rs = run_histories(hist)
    disagree = []; oracle_fail = []
    nmem = 0
    for h, want, r in zip(hist, expect, rs):
        a, m = r["impl"], r["model"]
        ref = h[-1][2]
        chk.count(impl_line(h).encode(), len(h) > 1)
        ok_impl = a["op"][-1] == "ok" if a.get("op") else False
        if want is not None: nmem += 1
        if a.get("statics") != m.get("statics") or a.get("names") != m.get("names") or (m.get("q") != ("sass-ok" if ok_impl else "sass-err")):
            disagree.append((h, "static_name / css item", a.get("op", ["?"])[-1][:200] + " " + str(parse_names(a.get("names"))), str(m.get("q")) + " " + str(parse_names(m.get("names")))))
        names = dict(parse_names(a.get("names")))
        css_id = ("m%d_css" % hist.index(h)).encode() if False else None
        if want is None:
            if ok_impl:
                oracle_fail.append((h, "static_name(%r) for a name that was never added did not fail the build" % ref, str(parse_names(a.get("names"))))); continue
        else:
            if not ok_impl:
                oracle_fail.append((h, "static_name(%r) failed although the file was added (published as %r)" % (ref, want), unhexs(a["op"][-1]).decode("latin1")[:300] if a.get("op") else None)); continue
            css = b'a{b:"' + want + b'"}\n'
            st = unhexs(a.get("statics", "-"))
            cssurl = b"m%d-" % (len(h) - 1) 
            sn = split_name(h[-1][1].replace(".scss", ".css"))
            wurl = sn[0] + b"-" + py_slug(css) + b".css"
            if wurl not in names.values():
                oracle_fail.append((h, "compiled css is not published as <stem>-<hash of css>.css with the resolved url %r inside (names: %r)" % (want, sorted(names.values())), None))
    # ---- stylesheets with several references and with non-ASCII output (implementation against the statement itself; the
    #      model has one reference per stylesheet and takes the compiled css as given)
    def rust_bytes(lit):
        out = bytearray(); i = 0
        while i < len(lit):
            c = lit[i]
            if c == 0x5c:
                n = lit[i + 1:i + 2]
                m = {b"n": 10, b"r": 13, b"t": 9, b"\\": 92, b"0": 0, b"'": 39, b'"': 34}
                if n in m: out.append(m[n]); i += 2; continue
                if n == b"x": out.append(int(lit[i + 2:i + 4], 16)); i += 4; continue
                if n == b"\n":
                    i += 2
                    while i < len(lit) and lit[i] in b" \t\n\r": i += 1
                    continue
                raise ValueError(lit[i:i + 6])
            # rustc normalises CR LF to LF when it loads a source file, inside literals too
            if c == 13 and lit[i + 1:i + 2] == b"\n": i += 1; continue
            out.append(c); i += 1
        return bytes(out)
    multi = []
    mpool = ["font-awesome.woff", "a.css", "a-b.css", "x y.js", "d-1.2.min.js", "17.css"]
    hashed_like = [("src/i.js", "assets/index-BxK3j2aP.js", "assets/index.js"), ("src/m.css", "main-0a1B2c3D.css", "main.css"), ("src/l.png", "img/logo-AAAAAAAA.png", "img/logo.png")]
    for _ in range(60 if tier == "quick" else 500):
        mem = rng.sample(mpool, rng.randint(1, 3))
        added = {}
        h = [("D", m0, m0.encode()) for m0 in mem]
        for op, u in zip(h, published_urls(h)): added[op[1]] = u
        refs = []
        for _ in range(rng.randint(2, 4)):
            base = rng.choice(mem)
            r = rng.random()
            if r < 0.5: refs.append(base)
            else:
                i = rng.randrange(len(base))
                refs.append(base[:i] + rng.choice("-._ ") + base[i + 1:] if base[i] in "-._ " else rng.choice(["nope.css", base + "x"]))
        if rng.random() < 0.25:
            # a file published verbatim under a name that looks like <stem>-<8 characters>.<ext>; the reference to <stem>.<ext> was never added
            pth, url, look = rng.choice(hashed_like)
            h.append(("A", pth, url, b"as")); added[url] = url.encode()
            refs = [r for r in refs if r in added][:2] + [rng.choice([look, look, url])]
        extra = rng.choice(["", "", 'z{content:"\u2192"}', 'z{font-family:"Gr\u00fc\u00df"}', "/* \u00e9 */"])
        scss = extra + "".join("r%d{u:static_name(\"%s\")}" % (k, x) for k, x in enumerate(refs))
        multi.append((h, refs, added, scss))
    lines = []
    for h, refs, added, scss in multi:
        lines.append(impl_line(h) + " W:%s:%s S:%s" % (hx("scss/multi.scss"), hx(scss.encode()), hx("scss/multi.scss")))
    outs = [parse_fields(l) for l in run_capture(HARNESS, "statics", lines)]
    nmulti = 0
    for (h, refs, added, scss), a in zip(multi, outs):
        chk.count(scss.encode() + impl_line(h).encode(), True); nmulti += 1
        ok_impl = bool(a.get("op")) and a["op"][-1] == "ok"
        key = (h + [("S", "scss/multi.scss", scss)])
        if any(r not in added for r in refs):
            if ok_impl:
                bad = [r for r in refs if r not in added]
                oracle_fail.append((key, "a stylesheet referring to %r, which was never added (added: %s), compiled without an error" % (bad[0], sorted(added)), scss)); continue
        else:
            if not ok_impl:
                oracle_fail.append((key, "a stylesheet whose static_name() references are all members (%s) failed to build" % refs, unhexs(a["op"][-1]).decode("latin1")[:300] if a.get("op") else None)); continue
            st = unhexs(a.get("statics", "-"))
            m0 = re.search(rb'pub static multi_css: StaticFile = StaticFile \{\n  content: b"((?:[^"\\]|\\.|\\\n)*)",\n  name: "((?:[^"\\]|\\.)*)"', st)
            if not m0:
                oracle_fail.append((key, "no item for the compiled stylesheet multi.css in statics.rs", st[-400:].decode("latin1"))); continue
            css = rust_bytes(m0.group(1)); name = m0.group(2)
            if name != b"multi-" + py_slug(css) + b".css":
                oracle_fail.append((key, "the compiled css is published as %r, which is not multi-<hash of the embedded css bytes>.css (%r)" % (name, b"multi-" + py_slug(css) + b".css"), css[:120].decode("latin1"))); continue
            for r in refs:
                if added[r] not in css:
                    oracle_fail.append((key, "static_name(%r) did not resolve to the published name %r inside the compiled css" % (r, added[r]), css[:300].decode("latin1"))); break
    # ---- several stylesheets on one StaticFiles with files added in between; stylesheets that compile to no output at all
    seqs = []
    firsts = ["p{c:red}", "", "$v: 1px;\n@mixin m { a: b }\n%ph { c: d }", "/* only a comment */", "// nothing\n", "@function f($x) { @return $x }"]
    for _ in range(24 if tier == "quick" else 200):
        f1 = rng.choice(firsts); early = rng.choice(mpool); late = rng.choice([m0 for m0 in mpool if m0 != early])
        h0 = [("D", early, early.encode())]; h1 = [("D", late, b"late:" + late.encode())]
        # now and then a stale first.css is already among the statics when first.scss is compiled
        stale = rng.random() < 0.3
        if stale: h0 = h0 + [("D", "old/first.css", b"stale")]
        urls = dict(zip([early, late], published_urls(h0[:1] + h1)))
        second = 'r{u:static_name("%s")}s{u:static_name("%s")}' % (late, early)
        line = " ".join([impl_line(h0), "W:%s:%s" % (hx("scss/first.scss"), hx(f1.encode())), "S:%s" % hx("scss/first.scss"), impl_line(h1),
                         "W:%s:%s" % (hx("scss/second.scss"), hx(second.encode())), "S:%s" % hx("scss/second.scss")])
        seqs.append((line, f1, early, late, urls, stale))
    for (line, f1, early, late, urls, stale), a in zip(seqs, [parse_fields(l) for l in run_capture(HARNESS, "statics", [x[0] for x in seqs])]):
        chk.count(line.encode(), True)
        key = [("D", early, b""), ("S", "scss/first.scss", f1), ("D", late, b""), ("S", "scss/second.scss", "static_name(%s), static_name(%s)" % (late, early))]
        ops = a.get("op") or []
        if len(ops) < 4 or any(o != "ok" for o in ops):
            bad = next((unhexs(o).decode("latin1")[:300] for o in ops if o != "ok"), "missing result")
            oracle_fail.append((key, "a stylesheet compiled after another one, referring to a file added in between (%r) and one added before (%r), failed to build" % (late, early), bad)); continue
        st = unhexs(a.get("statics", "-"))
        for stem, musthave in (("first", []), ("second", [urls[late], urls[early]])):
            ms = [x for x in re.finditer(rb'pub static ' + stem.encode() + rb'_css: StaticFile = StaticFile \{\n  content: b"((?:[^"\\]|\\.|\\\n)*)",\n  name: "((?:[^"\\]|\\.)*)"', st)
                  if not (stale and stem == "first" and x.group(1) == b"stale")]
            m0 = ms[0] if ms else None
            if not m0:
                oracle_fail.append((key, "add_sass_file returned Ok but there is no item for the compiled stylesheet %s.css in statics.rs (source: %r)" % (stem, f1 if stem == "first" else "two references"), st[-400:].decode("latin1"))); break
            css = rust_bytes(m0.group(1)); name = m0.group(2)
            if name != stem.encode() + b"-" + py_slug(css) + b".css":
                oracle_fail.append((key, "the compiled css is published as %r, which is not %s-<hash of the embedded css bytes>.css" % (name, stem), css[:120].decode("latin1"))); break
            if any(u not in css for u in musthave):
                oracle_fail.append((key, "static_name() of a file added between two stylesheets did not resolve to its published name inside the second one", css[:300].decode("latin1"))); break
    chk.notes["stylesheet_sequences"] = len(seqs)
    # members whose names are not ASCII; compiled css beyond 64 KiB whose only varying bytes lie at its end
    special = []
    for nm in ["bl\u00e5b\u00e4r.png", "\u65e5\u672c.svg", "caf\u00e9 menu.pdf"]:
        special.append(([("D", nm, nm.encode())], 'a{b:static_name("%s")}' % nm, nm))
    # a stylesheet with DOS line ends and a custom property spanning lines: the only construct the compressed output copies verbatim
    special.append(([("D", "dos.png", b"dos")], ":root{--shadow: 0 0 1px red,\r\n    0 0 2px blue;}\r\na{b:static_name(\"dos.png\")}\r\n", "dos.png"))
    for tail in ("one.png", "two.png"):
        special.append(([("D", tail, tail.encode())], "".join("r%d{margin:%dpx;padding:%dpx;color:#%06x}" % (k, k, k + 1, k) for k in range(2200)) + 'z{u:static_name("%s")}' % tail, tail))
    lines = [impl_line(h) + " W:%s:%s S:%s" % (hx("scss/big.scss"), hx(scss.encode()), hx("scss/big.scss")) for h, scss, _ in special]
    for (h, scss, nm), a in zip(special, [parse_fields(l) for l in run_capture(HARNESS, "statics", lines)]):
        chk.count(scss[-60:].encode() + nm.encode(), True)
        key = h + [("S", "scss/big.scss", scss[-80:])]
        if not a.get("op") or a["op"][-1] != "ok":
            oracle_fail.append((key, "a stylesheet referring to the member %r failed to build" % nm, unhexs(a["op"][-1]).decode("latin1")[:300] if a.get("op") else None)); continue
        st = unhexs(a.get("statics", "-"))
        m0 = re.search(rb'pub static big_css: StaticFile = StaticFile \{\n  content: b"((?:[^"\\]|\\.|\\\n)*)",\n  name: "((?:[^"\\]|\\.)*)"', st)
        if not m0:
            oracle_fail.append((key, "no item for the compiled stylesheet big.css in statics.rs", st[-300:].decode("latin1"))); continue
        css = rust_bytes(m0.group(1)); name = m0.group(2); url = published_urls(h)[0]
        if name != b"big-" + py_slug(css) + b".css":
            oracle_fail.append((key, "the compiled css (%d bytes) is published as %r, which is not big-<hash of the embedded css bytes>.css (%r)" % (len(css), name, b"big-" + py_slug(css) + b".css"), css[-120:].decode("latin1"))); continue
        if url not in css:
            oracle_fail.append((key, "static_name(%r) did not resolve to the published name %r inside the compiled css" % (nm, url), css[-200:].decode("latin1")))
    import build_lib
    scen = []; meta2 = []
    for _ in range(8 if tier == "quick" else 60):
        nm = rng.choice(["a.png", "logo-x.svg", "f.b.woff2"]); c1 = rand_bytes(rng, rng.choice([3, 40]), "rand") or b"1"; c2 = c1 + b"!"
        prog = [('s',), ('f', 'st/' + nm), ('S', 'scss/site.scss', nm)]
        scen.append([('W', 'st/' + nm, c1), ('W', 'scss/site.scss', 'a{b:static_name("%s")}' % nm), ('R', prog), ('W', 'st/' + nm, c2), ('R', prog), ('R', prog)])
        meta2.append((nm, [c1, c2, c2]))
    for (nm, cs), r in zip(meta2, build_lib.run_scenarios(scen)):
        runs = [x for x in r["runs"] if x["kind"] == "R"]
        chk.count(("rebuild sass " + nm).encode() + cs[0], True)
        sn = split_name(nm)
        for k, (run, c) in enumerate(zip(runs, cs)):
            st = (run["after"].get(b"templates/statics.rs") or (b"", ""))[0] or b""
            url = sn[0] + b"-" + py_slug(c) + b"." + sn[1]
            css = b'a{b:"' + url + b'"}\n'
            want = b'name: "site-' + py_slug(css) + b'.css"'
            if run["status"] != "ok" or want not in st:
                oracle_fail.append(("run %d of 3 into one OUT_DIR: %s changed between the runs, the stylesheet did not" % (k + 1, nm),
                                    "the compiled stylesheet does not hold the current published name of %s (expected an item with %s)" % (nm, want.decode()), st[-500:].decode("latin1"))); break
    chk.notes["multi_reference_stylesheets"] = nmulti
    for h in hist[:3]:
        chk.sample(dict(ops=[(op[0], op[1], op[2] if op[0] in "AS" else len(op[2])) for op in h]))
    chk.notes["references_to_members"] = nmem
    chk.cov["rule"] = ("sets of 0-5 previously added files (add_file / add_file_as / add_file_data) from %s, then add_sass_file of a{b:static_name(\"<ref>\")} with <ref> a member (%d cases), a non-member, "
                       "or a near miss obtained by swapping '-', '.', '_' in a member; compared: Err vs Ok, statics.rs and get_names() with the model; oracle: members resolve to their published name inside css "
                       "that is itself published under its hash, non-members are build errors; plus stylesheets with 2-4 references (members, near misses that mangle to a member's identifier, "
                       "in either order) and non-ASCII content, checked on the implementation: Err iff some reference is a non-member, the embedded css hashes to its name. non-trivial = at least one file added before; distinct by op list") % (pool, nmem)
    chk.assumptions += ["rsass is an oracle: on scss of the fixed shape a{b:static_name(\"ref\")} it yields a{b:\"url\"}\\n or the builtin's error"]
    return finish_checks(chk, proof, info, disagree, oracle_fail, len(hist))
