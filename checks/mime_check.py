"""C19: both MIME feature builds x every table suffix x case variants + unknown/empty suffixes."""
import glob
from vlib import *
from statics_lib import *
import extract_tables

REGISTRY = {"css": ["text/css"], "js": ["text/javascript", "application/javascript"], "jsonp": ["text/javascript", "application/javascript"],
            "json": ["application/json"], "png": ["image/png"], "jpg": ["image/jpeg"], "jpeg": ["image/jpeg"], "svg": ["image/svg+xml"],
            "woff": ["font/woff"], "woff2": ["font/woff2"], "gif": ["image/gif"], "bmp": ["image/bmp"], "html": ["text/html"], "htm": ["text/html"],
            "ico": ["image/x-icon", "image/vnd.microsoft.icon"], "txt": ["text/plain"], "wasm": ["application/wasm"], "xml": ["application/xml", "text/xml"]}
HTTP_CONSTS = {"JAVASCRIPT": "text/javascript", "JSON": "application/json", "CSS": "text/css", "HTML": "text/html", "SSE": "text/event-stream",
               "PLAIN": "text/plain", "BYTE_STREAM": "application/octet-stream", "FORM": "application/x-www-form-urlencoded",
               "MULTIPART_FORM": "multipart/form-data", "WASM": "application/wasm", "XML": "application/xml", "BMP": "image/bmp",
               "JPEG": "image/jpeg", "PNG": "image/png", "SVG": "image/svg+xml", "ICO": "image/x-icon"}

def case_variants(s):
    out = {s, s.upper(), s.capitalize(), s[:-1] + s[-1:].upper()}
    return sorted(out)

def run(pid, tier):
    chk = Check(pid, tier); rng = chk.rng
    info = ensure_all()
    with Lock():
        h3 = build_harness("mime03,sass", os.path.join(BUILD, "cargo-mime03"))
        hh = build_harness("http-types,sass", os.path.join(BUILD, "cargo-http"))
    proof = proof_step(pid, thorough=(tier == "thorough"))
    # the suffixes each feature lists (docs of StaticFile::mime); used when the table cannot be read from the source any more
    DOC = {"mime03_rows": ["bmp", "css", "gif", "jpg", "jpeg", "js", "jsonp", "json", "png", "svg", "woff", "woff2"],
           "http_rows": ["css", "html", "htm", "ico", "jpg", "jpeg", "js", "jsonp", "json", "png", "svg", "txt", "wasm", "xml"]}
    try:
        t = extract_tables.extract(REPO)
        if not t["mime03_rows"] or not t["http_rows"]: raise ValueError("empty table")
    except Exception as e:
        chk.notes["table_extraction"] = "failed (%s); the documented suffix lists are used as the oracle" % e
        t = {k: [(x, None) for x in v] for k, v in DOC.items()}
    suffixes = sorted(set([a for a, _ in t["mime03_rows"]] + [a for a, _ in t["http_rows"]]) | set(REGISTRY))
    unknown = ["", "tar", "x", "cs", "csss", "pn", "jpe", "woff3", "htmlx", "7z", "ÇSS", "cſs", "jſ", "K", "Jſ", "jsx", "pngx", "xmlx", "j", "s", "son", "off2", "2",
               # longer than any known suffix, starting with one (fixed-size buffers, prefix tests)
               "jsonpatch", "woff2_orig", "woff2bak", "JSONPayload", "jpegs", "htmlx5", "xmlrpc", "wasm32", "txt2", "csss", "svgz", "icons", "bmp2", "gif89a"]
    hist = []
    for s in suffixes:
        for v in case_variants(s):
            hist.append([("D", "f." + v, b"x"), ("F", "d/g." + v, b"y"), ("A", "e/h." + v, "to/h." + v, b"z")])
        # contents that are valid UTF-8 but not ASCII, binary contents: the type follows the suffix alone
        hist.append([("D", "u." + s, "\u00e9\u2192 caf\u00e9".encode()), ("F", "d/w." + s, b"\xc3\xa9\n"), ("D", "bin." + s, bytes([0, 159, 146, 150, 255]))])
        # names with more than one dot: the suffix is what follows the last one
        hist.append([("D", "lib.min." + s, b"x"), ("F", "d/logo.2x." + s, b"y"), ("A", "e/h.v1." + s, "to/h.v1." + s, b"z"), ("D", "k.css." + s, b"w")])
        # contents that begin with a byte order mark: the type still follows the suffix alone (and names a constant that exists)
        hist.append([("D", "bom." + s, b"\xef\xbb\xbfx{}"), ("F", "d/bomf." + s, b"\xef\xbb\xbf// y\n"), ("A", "e/boma." + s, "to/boma." + s, b"\xef\xbb\xbfz")])
    # two files on one object whose suffixes are prefixes of one another, in both orders (also an unknown one before / after a known one)
    for s1, s2 in [("js", "json"), ("json", "jsonp"), ("js", "jsonp"), ("woff", "woff2"), ("htm", "html"), ("c", "css"), ("cs", "css"), ("x", "xml"), ("s", "svg"), ("p", "png"), ("jp", "jpg"), ("jpe", "jpeg"),
                   ("t", "txt"), ("i", "ico"), ("wa", "wasm"), ("b", "bmp"), ("g", "gif"), ("JS", "json"), ("Woff", "WOFF2")]:
        for x, y in ((s1, s2), (s2, s1)):
            hist.append([("D", "one." + x, b"1"), ("D", "two." + y, b"2")])
            hist.append([("F", "d/one." + x, b"1"), ("A", "e/two." + y, "to/two." + y, b"2"), ("D", "three." + x, b"3")])
    for s in unknown:
        hist.append([("D", "f." + s, b"x")] + ([("A", "e/noext", "to/n", b"z")] if s == "" else [("F", "d/g." + s, b"y"), ("A", "e/h." + s, "to/h." + s, b"z")]))
    # a known suffix in front of an unknown last one (compressed copies, backups): the last suffix decides, the type is the generic one
    hist.append([("D", "k.css.gz", b"x"), ("F", "d/k.js.br", b"y"), ("A", "e/k.svg.GZ", "to/k.svg.GZ", b"z"), ("D", "k.png.bak", b"w"), ("F", "d/k.json.orig", b"v"), ("D", "k.tar.gz", b"t")])
    # add_file_as of files without any suffix whose whole name reads like one: no suffix, hence the generic type
    hist.append([("A", "e/css", "css", b"z"), ("A", "e/json", "json", b"j"), ("A", "e/js", "js", b"k"), ("A", "e/svg", "to/svg", b"s")])
    # add_file_as under a published name whose spelling differs from the file's: "its suffix" is the suffix of the static file, i.e. of
    # the file that was added (that is also what decides for every other entry point); the published name is free text
    hist.append([("A", "e/a.css", "style", b"z"), ("A", "e/b.png", "img/logo", b"p"), ("A", "e/c.min.js", "app.js.map", b"m"), ("A", "e/export", "export.json", b"e"), ("A", "e/fav.png", "favicon.ico", b"i")])
    # a stylesheet compiled by add_sass_file is published as <stem>.css: text/css like any other css
    hist.append([("D", "a.css", b"x"), ("S", "scss/m0.scss", "a.css")])
    hist.append([("D", "logo.PNG", b"x"), ("S", "scss/Style.scss", "logo.PNG")])
    disagree = []; oracle_fail = []
    mime_rlib = sorted(glob.glob(os.path.join(BUILD, "cargo-mime03", "debug", "deps", "libmime-*.rlib")))
    for mode, harness in (("3", h3), ("h", hh)):
        rs = run_histories(hist, mm=mode, harness=harness)
        for h, r in zip(hist, rs):
            a, m = r["impl"], r["model"]
            chk.count((mode + impl_line(h)).encode(), True)
            if a.get("statics") != m.get("statics"):
                ai = items_of(unhexs(a.get("statics", "-")))[1]; mi = items_of(unhexs(m.get("statics", "-")))[1]
                disagree.append((h, "mime line (%s)" % ("mime03" if mode == "3" else "http-types"), b"".join(ai).decode("latin1")[:600], b"".join(mi).decode("latin1")[:600]))
            # oracle on the generated text: the constant named for each item
            items = items_of(unhexs(a.get("statics", "-")))[1]
            for op, it in zip(h, items):
                mm_ = re.search(rb"\n  mime: &mime::([A-Za-z0-9_:]+),\n", it)
                path = op[1] if op[0] != "S" else op[1].rsplit(".", 1)[0] + ".css"      # add_sass_file publishes <stem>.css
                suffix = path.rsplit("/", 1)[-1].rsplit(".", 1)[-1] if "." in path.rsplit("/", 1)[-1] else ""
                if not mm_:
                    oracle_fail.append((h, "no `mime: &mime::<CONST>` line for %r (%s)" % (path, mode), it.decode("latin1")[-200:])); break
                const = mm_.group(1).decode()
                if mode == "h":
                    if const not in HTTP_CONSTS:
                        oracle_fail.append((h, "http-types has no constant mime::%s (suffix %r)" % (const, suffix), None)); break
                    ty = HTTP_CONSTS[const]
                else:
                    consts = dict(extract_tables.extract(REPO)["mime03_consts"]) if False else None
                    ty = None
                low = suffix.lower() if suffix.isascii() else suffix
                if ty is not None:
                    want = REGISTRY.get(low, ["application/octet-stream"]) if suffix.isascii() else ["application/octet-stream"]
                    if low not in [x for x, _ in (t["http_rows"] if mode == "h" else t["mime03_rows"])]:
                        want = ["application/octet-stream"]
                    if ty not in want:
                        oracle_fail.append((h, "suffix %r gets %s = %s, registered: %s" % (suffix, const, ty, want), None)); break
        if mode == "3":
            # compile against the real mime crate and read the value back
            if not mime_rlib:
                chk.notes["mime_rlib"] = "not found; read-back skipped"
            else:
                B = 60
                for s0 in range(0, len(hist), B):
                    hs = hist[s0:s0 + B]
                    res, outs, meta = rustc_mime_batch(hs, harness, mime_rlib[-1])
                    for h, rr in zip(hs, res):
                        if rr.get("error"):
                            if "not run" in rr["error"]: continue
                            oracle_fail.append((h, "generated statics module does not compile against mime 0.3: " + rr["error"][:600], None)); continue
                        if len(rr["types"]) != len(h):
                            oracle_fail.append((h, "mime03: %d entries in STATICS for %d added files" % (len(rr["types"]), len(h)), None)); continue
                        # a file's type follows the suffix of the file that was added: for the hashed entry points the published name keeps
                        # that suffix as spelled (<stem>-<hash>.<ext>); for add_file_as the published name is free text, the file's own name decides
                        as_src = {(op[2].encode() if isinstance(op[2], str) else op[2]): op[1] for op in h if op[0] == "A"}
                        for (name, ty) in rr["types"]:
                            last = (as_src[name] if name in as_src else name.decode("utf8", "replace")).rsplit("/", 1)[-1]
                            suffix = last.rsplit(".", 1)[-1] if "." in last else ""
                            low = suffix.lower() if suffix.isascii() else None
                            in_table = low in [x for x, _ in t["mime03_rows"]]
                            want = REGISTRY.get(low, []) if in_table else ["application/octet-stream"]
                            if ty not in want:
                                oracle_fail.append((h, "mime03: suffix %r is served as %s, registered: %s" % (suffix, ty, want), None)); break
    # files reached through symbolic links whose targets carry another suffix or none: the type follows the name the file was added under.
    # Implementation only (mime03 build): the `mime:` line must be the one a regular file of that name gets.
    import build_lib
    lscen = []
    for nm, target in [("logo.png", "3f9a1c.blob"), ("data.json", "data.js"), ("site.css", "hashed-0a1b2c"), ("app.JS", "bundle.min.css")]:
        for entry in ("f", "a"):
            prog = [('s',), ('f', 'st/' + nm)] if entry == "f" else [('s',), ('a', 'st/' + nm, 'pub/' + nm)]
            lscen.append([('W', 'store/' + target, b"content"), ('M', 'st'), ('Y', 'st/' + nm, '../store/' + target), ('R', prog)])
            lscen.append([('W', 'st/' + nm, b"content"), ('R', prog)])
    lr = build_lib.run_scenarios(lscen, harness=h3)
    for k in range(0, len(lr), 2):
        get = lambda r: re.findall(rb"\n  mime: &mime::([A-Za-z0-9_:]+),\n", ((([x for x in r["runs"] if x["kind"] == "R"] or [{}])[0].get("after") or {}).get(b"templates/statics.rs") or (b"", ""))[0] or b"")
        chk.count(("link " + build_lib.scenario_line(lscen[k])).encode(), True)
        if get(lr[k]) != get(lr[k + 1]) or not get(lr[k + 1]):
            oracle_fail.append((build_lib.scenario_line(lscen[k]), "mime03: a file added as %s through a symbolic link to a file of another suffix gets %s, a regular file of that name %s" % (
                lscen[k][2][1], get(lr[k]), get(lr[k + 1])), None))
    # add_files_as over a directory that mixes files with known suffixes and files without any: every file gets the type it gets when it is
    # added on its own through add_file_as (whatever the walk met before it)
    wfiles = ["a.css", "LICENSE", "b.js", "README", "c.json", "Makefile", "d.png", "CNAME", "e.svg", "NOTICE", "f.woff2", "zz", "0", "m.CSS", "AUTHORS", "q.unknownsuffix", "VERSION"]
    wsc = [[('W', 'st/' + f, b"c") for f in wfiles] + [('R', [('s',), ('t', 'st', 'pub')])],
           [('W', 'st/' + f, b"c") for f in wfiles] + [('R', [('s',)] + [('a', 'st/' + f, 'pub/' + f) for f in wfiles])]]
    wr = build_lib.run_scenarios(wsc, harness=h3)
    def types_of(r):
        st = ((([x for x in r["runs"] if x["kind"] == "R"] or [{}])[0].get("after") or {}).get(b"templates/statics.rs") or (b"", ""))[0] or b""
        return dict(re.findall(rb'\n  name: "((?:[^"\\]|\\.)*)",\n  mime: &mime::([A-Za-z0-9_:]+),\n', st))
    chk.count(("walk " + build_lib.scenario_line(wsc[0])).encode(), True)
    tw, ta = types_of(wr[0]), types_of(wr[1])
    if not ta or tw != ta:
        diff = sorted(k.decode() for k in set(tw) | set(ta) if tw.get(k) != ta.get(k))
        oracle_fail.append((build_lib.scenario_line(wsc[0]), "mime03: files met by add_files_as get other types than the same files added one by one: %s" % ", ".join(
            "%s: %s in the walk, %s alone" % (k, (tw.get(k.encode()) or b"-").decode(), (ta.get(k.encode()) or b"-").decode()) for k in diff[:6]), None))
    for h in hist[:2] + hist[-2:]:
        chk.sample(dict(ops=[(op[0], op[1]) for op in h]))
    chk.cov["exhaustive"] = True
    chk.cov["rule"] = ("both MIME features (separate harness builds) x every suffix of either table and of the registry (%d) x case variants (lower, UPPER, Capitalized, last-upper) x entry points "
                       "add_file / add_file_as / add_file_data, plus unknown, empty and non-ASCII look-alike suffixes %s; mime03 modules compiled against the mime crate and the value read back. "
                       "finite space enumerated completely; distinct by (feature, op list)") % (len(suffixes), unknown)
    chk.assumptions += ["http-types' constant list is hand-written (crate not on this machine)", "suffix -> registered media type registry is hand-written (IANA)"]
    import statics_checks
    return statics_checks.finish_checks(chk, proof, info, disagree, oracle_fail, 2 * len(hist))

def published_url(op):
    import statics_checks
    return statics_checks.published_urls([op])[0]

def rustc_mime_batch(histories, harness, rlib):
    """like rustc_statics_batch, but links the mime crate and prints each entry's mime value"""
    import tempfile, subprocess, shutil
    root = tempfile.mkdtemp(prefix="rvm-")
    try:
        env = dict(os.environ, RVH_ROOT=root)
        lines = [impl_line(h) for h in histories]
        p = subprocess.run([harness, "capture", "statics"], input=("\n".join(lines) + "\n").encode(), capture_output=True, env=env)
        outs = [parse_fields(l) for l in p.stdout.decode("utf8", "replace").split("\n") if l]
        src = ["#![allow(warnings)]", "extern crate mime;"]
        main = ["fn main() {"]
        for i, o in enumerate(outs):
            od = unhexs(o.get("outdir", "-")).decode()
            st = os.path.join(od, "templates", "statics.rs")
            src.append("mod m%d { include!(%s); }" % (i, json.dumps(st)))
            main.append('  print!("H %d");' % i)
            main.append('  for s in m%d::STATICS { print!(" {}={}", s.name.as_bytes().iter().map(|x| format!("{:02x}", x)).collect::<String>(), s.mime.essence_str()); }' % i)
            main.append('  println!();')
        main.append("}")
        prog = os.path.join(root, "batch.rs")
        open(prog, "w").write("\n".join(src + main) + "\n")
        r = subprocess.run(["rustc", "--edition", "2021", "-A", "warnings", "-C", "debuginfo=0", prog, "-o", os.path.join(root, "batch"),
                            "--extern", "mime=" + rlib, "-L", os.path.dirname(rlib)], capture_output=True, cwd=root)
        res = [dict(types=[], error="") for _ in histories]
        if r.returncode != 0:
            err = r.stderr.decode("utf8", "replace")
            bad = set(i for i, o in enumerate(outs) if unhexs(o.get("outdir", "-")).decode() in err)
            for i in range(len(histories)):
                res[i]["error"] = err[:1500] if (i in bad or not bad) else "batch not run"
            return res, outs, dict(compile_failed=True)
        out = subprocess.run([os.path.join(root, "batch")], capture_output=True).stdout.decode()
        for l in out.split("\n"):
            if l.startswith("H "):
                f = l.split(" "); i = int(f[1])
                res[i]["types"] = [(unhexs(x.split("=")[0]), x.split("=")[1]) for x in f[2:]]
        return res, outs, dict(compile_failed=False)
    finally:
        shutil.rmtree(root, ignore_errors=True)
