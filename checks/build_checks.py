"""C10, C12, C17, C18: proof step + correspondence of Model/Build.v with the public API on real
directories + impl-side oracles."""
import re, itertools, subprocess, tempfile, shutil
from vlib import *
from build_lib import *
from statics_lib import hx
import render_lib

IDENTS = ["a", "b", "page", "item_list", "x1", "Foo", "_p", "mod_", "deep", "z9", "page_html", "a_xml", "a_xml_old", "x1_svg", "b_html_"]
DIRN = ["sub", "admin", "x", "parts", "a", "deep", "_d", "m2", "admin_pages", "temp", "subs", "template"]
SUFFIX = [".rs.html", ".rs.svg", ".rs.xml"]

def model_vs_impl(chk, rs, disagree, what=("fs", "out", "writes")):
    for r in rs:
        for run in r["runs"]:
            if run["kind"] != "R" or "model" not in run or run["after"] is None: continue
            a = snap_files(run["after"]); m = run["model"]
            if "fs" in what and a != m["fs"]:
                k = next(p for p in sorted(set(a) | set(m["fs"])) if a.get(p) != m["fs"].get(p))
                disagree.append((r["raw"][:0] + scenario_key(r), "OUT_DIR file " + k.decode("utf8", "replace"), (a.get(k) or b"<absent>").decode("utf8", "replace")[-1500:], (m["fs"].get(k) or b"<absent>").decode("utf8", "replace")[-1500:]))
            elif "out" in what and run["out"] != m["out"]:
                disagree.append((scenario_key(r), "build-script stdout", run["out"].decode("utf8", "replace")[-1500:], m["out"].decode("utf8", "replace")[-1500:]))
            elif "writes" in what and sorted(set(m["writes"])) != snap_touched(run["after"]) and all(fl in "uw" for _, (c, fl) in run["after"].items() if c is not None) and run.get("sentinel"):
                disagree.append((scenario_key(r), "set of rewritten files", str(snap_touched(run["after"])), str(sorted(set(m["writes"])))))

def scenario_key(r):
    return r.get("key", "")

def finish_build(chk, proof, info, disagree, oracle_fail, n):
    # the model as the theorems see it (vm_compute inside Coq) against the model as the correspondence runs it (extracted OCaml)
    import build_lib
    cand = sorted(set(build_lib.LAST_MODEL_LINES), key=len)
    nx, xbad = build_crosscheck(cand[len(cand) // 8:], limit=8 if chk.tier == "quick" else 40) if cand else (0, [])
    chk.notes["extraction_crosscheck"] = "%d scenarios evaluated by vm_compute inside Coq (run_build, plan_ok) and by the extracted driver: %s" % (nx, "equal" if not xbad else xbad[0])
    if xbad: disagree.append(("-", "EXTRACTION (Extract.v / ocaml/driver.ml vs vm_compute): " + xbad[0], "", ""))
    chk.notes["disagreements_model_vs_impl"] = len(disagree)
    chk.notes["oracle_failures"] = len(oracle_fail)
    if oracle_fail:
        oracle_fail.sort(key=lambda x: len(x[0]))
        key, why, extra = oracle_fail[0]
        chk.violation(why, dict(stage="build", scenario=key, detail=extra, replay_cmd="echo '%s' | %s capture build | tr ' ' '\\n' | cut -c1-300" % (key, HARNESS) if len(key) < 60000 else None))
    elif disagree:
        disagree.sort(key=lambda x: len(x[0]))
        key, field, a, m = disagree[0]
        chk.violation("correspondence Model/Build.v <-> src/lib.rs, src/staticfiles.rs broken on %s (no input violating the property found among %d scenarios)" % (field, n),
                      dict(stage="build", scenario=key, field=field, impl=a, model=m, broken="correspondence build/" + field, theorems=[t["name"] for t in proof["theorems"]]), failing_input_found=False)
    if not proof["ok"] and not chk.violations:
        chk.violation(proof_violation(chk, proof), dict(stage="proof", broken=proof.get("broken_at"), problems=proof["problems"], log=proof["log"][-1500:]), failing_input_found=False)
    return chk.finish(proof, info)

def run_keyed(scenarios, **kw):
    rs = run_scenarios(scenarios, **kw)
    for sc, r in zip(scenarios, rs):
        r["key"] = scenario_line([s for s in sc])
        r["steps"] = sc
    return rs

# ------------------------------------------------------------------------------------------ trees
def gen_tree(rng, depth=4, broken_p=0.12, counter=None):
    """returns list of (relpath under 't', kind, content) with kind in tmpl|broken|other|dir"""
    counter = counter or [0]
    out = []
    def rec(rel, d):
        used = set()
        for _ in range(rng.randint(0, 5)):
            k = rng.random()
            if k < 0.55:
                stem = rng.choice(IDENTS); suf = rng.choice(SUFFIX)
                if stem + suf in used: continue
                used.add(stem + suf); counter[0] += 1
                if rng.random() < broken_p:
                    out.append((rel + stem + suf, "broken", rng.choice(["@(oops", "@()@if {", "@()@for x in {", "@(a: u8)@(a", "no declaration", "@()@:call(", "@()@* unclosed", "@()\n\n@if a {\n  <p>\n", "@()\n\xc3\xa9\xc3 @(", "@()}"]) ))
                else:
                    out.append((rel + stem + suf, "tmpl", "@()\nM%d;" % counter[0]))
            elif k < 0.75:
                nm = rng.choice(["readme.txt", "notes.md", "x.rs", "y.rs.htm", "z.html", "w.rs.html.bak", ".hidden", "Makefile", "a.rs.HTML", "b.RS.html", "page.rs.html~", "draft.rs.svg.orig", "k.rs.xml.rs", "rs.html"])
                if nm in used: continue
                used.add(nm); out.append((rel + nm, "other", rng.choice(["@(this is not a template", "@()\nnot a template name, but well-formed", "@(a: u8)\n@a"])))
            elif d > 0:
                dn = rng.choice(DIRN)
                if dn in used: continue
                used.add(dn); out.append((rel + dn, "dir", None)); rec(rel + dn + "/", d - 1)
        if d > 0 and rng.random() < 0.15:
            # two paths that read the same once their separators are flattened to '_' (user/edit_form and user_edit/form): each its own module and function
            a, b_, c_ = rng.choice([("user", "edit", "form"), ("a", "b", "c"), ("x1", "y", "z_w"), ("pages", "blog", "list")])
            suf = rng.choice(SUFFIX)
            for dn, stem in ((a, b_ + "_" + c_), (a + "_" + b_, c_)):
                if dn not in used:
                    used.add(dn); out.append((rel + dn, "dir", None)); counter[0] += 1
                    out.append((rel + dn + "/" + stem + suf, "tmpl", "@()\nM%d;" % counter[0]))
        if rng.random() < 0.2:
            # two templates of one directory whose generated names are prefixes of one another (page_html / page_html_svg)
            stem = rng.choice(["pg", "q7", "Idx"]); e1 = rng.choice(SUFFIX); e2 = rng.choice(SUFFIX)
            for f in (stem + e1, stem + "_" + e1[4:] + rng.choice(["", "_old", "2"]) + e2):
                if f not in used:
                    used.add(f); counter[0] += 1; out.append((rel + f, "tmpl", "@()\nM%d;" % counter[0]))
    rec("", depth)
    return out

def tree_steps(entries, root="t"):
    steps = [('M', root)]
    for p, k, c in entries:
        steps.append(('M', root + "/" + p) if k == "dir" else ('W', root + "/" + p, c))
    return steps

def fn_path(rel):
    """t-relative template path -> (module path list, function name)"""
    parts = rel.split("/")
    fname = parts[-1]
    for suf in SUFFIX:
        if fname.endswith(suf):
            return parts[:-1], fname[:-len(suf)] + "_" + suf[4:]
    return None

# ------------------------------------------------------------------------------------------ C10
def run_c10(pid, tier):
    chk = Check(pid, tier); rng = chk.rng
    info = ensure_all()
    proof = proof_step(pid, thorough=(tier == "thorough"))
    n = 60 if tier == "quick" else 500
    scen = []; trees = []; broke = []
    for i in range(n):
        entries = gen_tree(rng, depth=rng.randint(1, 4))
        steps = tree_steps(entries) + [('R', [('c', 't')]), ('Z',), ('R', [('c', 't')])]
        # third run on the same OUT_DIR after one template stopped parsing: it must lose its function and its declaration
        tm = [p for p, k, _ in entries if k == "tmpl"]
        victim = rng.choice(tm) if tm and rng.random() < 0.6 else None
        if victim and rng.random() < 0.5:
            # the broken version arrives with the modification time of the good one (cp -p / restore), older than the generated file
            steps = tree_steps(entries) + [('R', [('c', 't')]), ('R', [('c', 't')]), ('T', 't/' + victim, "@(now broken"), ('R', [('c', 't')])]
        elif victim: steps += [('W', 't/' + victim, "@(now broken"), ('R', [('c', 't')])]
        broke.append(victim)
        trees.append(entries); scen.append(steps)
    rs = run_keyed(scen)
    disagree = []; oracle_fail = []
    model_vs_impl(chk, rs, disagree, what=("fs", "out"))
    nt = nb = 0
    for entries, r in zip(trees, rs):
      for run in r["runs"][:2]:
            chk.count(r["key"].encode(), any(k == "tmpl" for _, k, _ in entries))
            if run["status"] != "ok":
                oracle_fail.append((r["key"], "compile_templates failed on a tree of identifier-named files: %s" % run["status"], None)); continue
            files = snap_files(run["after"]); out = run["out"].decode("utf8", "replace")
            want = {}
            for p, k, c in entries:
                if k == "tmpl":
                    mods, fn = fn_path(p); want["/".join(["templates"] + mods + ["template_%s.rs" % fn])] = (mods, fn, c); nt += 1
            got = {p.decode(): c for p, c in files.items() if re.search(r"/template_[^/]*\.rs$", p.decode())}
            if set(got) != set(want):
                oracle_fail.append((r["key"], "generated template files %s differ from the templates in the tree %s" % (sorted(got), sorted(want)), None)); continue
            for p, k, c in entries:
                if k == "broken":
                    nb += 1
                    full = r["base"].decode() + "/t/" + p
                    if ('cargo:warning=Template parse error in "%s":' % full) not in out:
                        oracle_fail.append((r["key"], "broken template %s is not reported with a cargo:warning naming the file" % p, dict(stdout=out[-800:]))); break
                    mods, fn = fn_path(p)
                    modfile = "/".join(["templates"] + mods + ["mod.rs"]) if mods else "templates.rs"
                    if ("mod template_%s;" % fn).encode() in files.get(modfile.encode(), b""):
                        oracle_fail.append((r["key"], "broken template %s still got a module declaration" % p, None)); break
    for victim, r in zip(broke, rs):
        if victim and len(r["runs"]) >= 3 and r["runs"][2]["status"] == "ok":
            files = snap_files(r["runs"][2]["after"]); mods, fn = fn_path(victim)
            modfile = "/".join(["templates"] + mods + ["mod.rs"]) if mods else "templates.rs"
            if ("mod template_%s;" % fn).encode() in files.get(modfile.encode(), b""):
                oracle_fail.append((r["key"], "template %s no longer parses, but a run into the OUT_DIR of the earlier build still declares its module (stale code stays callable)" % victim, None))
    # oracle: build a crate that include!s templates.rs and calls every function through its module path
    B = 25
    for s0 in range(0, len(scen), B):
        idx = [i for i in range(s0, min(s0 + B, len(scen))) if rs[i]["runs"][0]["status"] == "ok"]
        root = tempfile.mkdtemp(prefix="rvc10-")
        try:
            rs2 = run_scenarios([[st for st in scen[i] if not (st[0] == 'W' and st[2] == "@(now broken")][:len(tree_steps(trees[i])) + 3] for i in idx], keep_root=root)
            src = [render_lib.SINK_RS]; main = ["fn main() {"]; calls = []
            for j, (i, r2) in enumerate(zip(idx, rs2)):
                od = r2["outdir"].decode()
                src.append("mod c%d { include!(%s); }" % (j, json.dumps(os.path.join(od, "templates.rs"))))
                for p, k, c in trees[i]:
                    if k == "tmpl":
                        mods, fn = fn_path(p)
                        calls.append((i, p, c))
                        main.append('  { let mut sink = sched("-"); let r = c%d::templates::%s%s(&mut sink); report(%d, sink, r); }' % (j, "".join(m + "::" for m in mods), fn, len(calls) - 1))
            main.append("}")
            prog = os.path.join(root, "main.rs"); open(prog, "w").write("\n".join(src + main) + "\n")
            rc = subprocess.run(["rustc", "--edition", "2021", "-A", "warnings", "-C", "debuginfo=0", "-C", "codegen-units=16", prog, "-o", os.path.join(root, "main")], capture_output=True, cwd=root)
            if rc.returncode != 0:
                err = rc.stderr.decode("utf8", "replace")
                culprit = next((i for j, i in enumerate(idx) if rs2[j]["outdir"].decode() in err), idx[0])
                oracle_fail.append((rs[culprit]["key"], "the generated module tree does not build / a function is not callable at its mirrored path", dict(rustc=err[:2500]))); continue
            o = subprocess.run([os.path.join(root, "main")], capture_output=True).stdout.decode().split("\n")
            got = {}
            for l in o:
                f = l.split(" ")
                if len(f) == 4 and f[0].isdigit(): got[int(f[0])] = unhexs(f[1])
            for k, (i, p, c) in enumerate(calls):
                if got.get(k) != c[4:].encode():
                    oracle_fail.append((rs[i]["key"], "function for %s renders %r, expected %r" % (p, got.get(k), c[4:]), None)); break
        finally:
            shutil.rmtree(root, ignore_errors=True)
    for e in trees[:2]: chk.sample(dict(tree=[(p, k) for p, k, _ in e]))
    chk.notes["templates"] = nt; chk.notes["broken_templates"] = nb
    chk.cov["rule"] = ("random directory trees to depth 4 whose stems and directory names are identifiers (%s / %s): templates under the three suffixes, the same stem under different suffixes, non-template files with near-miss names, "
                       "empty directories, broken templates (%d) at any position among valid ones (%d); every file under OUT_DIR and the build-script stdout compared with the model; each tree's output compiled with rustc and every function "
                       "called through its mirrored module path. non-trivial = the tree holds a valid template; distinct by scenario") % (IDENTS[:5], DIRN[:4], nb, nt)
    return finish_build(chk, proof, info, disagree, oracle_fail, len(scen))

# ------------------------------------------------------------------------------------------ C12
def reachable(files):
    """files: dict path(bytes)->content; the files reachable from templates.rs through mod declarations"""
    seen = set()
    def visit(path, moddir):
        if path in seen or path not in files: return
        seen.add(path)
        for m in re.finditer(rb"^\s*(?:pub )?mod ([A-Za-z0-9_]+);", files[path], re.M):
            name = m.group(1)
            f1 = moddir + name + b".rs"; f2 = moddir + name + b"/mod.rs"
            if f1 in files: visit(f1, moddir + name + b"/")
            elif f2 in files: visit(f2, moddir + name + b"/")
    visit(b"templates.rs", b"templates/")
    return {p: files[p] for p in seen}

PROG_FULL = [('c', 't'), ('s',), ('g', 'st'), ('d', 'gen.js', b'1')]
def edit_history(rng, length):
    """returns (initial steps, list of edit step-lists)"""
    entries = gen_tree(rng, depth=2, broken_p=0.1)
    init = tree_steps(entries) + [('M', 'st'), ('W', 'st/a.css', 'a{}'), ('W', 'st/b.js', 'b')]
    if rng.random() < 0.5: init += [('W', 'st/bl\u00e5b\u00e4r.css', 'b{}'), ('W', 'st/\u65e5\u672c.png', 'p')]
    if rng.random() < 0.5:
        # outputs larger than 8 / 16 KiB: a long template and several dozen static files
        init += [('W', 't/big.rs.html', "@()\n" + "<p>a paragraph of literal text, long enough to matter &amp; more</p>\n" * rng.choice([60, 140, 300]))]
        init += [('W', 'st/i%02d.png' % k, 'png%d' % k) for k in range(rng.choice([30, 70]))]
    files = [p for p, k, _ in entries if k in ("tmpl", "broken")]
    dirs = [p for p, k, _ in entries if k == "dir"]
    edits = []
    cnt = [1000]
    for _ in range(length):
        k = rng.choice(["add", "modify", "delete", "rename", "break", "repair", "static", "adddir", "nothing", "restore", "moveover"])
        cnt[0] += 1
        if k == "add":
            d = rng.choice([""] + [x + "/" for x in dirs]); p = d + rng.choice(IDENTS) + rng.choice(SUFFIX)
            files.append(p); edits.append([('W', 't/' + p, "@()\nN%d;" % cnt[0])])
        elif k == "modify" and files:
            edits.append([('W', 't/' + rng.choice(files), "@()\nE%d;" % cnt[0])])
        elif k == "delete" and files:
            p = files.pop(rng.randrange(len(files))); edits.append([('X', 't/' + p)])
        elif k == "rename" and files:
            p = files.pop(rng.randrange(len(files))); q = (p.rsplit("/", 1)[0] + "/" if "/" in p else "") + "rn%d" % cnt[0] + rng.choice(SUFFIX)
            files.append(q); edits.append([('N', 't/' + p, 't/' + q)])
        elif k == "restore" and files:
            # other content arriving with the old modification time (cp -p, rsync -t, a restored backup): older than everything generated from it
            edits.append([('T', 't/' + rng.choice(files), rng.choice(["@()\nT%d;" % cnt[0], "@(n: u8)\n<b>@n</b> restored %d" % cnt[0]]))])
        elif k == "moveover" and len(files) >= 2:
            # one template deleted and an older one moved onto its name (the moved file keeps its own, older, modification time)
            q = files.pop(rng.randrange(len(files))); p_ = rng.choice(files)
            edits.append([('X', 't/' + p_), ('N', 't/' + q, 't/' + p_)])
        elif k == "break" and files:
            edits.append([('W', 't/' + rng.choice(files), "@(broken %d" % cnt[0])])
        elif k == "repair" and files:
            edits.append([('W', 't/' + rng.choice(files), "@()\nR%d;" % cnt[0])])
        elif k == "static":
            edits.append([rng.choice([('W', 'st/a.css', 'a{c:%d}' % cnt[0]), ('W', 'st/n%d.png' % cnt[0], 'png'), ('X', 'st/b.js'), ('W', 'st/b.js', 'bb'),
                                      # same length, same modification time, other bytes (cp -p / an edit within the same second)
                                      ('T', 'st/a.css', 'a{c:%d}' % (9999 - cnt[0] % 1000)), ('T', 'st/b.js', rng.choice(['bq', 'b;', 'zz']))])])
        elif k == "adddir":
            d = rng.choice(DIRN) + "%d" % cnt[0]; dirs.append(d); edits.append([('M', 't/' + d), ('W', 't/' + d + '/' + rng.choice(IDENTS) + '.rs.html', "@()\nD%d;" % cnt[0])])
        else: edits.append([])
    return init, edits

def run_c12(pid, tier):
    chk = Check(pid, tier); rng = chk.rng
    info = ensure_all()
    proof = proof_step(pid, thorough=(tier == "thorough"))
    n = 25 if tier == "quick" else 150
    H = 4 if tier == "quick" else 7
    scen = []; clean = []; meta = []
    for i in range(n):
        init, edits = edit_history(rng, H)
        steps = list(init) + [('R', PROG_FULL)]
        inputs = list(init)
        kinds = ["first"]
        for e in edits:
            steps += e; inputs += e
            mode = rng.random()
            if mode < 0.25:
                # garbage / truncation in output files before the run
                victim = rng.choice(["templates.rs", "templates/statics.rs", "templates/_utils.rs", "templates/_utils.rs", "templates/template_a_html.rs", "templates/sub/mod.rs", "templates/template_big_html.rs"])
                u = utils_src()
                steps.append(('O', victim, rng.choice([b"", b"\xff\xfe garbage", b"pub mod templates {\n", b"x" * 10,
                                                        # damage that keeps the length of the constant helper file
                                                        u[:100] + bytes([u[100] ^ 1]) + u[101:], b"#" * len(u), u[:-1]])))
            elif mode < 0.5:
                # a build that dies at its k-th physical write, the file cut at 0 / mid / len-1 bytes
                steps.append(('C', rng.randint(0, 5), rng.choice([0, -2, -1]), PROG_FULL))
            # (no sentinel after an edit that brings in an older file: the generated files keep their own, newer, modification times)
            older = any(st[0] == 'T' and st[1].startswith('t/') for st in e) or (len(e) == 2 and e[0][0] == 'X' and e[1][0] == 'N')
            steps += ([] if older else [('Z',)]) + [('R', PROG_FULL)]
            kinds.append("edit" if e else "unchanged")
            # the same inputs again, nothing changed
            if rng.random() < 0.5:
                steps += [('Z',), ('R', PROG_FULL)]; kinds.append("unchanged")
        scen.append(steps); meta.append(kinds)
    # each template of a sub-directory deleted (then: broken) in turn and put back: whichever read_dir lists last is among them
    for mode in ("delete", "break"):
        trio = [x + ".rs.html" for x in rng.sample(IDENTS, 3)]
        steps = [('W', 't/top.rs.html', "@()\nT")] + [('W', 't/sub/' + f, "@()\nS%d" % k) for k, f in enumerate(trio)] + [('M', 'st'), ('W', 'st/a.css', 'a{}'), ('R', PROG_FULL)]
        kinds = ["first"]
        for k, f in enumerate(trio):
            steps += [('X', 't/sub/' + f)] if mode == "delete" else [('W', 't/sub/' + f, "@(broken")]
            steps += [('Z',), ('R', PROG_FULL), ('W', 't/sub/' + f, "@()\nS%d" % k), ('Z',), ('R', PROG_FULL)]; kinds += ["edit", "edit"]
        scen.append(steps); meta.append(kinds)
    # a first build that dies at its k-th write with the file cut at 0 / half / len-1 bytes, then a successful one
    for k in range(6):
        for cut in (0, -2, -1):
            scen.append([('W', 't/top.rs.html', "@()\nT"), ('W', 't/sub/in.rs.html', "@()\n<p>inner</p>"), ('M', 'st'), ('W', 'st/a.css', 'a{}'),
                         # (no sentinel between the crash and the next run: the truncated file keeps its fresh modification time)
                         ('C', k, cut, PROG_FULL), ('R', PROG_FULL), ('Z',), ('R', PROG_FULL)]); meta.append(["edit", "unchanged"])
    rs = run_keyed(scen)
    # clean builds of the input state before every run: replay the input edits into a fresh directory
    clean_scen = []; clean_ref = []
    for si, steps in enumerate(scen):
        inputs = []
        ri = 0
        for st in steps:
            if st[0] in 'WTMXN': inputs.append(st)
            elif st[0] == 'R':
                clean_scen.append(list(inputs) + [('R', st[1])]); clean_ref.append((si, ri)); ri += 1
    crs = run_scenarios(clean_scen)
    disagree = []; oracle_fail = []
    for r, steps in zip(rs, scen):
        # mark runs that were preceded by the sentinel
        ri = 0; z = False
        runs = [x for x in r["runs"] if x["kind"] == "R"]
        for st in steps:
            if st[0] == 'Z': z = True
            elif st[0] == 'R': runs[ri]["sentinel"] = z; ri += 1; z = False
            elif st[0] == 'C': z = False
    model_vs_impl(chk, rs, disagree, what=("fs", "writes"))
    nruns = 0; ncrash = 0
    for (si, ri), cr in zip(clean_ref, crs):
        r = rs[si]; runs = [x for x in r["runs"] if x["kind"] == "R"]
        if ri >= len(runs) or runs[ri]["after"] is None: continue
        run = runs[ri]; nruns += 1
        chk.count((r["key"] + str(ri)).encode(), ri > 0)
        want = reachable(snap_files(cr["runs"][0]["after"])); got_all = snap_files(run["after"]); got = reachable(got_all)
        if run["status"] != "ok" or cr["runs"][0]["status"] != "ok":
            oracle_fail.append((r["key"], "build failed: %s / clean %s" % (run["status"], cr["runs"][0]["status"]), None)); continue
        norm = lambda d, b: {p: c.replace(b, b"<BASE>") for p, c in d.items()}
        if norm(want, cr["base"]) != norm(got, r["base"]):
            w, g = norm(want, cr["base"]), norm(got, r["base"])
            k = next(p for p in sorted(set(w) | set(g)) if w.get(p) != g.get(p))
            oracle_fail.append((r["key"], "after run %d the reachable generated files differ from a clean build (first difference: %s)" % (ri, k.decode()),
                                dict(incremental=(g.get(k) or b"<absent>").decode("utf8", "replace")[-600:], clean=(w.get(k) or b"<absent>").decode("utf8", "replace")[-600:]))); continue
        kinds = meta[si]
        if ri < len(kinds) and kinds[ri] == "unchanged" and run.get("sentinel"):
            # was the previous thing a plain successful run? (crashes and garbage legitimately cause rewrites)
            prev_ok = True
            seen = -1
            for k2, st in enumerate(scen[si]):
                if st[0] == 'R':
                    seen += 1
                    if seen == ri:
                        back = scen[si][:k2]
                        j = len(back) - 1
                        while j >= 0 and back[j][0] == 'Z': j -= 1
                        prev_ok = back[j][0] == 'R'
                        break
            if prev_ok and snap_touched(run["after"]):
                oracle_fail.append((r["key"], "a run whose inputs have not changed rewrote %s" % snap_touched(run["after"]), None))
    ncrash = sum(1 for r in rs for x in r["runs"] if x["kind"] == "C")
    for s in scen[:1]: chk.sample(dict(steps=[str(x)[:80] for x in s[:40]]))
    chk.notes["runs_compared_with_clean_build"] = nruns; chk.notes["crashed_builds"] = ncrash
    hyps = [x["model"].get("hyp") for r in rs for x in r["runs"] if x["kind"] == "R" and x.get("model")]
    chk.notes["second_run_theorem_side_conditions"] = "plan_ok (planned paths pairwise distinct, planned contents valid UTF-8) evaluated by the extracted driver on %d runs: held on %d" % (len(hyps), sum(1 for h in hyps if h == "1"))
    chk.cov["rule"] = ("edit histories of length %d over a template tree and a static directory (add / modify / delete / rename / break / repair templates, add directories, edit statics), each followed by a run; before a run "
                       "optionally: arbitrary garbage or truncation in an output file, or a build killed at its k-th physical write (k in 0..5) with the file cut at 0 / half / len-1 bytes (crash hook); every output file gets a sentinel mtime; "
                       "after each run the files reachable from templates.rs are compared with a clean build of the same inputs, and the set of rewritten files with the model's write list. non-trivial = a run after at least one edit") % H
    chk.assumptions += ["mtime/inode preservation and real crash atomicity are runtime behaviour observed by the harness, outside the model"]
    return finish_build(chk, proof, info, disagree, oracle_fail, nruns)

# ------------------------------------------------------------------------------------------ C17
def run_c17(pid, tier):
    chk = Check(pid, tier); rng = chk.rng
    info = ensure_all()
    proof = proof_step(pid, thorough=(tier == "thorough"))
    n = 80 if tier == "quick" else 800
    scen = []; infl = []; seen_runs = {}
    for i in range(n):
        entries = gen_tree(rng, depth=rng.randint(1, 3), broken_p=0.05)
        steps = tree_steps(entries)
        # static directories
        sfiles = []
        # siblings whose path string extends another directory's path string (st / st-vendor / st2 / st.old) are not below it
        for d in ["st", "st/img", "st/img/deep", "st-vendor", "st2", "st.old", "assets", "assets/v1", "assets_3rd"]:
            if rng.random() < 0.6:
                steps.append(('M', d))
                for _ in range(rng.randint(0, 3)):
                    f = d + "/" + rng.choice(["a", "b", "logo", "x-1", "n.min"]) + rng.choice([".css", ".js", ".png", ".woff2", ""])
                    steps.append(('W', f, "c" + f)); sfiles.append(f)
        steps.append(('W', "scss/m.scss", 'a{b:1}'))
        prog = []; need = []
        if rng.random() < 0.9:
            prog.append(('c', 't')); need.append(("dir", "t"))
            for p, k, _ in entries:
                if k == "dir": need.append(("dir", "t/" + p))
                elif k in ("tmpl", "broken"): need.append(("file", "t/" + p))
        if rng.random() < 0.5:
            # compile_templates a second time, on a sibling whose path string extends (or is extended by) the first one's
            t2 = rng.choice(["t_admin", "t2", "t.old", "tt"])
            steps += [('M', t2), ('W', t2 + "/extra.rs.html", "@()\nX;"), ('M', t2 + "/inner"), ('W', t2 + "/inner/more.rs.html", "@()\nY;")]
            call = [('c', t2)]; need2 = [("dir", t2), ("file", t2 + "/extra.rs.html"), ("dir", t2 + "/inner"), ("file", t2 + "/inner/more.rs.html")]
            if rng.random() < 0.5: prog += call
            else: prog = call + prog
            need += need2
        prog.append(('s',))
        dirs_present = sorted(set(s[1] for s in steps if s[0] == 'M' and not s[1].startswith("t")))
        ids = set()
        for _ in range(rng.randint(1, 7)):
            k = rng.choice("fgatS")
            if k == 'f' and sfiles:
                f = rng.choice(sfiles)
                if "." in f.rsplit("/", 1)[-1]: prog.append(('f', f)); need.append(("file", f))
            elif k == 'g' and dirs_present:
                d = rng.choice(dirs_present); prog.append(('g', d)); need.append(("dir", d))
                need += [("file", f) for f in sfiles if f.rsplit("/", 1)[0] == d and "." in f.rsplit("/", 1)[-1]]
            elif k == 'a' and sfiles:
                f = rng.choice(sfiles); prog.append(('a', f, "to/" + f.replace("/", "_"))); need.append(("file", f))
            elif k == 't' and dirs_present:
                d = rng.choice(dirs_present); prog.append(('t', d, rng.choice(["", "pre", "v/1"])))
                need.append(("dir", d)); need += [("dir", x) for x in dirs_present if x.startswith(d + "/")]
                need += [("file", f) for f in sfiles if f.startswith(d + "/")]
            elif k == 'S':
                prog.append(('S', "scss/m.scss", "", b"a{b:1}\n")); need.append(("file", "scss/m.scss"))
        # duplicate identifiers make the statics module meaningless but do not matter for announcements
        # the same build script again on the same OUT_DIR (what cargo does after any edit): cargo keeps only the lines of the last run
        scen.append(steps + [('R', prog), ('R', prog)]); infl.append(need)
    rs = run_keyed(scen)
    disagree = []; oracle_fail = []
    model_vs_impl(chk, rs, disagree, what=("out",))
    kinds = {}
    for r, need in [(r0, n0) for r0, n0 in zip(rs, infl) for _ in (0, 1)]:
        seen_runs[id(r)] = seen_runs.get(id(r), -1) + 1
        if seen_runs[id(r)] >= len(r["runs"]): continue
        run = r["runs"][seen_runs[id(r)]]
        chk.count(r["key"].encode() + b"#%d" % seen_runs[id(r)], len(need) > 1)
        base = r["base"].decode()
        ann = [l[len("cargo:rerun-if-changed="):] for l in run["out"].decode("utf8", "replace").split("\n") if l.startswith("cargo:rerun-if-changed=")]
        rel = [a[len(base) + 1:] if a.startswith(base + "/") else a for a in ann]
        for kind, p in need:
            kinds[kind] = kinds.get(kind, 0) + 1
            covered = any(p == a or p.startswith(a + "/") for a in rel)
            # a directory must be announced itself (or through an ancestor) so that additions to it are seen
            if not covered:
                oracle_fail.append((r["key"], "%s %s influenced the output but no cargo:rerun-if-changed line covers it in run %d on this OUT_DIR (announced: %s)" % (kind, p, seen_runs[id(r)] + 1, rel), None)); break
        # the model's read set must be covered too (ties the theorem to the run)
        if "model" in run:
            for p in run["model"]["reads"]:
                p = p.decode("utf8", "replace")
                if not any(p == a or p.startswith(a + "/") for a in ann):
                    disagree.append((r["key"], "model read %s not covered by the implementation's announcements" % p, str(ann), "")); break
    # stylesheets that pull in other files (@import / @use of partials, nested): every file the compiler opened influenced the css.
    # Implementation against the oracle only (the model takes the compiled css, and what rsass read, as given).
    sscen = []; sneed = []
    for variant in range(6 if tier == "quick" else 18):
        main = ['@import "part";\na{b:1}', '@use "part";\na{b:1}', '@import "sub/deep";\n@import "part";\na{b:$c}', '@import "part", "sub/deep";',
                # imports that leave the directory of the main file, directly and through a partial
                '@import "../shared/vars";\na{b:$v}', '@import "part";\n@import "../shared/more/mixins";\na{b:1}'][variant % 6]
        files = {"scss/main.scss": main, "scss/_part.scss": "$c: 2;\np{q:$c}", "scss/sub/_deep.scss": "$c: 3;\nd{e:f}", "scss/unused.scss": "u{v:w}",
                 "shared/_vars.scss": "$v: 7;", "shared/more/_mixins.scss": "m{n:o}"}
        need = ["scss/main.scss"] + (["scss/_part.scss"] if '"part"' in main else []) + (["scss/sub/_deep.scss"] if "deep" in main else []) + \
               (["shared/_vars.scss"] if "vars" in main else []) + (["shared/more/_mixins.scss"] if "mixins" in main else [])
        steps = [('W', p0, c0) for p0, c0 in files.items()] + [('W', 't/x.rs.html', '@()\nx')]
        prog = ([('c', 't')] if variant % 2 else []) + [('s',), ('S', 'scss/main.scss', "", b"?")]
        sscen.append(steps + [('R', prog), ('R', prog)]); sneed.append(need)
    for need, r in zip(sneed, run_keyed(sscen)):
        for ri, run in enumerate(r["runs"][:2]):
            chk.count(r["key"].encode() + b"#s%d" % ri, True)
            base = r["base"].decode()
            ann = [l[len("cargo:rerun-if-changed="):] for l in run["out"].decode("utf8", "replace").split("\n") if l.startswith("cargo:rerun-if-changed=")]
            rel = [os.path.normpath(a[len(base) + 1:]) if a.startswith(base + "/") else a for a in ann]
            if run["status"] != "ok":
                oracle_fail.append((r["key"], "a stylesheet with partials does not compile: %s" % run["status"], None)); break
            miss = [p0 for p0 in need if not any(p0 == a or p0.startswith(a + "/") for a in rel)]
            if miss:
                oracle_fail.append((r["key"], "file %s was read by the sass compiler (it is part of the css) but no cargo:rerun-if-changed line covers it in run %d (announced: %s)" % (miss[0], ri + 1, rel), None)); break
    # a build script that tolerates a missing optional input (the failing call's result is ignored) and goes on with the same StaticFiles:
    # what the later calls look at must still be announced.  Implementation against the oracle only (the model's scripts stop at a failure).
    iscen = []; ineed = []
    tree = [('W', 'st/a.css', 'a{}'), ('W', 'st/sub/b.js', 'b'), ('W', 'st/sub/deep/c.png', 'c'), ('W', 't/x.rs.html', '@()\nx')]
    for prog, need in [([('s',), ('T', 'optional', 'opt'), ('t', 'st', 'pub')], ["st", "st/a.css", "st/sub", "st/sub/b.js", "st/sub/deep", "st/sub/deep/c.png"]),
                       ([('s',), ('T', 'st/a.css', 'opt'), ('T', 'nope/x', 'y'), ('t', 'st/sub', '')], ["st/sub", "st/sub/b.js", "st/sub/deep", "st/sub/deep/c.png"]),
                       ([('s',), ('G', 'optional'), ('g', 'st')], ["st", "st/a.css"]),
                       ([('s',), ('F', 'st/missing.css'), ('f', 'st/a.css'), ('A', 'st/none.js', 'n.js'), ('a', 'st/sub/b.js', 'b.js')], ["st/a.css", "st/sub/b.js"]),
                       ([('c', 't'), ('s',), ('G', 'st/sub/deep/c.png'), ('t', 'st', ''), ('g', 'st/sub')], ["t", "t/x.rs.html", "st", "st/sub", "st/sub/b.js"])]:
        iscen.append(tree + [('R', prog), ('R', prog)]); ineed.append(need)
    for broken in ["@()\n@if a {\n", "@()\n<p>\n@for x in xs {\n  <li>\n", "@()\n@* never closed\n", "@(a: u8)\n@match a {\n  1 => {one}\n",
                   # an error on a line of several thousand bytes (a minified page): the diagnostic echoes the line
                   "@()\n<p>" + "minified " * 400 + "@if {\n", "@()\n" + "é" * 3000 + "}"]:
        t2 = [('W', 'tt/last.rs.html', broken), ('W', 'st/a.css', 'a{}'), ('W', 'st2/b.js', 'b'), ('W', 'more/x.rs.html', '@()\nx')]
        for prog, need in [([('c', 'tt'), ('s',), ('f', 'st/a.css'), ('g', 'st2')], ["tt", "tt/last.rs.html", "st/a.css", "st2", "st2/b.js"]),
                           ([('c', 'tt'), ('c', 'more')], ["tt", "tt/last.rs.html", "more", "more/x.rs.html"]),
                           ([('c', 'tt'), ('s',), ('a', 'st/a.css', 'x.css'), ('t', 'st2', 'p')], ["tt", "st/a.css", "st2"])]:
            iscen.append(t2 + [('R', prog), ('R', prog)]); ineed.append(need)
    for need, sc, r in zip(ineed, iscen, run_scenarios_env(iscen, dict(os.environ), cwd="/")):
        key = scenario_line(sc)
        for ri, run in enumerate(r["runs"][:2]):
            chk.count(key.encode() + b"#i%d" % ri, True)
            base = r["base"].decode()
            ann = [l[len("cargo:rerun-if-changed="):] for l in run["out"].decode("utf8", "replace").split("\n") if l.startswith("cargo:rerun-if-changed=")]
            rel = [os.path.normpath(a[len(base) + 1:]) if a.startswith(base + "/") else a for a in ann]
            if run["status"] != "ok":
                oracle_fail.append((key, "a build script that ignores the failure of a call on a missing optional input did not complete: %s" % run["status"], None)); break
            miss = [p0 for p0 in need if not any(p0 == a or p0.startswith(a + "/") for a in rel)]
            if miss:
                oracle_fail.append((key, "%s influenced the output of a call made after a tolerated failure / after a template that was rejected at its last line, but no cargo:rerun-if-changed line covers it in run %d (announced: %s)" % (miss[0], ri + 1, rel), None)); break
    for s in scen[:1]: chk.sample(dict(steps=[str(x)[:90] for x in s[-6:]]))
    chk.notes["influencing_inputs_checked"] = kinds
    chk.cov["rule"] = ("random template trees plus nested static directories and build-script programs over compile_templates, add_file, add_files, add_file_as, add_files_as (with sub-directories), add_sass_file; "
                       "stdout compared with the model; oracle: every template directory, template file, walked static directory and added static file is equal to or below an announced path. "
                       "non-trivial = at least two influencing inputs; distinct by scenario")
    chk.assumptions += ["cargo's meaning of rerun-if-changed (a path covers itself and, for a directory, what is below it) is assumed; rsass announces the files it opens"]
    return finish_build(chk, proof, info, disagree, oracle_fail, len(scen))

# ------------------------------------------------------------------------------------------ C18
def run_c18(pid, tier):
    from tmpl_gen import Gen, make_template
    from tmpl_checks import compile_pairs, decode_outcome
    chk = Check(pid, tier); rng = chk.rng
    info = ensure_all()
    proof = proof_step(pid, thorough=(tier == "thorough"))
    n = 40 if tier == "quick" else 300
    g = Gen(rng, depth=2)
    scen = []; meta = []
    for i in range(n):
        # several use lines: their order in the output must be the order in the template, every time
        uses = ["super::wrap_html"] + rng.sample(["crate::P", "std::fmt::Display", "std::collections::HashMap as Map", "std::cmp::*", "crate::models::{A, B}", "super::wrap_html as w2"], rng.randint(0, 5))
        src = make_template(g, g.items(), rng.choice(["canon", "pert"]), tuple(uses))
        name = rng.choice(IDENTS) + rng.choice(SUFFIX)
        sib = [(rng.choice(IDENTS) + "%d" % k + rng.choice(SUFFIX), "@()\nS%d" % k) for k in range(rng.randint(1, 4))]
        # a valid sibling whose text is full of groups that never close (`@n(`, `@n[`, `@n{` followed by plain text): state carried from one template to the next shows in the next one
        sib += [("groups%d.rs.html" % i, "@(n: u8)\n" + "type @n( to call, @n[ to index, and @n{ " * 9 + "\n") for i in range(2)]
        # siblings whose generated names end in / begin with the generated name of this template
        sib += [(pre + name, "@()\nP%d" % k) for k, pre in enumerate(["side", "a_", "zz", "X9"])] + [(name.split(".")[0] + "_more" + "." + name.split(".", 1)[1], "@()\nQ")]
        # (a) alone (b) created after siblings (c) created before siblings (d) deep inside another tree, twice
        sa = [('W', 't/' + name, src), ('R', [('c', 't')])]
        sb = [('W', 't/' + f, c) for f, c in sib] + [('W', 't/' + name, src), ('R', [('c', 't')])]
        sc = [('W', 't/' + name, src)] + [('W', 't/' + f, c) for f, c in reversed(sib)] + [('M', 't/zz')] + [('R', [('c', 't')])]
        sd = [('W', 'some/where/else/q/' + name, src), ('W', 'some/where/else/other.rs.html', '@()x'), ('R', [('c', 'some/where/else')]), ('R', [('c', 'some/where/else')])]
        # statics: same set of names in different orders
        names = rng.sample(["a.css", "b.js", "c-d.png", "e.f.txt", "g_h.woff", "0.ico", "site.css", "site2.css", "siteA.css", "site_.css", "site-x.css", "img-small.png", "img2.png", "site-map.xml", "siteMap.xml"], rng.randint(2, 7))
        if rng.random() < 0.4:
            # published names that agree on their first 40 / 70 bytes
            lp = "the-long-common-prefix-of-several-file-names" + ("-and-then-some-more-of-the-same" if rng.random() < 0.5 else "")
            extra = [lp + "-responsive.min.css", lp + "-responsive.css", lp + ".js"]; rng.shuffle(extra); names += extra[:rng.randint(2, 3)]
        # one order ascending in the derived identifiers (which sort differently from the published names where '-', '.' meet digits and capitals), one descending in the names
        ident = lambda x: "".join(ch if ch.isalnum() else "_" for ch in x)
        p1 = [('s',)] + [('d', x, x.encode()) for x in (sorted(names, key=ident) if rng.random() < 0.6 else names)]
        p2 = [('s',)] + [('d', x, x.encode()) for x in sorted(names, reverse=True)]
        if rng.random() < 0.5 and len(names) >= 2:
            # the same set of published names from source paths whose order differs from the order of the names
            n1, n2 = names[0], names[1]
            sa = [('W', 'p/x/' + n1, n1), ('W', 'p/y/' + n2, n2), ('W', 'q/9.bin', 'nine'), ('W', 'q/0.bin', 'zero')] + sa
            sb = [('W', 'p/y/' + n1, n1), ('W', 'p/x/' + n2, n2), ('W', 'q/9.bin', 'zero'), ('W', 'q/0.bin', 'nine')] + sb
            p1 = [('s',), ('f', 'p/x/' + n1), ('f', 'p/y/' + n2), ('a', 'q/9.bin', 'to/a.bin'), ('a', 'q/0.bin', 'to/b.bin')] + [('d', x, x.encode()) for x in names[2:]]
            p2 = [('s',), ('f', 'p/x/' + n2), ('f', 'p/y/' + n1), ('a', 'q/0.bin', 'to/a.bin'), ('a', 'q/9.bin', 'to/b.bin')] + [('d', x, x.encode()) for x in names[2:]]
        else:
            sa = [('W', 'q/9.bin', 'nine'), ('W', 'q/0.bin', 'zero')] + sa; sb = [('W', 'q/9.bin', 'nine'), ('W', 'q/0.bin', 'zero')] + sb
        # published names that differ only in the case of a letter, added in either order
        p1 = p1 + [('a', 'q/9.bin', 'to/Case.bin'), ('a', 'q/0.bin', 'to/case.bin')]; p2 = p2 + [('a', 'q/0.bin', 'to/case.bin'), ('a', 'q/9.bin', 'to/Case.bin')]
        sa[-1] = ('R', [('c', 't')] + p1); sb[-1] = ('R', [('c', 't')] + p2)
        # (e) into an OUT_DIR that already holds a longer (then: a different, equally long) output under the same name
        se = [('W', 't/' + name, src + "<p>a longer earlier version of this template</p>\n" * 3), ('R', [('c', 't')]), ('W', 't/' + name, src[:-1] + "#" if src else "#"), ('R', [('c', 't')]),
              # the final bytes arrive with the old modification time (mv / cp -p / rsync -t of an older file): older than the generated file
              ('T', 't/' + name, src), ('R', [('c', 't')])]
        # (f) among siblings that do not parse (ructe warns and carries on), whatever order read_dir lists them in
        bad = [(rng.choice(["a0", "m5", "zz", "B", "_q", "k"]) + "%d" % k + rng.choice(SUFFIX), rng.choice(["@(oops", "@()@if {", "no declaration", "@()@", "@()@* open"])) for k in range(4)]
        sf = [('W', 't/' + f, c) for f, c in bad[:2]] + [('W', 't/' + name, src)] + [('W', 't/' + f, c) for f, c in bad[2:]] + [('R', [('c', 't')])]
        # (g) the same file name in the parent, a child, a grandchild and a cousin directory
        sg = [('W', 't/' + name, src), ('W', 't/sub/' + name, src), ('W', 't/sub/deep/' + name, src), ('W', 't/other/' + name, src), ('W', 't/other/sub/' + name, src),
              # sibling directories whose names are prefixes of one another, and of the word `templates`
              ('W', 't/adm/' + name, src), ('W', 't/adm_pages/' + name, src), ('W', 't/temp/' + name, src), ('W', 't/sub/su/' + name, src), ('R', [('c', 't')])]
        # (h) one OUT_DIR over four runs while each template of a sub-directory is taken away in turn and put back
        trio = [rng.choice(IDENTS) + "%d" % k + rng.choice(SUFFIX) for k in range(3)]
        sh = [('W', 't/sub/' + f, "@()\nH") for f in trio] + [('R', [('c', 't')])]
        for k, f in enumerate(trio):
            sh += ([('W', 't/sub/' + trio[k - 1], "@()\nH")] if k else []) + [('X', 't/sub/' + f), ('R', [('c', 't')])]
        # ... and broken in place, then repaired: the declaration goes and comes back
        sh += [('W', 't/sub/' + trio[-1], "@()\nH"), ('W', 't/sub/' + trio[0], "@(broken"), ('R', [('c', 't')]), ('W', 't/sub/' + trio[0], "@()\nH"), ('R', [('c', 't')])]
        scen += [sa, sb, sc, sd, se, sf, sg, sh]; meta.append((name, src, sib, len(scen) - 8, trio))
    rs = run_keyed(scen)
    # the same scenarios again from another cwd, with another environment and locale
    env2 = dict(os.environ, LANG="tr_TR.UTF-8", LC_ALL="C", TZ="Pacific/Kiritimati", HOME="/nonexistent", CARGO_PKG_NAME="zzz", OUT_DIR="/nonexistent/out")
    rs_env = run_scenarios_env([s for s in scen[::8]], env2, cwd="/")
    disagree = []; oracle_fail = []
    model_vs_impl(chk, rs, disagree, what=("fs",))
    def tfile(r, runi, name):
        mods, fn = fn_path(name)
        files = snap_files(r["runs"][runi]["after"])
        cand = [c for p, c in files.items() if p.decode().endswith("/template_%s.rs" % fn)]
        return cand[0] if len(cand) == 1 else None
    for k, (name, src, sib, s0, trio) in enumerate(meta):
        # (h): after every run the sub-directory's module declares exactly the templates that are there now
        hr = [x for x in rs[s0 + 7]["runs"] if x["kind"] == "R"]
        for ri, run in enumerate(hr):
            present = [f for j, f in enumerate(trio) if ri == 0 or j != ri - 1] if ri <= len(trio) else (trio[1:] if ri == len(trio) + 1 else list(trio))
            mf = snap_files(run["after"] or {}).get(b"templates/sub/mod.rs", b"")
            got = sorted(re.findall(rb"mod template_([A-Za-z0-9_]+);", mf))
            want = sorted(fn_path(f)[1].encode() for f in present)
            if got != want:
                oracle_fail.append((rs[s0 + 7]["key"], "run %d into one OUT_DIR: the module of directory sub declares %s but the directory holds %s" % (ri + 1, [x.decode() for x in got], present),
                                    mf[-400:].decode("utf8", "replace"))); break
        chk.count((name + "\0" + src).encode(), True)
        outs = [tfile(rs[s0], 0, name), tfile(rs[s0 + 1], 0, name), tfile(rs[s0 + 2], 0, name), tfile(rs[s0 + 3], 0, name), tfile(rs[s0 + 3], 1, name), tfile(rs[s0 + 4], 2, name), tfile(rs[s0 + 5], 0, name), tfile(rs_env[k], 0, name)]
        # (g): five copies in five directories, each with its own declaration
        mods, fn = fn_path(name)
        gfiles = snap_files(rs[s0 + 6]["runs"][0]["after"])
        for d in ["", "sub/", "sub/deep/", "other/", "other/sub/", "adm/", "adm_pages/", "temp/", "sub/su/"]:
            tf = gfiles.get(("templates/" + d + "template_%s.rs" % fn).encode())
            mf = gfiles.get(("templates/" + d + "mod.rs").encode() if d else b"templates.rs", b"")
            if d:
                up = d.rstrip("/").rsplit("/", 1)
                pf = gfiles.get(("templates/" + up[0] + "/mod.rs").encode() if len(up) == 2 else b"templates.rs", b"")
                if ("pub mod %s;" % up[-1]).encode() not in pf and outs[0] is not None:
                    oracle_fail.append((rs[s0 + 6]["key"], "the directory %r of the template tree is not declared `pub mod` in its parent module" % d, pf[-400:].decode("utf8", "replace"))); break
            if tf is None or outs[0] is None or tf != outs[0] or ("mod template_%s;" % fn).encode() not in mf:
                if outs[0] is not None:
                    oracle_fail.append((rs[s0 + 6]["key"], "the template %s placed in directory %r of a tree that holds the same file name in other directories is %s" %
                                        (name, d, "not generated / generated differently" if tf != outs[0] else "not declared in its module"), None)); break
        for si in (1, 2):
            tr = snap_files(rs[s0 + si]["runs"][0]["after"]).get(b"templates.rs", b"")
            if outs[si] is not None and ("mod template_%s;" % fn).encode() not in tr:
                oracle_fail.append((rs[s0 + si]["key"], "the template %s was compiled among siblings whose names end in / begin with its name, but its module is not declared" % name, tr[-600:].decode("utf8", "replace"))); break
        if any(o is None for o in outs) and not all(o is None for o in outs):
            oracle_fail.append((rs[s0 + 1]["key"], "the template was compiled in one surrounding but not in another", None)); continue
        if len(set(outs)) > 1:
            j = next(i for i in range(len(outs)) if outs[i] != outs[0])
            oracle_fail.append((rs[s0 + [0, 1, 2, 3, 3, 4, 5, 0][j]]["key"], "generated code for the same template bytes and name differs between surroundings (alone / among siblings / other location / repeated / an OUT_DIR holding earlier output / among siblings that do not parse / other cwd+env)",
                                dict(a=(outs[0] or b"").decode("utf8", "replace")[-500:], b=(outs[j] or b"").decode("utf8", "replace")[-500:]))); continue
        # module declarations: a set that depends only on the directory contents
        def decls(r):
            f = snap_files(r["runs"][0]["after"]).get(b"templates.rs", b"")
            return sorted(re.findall(rb"(?:pub )?mod [A-Za-z0-9_]+;", f))
        if decls(rs[s0 + 1]) != sorted(set(decls(rs[s0 + 2])) - {b"pub mod zz;"} | {b"pub mod statics;"}):
            oracle_fail.append((rs[s0 + 2]["key"], "the set of module declarations differs for the same directory contents created in another order: %s vs %s" % (decls(rs[s0 + 1]), decls(rs[s0 + 2])), None)); continue
        sl = lambda r: re.search(rb"pub static STATICS[^\n]*", snap_files(r["runs"][0]["after"]).get(b"templates/statics.rs", b"")).group(0)
        if sl(rs[s0]) != sl(rs[s0 + 1]):
            oracle_fail.append((rs[s0 + 1]["key"], "the order of STATICS depends on the insertion order", dict(a=sl(rs[s0]).decode(), b=sl(rs[s0 + 1]).decode())))
    for s in scen[:1]: chk.sample(dict(steps=[str(x)[:100] for x in s]))
    chk.cov["rule"] = ("%d generated templates, each compiled alone, among siblings created before / after it, deep inside another tree at another path into another OUT_DIR twice, into an OUT_DIR that holds a longer and then a different earlier output under the same name, and from another cwd with other environment variables and locale; "
                       "template_*.rs compared byte for byte across surroundings and with the model (whose only inputs are the bytes and the name); mod declarations compared as a set; STATICS line for the same names in two insertion orders. distinct by template") % n
    return finish_build(chk, proof, info, disagree, oracle_fail, len(scen))

def run_scenarios_env(scenarios, env, cwd):
    """implementation only, in another process environment"""
    lines = []
    plans = []
    for steps in scenarios:
        full = []
        for st in steps:
            if st[0] in 'RC': full += [st, ('P',)]
            else: full.append(st)
        lines.append(scenario_line(full)); plans.append(full)
    p = subprocess.run([HARNESS, "capture", "build"], input=("\n".join(lines) + "\n").encode(), capture_output=True, env=env, cwd=cwd)
    out = []
    for full, l in zip(plans, [x for x in p.stdout.decode("utf8", "replace").split("\n") if x]):
        fields = parse_ordered(l); runs = []; buf = b""; base = b""
        for k, v in fields:
            if k == "base": base = unhexs(v)
            elif k == "out": buf += unhexs(v)
            elif k == "run": runs.append(dict(kind="R", status=v, after=None, out=buf)); buf = b""
            elif k == "snap" and runs: runs[-1]["after"] = parse_snap(v)
        out.append(dict(runs=runs, base=base))
    return out
