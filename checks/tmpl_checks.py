"""C01, C03, C04, C14, C15 (and helpers for C05, C13): proof step + S1/S2 correspondence on generated
templates + compile-and-run oracle."""
import itertools, random, os
from vlib import *
from tmpl_gen import *
from render_lib import *

NAME = lambda i: "t%d_html" % i

BATCHES = []     # every batch handed to the harness: [(name, source, input line, implementation's answer)], in order
def compile_pairs(srcs_named):
    """[(name, src bytes)] -> (impl lines, model lines)"""
    lines = ["%s %s" % (hexs(n.encode()), hexs(s)) for n, s in srcs_named]
    impl = run_impl("compile", lines)
    BATCHES.append([(n, bytes(s), l, a) for (n, s), l, a in zip(srcs_named, lines, impl)])
    return impl, run_model("compile", lines)

def history_pass(named, impl, oracle_fail):
    """every template of the batch once more, all in ONE process (the batch itself is spread over several): a template that gets another answer as the
    n-th of a long-lived process than it got in a process that had compiled fewer before it depends on that history"""
    lines = ["%s %s" % (hexs(n.encode()), hexs(s)) for n, s in named]
    one = run_impl("compile", lines, shards=1, _retry=False, timeout=900)
    for i, (a1, a) in enumerate(zip(one, impl)):
        if a1 != a and a1 not in ("CRASH", "SKIPPED") and a not in ("CRASH", "SKIPPED"):
            show = lambda o: (decode_outcome(o)[0], decode_outcome(o)[1].decode("utf8", "replace")[:2500])
            oracle_fail.append((named[i][1], "what is generated for a template depends on what the same process compiled before it: as the %d-th template of one process it gets another result than in a process that had compiled fewer" % (i + 1),
                                dict(in_the_long_lived_process=show(a1), in_the_batch=show(a), compiled_before_hex=[s.hex() for _, s in named[:i]],
                                     replay="feed one line `hex(name) hex(source)` per template (those of compiled_before_hex first, names t0_html, t1_html, ...) to `%s compile`" % HARNESS)))
            break

def history_probe(src, a):
    """`a` is what the harness answered for `src` inside a batch (one process compiles many templates one after the other) and it is not what
    the model says.  Compile the template alone in a fresh process: when that answer differs from the batch's, what is generated depends on what
    the process compiled before -- look for a short history that reproduces it.  Returns None (no dependence on history) or a dict."""
    for batch in reversed(BATCHES):
        idx = [i for i, (n, s0, l, o) in enumerate(batch) if s0 == src and o == a]
        if idx: break
    else: return None
    i = idx[0]; line = batch[i][2]
    alone = run_impl("compile", [line], shards=1)[0]
    if alone == a: return None
    n = len(batch); k = max(1, min(NPROC, (n + 49) // 50))
    shard = batch[i % k:i:k]                       # what the same process had compiled before it
    rej = [b for b in shard if not b[3].startswith("OK")]
    cands = [[r] for r in reversed(rej[-30:])] + [[r] for r in reversed(shard[-10:])] + [rej, shard, [b for b in batch[:i] if not b[3].startswith("OK")], batch[:i]]
    for hist in cands:
        if not hist: continue
        out = run_impl("compile", [h[2] for h in hist] + [line], shards=1, _retry=False)
        if out and out[-1] != alone and out[-1] not in ("CRASH", "SKIPPED"):
            return dict(alone=alone, after_history=out[-1], history=[h[1] for h in hist])
    return dict(alone=alone, after_history=a, history=None)

def decode_outcome(line):
    f = line.split(" ")
    if f[0] in ("OK", "ERR"): return f[0], unhexs(f[1]) if len(f) > 1 else b""
    return f[0], b""

def suite(pid, tier, make_gen, n, uses=("super::wrap_html", "crate::P"), extra_files=None, callee_bodies=None,
          fault_schedules=False, rule="", pert_variants=2, lead="|", check_layout=True, extra_cases=None, post=None, max_src=900, dirs=None, uses_for=None, decl_variants=False):
    chk = Check(pid, tier); rng = chk.rng
    info = ensure_all()
    proof = proof_step(pid, thorough=(tier == "thorough"))
    g = make_gen(rng)
    T = []
    for i in range(n):
        d = dirs[i % len(dirs)] if dirs else ""
        u = uses_for(d) if uses_for else uses
        decl = decl_variant(rng) if decl_variants and i % 3 == 0 else None
        for _try in range(50):
            items = g.items()
            canon = make_template(g, items, "canon", u, lead, decl).encode()
            if len(canon) <= max_src: break
        perts = [make_template(g, items, "pert", u, lead, decl).encode() for _ in range(pert_variants)]
        T.append(dict(i=i, items=items, canon=canon, perts=perts, dir=d, expect=[e.encode() for e in expected(g, items, lead, callee_bodies)]))
    for x in (extra_cases or []):
        x["i"] = len(T); T.append(x)
    # ---- S1+S2 correspondence, canonical and perturbed prints
    named = []
    for t in T:
        named.append((NAME(t["i"]), t["canon"]))
        for p in t.get("perts", []): named.append((NAME(t["i"]), p))
    impl, model = compile_pairs(named)
    disagree = []; oracle_fail = []
    history_pass(named, impl, oracle_fail)
    k = 0; hist = {}
    for t in T:
        nv = 1 + len(t.get("perts", []))
        outs = impl[k:k + nv]; mouts = model[k:k + nv]; srcs = [s for _, s in named[k:k + nv]]; k += nv
        for s, a, m in zip(srcs, outs, mouts):
            chk.count(s, True)
            st = a.split(" ")[0]; hist[st] = hist.get(st, 0) + 1
            if a != m: disagree.append((s, a, m))
        st0, code0 = decode_outcome(outs[0])
        t["code"] = code0 if st0 == "OK" else None
        if st0 != "OK":
            oracle_fail.append((t["canon"], "a well-formed template is not accepted (%s): %s" % (st0, code0.decode("utf8", "replace")[:400]), None)); continue
        if check_layout:
            for s, a in zip(srcs[1:], outs[1:]):
                if a != outs[0]:
                    sa, ca = decode_outcome(a)
                    oracle_fail.append((s, "layout/comment variant of an accepted template does not give byte-identical code (%s)" % sa,
                                        dict(canonical=t["canon"].decode("utf8", "replace"), variant=s.decode("utf8", "replace"), got=ca.decode("utf8", "replace")[:1500], want=code0.decode("utf8", "replace")[:1500])))
                    break
    # ---- S3 oracle: compile with rustc and run
    B = 150 if tier == "quick" else 250
    good = [t for t in T if t.get("code") is not None and "expect" in t]
    fault_cases = 0
    for s0 in range(0, len(good), B):
        batch = good[s0:s0 + B]
        files = {"t/%st%d.rs.html" % (t.get("dir", ""), t["i"]): t["canon"] for t in batch}
        fn = lambda t: "templates::" + "".join(x + "::" for x in t.get("dir", "").split("/") if x) + NAME(t["i"])
        files["t/wrap.rs.html"] = WRAP_SRC.encode()
        for p, c in (extra_files or {}).items(): files[p] = c
        calls = []; meta = []
        for t in batch:
            for ai, a in enumerate(ARGSETS):
                calls.append(("%s(&mut sink, %s)" % (fn(t), rust_args(a)), "-")); meta.append((t, ai, None))
                if fault_schedules:
                    full = t["expect"][ai]; N = len(full)
                    offs = range(N + 1) if N <= 40 else sorted(set([0, 1, N - 1, N] + [rng.randrange(N) for _ in range(12)]))
                    for off in offs:
                        step = rng.choice([1, 1, rng.randint(2, 5), 0])
                        k = rng.choice([0, 0, 2, 3, 5])
                        calls.append(("%s(&mut sink, %s)" % (fn(t), rust_args(a)), "b%d/%d/%d/%d" % (off, step, k, off + 1))); meta.append((t, ai, ("fail", off)))
                    for _ in range(2):
                        sc = [rng.choice(["a1", "a2", "a3", "i", "a7"]) for _ in range(rng.randint(1, 3 * N + 2))]
                        calls.append(("%s(&mut sink, %s)" % (fn(t), rust_args(a)), ",".join(sc))); meta.append((t, ai, ("partial", None)))
        rb = render_batch(files, calls)
        if not rb["ok"]:
            if rb.get("rustc_failed"):
                bad = rustc_blame(rb["error"], [NAME(t["i"]) for t in batch])
                culprits = [t for t in batch if NAME(t["i"]) in bad] or batch[:1]
                for t in culprits[:3]:
                    oracle_fail.append((t["canon"], "generated code for an accepted template does not compile", dict(rustc=rb["error"][:2500], code=(t["code"] or b"").decode("utf8", "replace")[:2000])))
            else:
                oracle_fail.append((batch[0]["canon"], "render batch failed: " + rb["error"][:500], None))
            continue
        for (t, ai, fault), r in zip(meta, rb["results"]):
            full = t["expect"][ai]
            if r is None:
                oracle_fail.append((t["canon"], "generated function crashed / no result", None)); continue
            lg, res, after = r
            if fault is None:
                chk.cov["renderings"] = chk.cov.get("renderings", 0) + 1
                if res != "ok" or lg != full:
                    oracle_fail.append((t["canon"], "rendering differs from what the equivalent Rust constructs give (argument set %d)" % ai,
                                        dict(got=lg.decode("utf8", "replace"), want=full.decode("utf8", "replace"), result=res, args=rust_args(ARGSETS[ai]))))
            else:
                fault_cases += 1
                if not full.startswith(lg):
                    oracle_fail.append((t["canon"], "bytes accepted before a sink failure are not a prefix of the full rendering", dict(got=lg.decode("utf8", "replace"), full=full.decode("utf8", "replace")))); continue
                if fault[0] == "fail":
                    off = fault[1]
                    if off < len(full) or (off == len(full) and False):
                        if res != "io%d" % (off + 1):
                            oracle_fail.append((t["canon"], "sink failed after %d bytes but the function returned %s" % (off, res), dict(args=rust_args(ARGSETS[ai])))); continue
                        if lg != full[:off]:
                            oracle_fail.append((t["canon"], "sink failed after %d bytes but accepted %d" % (off, len(lg)), None)); continue
                        if after != 0:
                            oracle_fail.append((t["canon"], "the function kept writing after the sink returned an error", None)); continue
                    elif res != "ok" or lg != full:
                        oracle_fail.append((t["canon"], "failure scheduled past the end changed the result: %s" % res, None))
                else:
                    if res != "ok" or lg != full:
                        oracle_fail.append((t["canon"], "partial accepts / Interrupted changed the output (%s)" % res, dict(got=lg.decode("utf8", "replace"), want=full.decode("utf8", "replace"))))
    if post: post(chk, T, oracle_fail, disagree)
    for t in T[:3]:
        chk.sample(dict(template=t["canon"].decode("utf8", "replace")[:600], variant=(t.get("perts") or [b""])[0].decode("utf8", "replace")[:300], expect=[e.decode("utf8", "replace")[:120] for e in t.get("expect", [])]))
    chk.notes["outcome_histogram"] = hist
    chk.notes["fault_cases"] = fault_cases
    chk.notes["follower_guards_inserted"] = g.guards
    chk.notes["disagreements_model_vs_impl"] = len(disagree)
    chk.notes["oracle_failures"] = len(oracle_fail)
    chk.cov["rule"] = rule + " Every template printed canonically and in %d perturbed layouts; generated Rust compared with the extracted model byte for byte; canonical prints compiled with rustc and run on 3 argument sets. distinct by source bytes" % pert_variants
    chk.assumptions += ["rustc gives if/for/match/closures/? their usual meaning (validated by the compile-and-run batches, not proved)"]
    return conclude(chk, proof, info, disagree, oracle_fail, len(named))

def conclude(chk, proof, info, disagree, oracle_fail, n_cases, stage="compile"):
    if oracle_fail:
        oracle_fail.sort(key=lambda x: len(x[0]))
        src, why, extra = oracle_fail[0]
        chk.violation(why, dict(stage=stage, template=src.decode("utf8", "replace"), template_hex=src.hex(), detail=extra,
                                replay_cmd="echo '745f68746d6c %s' | %s compile | cut -c1-4000" % (hexs(src), HARNESS)))
    elif disagree:
        disagree.sort(key=lambda x: len(x[0]))
        for src, a, m in disagree[:8]:
            hp = history_probe(src, a) if isinstance(src, bytes) else None
            if hp and hp["history"] is not None:
                show = lambda o: (decode_outcome(o)[0], decode_outcome(o)[1].decode("utf8", "replace")[:2500])
                chk.violation("what is generated for a template depends on what the same process compiled before it: compiled alone it gives what the model gives%s, after %d other template(s) it does not" % (
                                  "" if hp["alone"] == m else " (or at least something else)", len(hp["history"])),
                              dict(stage=stage, template=src.decode("utf8", "replace"), template_hex=src.hex(), compiled_before=[h.decode("utf8", "replace")[:600] for h in hp["history"][-12:]],
                                   compiled_before_hex=[h.hex() for h in hp["history"]] if len(hp["history"]) <= 40 else "%d templates (the batch of this run up to this one)" % len(hp["history"]),
                                   alone=show(hp["alone"]), after_history=show(hp["after_history"]), model=show(m),
                                   replay_cmd="printf '%%s\\n' <one line `hex(name) hex(source)` per template, those compiled before first> | %s compile" % HARNESS))
                break
        if chk.violations:
            pass
        else:
          src, a, m = disagree[0]
          da = decode_outcome(a); dm = decode_outcome(m)
          chk.violation("correspondence parser/emitter model <-> implementation broken (no input violating the property found among %d cases)" % n_cases,
                      dict(stage=stage, template=src.decode("utf8", "replace"), template_hex=src.hex(), impl=(da[0], da[1].decode("utf8", "replace")[:3000]), model=(dm[0], dm[1].decode("utf8", "replace")[:3000]),
                           broken="correspondence compile", theorems=[t["name"] for t in proof["theorems"]]), failing_input_found=False)
    if not proof["ok"] and not chk.violations:
        chk.violation(proof_violation(chk, proof), dict(stage="proof", broken=proof.get("broken_at"), problems=proof["problems"], log=proof["log"][-1500:]), failing_input_found=False)
    skeleton_violation(chk, info, n_cases, proof)
    return chk.finish(proof, info)

def skeleton_violation(chk, info, n_cases, proof):
    """the parsers' literals no longer match the model's and no case showed a failure: the theorems are about another grammar"""
    sk = (info or {}).get("skeleton") or {}
    if sk.get("diffs") and not chk.violations:
        chk.violation("the parser source no longer matches the model it was transcribed into (%s); no input violating the property found among %d cases" % (sk["diffs"][0], n_cases),
                      dict(stage="skeleton", broken="translator/skeleton.py: source literals vs Model/*.v", differences=sk["diffs"], theorems=[t["name"] for t in proof["theorems"]]),
                      failing_input_found=False)

# ---------------------------------------------------------------------------------------- C01
C01_ALPHA = [chr(c) for c in range(0, 128) if chr(c) not in "@{}"] + ["é", "€", "𝄞", "\u0080", "߿", "ࠀ", "￿", "\U00010000", "\U0010ffff", "̀", "​", "﻿", "", "ß", "日本"]
def run_c01(pid, tier):
    n = 250 if tier == "quick" else 2500
    def mk(rng):
        g = Gen(rng, text_alpha=C01_ALPHA, kinds=["text", "text", "text", "esc", "cmt", "expr", "if", "for", "match", "call", "iflet"], depth=2,
                cmt_bodies=[" c ", "", "*", "**", " **", "@", "* @ *", " }{ ", "\n", "x*", "*x", "@@", "\xff".encode("latin1").decode("latin1"),
                            " static/*.css ", " */ ", "/*", " /* x */ ", "*/ \" /*", "//", "\\"])
        return g
    # every ASCII code point forced to appear, alone, in a text run of its own
    extra = []
    for c in range(128):
        ch = chr(c)
        if ch in "@{}": src = "@()|a@%sb" % ch; exp = "|a%sb" % ch
        else: src = "@()|a%sb%s" % (ch, ch); exp = "|a%sb%s" % (ch, ch)
        # text directly after the declaration is trimmed if it is whitespace: start with a marker
        extra.append(dict(canon=("@use super::wrap_html;\n@(" + DECL + ")\n" + src[3:]).encode(), perts=[], expect=[exp.encode()] * 3, items=None))
    # long text runs: a multi-byte character at every position around the 4096 / 8192 / 16384 byte marks of one run
    for mark in ([4096, 8192] if tier == "quick" else [1024, 2048, 4096, 8192, 16384, 65536]):
        for ch in ["é", "€", "𝄞"]:
            for back in range(0, len(ch.encode()) + 1):
                run = "a" * (mark - back) + ch + "b" * 7
                extra.append(dict(canon=("@use super::wrap_html;\n@(" + DECL + ")\n|" + run).encode(), perts=[], expect=[("|" + run).encode()] * 3, items=None))
    # long ASCII runs in which every offset holds, in turn, a blank, a tab, a line break, a quote, a backslash (anything a literal
    # continued over several source lines, or escaped piecewise, would treat specially)
    for unit in ["  ", " \t", "x \n", " \"", "\\ ", "a b", "\r\n "]:
        run = unit * (9000 // len(unit))
        extra.append(dict(canon=("@use super::wrap_html;\n@(" + DECL + ")\n|" + run + "|").encode(), perts=[], expect=[("|" + run + "|").encode()] * 3, items=None))
    for run in ['say "hi"\r\nnext', "back\\slash\r\n\r\nend", 'a"#\r\nb', "q\"\rlone",
                "å\r\nb", "line one é\r\nline two\r\n\r\nend", "\r\n€", "a\rb\u00e9\n\rc", "tab\t\u00e9\r\n"]:
        extra.append(dict(canon=("@use super::wrap_html;\n@(" + DECL + ")\n|" + run + "|").encode(), perts=[], expect=[("|" + run + "|").encode()] * 3, items=None))
    run = ("åäö " * 13 + "\n") * 420
    extra.append(dict(canon=("@use super::wrap_html;\n@(" + DECL + ")\n|" + run).encode(), perts=[], expect=[("|" + run).encode()] * 3, items=None))
    # comment bodies over {*, @, space, x, newline} exhaustively (to length 4 quick / 6 thorough), between two text markers
    L = 4 if tier == "quick" else 6
    for l in range(0, L + 1):
        for body in itertools.product("*@ x\n", repeat=l):
            body = "".join(body)
            if "*@" in body: continue
            extra.append(dict(canon=("@use super::wrap_html;\n@(" + DECL + ")\n|A@*" + body + "*@B").encode(), perts=[], expect=[b"|AB"] * 3, items=None))
    # the leading run of whitespace and comments after the declaration is dropped, nothing else
    for lead_ws in ["", " ", "\n\n", "@* c *@", " @**@ \r\n\t", "@* a *@@* b *@"]:
        extra.append(dict(canon=("@use super::wrap_html;\n@(" + DECL + ")" + lead_ws + "x  y\n @* c *@ z \n").encode(), perts=[], expect=[b"x  y\n  z \n"] * 3, items=None))
    # only blank, tab, CR, LF and comments are layout: a form feed, a vertical tab, NUL, 0x1f, 0x7f, NBSP after the declaration are text, and end the trimmed run
    for lead, kept in [("\x0c\n  z", "\x0c\n  z"), (" \n\x0c\n z", "\x0c\n z"), ("\x0b", "\x0b"), ("\n\x00", "\x00"), (" \x1f ", "\x1f "), ("\n\x7f", "\x7f"), ("\n\u00a0 ", "\u00a0 "),
                       ("@* c *@\x0c@* d *@ ", "\x0c ")]:
        extra.append(dict(canon=("@use super::wrap_html;\n@(" + DECL + ")" + lead + "|x").encode(), perts=[], expect=[(kept + "|x").encode()] * 3, items=None))
    return suite(pid, tier, mk, n, extra_cases=extra,
                 rule="bodies whose literal text ranges over all 128 ASCII code points (each forced to appear) and multi-byte scalars (U+0080, U+07FF, U+0800, U+FFFF, U+10000, U+10FFFF, Grapheme_Extend, unprintable), "
                      "interleaved with @@ @{ @} escapes, comments (bodies over {*,@,space,x,LF} exhaustive to length %d) and directives at every nesting position (top level, if/for/match bodies, block arguments)." % L)

# ---------------------------------------------------------------------------------------- C03
def run_c03(pid, tier):
    n = 220 if tier == "quick" else 3000
    mk = lambda rng: Gen(rng, kinds=["text", "expr", "if", "if", "iflet", "for", "for", "match", "esc"], depth=4 if tier == "quick" else 6, max_items=3)
    return suite(pid, tier, mk, n, max_src=1100 if tier == "quick" else 4000,
                 rule="nestings to depth %d of if / else-if chains / if-let / for over slices, ranges (a..b, a..=b), enumerate tuples, &tuple and struct destructuring / match with 2-4 arms, "
                      "conditions over all eight relational operators and negation, with argument sets driving every branch and 0..3 iterations." % (4 if tier == "quick" else 6))

# ---------------------------------------------------------------------------------------- C15
def run_c15(pid, tier):
    n = 300 if tier == "quick" else 3000
    # callees identical to wrap_html except for the whitespace inside their declarations (around the colon of Content parameters too)
    wraps = {"wrapa": "@(t:impl ToHtml, c:Content, d :Content)", "wrapb": "@( t : impl ToHtml,\n   c:\n     Content,\n   d:  Content\n)", "wrapc": "@(t: impl ToHtml,c:\tContent,d : Content )"}
    files = {"t/%s.rs.html" % k: (v + "\n[@t|@:c()|@:d()]").encode() for k, v in wraps.items()}
    callees = dict({"wrap_html": 2}, **{k + "_html": 2 for k in wraps})
    mk = lambda rng: Gen(rng, depth=3, callees=callees)
    def post(chk, T, oracle_fail, disagree):
        # templates without parameters: layout and comments after `@()` / `@( )`, and between the parts of an else-if chain
        groups = [[b"@()\n<p>x</p>\n", b"@()\n@* c *@\n<p>x</p>\n", b"@()@* c *@ \n\t<p>x</p>\n", b"@()\n\n@* a *@\n@* b *@\n<p>x</p>\n", b"@( )\n@* c *@\n<p>x</p>\n", b"@()\r\n@* c *@\r\n<p>x</p>\n",
                   b"@(\n)\n@** c **@\n\n<p>x</p>\n"],
                  [b"@(a: bool, b: bool)\n@if a {A} else if b {B} else {C}", b"@(a: bool, b: bool)\n@if a {A} else  if b {B} else {C}", b"@(a: bool, b: bool)\n@if a {A}\nelse\nif b {B}\nelse\n{C}",
                   b"@(a: bool, b: bool)\n@if a {A} else @* c *@ if b {B} @* d *@ else @* e *@ {C}", b"@(a: bool, b: bool)\n@if a {A}else if b {B}else{C}", b"@(a: bool, b: bool)\n@if a {A}\r\n\telse\tif b {B}\r\n\telse {C}"]]
        for grp in groups:
            impl, model = compile_pairs([("v_html", v) for v in grp])
            for v, a, m in zip(grp, impl, model):
                chk.count(v, True)
                if a != m: disagree.append((v, a, m))
                if a != impl[0] or decode_outcome(a)[0] != "OK":
                    oracle_fail.append((v, "layout/comment variant of an accepted template does not give byte-identical code (%s)" % decode_outcome(a)[0], dict(canonical=grp[0].decode(), code=decode_outcome(a)[1].decode("utf8", "replace")[-500:]))); break
    return suite(pid, tier, mk, n, post=post, pert_variants=4, decl_variants=True, extra_files=files, uses=tuple("super::" + c for c in sorted(callees)) + ("crate::P",),
                 rule="templates from the structured generator (all directive kinds, calls with block arguments, use lines) x random layouts (spaces, tabs, LF, CRLF, one-line and multi-line comments, "
                      "comments ending in several stars) at every insignificant position: around @use lines, after the declaration, after a directive keyword, before '{', around else / in / => , between match arms, after call commas and block arguments. "
                      "A third of the templates, and three of the four callee templates, carry other whitespace inside their parameter declarations (around colons - of Content parameters too -, after commas, inside the parentheses); their behaviour is compared with the canonical expectation.")

# ---------------------------------------------------------------------------------------- C14
def run_c14(pid, tier):
    n = 60 if tier == "quick" else 400
    mk = lambda rng: Gen(rng, depth=3, max_items=3)
    return suite(pid, tier, mk, n, fault_schedules=True, pert_variants=0,
                 rule="generated templates (all directive kinds incl. calls with block arguments, Html(..) and buffers) x 3 argument sets; for a rendering of N bytes a permanent failure at every offset 0..N (sampled above 40) "
                      "under one-byte, random-short and accept-all sinks with Interrupted sprinkled in, plus fault-free partial/Interrupted schedules.")

# ---------------------------------------------------------------------------------------- C04
CALLEE_MODS = {"wrap_html": [], "one_html": [], "zero_html": [], "three_html": [], "mid_html": [], "chain_html": [],
               "inner_html": ["sub"], "leaf_html": ["sub", "deep"], "sib_html": ["sub"], "viaroot_html": ["sub"], "twice_html": [], "midws_html": [], "midnl_html": []}
CALLEE_BLOCKS = {"wrap_html": 2, "one_html": 1, "zero_html": 0, "three_html": 3, "mid_html": 1, "chain_html": 1, "inner_html": 1, "leaf_html": 1, "sib_html": 1, "viaroot_html": 1, "twice_html": 1, "midws_html": 1, "midnl_html": 1}
def use_path(from_dir, name):
    d = [x for x in from_dir.split("/") if x]
    return "super::" * (len(d) + 1) + "".join(m + "::" for m in CALLEE_MODS[name]) + name
C04_FILES = {
    "t/one.rs.html": "@(t: impl ToHtml, c: Content)\n(@t:@:c())",
    "t/zero.rs.html": "@(t: impl ToHtml)\n<@t>",
    "t/three.rs.html": "@(t: impl ToHtml, a: Content, b:Content, c : Content)\n@:c()@:a()@t@:b()",
    "t/mid.rs.html": "@use super::wrap_html;\n@(t: impl ToHtml, c: Content)\n<@:wrap_html(t, {@:c()}, {m})>",
    # intermediates whose forwarded block stands between white space / on a line of its own: that white space is part of the block
    "t/midws.rs.html": "@use super::wrap_html;\n@(t: impl ToHtml, c: Content)\n<@:wrap_html(t, { @:c() }, {\n  @* nothing else *@\n})>",
    "t/midnl.rs.html": "@use super::wrap_html;\n@(t: impl ToHtml, c: Content)\n<@:wrap_html(t, {x}, {\n  @:c()\n})>",
    "t/sub/inner.rs.html": "@use super::super::one_html;\n@(t: impl ToHtml, c: Content)\n@{@@@:one_html(t, {i@:c()})@}",
    "t/sub/deep/leaf.rs.html": "@(t: impl ToHtml, c: Content)\n^@:c()@t$",
    "t/sub/sib.rs.html": "@use super::inner_html;\n@use super::deep::leaf_html;\n@(t: impl ToHtml, c: Content)\n@:inner_html(t, {s@:leaf_html(1, {@:c()})})",
    # a nested template that names a root template by its absolute path, next to a sibling with the same name and signature
    "t/sub/viaroot.rs.html": "@use crate::templates::one_html;\n@(t: impl ToHtml, c: Content)\n@:one_html(t, {r@:c()})",
    "t/sub/one.rs.html": "@(t: impl ToHtml, c: Content)\n{the other one @t:@:c()}",
    # a by-value parameter that is not Copy, used inside a block argument and again after the call
    "t/twice.rs.html": "@use super::one_html;\n@(t: impl ToHtml, c: Content)\n@:one_html(1, {[@t]@:c()})(@t)",
    "t/chain.rs.html": "@use super::sub::inner_html;\n@use super::sub::deep::leaf_html;\n@(t: impl ToHtml, c: Content)\n@:inner_html(t, {@:leaf_html(\"L\", {@:c()})})",
}
def c04_bodies():
    wrap = lambda v, t: "[" + v + "|" + t[0]() + "|" + t[1]() + "]"
    one = lambda v, t: "(" + v + ":" + t[0]() + ")"
    zero = lambda v, t: "<" + v + ">"
    three = lambda v, t: t[2]() + t[0]() + v + t[1]()
    mid = lambda v, t: "<" + wrap(v, [t[0], lambda: "m"]) + ">"
    midws = lambda v, t: "<" + wrap(v, [lambda: " " + t[0]() + " ", lambda: "\n  \n"]) + ">"
    midnl = lambda v, t: "<" + wrap(v, [lambda: "x", lambda: "\n  " + t[0]() + "\n"]) + ">"
    inner = lambda v, t: "{@" + one(v, [lambda: "i" + t[0]()]) + "}"
    leaf = lambda v, t: "^" + t[0]() + v + "$"
    chain = lambda v, t: inner(v, [lambda: leaf("L", [t[0]])])
    sib = lambda v, t: inner(v, [lambda: "s" + leaf("1", [t[0]])])
    viaroot = lambda v, t: one(v, [lambda: "r" + t[0]()])
    twice = lambda v, t: one("1", [lambda: "[" + v + "]" + t[0]()]) + "(" + v + ")"
    return {"midws_html": midws, "midnl_html": midnl, "viaroot_html": viaroot, "twice_html": twice, "wrap_html": wrap, "one_html": one, "zero_html": zero, "three_html": three, "mid_html": mid, "inner_html": inner, "leaf_html": leaf, "chain_html": chain, "sib_html": sib}
def run_c04(pid, tier):
    n = 200 if tier == "quick" else 2000
    mk = lambda rng: Gen(rng, kinds=["text", "expr", "call", "call", "call", "if", "for", "cmt", "esc"], depth=3 if tier == "quick" else 4, max_items=3, callees=CALLEE_BLOCKS)
    uses_for = lambda d: tuple(use_path(d, c) for c in sorted(CALLEE_BLOCKS)) + ("crate::P",)
    # block arguments holding the same node twice in a row: repeated escapes, the same call twice, the same expression twice
    from tmpl_gen import ARGSETS as _AS
    hd = "@use super::wrap_html;\n@use super::zero_html;\n@(" + DECL + ")\n"
    extra = [dict(canon=(hd + "|@:wrap_html(n, {@}@}@{@{@@@@}, {@:zero_html(1)@:zero_html(1)@n@n})|").encode(), perts=[], items=None,
                  expect=[("|[%d|}}{{@@|<1><1>%d%d]|" % (a["n"], a["n"], a["n"])).encode() for a in _AS]),
             dict(canon=(hd + "|@:wrap_html(n, {@:zero_html(n)@:zero_html(n)}, {@@@@@@@}@}@}})|").encode(), perts=[], items=None,
                  expect=[("|[%d|<%d><%d>|@@@}}}]|" % (a["n"], a["n"], a["n"])).encode() for a in _AS])]
    def post(chk, T, oracle_fail, disagree):
        # a callee in a child module edited in place between two runs into one OUT_DIR: the second run regenerates it
        import build_lib
        scen = []
        for v in range(3):
            callee = "t/sub/item.rs.html" if v < 2 else "t/sub/deep/item.rs.html"
            use = "super::sub::item_html" if v < 2 else "super::sub::deep::item_html"
            old_, new_ = "@(n: usize)\n<li>old @n</li>", "@(n: usize)\n<li>NEW @n!</li>"
            scen.append([('W', callee, old_), ('W', 't/list.rs.html', "@use %s;\n@()\n@:item_html(1)" % use), ('R', [('c', 't')]),
                         (('W' if v != 1 else 'T'), callee, new_ if v != 1 else "@(n: usize)\n<li>new @n</li>"), ('R', [('c', 't')])])
        for sc, r in zip(scen, build_lib.run_scenarios(scen)):
            runs = [x for x in r["runs"] if x["kind"] == "R"]
            chk.count(("rebuild callee " + sc[0][1] + sc[3][0]).encode(), True)
            path = ("templates/" + sc[0][1][2:].rsplit("/", 1)[0] + "/template_item_html.rs").encode()
            code = ((runs[1]["after"].get(path) or (b"", ""))[0] or b"") if len(runs) > 1 and runs[1]["after"] else b""
            marker = b"NEW " if sc[3][0] == 'W' else b"new "
            if marker not in code:
                oracle_fail.append((sc[3][2].encode(), "a callee in a child module was edited in place and the templates compiled again into the same OUT_DIR: the call still renders the old callee", dict(code=code[-400:].decode("utf8", "replace"))))
    return suite(pid, tier, mk, n, post=post, extra_cases=extra, extra_files={p: c.encode() for p, c in C04_FILES.items()}, callee_bodies=c04_bodies(), dirs=["", "", "sub/", "sub/deep/", "other/", "only/dirs/here/"], uses_for=uses_for,
                 max_src=1600 if tier == "quick" else 5000,
                 rule="acyclic call graphs: callers in the root, a child, a grandchild and an unrelated sibling module call templates with 0-3 Content parameters located in the root, child and grandchild modules, "
                      "directly and through intermediate templates that forward their block ({@:c()}), chains of two intermediates across modules; arguments mix Rust expressions and blocks that are empty, "
                      "hold only a comment, or hold further directives and calls (nesting to depth %d)." % (3 if tier == "quick" else 4))

# ---------------------------------------------------------------------------------------- C05
def ap(g, *fs):
    def h(a):
        vs = [f(a) for f in fs]
        return None if any(v is None for v in vs) else g(*vs)
    return h

class ExprGen:
    """expressions with Python-computable values; each returns (src, end_kind, fn(env)->value) where value is int or str"""
    def __init__(self, rng): self.R = rng
    def strlit(self):
        R = self.R
        parts = []; val = ""
        for _ in range(R.randint(0, 5)):
            k = R.choice(["plain", "plain", "esc", "delim", "uni"])
            if k == "plain": c = R.choice(["a", "b", " ", "x", "é", "/", "*", "/*", "*/", "//", "'", "<", "&", "  ", "\t", "\n", "\n    ", " \n"]); parts.append(c); val += c
            elif k == "delim": c = R.choice([")", "(", "]", "[", "}", "{", ")]}", "@"]); parts.append(c); val += c
            elif k == "esc":
                e, v = R.choice([("\\n", "\n"), ("\\r", "\r"), ("\\t", "\t"), ("\\\\", "\\"), ("\\0", "\0"), ("\\'", "'"), ('\\"', '"'), ("\\x41", "A"), ("\\x7e", "~")])
                parts.append(e); val += v
            else:
                e, v = R.choice([("\\u{e9}", "é"), ("\\u{20AC}", "€"), ("\\u{1d11e}", "𝄞"), ("\\u{7D}", "}")])
                parts.append(e); val += v
        # endings that decide where the literal closes: an escaped backslash / an escaped quote right before the closing quote
        r = R.random()
        if r < 0.15: parts.append("\\\\"); val += "\\"
        elif r < 0.25: parts.append('\\"'); val += '"'
        elif r < 0.30: parts.append('\\\\\\"'); val += '\\"'
        return '"' + "".join(parts) + '"', val
    def int_expr(self, d):
        R = self.R
        if d <= 0 or R.random() < 0.3:
            return R.choice([("n", lambda a: a["n"]), ("7", lambda a: 7), ("xs.len()", lambda a: len(a["xs"])), ("(n)", lambda a: a["n"]), ("s.len()", lambda a: len(a["s"].encode()))])
        k = R.randrange(10)
        A, fa = self.int_expr(d - 1); B, fb = self.int_expr(d - 1)
        sp = R.choice(["", " "])
        if k == 0: return "(%s%s+%s%s)" % (A, sp, sp, B), lambda a: fa(a) + fb(a)
        # two groups side by side: the text starts with ( and ends with ) without being one group (only usable inside @( ) or another group)
        if k == 9: return "(%s+1)%s*%s(%s+2)" % (A, sp, sp, B), lambda a: (fa(a) + 1) * (fb(a) + 2)
        if k == 1:
            body = "".join(R.choice([" ", ")", "]", "}", "(", '"', "'", "*", "**", "x", "/", " * ", "@", "\\"]) for _ in range(R.randint(0, 5)))
            body = body.replace("*/", "* /") + R.choice(["", "*", "**", " ", "***"])
            # Rust block comments nest, ructe's do not: keep "/*" out of the body (also the one formed with the closing star), so the fragment is valid Rust
            while "/*" in body + "*": body = (body + "*").replace("/*", "/ *")[:-1]
            # "/**x*/" is a doc comment (not allowed inside an expression) unless it is "/***..." or "/**/"
            if (body + "*/").startswith("*") and not (body + "*/").startswith(("**", "*/")): body = " " + body
            return "(%s /*%s*/ + %s)" % (A, body, B), lambda a: fa(a) + fb(a)
        if k == 2: return "(%s%s/%s(1))" % (A, sp, sp), fa
        if k == 3:
            sl, sv = '"ab"', "ab"
            return '(%s/%s.len())' % (A, sl), lambda a: fa(a) // 2
        if k == 4: return "[%s, %s][%d]" % (A, B, 1), fb
        if k == 5: return "vec![%s, %s][0]" % (A, B), fa
        if k == 6: return "std::cmp::max(%s, %s)" % (A, B), lambda a: max(fa(a), fb(a))
        if k == 7: return "Some(%s).unwrap()" % A, fa
        return "(P{a: 3, b: 4}.a as usize + %s)" % A, lambda a: 3 + fa(a)
    def str_expr(self, d):
        R = self.R
        if d <= 0 or R.random() < 0.3:
            src, val = self.strlit()
            return R.choice([("s", lambda a: a["s"]), (src, lambda a, v=val: v), ("&s", lambda a: a["s"])])
        k = R.randrange(7)
        S, fs = self.str_expr(d - 1)
        if S.startswith("&"): S, fs = "s", (lambda a: a["s"])
        A, fa = self.int_expr(d - 1)
        if k == 0: return "%s.to_uppercase()" % S, ap(lambda v: v.upper() if v.isascii() else None, fs)
        if k == 1: return '%s.replace("(", "]")' % S, ap(lambda v: v.replace("(", "]"), fs)
        if k == 2: return 'format!("{}-{}", %s, %s)' % (A, S), ap(lambda x, v: "%d-%s" % (x, v), fa, fs)
        if k == 3: return "String::from(%s)" % S, fs
        if k == 4: return "%s.trim()" % S, ap(lambda v: v.strip(" \t\n\r") if v.isascii() and "\0" not in v else None, fs)
        if k == 5: return "(%s)" % S, fs
        return "(%s.chars().rev().collect::<String>())" % S, ap(lambda v: v[::-1], fs)
    def any(self):
        d = self.R.randint(0, 4)
        if self.R.random() < 0.5:
            src, f = self.int_expr(d); return src, f
        src, f = self.str_expr(d); return src, f

def paren_closes_at_end(src):
    """src starts with '(': does its matching ')' end the source? (strings and /* */ hide delimiters)"""
    depth = 0; i = 0
    while i < len(src):
        c = src[i]
        if c == '"':
            i += 1
            while src[i] != '"':
                i += 2 if src[i] == "\\" else 1
        elif src.startswith("/*", i):
            i = src.index("*/", i + 2) + 1
        elif c in "([{": depth += 1
        elif c in ")]}":
            depth -= 1
            if depth == 0: return i == len(src) - 1
        i += 1
    return False

def end_kind(src):
    c = src[-1]
    if c in ")]}": return "paren"
    if c == '"': return "str"
    if c.isdigit() and src.isdigit(): return "num"
    return "name"

FOLLOWERS = [(" x", "space"), ("<b>", "lt"), (". ", "dot-space"), (".)", "dot-paren"), ("@@", "at"), ("@n", "at-expr"), (",", "comma"), (")", "rparen"), ("", "eof"),
             ("]", "rbracket"), ("\n", "newline"), ("!", "bang"), ("! (", "bang-space"), (";", "semi"), ("-1", "minus"), ("é", "non-ascii"), ("::", "colons-eof"), (":: x", "colons-space"), ("'", "quote"),
             ('."', "dot-quote"), ('."</p>', "dot-quote-text"), ('::"', "colons-quote"), ('. "', "dot-space-quote")]
def run_c05(pid, tier):
    chk0 = None
    def mk(rng): return Gen(rng, depth=0)
    rng = random.Random(int(os.environ.get("VERIF_SEED", "1")) * 7919 + 5)
    eg = ExprGen(rng)
    extra = []; seen = set()
    nexp = 350 if tier == "quick" else 3000
    head = "@use super::wrap_html;\n@use crate::P;\n@(" + DECL + ")\n"
    def addcase(body, exps, tag):
        src = (head + body).encode()
        if src in seen: return
        seen.add(src); extra.append(dict(canon=src, perts=[], expect=[e.encode() for e in exps], items=None, tag=tag))
    tries = 0
    while len(extra) < nexp and tries < nexp * 20:
        tries += 1
        src, f = eg.any()
        try: vals = [f(a) for a in ARGSETS]
        except (TypeError, AttributeError): continue
        if any(v is None for v in vals): continue
        fol, fname = rng.choice(FOLLOWERS)
        kind = end_kind(src)
        # the follower must not extend the fragment (that is what the documented grammar says)
        if not follower_ok(kind, fol.replace("@@", "@").replace("@n", "@"), whole=True): continue
        place = rng.choice(["top", "paren", "block", "brace-end"])
        if src.startswith("(") and not paren_closes_at_end(src) and place != "paren": continue
        rend = lambda v: esc(str(v))
        ftxt = lambda a: fol.replace("@@", "@").replace("@n", str(a["n"]))
        if place == "top" and not src.startswith("*"):
            addcase("|@" + src + fol, ["|" + rend(v) + ftxt(a) for v, a in zip(vals, ARGSETS)], fname)
        elif place == "paren":
            inner = src if rng.random() < 0.5 else " " + src + " "
            addcase("|@(" + inner + ")" + fol if follower_ok("paren", fol) or True else "", ["|" + rend(v) + ftxt(a) for v, a in zip(vals, ARGSETS)], "paren-" + fname)
        elif place == "block":
            addcase("|@if n < 100 {@" + src + fol + "}|", ["|" + rend(v) + ftxt(a) + "|" for v, a in zip(vals, ARGSETS)], "block-" + fname)
        else:
            addcase("|@if n < 100 {<@" + src + "}|", ["|<" + rend(v) + "|" for v in vals], "brace-end")
    # the four documented shapes and single evaluation
    addcase("|@n.@n", ["|%d.%d" % (a["n"], a["n"]) for a in ARGSETS], "doc")
    addcase("|@n.", ["|%d." % a["n"] for a in ARGSETS], "doc")
    addcase("|@(n).len()", ["|%d.len()" % a["n"] for a in ARGSETS], "doc")
    addcase("|@s.len()", ["|%d" % len(a["s"].encode()) for a in ARGSETS], "doc")
    # lone ticks inside a group (a lifetime, not a char literal) with further ticks later in the template (char literals are not part of the documented grammar: one holding a delimiter is not expected to hide it)
    addcase("|@(xs.iter().map(|x: &'_ u32| *x).sum::<u32>()), isn't it", ["|%d, isn't it" % sum(a["xs"]) for a in ARGSETS], "tick")
    addcase("|@(n + 'x'.len_utf8()) 'q' (", ["|%d 'q' (" % (a["n"] + 1) for a in ARGSETS], "tick")
    addcase("|@(n + { let q: &'static str = \"ab\"; q.len() })' )", ["|%d' )" % (a["n"] + 2) for a in ARGSETS], "tick")
    # fragments that span lines, with blanks / tabs right before a line break inside a string literal
    addcase("|@(\"x  \n y \t\nz\") @format!(\"{} \n{}\t\n\", n, n)|", ["|x  \n y \t\nz %d \n%d\t\n|" % (a["n"], a["n"]) for a in ARGSETS], "doc")
    # an expression that ends its line is not continued by a `.member` at the start of the next one
    addcase("|@s\n.len()|@n\n\t.count_ones() @xs.len()\r\n  .max(1)", ["|%s\n.len()|%d\n\t.count_ones() %d\r\n  .max(1)" % (esc(a["s"]), a["n"], len(a["xs"])) for a in ARGSETS], "doc")
    # a bare string literal is an expression like any other: rendered through ToHtml, once
    addcase("|@\"we're <open>\" @\"R&D\".", ["|we&#39;re &lt;open&gt; R&amp;D."] * len(ARGSETS), "doc")
    addcase("|@for _i in 0..3 {@bump(),}", ["|%s" % "".join("%d," % (3 * k + j + 1) for j in range(3)) for k in range(3)], "once")
    # malformed stream: model/implementation comparison only (no expectation)
    bad = ["@(n", "@(n /* )", '@("\\q")', "@foo(", "@foo[(])", "@foo{", '@"abc', "@(a /", "@(a / * b)", "@a.b(c[d{e}f]g)h", "@x!y", "@x![", "@&", "@&&n", "@.5", "@n..", "@n::", "@n::<u8>()", "@(\xff)", "@s[\xe9]", "@(\"\\u{zz}\")"]
    mal = [dict(canon=(head + "|" + b0).encode("latin1") if isinstance(b0, str) else b0, perts=[], items=None, tag="malformed") for b0 in bad]
    for _ in range(300 if tier == "quick" else 5000):
        toks = ["@", "(", ")", "[", "]", "{", "}", '"', "/*", "*/", "/", "*", "\\", "a", "1", ".", "::", "!", "&", " ", ",", "\\\"", "'", "\xff", "é"]
        s0 = "@" + "".join(rng.choice(toks) for _ in range(rng.randint(1, 10)))
        mal.append(dict(canon=(head + "|").encode() + s0.encode("latin1"), perts=[], items=None, tag="malformed"))
    # exhaustive strings over the delimiter / quote / comment token alphabet inside @( ) and @f( )
    SC = ["(", ")", "[", "]", "{", "}", '"', "\\", "/", "*", "/*", "*/", "a", " ", '\\"', "\\\\"]
    LS = 3 if tier == "quick" else 4
    for l in range(0, LS + 1):
        for t in itertools.product(SC, repeat=l):
            x = "".join(t)
            mal.append(dict(canon=(head + "|@(" + x + ")|").encode(), perts=[], items=None, tag="scan"))
            if l <= LS - 1: mal.append(dict(canon=(head + "|@f[" + x + "]{" + x + "}|").encode(), perts=[], items=None, tag="scan"))
    extra_rs = "static C: std::sync::atomic::AtomicU32 = std::sync::atomic::AtomicU32::new(0);\npub fn bump() -> u32 { C.fetch_add(1, std::sync::atomic::Ordering::SeqCst) + 1 }\n"
    return suite_c05(pid, tier, mk, extra, mal, extra_rs)

def suite_c05(pid, tier, mk, extra, mal, extra_rs):
    # reuse suite() for the well-formed cases (it compiles, compares and renders); then the malformed stream
    import render_lib
    old = render_lib.SINK_RS
    render_lib.SINK_RS = old + extra_rs
    globals()["SINK_RS"] = render_lib.SINK_RS
    try:
        def post(chk, T, oracle_fail, disagree):
            named = [("t_html", m["canon"]) for m in mal]
            impl, model = compile_pairs(named)
            h = {}
            for (n0, s0), a, m in zip(named, impl, model):
                chk.count(s0, True)
                k = a.split(" ")[0]; h[k] = h.get(k, 0) + 1
                if a != m: disagree.append((s0, a, m))
                if k in ("PANIC", "CRASH"): oracle_fail.append((s0, "the parser panicked on a malformed expression", None))
            chk.notes["malformed_outcomes"] = h
            tags = {}
            for t in T: tags[t.get("tag", "gen")] = tags.get(t.get("tag", "gen"), 0) + 1
            chk.notes["follower_classes"] = tags
        for e in extra:
            if e["canon"].endswith(b"@bump(),}"):
                e["canon"] = e["canon"].replace(b"@use crate::P;", b"@use crate::P;\n@use crate::bump;")
        return suite(pid, tier, mk, 0, extra_cases=extra, post=post, check_layout=False,
                     rule="expressions from a grammar of nested (), [], {} groups, string literals with every supported escape and embedded delimiters, block comments hiding delimiters and quotes, division before "
                          "groups and strings, method chains, :: paths, macro calls, struct literals, each followed by a follower class (space, <, '.'+non-identifier, @@, @expr, ',', ')', ']', '}' of the enclosing block, EOF, ...), "
                          "at top level, in @( ), and inside blocks; plus a malformed stream (unbalanced groups, unterminated comments/strings, bad escapes, invalid UTF-8) compared with the model only.")
    finally:
        render_lib.SINK_RS = old

# ---------------------------------------------------------------------------------------- C13
C13_TYPES = [  # (declared type, rust value, how the body prints it, expected text)
    ("u8", "7", "@{x}", "7"), ("usize", "12", "@{x}", "12"), ("&str", '"a<"', "@{x}", "a&lt;"), ("&'a str", '"q"', "@{x}", "q"), ("&'_ str", '"u"', "@{x}", "u"),
    ("&[u32]", "&[1, 2]", "@{x}.len()", "2"), ("(u8, &str)", '(3, "t")', "@{x}.0@{x}.1", "3t"), ("(u8, &str,)", '(4, "v")', "@{x}.1", "v"),
    ("Vec<u32>", "vec![5]", "@{x}.len()", "1"), ("Vec<u32,>", "vec![5, 6]", "@{x}.len()", "2"), ("Option<&str>", 'Some("o")', "@{x}.unwrap()", "o"),
    ("impl ToHtml", '"h&"', "@{x}", "h&amp;"), ("&dyn Display", "&5u8", "@{x}", "5"), ("Box<dyn Display>", "Box::new(8u8)", "@{x}", "8"),
    ("&[&str]", '&["r"]', "@{x}[0]", "r"), ("&(u8, u8)", "&(1, 9)", "@{x}.1", "9"), ("Map<u8, u8>", "Map::new()", "@{x}.len()", "0"),
    ("ContentType", "ContentType", "@{x}", "CT"), ("Contents", "Contents", "@{x}", "CS"), ("MyContent", "MyContent", "@{x}", "MC"), ("&ContentType", "&ContentType", "@{x}", "CT"),
    ("Vec<ContentType>", "vec![ContentType]", "@{x}.len()", "1"), ("Option<&'a ContentType>", "None", "@{x}.is_none()", "true"),
    ("Content", '|o| { use std::io::Write; o.write_all(b"<blk>") }', "@:{x}()", "<blk>"),
    # a user type that is itself called Content, behind a prefix the type grammar separates with a space: not a block parameter
    ("(u8,)", "(5,)", "@{x}.0", "5"), ("&[(u32,)]", "&[(1,), (2,)]", "@{x}.len()", "2"), ("Vec<(&'a str,)>", 'vec![("v",)]', "@{x}[0].0", "v"), ("Map<u8, (u8,),>", "Map::new()", "@{x}.len()", "0"),
    ("Content<'a>", "CV", "@{x}", "UC"), ("Content<'_>", "CV", "@{x}", "UC"), ("&'a Content<'a>", "&CV", "@{x}", "UC"), ("Vec<Content<'a>,>", "vec![CV]", "@{x}.len()", "1"),
    ("&'a Content", "&CV", "@{x}", "UC"), ("&'_ Content", "&CV", "@{x}", "UC"), ("& Content", "&CV", "@{x}", "UC"), ("&'a  Content", "&CV", "@{x}", "UC"),
    # a reference with an explicit lifetime in front of dyn / impl, also nested and with other blanks
    ("&'a dyn Display", "&5u8", "@{x}", "5"), ("&'_ dyn Display", "&6u8", "@{x}", "6"), ("&'_ impl Display", "&7u8", "@{x}", "7"), ("&'a impl ToHtml", '&"z<"', "@{x}", "z&lt;"),
    ("Vec<&'_ dyn Display>", "vec![&8u8 as &dyn Display]", "@{x}.len()", "1"), ("& dyn Display", "&9u8", "@{x}", "9"), ("&'a  dyn Display", "&4u8", "@{x}", "4"), ("(&'a dyn Display, u8)", "(&3u8, 1)", "@{x}.0", "3"),
    ("Option<&'a Content>", "Some(&CV)", "@{x}.unwrap()", "UC"), ("&[Content]", "&[CV, CV]", "@{x}.len()", "2"), ("(u8, Content)", "(1, CV)", "@{x}.1", "UC"),
]
C13_NAMES = ["a", "bb", "_ructe_out_x", "W_", "io", "content", "Content_", "x1", "self_", "out", "w", "Z9"]
def run_c13(pid, tier):
    rng = random.Random(int(os.environ.get("VERIF_SEED", "1")) * 104729 + 13)
    n = 250 if tier == "quick" else 2500
    extra = []
    user_rs = ("use std::fmt;\npub struct ContentType; pub struct Contents; pub struct MyContent;\n"
               "impl fmt::Display for ContentType { fn fmt(&self, f: &mut fmt::Formatter) -> fmt::Result { f.write_str(\"CT\") } }\n"
               "impl fmt::Display for Contents { fn fmt(&self, f: &mut fmt::Formatter) -> fmt::Result { f.write_str(\"CS\") } }\n"
               "impl fmt::Display for MyContent { fn fmt(&self, f: &mut fmt::Formatter) -> fmt::Result { f.write_str(\"MC\") } }\n"
               "pub struct Content<'a>(pub std::marker::PhantomData<&'a ()>); pub const CV: Content<'static> = Content(std::marker::PhantomData);\n"
               "impl<'a> fmt::Display for Content<'a> { fn fmt(&self, f: &mut fmt::Formatter) -> fmt::Result { f.write_str(\"UC\") } }\n"
               "pub mod models { pub struct Portfolio; pub struct Studio; pub mod audio {} }\npub mod util { pub struct SafeHtml; pub struct NotToHtml; pub trait LineWrite {} pub mod stdio {} pub fn html() {} pub fn write() {} }\n")
    USES = ["std::fmt::Display", "std::collections::HashMap as Map", "crate::{ContentType, Contents, MyContent}", "crate::Content", "std::cmp::*", "std::fmt::{self, Write as FmtWrite}",
            # imported names that end in / resemble the names the generated header itself imports (io, Write, Html, ToHtml)
            "crate::models::Portfolio", "crate::models::Studio", "crate::models::audio", "crate::util::SafeHtml", "crate::util::NotToHtml", "crate::util::LineWrite", "crate::util::stdio",
            "crate::util::html", "crate::util::write", "std::io::BufWriter", "std::io::Write as IoWrite", "crate::util::{SafeHtml as H2}", "std::fmt::Write as _",
            # several glob imports in one preamble
            "std::collections::*", "std::iter::*", "crate::models::*",
            # items written over several lines: a line break as the only separator before `as`, inside a brace list, after `use`
            "std::collections::BTreeMap\n    as Map3", "std::collections::{\n    BTreeSet as S1,\n    VecDeque\n        as Q1,\n}", "std::rc::Rc\n\tas R1"]
    cases = []
    for i in range(n):
        k = rng.randint(0, 8)
        names = rng.sample(C13_NAMES, k)
        params = []; body = "|"; args = []; exp = "|"
        need_a = False
        for nm in names:
            ty, val, pr, ex = rng.choice(C13_TYPES)
            if "'a" in ty: need_a = True
            colon = rng.choice([": ", ": ", ":", " : ", " :", ":  ", ":\n  "])
            params.append(nm + colon + ty)
            body += pr.replace("{x}", nm) + ","
            exp += ex + ","
            args.append(val)
        sep = rng.choice([", ", ",", ",\n    ", ", "])
        uses = list(USES[:4]) + rng.sample(USES[4:], rng.randint(0, 4))
        # brace groups whose members are called like the placeholders a format / replace based generator might use
        if rng.random() < 0.25: uses += rng.sample(["crate::fields::{name}", "crate::fields::{type_args, preamble}", "crate::fields::{name as body}"], rng.randint(1, 2))
        if rng.random() < 0.3: uses += [g for g in ("std::collections::*", "std::iter::*", "crate::models::*", "std::cmp::*") if g not in uses][:rng.randint(2, 3)]
        # an imported name that ends in this template's own function name, one that begins with it, and the name itself from another module
        if i % 8 == 0: uses += ["crate::own::base_d%d_html" % i, "crate::own::d%d_html_v2" % i, "crate::own::d%d_html as d%d_alias" % (i, i)]
        rng.shuffle(uses)
        lifetimes = rng.choice(["<'a>", "<'a, 'b>", "<'a,'b>", "< 'a>", "<'a, 'unused, 'z>"]) if need_a or rng.random() < 0.3 else ""
        open_ws = rng.choice(["", " ", "\n  "]); close_ws = rng.choice(["", " ", "\n"])
        src = "".join("@use %s;\n" % u for u in uses) + "@" + lifetimes + "(" + open_ws + sep.join(params) + close_ws + ")\n" + body
        cases.append(dict(canon=src.encode(), perts=[], items=None, expect=[exp.encode()], args=", ".join(args), uses=uses, params=params, lifetimes=lifetimes))
    user_rs += "pub mod fields { pub fn name() {} pub fn type_args() {} pub fn preamble() {} }\n"
    user_rs += "pub mod own { " + " ".join("pub fn base_d%d_html() {} pub fn d%d_html_v2() {} pub fn d%d_html() {}" % (i, i, i) for i in range(0, n, 8)) + " }\n"
    # run through a local variant of the suite: one argument set per template (its own values)
    chk = Check(pid, tier)
    info = ensure_all()
    proof = proof_step(pid, thorough=(tier == "thorough"))
    named = [("d%d_html" % i, c["canon"]) for i, c in enumerate(cases)]
    impl, model = compile_pairs(named)
    disagree = []; oracle_fail = []
    history_pass(named, impl, oracle_fail)
    ok_cases = []
    for i, (c, a, m) in enumerate(zip(cases, impl, model)):
        chk.count(c["canon"], len(c["params"]) > 0)
        if a != m: disagree.append((c["canon"], a, m))
        st, code = decode_outcome(a)
        if st != "OK":
            oracle_fail.append((c["canon"], "a well-formed declaration is not accepted (%s): %s" % (st, code.decode("utf8", "replace")[:300]), None)); continue
        # impl-side statement of the property on the generated text
        txt = code.decode("utf8", "replace")
        # declared types verbatim: every parameter that is not a block parameter appears in the signature as written
        for p in c["params"]:
            if not re.match(r"^\w+\s*:\s*Content$", p) and ("  %s,\n" % p) not in txt:
                oracle_fail.append((c["canon"], "the declared parameter `%s` is not in the generated signature verbatim" % p, dict(code=txt[:900]))); break
        mg = re.search(r"pub fn \w+<([^>]*)W>\(", txt)
        if re.findall(r"'\w+", c["lifetimes"]) != (re.findall(r"'\w+", mg.group(1)) if mg else None):
            oracle_fail.append((c["canon"], "the declared lifetime list `%s` is not the generic list of the generated function (`%s`)" % (c["lifetimes"], mg.group(1) if mg else None), dict(code=txt[:700]))); continue
        for u in c["uses"]:
            if ("use %s;\n" % u) not in txt:
                oracle_fail.append((c["canon"], "the line `@use %s;` did not become the identical use item" % u, dict(code=txt[:800]))); break
        ok_cases.append((i, c))
    B = 125
    for s0 in range(0, len(ok_cases), B):
        batch = ok_cases[s0:s0 + B]
        files = {"t/d%d.rs.html" % i: c["canon"] for i, c in batch}
        calls = [("templates::d%d_html(&mut sink%s)" % (i, (", " + c["args"]) if c["args"] else ""), "-") for i, c in batch]
        import render_lib
        old = render_lib.SINK_RS; render_lib.SINK_RS = old + user_rs + "use std::fmt::Display; use std::collections::HashMap as Map;\n"
        try: rb = render_lib.render_batch(files, calls)
        finally: render_lib.SINK_RS = old
        if not rb["ok"]:
            if rb.get("rustc_failed"):
                bad = rustc_blame(rb["error"], ["d%d_html" % i for i, c in batch])
                for i, c in [x for x in batch if ("d%d_html" % x[0]) in bad][:3] or batch[:1]:
                    oracle_fail.append((c["canon"], "calling the generated function with values of exactly the declared types in declared order does not type-check", dict(rustc=rb["error"][:2500], call=c["args"])))
            else: oracle_fail.append((batch[0][1]["canon"], "render batch failed: " + rb["error"][:400], None))
            continue
        for (i, c), r in zip(batch, rb["results"]):
            chk.cov["renderings"] = chk.cov.get("renderings", 0) + 1
            if r is None or r[1] != "ok" or r[0] != c["expect"][0]:
                oracle_fail.append((c["canon"], "parameters do not reach the body in declared order / as declared", dict(got=(r[0].decode("utf8", "replace") if r else None), want=c["expect"][0].decode())))
    # a declaration edited without changing the length of the generated code, compiled again into the same OUT_DIR:
    # the signature on disk must be the one declared now
    import build_lib
    edits = [("@(first: u8, other: i32)\n@first@other", "@(other: i32, first: u8)\n@first@other", "  other: i32,\n  first: u8,\n"),
             ("@(n: i32)\n@n", "@(n: u64)\n@n", "  n: u64,\n"),
             ("@<'a, 'b>(x: &'a str, y: &'b str)\n@x@y", "@<'b, 'a>(x: &'b str, y: &'a str)\n@x@y", "pub fn s_html<'b, 'a, W>("),
             ("@use std::fmt::Debug;\n@(x: u8)\n@x", "@use std::fmt::Write;\n@(x: u8)\n@x", "use std::fmt::Write;\n"),
             ("@(c: Content, t: u8)\n@:c()@t", "@(t: u8, c: Content)\n@:c()@t", "  t: u8,\n  c: impl FnOnce(&mut W) -> io::Result<()>,\n")]
    scen = [[('W', 't/s.rs.html', v1), ('R', [('c', 't')]), ('W', 't/s.rs.html', v2), ('R', [('c', 't')])] for v1, v2, _ in edits]
    # ... and the edited file may carry the modification time of the old one (mv / cp -p / restore), older than the generated file
    scen += [[('W', 't/s.rs.html', v1), ('R', [('c', 't')]), ('T', 't/s.rs.html', v2), ('R', [('c', 't')])] for v1, v2, _ in edits]
    edits = edits + edits
    for (v1, v2, must), r in zip(edits, build_lib.run_scenarios(scen)):
        chk.count(("rebuild " + v2).encode(), True)
        runs = [x for x in r["runs"] if x["kind"] == "R"]
        got = ((runs[1]["after"].get(b"templates/template_s_html.rs") or (b"", ""))[0] or b"") if len(runs) > 1 and runs[1]["after"] else b""
        if must.encode() not in got:
            oracle_fail.append((v2.encode(), "after the declaration was edited (same length of generated code) and the template rebuilt into the same OUT_DIR, the generated signature is not the declared one (expected %r)" % must, dict(code=got.decode("utf8", "replace")[:900], before=v1)))
        elif len(runs) > 1 and "model" in runs[1] and runs[1]["model"].get("fs", {}).get(b"templates/template_s_html.rs") not in (None, got):
            disagree.append((v2.encode(), "OK " + got.hex(), "OK " + runs[1]["model"]["fs"][b"templates/template_s_html.rs"].hex()))
    # files that hold only @use lines / comments (a "shared imports" file, an unfinished template: rejected with a warning) between templates
    # of the same directory: each template's header is its own -- the code it gets is the code it gets in a directory without those files
    for rep in range(2 if tier == "quick" else 8):
        names = rng.sample([a + b_ for a in "abcdkmqxyzABZ" for b_ in ["", "0", "7", "_x", "zz"]], 16)
        goods = [('W', 't/%s.rs.html' % n_, "@use std::fmt::Debug as D%d;\n@(v: &str, n: u%d)\n<@v|@n>" % (k, [8, 16, 32][k % 3])) for k, n_ in enumerate(names[:8])]
        bads = [('W', 't/%s.rs.html' % n_, ["@use crate::shared::Helper;\n@use std::collections::BTreeMap;\n", "@* imports for every page *@\n@use super::layout_html;\n", "@use a::b;", "@use x::{y, z};\n\n"][k % 4]) for k, n_ in enumerate(names[8:])]
        mixed = goods + bads; rng.shuffle(mixed)
        rm, rg = build_lib.run_scenarios([mixed + [('R', [('c', 't')])], goods + [('R', [('c', 't')])]])
        chk.count(("imports-only siblings " + build_lib.scenario_line(mixed)[:1500]).encode(), True)
        fm = build_lib.snap_files(([x for x in rm["runs"] if x["kind"] == "R"][0]["after"]) or {}); fg = build_lib.snap_files(([x for x in rg["runs"] if x["kind"] == "R"][0]["after"]) or {})
        for n_ in names[:8]:
            k_ = ("templates/template_%s_html.rs" % n_).encode()
            if not fg.get(k_) or fm.get(k_) != fg.get(k_):
                oracle_fail.append((build_lib.scenario_line(mixed + [('R', [('c', 't')])]).encode(), "the template %s.rs.html gets another header (use items / signature) in a directory that also holds files with nothing but @use lines than without them" % n_,
                                    dict(with_them=(fm.get(k_) or b"<no file>").decode("utf8", "replace")[:700], without=(fg.get(k_) or b"<no file>").decode("utf8", "replace")[:700]))); break
    for c in cases[:3]: chk.sample(dict(template=c["canon"].decode(), call_args=c["args"]))
    chk.notes["disagreements_model_vs_impl"] = len(disagree); chk.notes["oracle_failures"] = len(oracle_fail)
    chk.cov["rule"] = ("parameter lists of 0..8 parameters over %d declared types (references, named and anonymous lifetimes, slices, tuples and generics with trailing commas, impl/dyn, user types Content / ContentType / Contents / MyContent / "
                       "&ContentType / Vec<ContentType>) with parameter names resembling internals (%s), colon spacing variants, lifetime lists, 3-5 @use lines incl. renames, globs and brace groups; "
                       "generated text compared with the model; each function called from a rustc-compiled program with values of exactly the declared types. non-trivial = at least one parameter") % (len(C13_TYPES), ", ".join(C13_NAMES[:5]))
    return conclude(chk, proof, info, disagree, oracle_fail, len(cases))
