#!/usr/bin/env python3
"""skeleton.py: the lexical skeleton of the parsers -- every literal handed to tag / context / char / is_not / is_a /
one_of / none_of, in source order -- read from /repo/src/{spacelike,expression,templateexpression,template}.rs and from
the hand-written Gallina model, and compared function by function.  A token, a message, a delimiter set or the order of
an ordered choice that changes in the Rust source without the model following shows up here, with its location,
before any case is run (tie 1: the model is checked against what the source says now)."""
import re, os, sys, json

KINDS = ("tag", "context", "char", "is_not", "is_a", "one_of", "none_of")

def rust_unescape(lit):
    body = lit[1:-1]
    out = bytearray(); i = 0
    while i < len(body):
        c = body[i]
        if c == "\\":
            n = body[i + 1]
            m = {"n": 10, "r": 13, "t": 9, "\\": 92, "0": 0, "'": 39, '"': 34}
            if n in m: out.append(m[n]); i += 2; continue
            if n == "x": out.append(int(body[i + 2:i + 4], 16)); i += 4; continue
            raise ValueError("escape " + body[i:i + 4])
        out += c.encode("utf8"); i += 1
    return bytes(out)

def rust_functions(path):
    src = open(path, encoding="utf8").read().split("#[cfg(test)]")[0]
    out = {}
    for m in re.finditer(r"\n(?:pub(?:\([a-z]+\))? )?fn (\w+)\s*[<(]", src):
        start = m.end(); end = src.find("\n}\n", start)
        body = re.sub(r"//[^\n]*", "", src[start:end if end >= 0 else len(src)])
        lits = []
        for lm in re.finditer(r"(?<![\w!.])(%s)\(\s*(\"(?:[^\"\\]|\\.)*\"|'(?:[^'\\]|\\.)')" % "|".join(KINDS), body):
            lits.append((lm.group(1), rust_unescape(lm.group(2))))
        out[m.group(1)] = lits
    return out

def coq_string(lit):
    # a Coq string literal: "" stands for a quote; the model writes \n etc. never (bytes are given as numbers)
    return lit[1:-1].replace('""', '"').encode("utf8")

def coq_definitions(path):
    src = open(path, encoding="utf8").read()
    src = re.sub(r"\(\*.*?\*\)", " ", src, flags=re.S)
    out = {}
    names = {}
    for m in re.finditer(r"\n\s*Definition (\w+)\s*(?::\s*bytes\s*)?:=\s*b (\"(?:[^\"]|\"\")*\")", src):
        names[m.group(1)] = coq_string(m.group(2))
    parts = re.split(r"\n\s*(?=(?:Definition|Fixpoint|Inductive|Section|End|Record|Variable|Let)\b)", src)
    for p in parts:
        m = re.match(r"(?:Definition|Fixpoint) (\w+)", p)
        if not m: continue
        lits = []
        rx = r"(?<![\w.])(%s)\s+(\(b (\"(?:[^\"]|\"\")*\")\)|\[([0-9%%N; ]*)\]|(\d+)|(\w+))" % "|".join(KINDS)
        for lm in re.finditer(rx, p):
            kind = lm.group(1)
            if lm.group(3) is not None: val = coq_string(lm.group(3))
            elif lm.group(4) is not None: val = bytes(int(x.replace("%N", "")) for x in lm.group(4).split(";") if x.strip())
            elif lm.group(5) is not None: val = bytes([int(lm.group(5))])
            else:
                if lm.group(6) not in names: continue     # an argument name, e.g. `tag t`
                val = names[lm.group(6)]
            lits.append((kind, val, lm.start()))
        out[m.group(1)] = (lits, p)
    return out

def branch(lits_p, label, next_labels):
    """the literals of one `| label =>` branch of a match inside a definition"""
    lits, text = lits_p
    a = text.find("| %s =>" % label)
    ends = [text.find("| %s =>" % n, a + 1) for n in next_labels]
    ends = [e for e in ends if e > a]
    b = min(ends) if ends else len(text)
    off = 0
    return [(k, v) for k, v, pos in lits if a <= pos - off < b]

def plain(lits_p):
    return [(k, v) for k, v, _ in lits_p[0]]

def compare(repo, coqdir):
    R = {}
    for f in ("spacelike", "expression", "templateexpression", "template"):
        for k, v in rust_functions(os.path.join(repo, "src", f + ".rs")).items():
            R[f + "." + k] = v
    C = {}
    for f in ("Spacelike", "Expression", "TemplateExpr", "Template"):
        for k, v in coq_definitions(os.path.join(coqdir, "theories", "Model", f + ".v")).items():
            C[f + "." + k] = v
    g = lambda n: plain(C[n]) if n in C else None
    X = C.get("Expression.exprF_gen"); T = C.get("Template.tyF")
    NT = ["NExpr", "NParens", "NBrackets", "NBraces", "NInside"]
    slash = g("Expression.slash_now") or []
    def grp(lbl):
        b0 = branch(X, lbl, NT)
        # the model names the division alternative `slash`; in the source it is written out where the model says `slash`
        return b0[:-1] + slash + b0[-1:] if lbl in ("NBrackets", "NBraces") else b0 + slash
    pairs = [
        ("spacelike.comment", g("Spacelike.comment")),
        ("spacelike.comment_tail", g("Spacelike.comment_tail")),
        ("expression.rust_name", [(k, v) for k, v in (g("Expression.rust_name") or [])]),
        ("expression.quoted_string", g("Expression.quoted_string")),
        ("expression.rust_comment", g("Expression.rust_comment")),
        ("expression.comma_expressions", g("Expression.comma_expressions")),
        ("expression.expression", (lambda e: e[-1:] + (g("Expression.prefix_alt") or []) + (g("Expression.postfix_alt") or []))(branch(X, "NExpr", NT)) if X else None),
        ("expression.expr_in_parens", branch(X, "NParens", NT) if X else None),
        ("expression.expr_in_brackets", grp("NBrackets") if X else None),
        ("expression.expr_in_braces", grp("NBraces") if X else None),
        ("expression.expr_inside_parens", grp("NInside") if X else None),
        ("templateexpression.rel_operator", g("TemplateExpr.rel_operator")),
        ("templateexpression.logic_expression", g("TemplateExpr.logic_expression")),
        ("templateexpression.cond_expression", g("TemplateExpr.cond_expression")),
        ("templateexpression.loop_expression", g("TemplateExpr.loop_expression")),
        ("templateexpression.for_variable", g("TemplateExpr.for_variable")),
        ("templateexpression.template_block", g("TemplateExpr.template_block")),
        ("templateexpression.template_argument", g("TemplateExpr.template_argument")),
        ("templateexpression.if2", g("TemplateExpr.if2_body")),
        ("templateexpression.template_expression",
         (g("TemplateExpr.dispatch") or []) + (g("TemplateExpr.call_branch") or []) + (g("TemplateExpr.for_branch") or []) +
         (g("TemplateExpr.match_branch") or []) + (g("TemplateExpr.paren_branch") or []) + (g("TemplateExpr.text_branch") or [])),
        ("template.template", g("Template.template")),
        ("template.formal_argument", g("Template.formal_argument")),
        ("template.lifetime", g("Template.lifetime")),
        ("template.type_expression", branch(T, "TyExpr", ["TyExpr", "TyComma"]) if T else None),
        ("template.comma_type_expressions", branch(T, "TyComma", ["TyExpr", "TyComma"]) if T else None),
    ]
    diffs = []
    covered = set()
    for rn, cl in pairs:
        covered.add(rn)
        rl = R.get(rn)
        if rl is None: diffs.append("%s: function not found in the source" % rn); continue
        if cl is None: diffs.append("%s: definition not found in the model" % rn); continue
        if rl != cl:
            k = next((i for i in range(min(len(rl), len(cl))) if rl[i] != cl[i]), min(len(rl), len(cl)))
            diffs.append("%s: literal #%d differs: source %r, model %r (source has %d literals, model %d)" %
                         (rn, k + 1, rl[k] if k < len(rl) else None, cl[k] if k < len(cl) else None, len(rl), len(cl)))
    for rn, rl in R.items():
        if rn not in covered and rl:
            diffs.append("%s: a function with parser literals %r that the model does not account for" % (rn, rl[:3]))
    return dict(functions=len(pairs), literals=sum(len(R.get(rn) or []) for rn, _ in pairs), diffs=diffs)

if __name__ == "__main__":
    root = os.path.dirname(os.path.dirname(os.path.abspath(__file__)))
    r = compare(sys.argv[1] if len(sys.argv) > 1 else "/repo", os.path.join(root, "coq"))
    print(json.dumps(r, indent=1))
    sys.exit(1 if r["diffs"] else 0)
