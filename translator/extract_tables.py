#!/usr/bin/env python3
"""Tie 1: regenerate coq/theories/Gen/Tables.v from /repo's current source.

Finite data that the model *imports* (so every theorem depending on it is re-checked by the
kernel against what the source says now):
  * the escaped bytes and their entities               src/templates/utils.rs
  * the template suffix list                            src/lib.rs
  * both suffix -> MIME constant tables and defaults    src/staticfiles.rs
  * the `mime_arg` format string                        src/staticfiles.rs
  * the constants the mime 0.3 crate really defines     cargo registry: mime-0.3.*/src/lib.rs
  * directive keywords / escape tokens, relational operators, string escapes
                                                        src/templateexpression.rs, src/expression.rs
If the shape of the source is no longer recognised, a TranslatorError is raised; the caller
falls back to the committed Tables.v and records translator_fallback=true.
"""
import re, os, sys, glob

class TranslatorError(Exception):
    pass

def rust_unescape(s):
    out = bytearray(); i = 0
    while i < len(s):
        c = s[i]
        if c == "\\":
            n = s[i+1]
            if n == "n": out.append(10)
            elif n == "r": out.append(13)
            elif n == "t": out.append(9)
            elif n == "0": out.append(0)
            elif n in "\\'\"": out.append(ord(n))
            elif n == "x": out.append(int(s[i+2:i+4], 16)); i += 2
            else: raise TranslatorError("escape " + n)
            i += 2
        else:
            out += c.encode(); i += 1
    return bytes(out)

def lit(bs):
    return "[" + ";".join(str(x) for x in bs) + "]"

def need(cond, what):
    if not cond:
        raise TranslatorError("source shape not recognised: " + what)

def fn_body(src, header_re, what):
    m = re.search(header_re, src)
    need(m, what)
    i = src.index("{", m.end() - 1) if src[m.end()-1] != "{" else m.end() - 1
    depth = 0; j = i
    while True:
        if src[j] == "{": depth += 1
        elif src[j] == "}":
            depth -= 1
            if depth == 0: break
        j += 1
    return src[i:j+1]

def match_table(body, what):
    """parse `"a" | "b" => "X",` arms and the `_ => "D"` default"""
    rows = []; default = None
    for m in re.finditer(r'((?:"[^"]*"\s*\|\s*)*"[^"]*"|_)\s*=>\s*"([^"]*)"\s*,', body):
        pats, const = m.group(1), m.group(2)
        if pats == "_":
            default = const
        else:
            for p in re.findall(r'"([^"]*)"', pats):
                rows.append((p, const))
    need(rows and default is not None, what)
    return rows, default

def extract(repo):
    t = {}
    # ---- utils.rs
    u = open(os.path.join(repo, "src/templates/utils.rs")).read()
    w = fn_body(u, r"fn write\(&mut self, data: &\[u8\]\) -> io::Result<usize> \{", "ToHtmlEscapingWriter::write")
    tw = re.search(r"take_while\(\|&&c\| \{(.*?)\}\)", w, re.S)
    need(tw, "take_while closure")
    cond = tw.group(1)
    specials = re.findall(r"c != b'(\\?.)'", cond)
    need(specials and re.fullmatch(r"\s*(c != b'\\?.'\s*(&&\s*)?)+", cond), "take_while condition is a conjunction of c != b'x'")
    t["special_bytes"] = [rust_unescape(s)[0] for s in specials]
    o = fn_body(u, r"fn write_one_byte_escaped\(", "write_one_byte_escaped")
    ents = re.findall(r"Some\(b'(\\?.)'\) => b\"([^\"]*)\"", o)
    dflt = re.search(r"_ => b\"([^\"]*)\"", o)
    need(ents and dflt and "None => return Ok(0)" in o, "entity arms")
    t["entity_table"] = [(rust_unescape(a)[0], rust_unescape(e)) for a, e in ents]
    t["entity_default"] = rust_unescape(dflt.group(1))
    # ---- lib.rs
    l = open(os.path.join(repo, "src/lib.rs")).read()
    m = re.search(r"for suffix in &\[([^\]]*)\]", l)
    need(m, "template suffix list")
    t["template_suffixes"] = [s.encode() for s in re.findall(r'"([^"]*)"', m.group(1))]
    need(t["template_suffixes"], "template suffix list empty")
    # ---- staticfiles.rs
    s = open(os.path.join(repo, "src/staticfiles.rs")).read()
    m3 = fn_body(s, r'#\[cfg\(feature = "mime03"\)\]\s*fn mime_from_suffix\(suffix: &str\) -> &\'static str \{', "mime03 mime_from_suffix")
    need("suffix.to_lowercase()" in m3, "mime03 table lowercases the suffix")
    t["mime03_rows"], t["mime03_default"] = match_table(m3, "mime03 table")
    ht = fn_body(s, r'#\[cfg\(feature = "http-types"\)\]\s*fn mime_from_suffix\(suffix: &str\) -> &\'static str \{', "http-types mime_from_suffix")
    need("suffix.to_lowercase()" in ht, "http-types table lowercases the suffix")
    t["http_rows"], t["http_default"] = match_table(ht, "http-types table")
    ma = re.search(r'let result = format!\("([^"]*)", mime_from_suffix\(suffix\)\);', s)
    need(ma and ma.group(1).count("{}") == 1, "mime_arg format string")
    pre, post = ma.group(1).split("{}")
    t["mime_arg_pre"], t["mime_arg_post"] = rust_unescape(pre), rust_unescape(post)
    # ---- mime crate
    cands = sorted(glob.glob(os.path.expanduser("~/.cargo/registry/src/*/mime-0.3.*/src/lib.rs")))
    need(cands, "mime 0.3 crate source in the cargo registry")
    mc = open(cands[-1]).read()
    mm = re.search(r"\nmimes! \{(.*?)\n\}", mc, re.S)
    need(mm, "mimes! table")
    consts = re.findall(r'^\s*([A-Z0-9_]+), "([^"]*)"', mm.group(1), re.M)
    need(len(consts) > 10, "mimes! rows")
    t["mime03_consts"] = [(c, v) for c, v in consts]
    # ---- parser token lists
    te = open(os.path.join(repo, "src/templateexpression.rs")).read()
    m = re.search(r"char\('@'\),\s*alt\(\((.*?)\)\),\s*\)\)\s*\.parse\(input\)\?", te, re.S)
    need(m, "template_expression dispatch")
    t["dispatch_tags"] = [x.encode() for x in re.findall(r'tag\("([^"]*)"\)', m.group(1))]
    ro = fn_body(te, r"fn rel_operator\(input: &\[u8\]\) -> PResult<&str> \{", "rel_operator")
    t["rel_operators"] = [x.encode() for x in re.findall(r'tag\("([^"]*)"\)', ro)]
    need(t["rel_operators"], "relational operators")
    ex = open(os.path.join(repo, "src/expression.rs")).read()
    m = re.search(r"one_of\(\"((?:[^\"\\]|\\.)*)\"\)", ex)
    need(m, "quoted_string escapes")
    t["string_escapes"] = rust_unescape(m.group(1))
    # no cut()/streaming parsers: nom Failure/Incomplete cannot arise
    for f in ("expression.rs", "spacelike.rs", "template.rs", "templateexpression.rs"):
        txt = open(os.path.join(repo, "src", f)).read()
        need("::streaming" not in txt and not re.search(r"\bcut\(", txt), f"{f}: only complete parsers, no cut()")
    return t

def render(t):
    o = ["(* GENERATED by translator/extract_tables.py from /repo's source; do not edit.",
         "   Regenerated on every check run; the committed copy is the fallback. *)",
         "From Coq Require Import List NArith.", "Import ListNotations.", "Local Open Scope N_scope.", ""]
    def cm(bs):
        return "(* " + bs.decode("latin1").replace("*)", "* )").replace("(*", "( *").replace('"', "''").replace("\n", "\\n") + " *)"
    o.append("(* src/templates/utils.rs: ToHtmlEscapingWriter *)")
    o.append(f"Definition special_bytes : list N := {lit(t['special_bytes'])}.")
    o.append("Definition entity_table : list (N * list N) :=\n  [" +
             ";\n   ".join(f"({c}, {lit(e)}) {cm(e)}" for c, e in t["entity_table"]) + "].")
    o.append(f"Definition entity_default : list N := {lit(t['entity_default'])}. {cm(t['entity_default'])}")
    o.append("")
    o.append("(* src/lib.rs: handle_entries *)")
    o.append("Definition template_suffixes : list (list N) :=\n  [" +
             ";\n   ".join(f"{lit(s)} {cm(s)}" for s in t["template_suffixes"]) + "].")
    o.append("")
    o.append("(* src/staticfiles.rs: mime_from_suffix / mime_arg *)")
    for k in ("mime03", "http"):
        rows = t[k + "_rows"]
        o.append(f"Definition {k}_rows : list (list N * list N) :=\n  [" +
                 ";\n   ".join(f"({lit(a.encode())}, {lit(c.encode())}) (* {a} => {c} *)" for a, c in rows) + "].")
        d = t[k + "_default"].encode()
        o.append(f"Definition {k}_default : list N := {lit(d)}. {cm(d)}")
    o.append(f"Definition mime_arg_pre : list N := {lit(t['mime_arg_pre'])}. {cm(t['mime_arg_pre'])}")
    o.append(f"Definition mime_arg_post : list N := {lit(t['mime_arg_post'])}. {cm(t['mime_arg_post'])}")
    o.append("")
    o.append("(* mime 0.3 crate: the constants the mimes! table defines, with their media types *)")
    o.append("Definition mime03_consts : list (list N * list N) :=\n  [" +
             ";\n   ".join(f"({lit(c.encode())}, {lit(v.encode())}) (* {c} = {v} *)" for c, v in t["mime03_consts"]) + "].")
    o.append("")
    o.append("(* parser token lists (src/templateexpression.rs, src/expression.rs) *)")
    o.append("Definition dispatch_tags : list (list N) := [" + "; ".join(lit(x) for x in t["dispatch_tags"]) + "].")
    o.append("Definition rel_operators : list (list N) := [" + "; ".join(lit(x) for x in t["rel_operators"]) + "].")
    o.append(f"Definition string_escapes : list N := {lit(t['string_escapes'])}.")
    o.append("")
    return "\n".join(o)

def regenerate(repo, dest):
    """returns (changed, fallback, message)"""
    try:
        new = render(extract(repo))
    except (TranslatorError, OSError, ValueError, IndexError) as e:
        return (False, True, str(e))
    old = open(dest).read() if os.path.exists(dest) else None
    if old != new:
        open(dest, "w").write(new)
        return (True, False, "updated")
    return (False, False, "unchanged")

if __name__ == "__main__":
    repo = sys.argv[1] if len(sys.argv) > 1 else "/repo"
    dest = sys.argv[2] if len(sys.argv) > 2 else os.path.join(os.path.dirname(os.path.dirname(os.path.abspath(__file__))), "coq/theories/Gen/Tables.v")
    print("tables:", regenerate(repo, dest))
