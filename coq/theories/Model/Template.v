(* src/template.rs: the parsers *)
From Ructe Require Import Nom Utf8 Spacelike Expression TemplateExpr.
Local Open Scope string_scope.

Record template_t := { preamble : list bytes; type_args : bytes; args : list bytes; body : list texpr }.

Definition lifetime : parser unit := delimited spacelike (unitp (tag (b "'"))) rust_name.

Inductive tynt := TyExpr | TyComma.
Definition tyF (self0 : tynt -> parser unit) (x : tynt) : parser unit := fun i0 =>
  let type_expression : parser unit := fun j => self0 TyExpr j in
  let comma_type_expressions : parser unit := fun j => self0 TyComma j in
  match x with
  | TyExpr =>
    unitp (pair (pair (pair (pair
      (alt [tag (b "&"); tag (b "")])
      (opt lifetime))
      (delimited spacelike (alt [tag (b "impl"); tag (b "dyn"); tag (b "")]) spacelike))
      (context (b "Expected rust type expression")
         (alt [ unitp rust_name;
                delimited (tag (b "[")) (unitp type_expression) (tag (b "]"));
                delimited (tag (b "(")) (unitp comma_type_expressions) (tag (b ")")) ])))
      (opt (delimited (tag (b "<")) comma_type_expressions (tag (b ">")))))
  | TyComma =>
    unitp (terminated
      (separated_list0 (preceded (tag (b ",")) multispace0) (alt [type_expression; lifetime]))
      (opt (preceded (tag (b ",")) multispace0)))
  end i0.
Fixpoint ty_gram (n : nat) : tynt -> parser unit :=
  match n with O => fun _ _ => Abort AFuel | S n => tyF (ty_gram n) end.

Definition end_of_file : parser unit :=
  fun i => match i with [] => Ok tt [] | _ => err1 i (EContext (b "end of file")) end.

Section WithGrammars.
  Variable TY : tynt -> parser unit.
  Variable TEX : parser texpr.     (* template_expression *)

  Definition formal_argument : parser bytes :=
    map_res (recognize (pair (pair (pair (pair rust_name spacelike) (char 58)) spacelike)
                             (fun j => TY TyExpr j))) to_str.

  Definition template : parser template_t :=
    pmap (fun '(_, pre, _, ta, ar, bd) =>
            {| preamble := pre; type_args := match ta with Some t => t | None => [] end;
               args := ar; body := fst bd |})
      (pair (pair (pair (pair (pair
        spacelike
        (many0 (delimited (tag (b "@")) (map_res (is_not (b ";()")) to_str) (terminated (tag (b ";")) spacelike))))
        (context (b "expected '@('...')' template declaration.") (tag (b "@"))))
        (opt (delimited (terminated (tag (b "<")) multispace0)
                (context (b "expected type argument or '>'")
                   (map_res (recognize (separated_list1 (terminated (tag (b ",")) multispace0)
                                          (context (b "expected lifetime declaration")
                                                   (preceded (tag (b "'")) rust_name)))) to_str))
                (tag (b ">")))))
        (delimited
           (context (b "expected '('...')' template arguments declaration.") (terminated (tag (b "(")) multispace0))
           (separated_list0 (terminated (tag (b ",")) multispace0)
                            (context (b "expected formal argument") formal_argument))
           (context (b "expected ',' or ')'.") (delimited multispace0 (tag (b ")")) spacelike))))
        (many_till (context (b "Error in expression starting here:") TEX) end_of_file)).
End WithGrammars.
