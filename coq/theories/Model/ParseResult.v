(* src/parseresult.rs *)
From Ructe Require Import Nom Utf8.
Local Open Scope string_scope.

(* decimal rendering of a nat ({} for usize) *)
Fixpoint dec_aux (fuel n : nat) (acc : bytes) : bytes :=
  match fuel with O => acc | S f =>
    let d := N.of_nat (n mod 10) in
    let acc' := (48 + d)%N :: acc in
    if Nat.ltb n 10 then acc' else dec_aux f (n / 10) acc' end.
Definition dec (n : nat) : bytes := dec_aux (S n) n [].
(* {:>w$} for a str: pad with spaces on the left up to w *chars*; only used for ASCII here *)
Definition pad_left (w : nat) (s : bytes) : bytes := (repeat 32%N (w - length s) ++ s)%list.

(* buf[0..pos].rsplitn(2, '\n'): index just after the last newline before pos, or 0 *)
Fixpoint last_nl_end (s : bytes) (idx : nat) (acc : nat) : nat :=
  match s with [] => acc | c :: r => last_nl_end r (S idx) (if N.eqb c 10 then S idx else acc) end.
Definition until_nl (s : bytes) : bytes := fst (span (fun c => negb (N.eqb c 10)) s).
Definition count_nl (s : bytes) : nat := length (filter (fun c => N.eqb c 10) s).

Record diag := { d_line_no : nat; d_col : nat; d_line : bytes; d_msg : bytes }.

(* the (line number, caret column, echoed line) triple of show_error *)
Definition locate (buf : bytes) (pos : nat) (msg : bytes) : diag :=
  let line_start := last_nl_end (firstn pos buf) 0 0 in
  let line_raw := until_nl (skipn line_start buf) in
  {| d_line_no := S (count_nl (firstn line_start buf));
     d_col := S (lossy_char_count (firstn (pos - line_start) (skipn line_start buf)));
     d_line := if utf8_valid line_raw then line_raw else b "(Failed to display line)";
     d_msg := msg |}.

Definition render_diag (prefix : bytes) (d : diag) : bytes :=
  (prefix ++ pad_left 4 (dec (d_line_no d)) ++ b ":" ++ d_line d ++ [10%N] ++
   prefix ++ b "     " ++ pad_left (d_col d) (b "^") ++ b " " ++ d_msg d ++ [10%N])%list.

(* <char as Debug> for the characters ructe passes to nom's char(): all printable ASCII
   other than ' and \ *)
Definition char_debug (c : N) : bytes := (b "'" ++ [c] ++ b "'")%list.
Definition get_message (k : ekind) : option bytes :=
  match k with
  | EContext m => Some m
  | EChar c => Some (b "Expected " ++ char_debug c)%list
  | ENom => None
  end.

(* show_errors: None = the Rust code would panic (pos > buf.len(): index out of range or
   usize underflow in `buf.len() - rest.len()`).  Error lists are kept in reverse push order,
   which is the order show_errors iterates in (`errors.iter().rev()`). *)
Fixpoint diags (buf : bytes) (e : errs) : option (list diag) :=
  match e with
  | [] => Some []
  | (rem, k) :: e' =>
    match get_message k with
    | None => diags buf e'
    | Some m =>
      if Nat.leb rem (length buf) then
        match diags buf e' with
        | Some t => Some (locate buf (length buf - rem) m :: t)
        | None => None end
      else None
    end
  end.
Definition show_errors (buf : bytes) (e : errs) (prefix : bytes) : option bytes :=
  match diags buf e with
  | Some l => Some (flat_map (render_diag prefix) l)
  | None => None
  end.
