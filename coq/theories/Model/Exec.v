(* What the generated function does when it runs: a big-step semantics of the emitted statement
   list over a sink, parametrised by an oracle for the embedded Rust fragments.  Each statement
   ructe emits ends in `?`, so execution stops at the first failing statement (Proofs/EmitProofs:
   text_code_q and the write_code_* equations tie this reading to the emitted text).
   That rustc gives if / for / match / closures / `?` this meaning is validated by the
   compile-and-run batches, not proved. *)
From Ructe Require Import Nom TemplateExpr Io.
Local Open Scope list_scope.

Section Exec.
  Variable env : Type.

  (* a block argument: its statements, with the variables of the place where it was written *)
  Inductive closure := Clo (items : list texpr) (e : env) (cs : list (bytes * closure)).

  Record oracle := {
    o_val : env -> bytes -> hval;                         (* @expr: the value and how it prints *)
    o_if : env -> bytes -> option env;                    (* condition: None = false, Some e' = true (with `let` bindings) *)
    o_for : env -> bytes -> bytes -> list env;            (* one environment per iteration *)
    o_match : env -> bytes -> list bytes -> option (nat * env);   (* the arm taken *)
    o_call : env -> bytes -> list bytes -> option (list texpr * env * list bytes)
                                                           (* callee: body, its environment for these Rust arguments,
                                                              and the names of its Content parameters in order *)
  }.
  Variable o : oracle.

  Fixpoint lookup_clo (n : bytes) (cs : list (bytes * closure)) : option closure :=
    match cs with [] => None | (k, c) :: r => if beq k n then Some c else lookup_clo n r end.
  Fixpoint rust_args (args : list targ) : list bytes :=
    match args with [] => [] | ARust x :: r => x :: rust_args r | ABody _ :: r => rust_args r end.
  Fixpoint block_args (args : list targ) : list (list texpr) :=
    match args with [] => [] | ARust _ :: r => block_args r | ABody l :: r => l :: block_args r end.
  Fixpoint zip_clos (names : list bytes) (blocks : list (list texpr)) (e : env) (cs : list (bytes * closure)) : list (bytes * closure) :=
    match names, blocks with
    | n :: ns, bl :: bs => (n, Clo bl e cs) :: zip_clos ns bs e cs
    | _, _ => []
    end.

  Definition seq (a : sink -> sink * outcome) (k : sink -> sink * outcome) (s : sink) : sink * outcome :=
    match a s with (s1, Done) => k s1 | x => x end.

  Fixpoint exec (fuel : nat) (e : env) (cs : list (bytes * closure)) (items : list texpr) (s : sink) : sink * outcome :=
    match fuel with O => (s, OutOfFuel) | S fuel' =>
    match items with
    | [] => (s, Done)
    | it :: rest =>
      seq (fun s =>
        match it with
        | TComment => (s, Done)
        | TText t => write_all sink_write (S (length (sched s) + length t)) s t
        | TExpr x => to_html (o_val o e x) s
        | TFor name x body =>
            (fix loop (es : list env) (s : sink) : sink * outcome :=
               match es with [] => (s, Done) | e1 :: es' => seq (exec fuel' e1 cs body) (loop es') s end) (o_for o e name x) s
        | TIf c body els =>
            match o_if o e c with
            | Some e' => exec fuel' e' cs body s
            | None => match els with Some b2 => exec fuel' e cs b2 s | None => (s, Done) end
            end
        | TMatch x arms =>
            match o_match o e x (map fst arms) with
            | Some (k, e') => exec fuel' e' cs (snd (nth k arms ([], []))) s
            | None => (s, Done)
            end
        | TCall name args =>
            match lookup_clo name cs with
            | Some (Clo body e' cs') => exec fuel' e' cs' body s          (* @:c() inside a callee: run the block *)
            | None =>
                match o_call o e name (rust_args args) with
                | Some (body, e', names) => exec fuel' e' (zip_clos names (block_args args) e cs) body s
                | None => (s, Done)
                end
            end
        end) (exec fuel' e cs rest) s
    end end.

  (* the full rendering: the same walk without a sink *)
  Definition oseq (a k : option bytes) : option bytes :=
    match a, k with Some x, Some y => Some (x ++ y) | _, _ => None end.
  Fixpoint render (fuel : nat) (e : env) (cs : list (bytes * closure)) (items : list texpr) : option bytes :=
    match fuel with O => None | S fuel' =>
    match items with
    | [] => Some []
    | it :: rest =>
      oseq
        match it with
        | TComment => Some []
        | TText t => Some t
        | TExpr x => Some (rendering (o_val o e x))
        | TFor name x body =>
            (fix loop (es : list env) : option bytes :=
               match es with [] => Some [] | e1 :: es' => oseq (render fuel' e1 cs body) (loop es') end) (o_for o e name x)
        | TIf c body els =>
            match o_if o e c with
            | Some e' => render fuel' e' cs body
            | None => match els with Some b2 => render fuel' e cs b2 | None => Some [] end
            end
        | TMatch x arms =>
            match o_match o e x (map fst arms) with
            | Some (k, e') => render fuel' e' cs (snd (nth k arms ([], [])))
            | None => Some []
            end
        | TCall name args =>
            match lookup_clo name cs with
            | Some (Clo body e' cs') => render fuel' e' cs' body
            | None =>
                match o_call o e name (rust_args args) with
                | Some (body, e', names) => render fuel' e' (zip_clos names (block_args args) e cs) body
                | None => Some []
                end
            end
        end
        (render fuel' e cs rest)
    end end.
End Exec.
