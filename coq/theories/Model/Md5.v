(* RFC 1321 MD5 on N words (mod 2^32 written out) and URL-safe unpadded base64:
   the model's own copies of what the md5 0.7 and base64 0.22 crates compute. *)
From Ructe Require Import Nom.
Local Open Scope N_scope.

Definition M32 := 4294967296.
Definition add32 (a c : N) := (a + c) mod M32.
Definition rotl (x : N) (c : N) := ((N.shiftl x c) mod M32) + N.shiftr x (32 - c).
Definition not32 (x : N) := M32 - 1 - x.

Definition SH : list N :=
 [7;12;17;22;7;12;17;22;7;12;17;22;7;12;17;22;
  5;9;14;20;5;9;14;20;5;9;14;20;5;9;14;20;
  4;11;16;23;4;11;16;23;4;11;16;23;4;11;16;23;
  6;10;15;21;6;10;15;21;6;10;15;21;6;10;15;21].
Definition K : list N :=
 [3614090360;3905402710;606105819;3250441966;4118548399;1200080426;2821735955;4249261313;
  1770035416;2336552879;4294925233;2304563134;1804603682;4254626195;2792965006;1236535329;
  4129170786;3225465664;643717713;3921069994;3593408605;38016083;3634488961;3889429448;
  568446438;3275163606;4107603335;1163531501;2850285829;4243563512;1735328473;2368359562;
  4294588738;2272392833;1839030562;4259657740;2763975236;1272893353;4139469664;3200236656;
  681279174;3936430074;3572445317;76029189;3654602809;3873151461;530742520;3299628645;
  4096336452;1126891415;2878612391;4237533241;1700485571;2399980690;4293915773;2240044497;
  1873313359;4264355552;2734768916;1309151649;4149444226;3174756917;718787259;3951481745].

Fixpoint words_le (bs : bytes) : list N :=
  match bs with
  | a :: b0 :: c :: d :: r => (a + 256 * b0 + 65536 * c + 16777216 * d) :: words_le r
  | _ => []
  end.
Fixpoint le_bytes (n : nat) (x : N) : bytes :=
  match n with O => [] | S n' => (x mod 256) :: le_bytes n' (x / 256) end.

Definition step (i : nat) (st : N * N * N * N) (m : list N) : N * N * N * N :=
  let '(a, b0, c, d) := st in
  let '(f, g) :=
    if Nat.ltb i 16 then (N.lor (N.land b0 c) (N.land (not32 b0) d), i)
    else if Nat.ltb i 32 then (N.lor (N.land d b0) (N.land (not32 d) c), (5 * i + 1) mod 16)%nat
    else if Nat.ltb i 48 then (N.lxor (N.lxor b0 c) d, (3 * i + 5) mod 16)%nat
    else (N.lxor c (N.lor b0 (not32 d)), (7 * i) mod 16)%nat in
  let f' := add32 (add32 (add32 f a) (nth i K 0)) (nth g m 0) in
  (d, add32 b0 (rotl f' (nth i SH 0)), b0, c).

Definition block (st : N * N * N * N) (chunk : bytes) : N * N * N * N :=
  let m := words_le chunk in
  let '(a, b0, c, d) := st in
  let '(a', b', c', d') := fold_left (fun s i => step i s m) (seq 0 64) st in
  (add32 a a', add32 b0 b', add32 c c', add32 d d').

(* message ++ 0x80 ++ zeros ++ 64-bit little-endian bit length, a multiple of 64 bytes *)
Definition pad (msg : bytes) : bytes :=
  let l := length msg in
  let z := ((55 + 64 - l mod 64) mod 64)%nat in
  (msg ++ [128] ++ repeat 0 z ++ le_bytes 8 (8 * N.of_nat l))%list.

Fixpoint chunks (n : nat) (bs : bytes) : list bytes :=
  match n with O => [] | S n' =>
    match bs with [] => [] | _ => firstn 64 bs :: chunks n' (skipn 64 bs) end end.

Definition md5_init : N * N * N * N := (1732584193, 4023233417, 2562383102, 271733878).
Definition md5 (msg : bytes) : bytes :=
  let p := pad msg in
  let '(a, b0, c, d) := fold_left block (chunks (S (length p / 64)%nat) p) md5_init in
  (le_bytes 4 a ++ le_bytes 4 b0 ++ le_bytes 4 c ++ le_bytes 4 d)%list.

(* base64::prelude::BASE64_URL_SAFE_NO_PAD *)
Definition b64c (n : N) : N :=
  if n <? 26 then 65 + n else if n <? 52 then 97 + (n - 26) else if n <? 62 then 48 + (n - 52)
  else if n =? 62 then 45 else 95.
Fixpoint b64url (bs : bytes) : bytes :=
  match bs with
  | a :: b0 :: c :: r =>
      let x := 65536 * a + 256 * b0 + c in
      b64c (x / 262144) :: b64c ((x / 4096) mod 64) :: b64c ((x / 64) mod 64) :: b64c (x mod 64) :: b64url r
  | [a; b0] => let x := 1024 * a + 4 * b0 in [b64c (x / 4096); b64c ((x / 64) mod 64); b64c (x mod 64)]
  | [a] => let x := 16 * a in [b64c (x / 64); b64c (x mod 64)]
  | [] => []
  end.
(* src/staticfiles.rs:574-578 *)
Definition checksum_slug (data : bytes) : bytes := b64url (firstn 6 (md5 data)).
