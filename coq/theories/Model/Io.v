(* Sinks, std::io::Write::write_all / write_fmt, and src/templates/utils.rs
   (ToHtml, ToHtmlEscapingWriter, Html, HtmlBuffer). *)
From Coq Require Export List NArith Lia Bool Arith.
From Ructe Require Import Tables.
Export ListNotations.

Definition bytes := list N.

(* ---- sinks: a schedule of responses to successive `write` calls; when the schedule is
   exhausted the sink accepts everything (like Vec<u8>). ---- *)
Inductive resp := Accept (k : nat) | Interrupted | Fail (e : N).
Inductive ioerr := WriteZero | Io (e : N).
Record sink := { sched : list resp; log : bytes }.
Inductive wres := WOk (n : nat) | WInt | WErr (e : ioerr).

Definition sink_write (s : sink) (d : bytes) : sink * wres :=
  match sched s with
  | [] => ({| sched := []; log := log s ++ d |}, WOk (length d))
  | Accept k :: r => let n := Nat.min k (length d) in
                     ({| sched := r; log := log s ++ firstn n d |}, WOk n)
  | Interrupted :: r => ({| sched := r; log := log s |}, WInt)
  | Fail e :: r => ({| sched := r; log := log s |}, WErr (Io e))
  end.

Inductive outcome := Done | Failed (e : ioerr) | OutOfFuel.

(* std::io::Write::write_all (default method), generic over `write`:
   Ok(0) -> WriteZero; Ok(n) -> advance; Interrupted -> retry; other errors -> return *)
Section WriteAll.
  Context {W : Type} (write : W -> bytes -> W * wres).
  Fixpoint write_all (fuel : nat) (w : W) (d : bytes) : W * outcome :=
    match d with
    | [] => (w, Done)
    | _ :: _ =>
      match fuel with
      | O => (w, OutOfFuel)
      | S f =>
        match write w d with
        | (w', WOk O) => (w', Failed WriteZero)
        | (w', WOk n) => write_all f w' (skipn n d)
        | (w', WInt) => write_all f w' d
        | (w', WErr e) => (w', Failed e)
        end
      end
    end.
End WriteAll.

(* ---- src/templates/utils.rs; the byte tables come from the translator ---- *)
Fixpoint memN (c : N) (l : list N) : bool :=
  match l with [] => false | x :: r => N.eqb c x || memN c r end.
Definition special (c : N) : bool := memN c special_bytes.
Fixpoint lookupN (c : N) (t : list (N * bytes)) : option bytes :=
  match t with [] => None | (k, v) :: r => if N.eqb c k then Some v else lookupN c r end.
(* the match of write_one_byte_escaped *)
Definition entity (c : N) : bytes :=
  match lookupN c entity_table with Some e => e | None => entity_default end.
Definition esc1 (c : N) : bytes := if special c then entity c else [c].
Definition escape (d : bytes) : bytes := flat_map esc1 d.

(* data.iter().take_while(not special).count() *)
Fixpoint safe_run (d : bytes) : nat :=
  match d with c :: r => if special c then O else S (safe_run r) | [] => O end.

(* ToHtmlEscapingWriter::write; F = fuel for the inner write_all of an entity *)
Definition esc_write (F : nat) (s : sink) (d : bytes) : sink * wres :=
  match safe_run d with
  | S n => sink_write s (firstn (S n) d)
  | O => match d with
         | [] => (s, WOk 0)
         | c :: _ => match write_all sink_write F s (entity c) with
                     | (s', Done) => (s', WOk 1)
                     | (s', Failed e) => (s', WErr e)
                     | (s', OutOfFuel) => (s', WErr WriteZero)   (* excluded by the fuel lemma *)
                     end
         end
  end.

(* write!(w, "{}", v) through io::Write::write_fmt's adapter, for a well-behaved Display that
   issues `pieces` with write_str and stops at the first error; the adapter calls write_all
   on each piece and the first error wins. *)
Section Fmt.
  Context {W : Type} (write : W -> bytes -> W * wres).
  Fixpoint write_pieces (fuel : nat) (w : W) (ps : list bytes) : W * outcome :=
    match ps with
    | [] => (w, Done)
    | p :: r => match write_all write fuel w p with
                | (w', Done) => write_pieces fuel w' r
                | x => x
                end
    end.
End Fmt.

Definition fuel_of (s : sink) (ps : list bytes) : nat := S (length (sched s) + length (concat ps)).
Definition max_entity_len : nat :=
  fold_right (fun e m => Nat.max (length (snd e)) m) (length entity_default) entity_table.
Definition ent_fuel (s : sink) : nat := S (length (sched s) + max_entity_len).
(* impl<T: Display> ToHtml for T *)
Definition to_html_display (ps : list bytes) (s : sink) : sink * outcome :=
  write_pieces (esc_write (ent_fuel s)) (fuel_of s ps) s ps.
(* impl<T: Display> ToHtml for Html<T> *)
Definition to_html_raw (ps : list bytes) (s : sink) : sink * outcome :=
  write_pieces sink_write (fuel_of s ps) s ps.
(* impl ToHtml for HtmlBuffer: out.write_all(&self.buf) *)
Definition to_html_buffer (buf : bytes) (s : sink) : sink * outcome :=
  write_all sink_write (S (length (sched s) + length buf)) s buf.

(* the three kinds of value a template can interpolate *)
Inductive hval := VDisplay (ps : list bytes) | VRaw (ps : list bytes) | VBuffer (buf : bytes).
Definition to_html (v : hval) (s : sink) : sink * outcome :=
  match v with
  | VDisplay ps => to_html_display ps s
  | VRaw ps => to_html_raw ps s
  | VBuffer buf => to_html_buffer buf s
  end.
(* ToHtml::to_buffer: to_html into a fresh Vec<u8> *)
Definition to_buffer (v : hval) : option bytes :=
  match to_html v {| sched := []; log := [] |} with
  | (s, Done) => Some (log s)
  | _ => None
  end.
(* PartialEq<&[u8]> / PartialEq<&str> for HtmlBuffer *)
Definition buffer_eq (buf other : bytes) : bool :=
  if list_eq_dec N.eq_dec buf other then true else false.

(* the text a value stands for, and what it must render as *)
Definition display_text (v : hval) : bytes :=
  match v with VDisplay ps | VRaw ps => concat ps | VBuffer buf => buf end.
Definition rendering (v : hval) : bytes :=
  match v with VDisplay ps => escape (concat ps) | VRaw ps => concat ps | VBuffer buf => buf end.

(* HTML-decoding of the five references (for the statement of C02) *)
Fixpoint strip_pre (t i : bytes) : option bytes :=
  match t, i with
  | [], _ => Some i
  | x :: t', y :: i' => if N.eqb x y then strip_pre t' i' else None
  | _ :: _, [] => None
  end.
Fixpoint decode_first (tbl : list (N * bytes)) (i : bytes) : option (N * bytes) :=
  match tbl with
  | [] => None
  | (c, e) :: r => match strip_pre e i with Some rest => Some (c, rest) | None => decode_first r i end
  end.
(* all (byte, entity) pairs the writer can produce *)
Definition all_entities : list (N * bytes) := map (fun c => (c, entity c)) special_bytes.
Fixpoint html_decode_aux (n : nat) (i : bytes) : bytes :=
  match n with O => [] | S n' =>
    match i with
    | [] => []
    | c :: r => match decode_first all_entities i with
                | Some (x, rest) => x :: html_decode_aux n' rest
                | None => c :: html_decode_aux n' r
                end
    end end.
Definition html_decode (i : bytes) : bytes := html_decode_aux (length i) i.
