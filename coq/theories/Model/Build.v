(* The build-script world: src/lib.rs (Ructe::new, compile_templates / handle_entries /
   handle_template, write_if_changed, Drop) and the directory-walking entry points of
   src/staticfiles.rs, over an input tree whose entry order is the read_dir order. *)
From Ructe Require Import Nom Utf8 Emit Compile Md5 Static Tables.
Local Open Scope string_scope.
Local Open Scope list_scope.

Inductive node := File (content : bytes) | Dir (entries : list (bytes * node)).

Fixpoint find_entry (name : bytes) (l : list (bytes * node)) : option node :=
  match l with [] => None | (n, x) :: r => if beqb n name then Some x else find_entry name r end.
(* split a relative path at '/' *)
Fixpoint split_path (p cur : bytes) : list bytes :=
  match p with
  | [] => match cur with [] => [] | _ => [rev cur] end
  | c :: r => if N.eqb c 47 then (match cur with [] => split_path r [] | _ => rev cur :: split_path r [] end)
              else split_path r (c :: cur)
  end.
Fixpoint find_node (t : node) (comps : list bytes) : option node :=
  match comps with
  | [] => Some t
  | c :: r => match t with
              | Dir es => match find_entry c es with Some x => find_node x r | None => None end
              | File _ => None end
  end.

Definition pjoin (a c : bytes) : bytes := if beqb a [] then c else a ++ [47%N] ++ c.

(* What a run does is recorded, not performed: `plan` is the sequence of write_if_changed calls
   (path, content) in order.  Nothing in the build script reads OUT_DIR except write_if_changed's
   own comparison, so the plan is computed without any reference to the prior OUT_DIR; the file
   system effect is obtained afterwards by [exec_plan]. *)
Inductive oline := Line (l : bytes) | Raw (text : bytes).   (* a println!, or text written as is *)
Record world := {
  plan : list (bytes * bytes);    (* write_if_changed calls, in order *)
  out : list oline;               (* stdout *)
  reads : list bytes;             (* input paths read or listed *)
}.
Definition render_out (l : list oline) : bytes :=
  flat_map (fun o => match o with Line x => x ++ [10%N] | Raw t => t end) l.
Fixpoint fs_get (p : bytes) (l : list (bytes * bytes)) : option bytes :=
  match l with [] => None | (k, v) :: r => if beqb k p then Some v else fs_get p r end.
Fixpoint fs_set (p v : bytes) (l : list (bytes * bytes)) : list (bytes * bytes) :=
  match l with
  | [] => [(p, v)]
  | (k, w) :: r => if beqb k p then (k, v) :: r else (k, w) :: fs_set p v r
  end.

Definition write_if_changed (w : world) (path content : bytes) : world :=
  {| plan := plan w ++ [(path, content)]; out := out w; reads := reads w |}.
Definition say (w : world) (line : bytes) : world :=
  {| plan := plan w; out := out w ++ [Line line]; reads := reads w |}.
Definition say_raw (w : world) (text : bytes) : world :=
  {| plan := plan w; out := out w ++ [Raw text]; reads := reads w |}.
Definition note_read (w : world) (p : bytes) : world :=
  {| plan := plan w; out := out w; reads := reads w ++ [p] |}.

(* write_if_changed proper, on OUT_DIR as an association list path -> content:
   read_to_string (fails on invalid UTF-8), compare the full content, write only on difference.
   Returns the new file system and whether a physical write happened. *)
Definition wic_step (fs : list (bytes * bytes)) (path content : bytes) : list (bytes * bytes) * bool :=
  match fs_get path fs with
  | Some old => if utf8_valid old && beqb old content then (fs, false) else (fs_set path content fs, true)
  | None => (fs_set path content fs, true)
  end.
(* the effect of a plan on a prior OUT_DIR: final files and the paths physically written, in order *)
Fixpoint exec_plan (fs : list (bytes * bytes)) (pl : list (bytes * bytes)) : list (bytes * bytes) * list bytes :=
  match pl with
  | [] => (fs, [])
  | (p, c) :: r => let '(fs1, wrote) := wic_step fs p c in
                   let '(fs2, ws) := exec_plan fs1 r in
                   (fs2, if wrote then p :: ws else ws)
  end.

(* decidable side conditions of C12's second-run theorem: planned paths pairwise distinct, planned
   contents valid UTF-8 (evaluated on every explored scenario by the extracted driver) *)
Fixpoint nodupb (l : list bytes) : bool :=
  match l with [] => true | x :: r => negb (existsb (beqb x) r) && nodupb r end.
Definition plan_ok (pl : list (bytes * bytes)) : bool :=
  nodupb (map fst pl) && forallb (fun pc => utf8_valid (snd pc)) pl.

Definition rerun (p : bytes) : bytes := b "cargo:rerun-if-changed=" ++ p.
(* println!("cargo:rerun-if-changed={}", p) followed by reading / listing p *)
Definition announce_read (w : world) (p : bytes) : world := note_read (say w (rerun p)) p.

Definition ends_with (s suffix : bytes) : bool :=
  match strip_prefix (rev suffix) (rev s) with Some _ => true | None => false end.

Section Build.
  Variable uni_esc uni_alnum : N -> bool.
  Variable compile : bytes -> bytes -> coutcome.      (* name -> template bytes -> outcome *)
  Variable utils_src : bytes.                          (* src/templates/utils.rs *)
  Variable statics_header : bytes.                     (* what for_template_dir writes (feature dependent) *)
  Variable mm : mime_mode.

  Inductive bres (A : Type) := BOk (a : A) | BPanic (w : world) | BErr (w : world).
  Arguments BOk {A}. Arguments BPanic {A}. Arguments BErr {A}.

  (* handle_template *)
  Definition handle_template (w : world) (name path outdir content : bytes) : bres (world * bool) :=
    match compile name content with
    | Accepted code => BOk (write_if_changed w (pjoin outdir (b "template_" ++ name ++ b ".rs")) code, true)
    | Rejected diag =>
        BOk (say_raw (say w (b "cargo:warning=Template parse error in " ++ debug_str uni_esc path ++ b ":")) diag, false)
    | Panicked => BPanic (say w (b "cargo:warning=Template parse error in " ++ debug_str uni_esc path ++ b ":"))
    | NoFuel => BPanic w
    end.

  Definition suffix_name (filename suffix : bytes) : bytes :=
    firstn (length filename - length suffix) filename ++ b "_" ++ skipn 4 suffix.

  Definition mod_decl (name : bytes) : bytes :=
    b "#[doc(hidden)]" ++ [10%N] ++ b "mod template_" ++ name ++ b ";" ++ [10%N] ++
    b "#[doc(inline)]" ++ [10%N] ++ b "pub use self::template_" ++ name ++ b "::" ++ name ++ b ";" ++ [10%N; 10%N].
  Definition modrs_header : bytes :=
    b "#[allow(clippy::useless_attribute, unused)]" ++ [10%N] ++ b "use super::{Html,ToHtml};" ++ [10%N].

  (* the `for suffix in ...` loop for one file entry *)
  Fixpoint suffix_loop (w : world) (f : bytes) (indir outdir filename content : bytes) (ss : list bytes)
    : bres (world * bytes) :=
    match ss with
    | [] => BOk (w, f)
    | suffix :: ss' =>
        if ends_with filename suffix then
          let path := indir ++ [47%N] ++ filename in
          let name := suffix_name filename suffix in
          match handle_template (announce_read w path) name path outdir content with
          | BOk (w', true) => suffix_loop w' (f ++ mod_decl name) indir outdir filename content ss'
          | BOk (w', false) => suffix_loop w' f indir outdir filename content ss'
          | BPanic w' => BPanic w'
          | BErr w' => BErr w'
          end
        else suffix_loop w f indir outdir filename content ss'
    end.

  (* the `for entry in read_dir(indir)` loop; [rec] handles a sub-directory *)
  Section Loop.
    Variable rec : world -> bytes -> bytes -> bytes -> list (bytes * node) -> bres (world * bytes).
    Fixpoint entries_loop (w : world) (f : bytes) (indir outdir : bytes) (es : list (bytes * node)) : bres (world * bytes) :=
      match es with
      | [] => BOk (w, f)
      | (filename, Dir sub) :: rest =>
          if utf8_valid filename then
            let outdir' := pjoin outdir filename in
            let path := indir ++ [47%N] ++ filename in
            match rec (announce_read w path) modrs_header path outdir' sub with
            | BOk (w2, modrs) =>
                entries_loop (write_if_changed w2 (pjoin outdir' (b "mod.rs")) modrs)
                             (f ++ b "pub mod " ++ filename ++ b ";" ++ [10%N; 10%N]) indir outdir rest
            | e => e
            end
          else entries_loop w f indir outdir rest
      | (filename, File content) :: rest =>
          if utf8_valid filename then
            match suffix_loop w f indir outdir filename content template_suffixes with
            | BOk (w', f') => entries_loop w' f' indir outdir rest
            | e => e
            end
          else entries_loop w f indir outdir rest
      end.
  End Loop.

  (* handle_entries (without the println of its first line, which the caller models with
     announce_read): fuel = depth of the tree *)
  Fixpoint handle_entries (fuel : nat) (w : world) (f : bytes) (indir outdir : bytes) (entries : list (bytes * node))
    : bres (world * bytes) :=
    match fuel with
    | O => BErr w
    | S fuel' => entries_loop (handle_entries fuel') w f indir outdir entries
    end.

  Fixpoint depth (t : node) : nat :=
    match t with
    | File _ => 1
    | Dir es => S ((fix mx (l : list (bytes * node)) : nat := match l with [] => 0 | (_, x) :: r => Nat.max (depth x) (mx r) end) es)
    end.

  (* ---- the directory-walking entry points of StaticFiles ---- *)
  Record sstate := { st : statics; sw : world }.
  Definition sapply (s : sstate) (o : sop) : sstate := {| st := apply_op uni_esc uni_alnum mm (st s) o; sw := sw s |}.
  Definition sannounce (s : sstate) (p : bytes) : sstate := {| st := st s; sw := announce_read (sw s) p |}.

  (* add_file on an existing file *)
  Definition add_file (s : sstate) (path content : bytes) : sstate :=
    match name_and_ext path with
    | Some _ => sapply (sannounce s path) (OpFile path content)
    | None => s
    end.
  Definition add_file_as (s : sstate) (path url : bytes) : sstate :=
    sapply (sannounce s path) (OpFileAs path url).
  Definition add_files (s : sstate) (dir : bytes) (es : list (bytes * node)) : sstate :=
    fold_left (fun s '(name, x) => match x with File c => add_file s (dir ++ [47%N] ++ name) c | Dir _ => s end)
              es (sannounce s dir).
  Fixpoint add_files_as (fuel : nat) (s : sstate) (dir to : bytes) (es : list (bytes * node)) : sstate :=
    match fuel with O => s | S fuel' =>
      fold_left (fun s '(name, x) =>
                   let to' := if beqb to [] then name else to ++ [47%N] ++ name in
                   match x with
                   | File _ => add_file_as s (dir ++ [47%N] ++ name) to'
                   | Dir sub => add_files_as fuel' s (dir ++ [47%N] ++ name) to' sub
                   end)
                es (sannounce s dir)
    end.

  Inductive scall :=
  | SAddFile (rel : bytes) | SAddFiles (rel : bytes) | SAddFileAs (rel url : bytes) | SAddFilesAs (rel to : bytes)
  | SAddData (path data : bytes) | SSassRef (rel ref : bytes) | SSassCss (rel css : bytes).
  Inductive call := PCompile (rel : bytes) | PStatics (cs : list scall).

  Definition path_for (base p : bytes) : bytes :=
    match p with 47%N :: _ => p | _ => base ++ [47%N] ++ p end.

  Definition do_scall (tree : node) (base : bytes) (s : sstate) (c : scall) : option sstate :=
    match c with
    | SAddFile rel => match find_node tree (split_path rel []) with
                      | Some (File content) => Some (add_file s (path_for base rel) content) | _ => None end
    | SAddFiles rel => match find_node tree (split_path rel []) with
                       | Some (Dir es) => Some (add_files s (path_for base rel) es) | _ => None end
    | SAddFileAs rel url => match find_node tree (split_path rel []) with
                            | Some (File _) => Some (add_file_as s (path_for base rel) url) | _ => None end
    | SAddFilesAs rel to => match find_node tree (split_path rel []) with
                            | Some (Dir es) => Some (add_files_as (depth tree) s (path_for base rel) to es) | _ => None end
    | SAddData path data => Some (sapply s (OpData (path_for base path) data))
    | SSassRef rel ref =>
        let p := path_for base rel in
        let s1 := sannounce s p in
        match sass_ref uni_esc uni_alnum mm (st s1) p ref with
        | (st', true) => Some {| st := st'; sw := sw s1 |}
        | (_, false) => None
        end
    | SSassCss rel css =>
        (* the compiler is an oracle: given the css it returned, the file is announced (by rsass's
           CargoContext) and the css is added as <stem>.css through add_file_data *)
        let p := path_for base rel in
        let s1 := sannounce s p in
        Some (sapply s1 (OpData (with_extension p (b "css")) css))
    end.

  Definition ructe_new (w : world) : world * bytes :=
    (write_if_changed w (b "templates/_utils.rs") utils_src,
     b "pub mod templates {" ++ [10%N] ++ b "#[doc(hidden)]" ++ [10%N] ++ b "mod _utils;" ++ [10%N] ++
     b "#[doc(inline)]" ++ [10%N] ++ b "pub use self::_utils::*;" ++ [10%N; 10%N]).
  Definition ructe_drop (w : world) (f : bytes) : world :=
    write_if_changed w (b "templates.rs") (f ++ b "}" ++ [10%N]).

  (* run a build-script program; a failing call ends the script (`?`), everything is dropped *)
  Fixpoint run_calls (tree : node) (base : bytes) (w : world) (f : bytes) (cs : list call) : world * bytes * bool :=
    match cs with
    | [] => (w, f, true)
    | PCompile rel :: rest =>
        match find_node tree (split_path rel []) with
        | Some (Dir es) =>
            let indir := path_for base rel in
            match handle_entries (depth tree) (announce_read w indir) f indir (b "templates") es with
            | BOk (w', f') => run_calls tree base w' f' rest
            | BPanic w' => (w', f, false)
            | BErr w' => (w', f, false)
            end
        | _ => (w, f, false)
        end
    | PStatics scs :: rest =>
        let f1 := f ++ b "pub mod statics;" in
        let s0 := {| st := empty_statics statics_header; sw := w |} in
        let fix go (s : sstate) (l : list scall) : sstate * bool :=
          match l with
          | [] => (s, true)
          | c :: r => match do_scall tree base s c with Some s' => go s' r | None => (s, false) end
          end in
        let '(s, ok) := go s0 scs in
        let w' := write_if_changed (sw s) (b "templates/statics.rs") (finish (st s)) in
        if ok then run_calls tree base w' f1 rest else (w', f1, false)
    end.

  (* the run itself: independent of what OUT_DIR held before *)
  Definition run_script (tree : node) (base : bytes) (cs : list call) : world * bool :=
    let w0 := {| plan := []; out := []; reads := [] |} in
    let '(w1, f) := ructe_new w0 in
    let '(w2, f2, ok) := run_calls tree base w1 f cs in
    (ructe_drop w2 f2, ok).

  Record result := { r_fs : list (bytes * bytes); r_writes : list bytes; r_out : bytes; r_reads : list bytes; r_ok : bool }.
  Definition run_build (tree : node) (base : bytes) (fs0 : list (bytes * bytes)) (cs : list call) : result :=
    let '(w, ok) := run_script tree base cs in
    let '(fs1, ws) := exec_plan fs0 (plan w) in
    {| r_fs := fs1; r_writes := ws; r_out := render_out (out w); r_reads := reads w; r_ok := ok |}.
End Build.
