(* The build-script world: src/lib.rs (Ructe::new, compile_templates / handle_entries /
   handle_template, write_if_changed, Drop) and the directory-walking entry points of
   src/staticfiles.rs, over an input tree whose entry order is the read_dir order. *)
From Ructe Require Import Nom Utf8 Emit Compile Md5 Static Tables.
Local Open Scope string_scope.
Local Open Scope list_scope.

Inductive node := File (content : bytes) | Dir (entries : list (bytes * node)).

Fixpoint find_entry (name : bytes) (l : list (bytes * node)) : option node :=
  match l with [] => None | (n, x) :: r => if beqb n name then Some x else find_entry name r end.
(* split a relative path at '/' *)
Fixpoint split_path (p cur : bytes) : list bytes :=
  match p with
  | [] => match cur with [] => [] | _ => [rev cur] end
  | c :: r => if N.eqb c 47 then (match cur with [] => split_path r [] | _ => rev cur :: split_path r [] end)
              else split_path r (c :: cur)
  end.
Fixpoint find_node (t : node) (comps : list bytes) : option node :=
  match comps with
  | [] => Some t
  | c :: r => match t with
              | Dir es => match find_entry c es with Some x => find_node x r | None => None end
              | File _ => None end
  end.

Definition pjoin (a c : bytes) : bytes := if beqb a [] then c else a ++ [47%N] ++ c.

(* OUT_DIR as an association list path -> content, plus what a run did *)
Record world := {
  fs : list (bytes * bytes);      (* files under OUT_DIR *)
  writes : list bytes;            (* paths physically written, in order *)
  out : bytes;                    (* stdout, as one byte stream *)
  reads : list bytes;             (* input paths read or listed *)
}.
Fixpoint fs_get (p : bytes) (l : list (bytes * bytes)) : option bytes :=
  match l with [] => None | (k, v) :: r => if beqb k p then Some v else fs_get p r end.
Fixpoint fs_set (p v : bytes) (l : list (bytes * bytes)) : list (bytes * bytes) :=
  match l with
  | [] => [(p, v)]
  | (k, w) :: r => if beqb k p then (k, v) :: r else (k, w) :: fs_set p v r
  end.

(* write_if_changed: read_to_string (fails on invalid UTF-8), compare, write only on difference *)
Definition write_if_changed (w : world) (path content : bytes) : world :=
  match fs_get path (fs w) with
  | Some old => if utf8_valid old && beqb old content then w
                else {| fs := fs_set path content (fs w); writes := writes w ++ [path]; out := out w; reads := reads w |}
  | None => {| fs := fs_set path content (fs w); writes := writes w ++ [path]; out := out w; reads := reads w |}
  end.
Definition say (w : world) (line : bytes) : world :=
  {| fs := fs w; writes := writes w; out := out w ++ line ++ [10%N]; reads := reads w |}.
Definition say_raw (w : world) (text : bytes) : world :=
  {| fs := fs w; writes := writes w; out := out w ++ text; reads := reads w |}.
Definition note_read (w : world) (p : bytes) : world :=
  {| fs := fs w; writes := writes w; out := out w; reads := reads w ++ [p] |}.

Definition rerun (p : bytes) : bytes := b "cargo:rerun-if-changed=" ++ p.

Definition ends_with (s suffix : bytes) : bool :=
  match strip_prefix (rev suffix) (rev s) with Some _ => true | None => false end.

Section Build.
  Variable uni_esc uni_alnum : N -> bool.
  Variable compile : bytes -> bytes -> coutcome.      (* name -> template bytes -> outcome *)
  Variable utils_src : bytes.                          (* src/templates/utils.rs *)
  Variable statics_header : bytes.                     (* what for_template_dir writes (feature dependent) *)
  Variable mm : mime_mode.

  Inductive bres (A : Type) := BOk (a : A) | BPanic (w : world) | BErr (w : world).
  Arguments BOk {A}. Arguments BPanic {A}. Arguments BErr {A}.

  (* handle_template *)
  Definition handle_template (w : world) (name path outdir content : bytes) : bres (world * bool) :=
    let w := note_read w path in
    match compile name content with
    | Accepted code => BOk (write_if_changed w (pjoin outdir (b "template_" ++ name ++ b ".rs")) code, true)
    | Rejected diag =>
        BOk (say_raw (say w (b "cargo:warning=Template parse error in " ++ debug_str uni_esc path ++ b ":")) diag, false)
    | Panicked => BPanic (say w (b "cargo:warning=Template parse error in " ++ debug_str uni_esc path ++ b ":"))
    | NoFuel => BPanic w
    end.

  Definition suffix_name (filename suffix : bytes) : bytes :=
    firstn (length filename - length suffix) filename ++ b "_" ++ skipn 4 suffix.

  (* handle_entries: fuel = depth of the tree *)
  Fixpoint handle_entries (fuel : nat) (w : world) (f : bytes) (indir outdir : bytes) (entries : list (bytes * node))
    : bres (world * bytes) :=
    match fuel with O => BErr w | S fuel' =>
      (fix go (w : world) (f : bytes) (es : list (bytes * node)) : bres (world * bytes) :=
         match es with
         | [] => BOk (w, f)
         | (filename, Dir sub) :: rest =>
             if utf8_valid filename then
               let outdir' := pjoin outdir filename in
               let modrs0 := b "#[allow(clippy::useless_attribute, unused)]" ++ [10%N] ++ b "use super::{Html,ToHtml};" ++ [10%N] in
               let path := indir ++ [47%N] ++ filename in
               let w1 := note_read (say w (rerun path)) path in
               match handle_entries fuel' w1 modrs0 path outdir' sub with
               | BOk (w2, modrs) =>
                   let w3 := write_if_changed w2 (pjoin outdir' (b "mod.rs")) modrs in
                   go w3 (f ++ b "pub mod " ++ filename ++ b ";" ++ [10%N; 10%N]) rest
               | e => e
               end
             else go w f rest
         | (filename, File content) :: rest =>
             if utf8_valid filename then
               (fix suffixes (w : world) (f : bytes) (ss : list bytes) : bres (world * bytes) :=
                  match ss with
                  | [] => go w f rest
                  | suffix :: ss' =>
                      if ends_with filename suffix then
                        let path := indir ++ [47%N] ++ filename in
                        let name := suffix_name filename suffix in
                        match handle_template (say w (rerun path)) name path outdir content with
                        | BOk (w', true) =>
                            suffixes w' (f ++ b "#[doc(hidden)]" ++ [10%N] ++ b "mod template_" ++ name ++ b ";" ++ [10%N] ++
                                              b "#[doc(inline)]" ++ [10%N] ++ b "pub use self::template_" ++ name ++ b "::" ++ name ++ b ";" ++ [10%N; 10%N]) ss'
                        | BOk (w', false) => suffixes w' f ss'
                        | BPanic w' => BPanic w'
                        | BErr w' => BErr w'
                        end
                      else suffixes w f ss'
                  end) w f template_suffixes
             else go w f rest
         end) w f entries
    end.

  Fixpoint depth (t : node) : nat :=
    match t with
    | File _ => 1
    | Dir es => S ((fix mx (l : list (bytes * node)) : nat := match l with [] => 0 | (_, x) :: r => Nat.max (depth x) (mx r) end) es)
    end.

  (* ---- the directory-walking entry points of StaticFiles ---- *)
  Record sstate := { st : statics; sw : world }.
  Definition sapply (s : sstate) (o : sop) : sstate := {| st := apply_op uni_esc uni_alnum mm (st s) o; sw := sw s |}.
  Definition ssay (s : sstate) (l : bytes) : sstate := {| st := st s; sw := say (sw s) l |}.
  Definition sread (s : sstate) (p : bytes) : sstate := {| st := st s; sw := note_read (sw s) p |}.

  (* add_file on an existing file *)
  Definition add_file (s : sstate) (path content : bytes) : sstate :=
    match name_and_ext path with
    | Some _ => sapply (sread (ssay s (rerun path)) path) (OpFile path content)
    | None => s
    end.
  Definition add_file_as (s : sstate) (path url : bytes) : sstate :=
    sapply (ssay s (rerun path)) (OpFileAs path url).
  Definition add_files (s : sstate) (dir : bytes) (es : list (bytes * node)) : sstate :=
    fold_left (fun s '(name, x) => match x with File c => add_file s (dir ++ [47%N] ++ name) c | Dir _ => s end)
              es (sread (ssay s (rerun dir)) dir).
  Fixpoint add_files_as (fuel : nat) (s : sstate) (dir to : bytes) (es : list (bytes * node)) : sstate :=
    match fuel with O => s | S fuel' =>
      fold_left (fun s '(name, x) =>
                   let to' := if beqb to [] then name else to ++ [47%N] ++ name in
                   match x with
                   | File _ => add_file_as s (dir ++ [47%N] ++ name) to'
                   | Dir sub => add_files_as fuel' s (dir ++ [47%N] ++ name) to' sub
                   end)
                es (sread (ssay s (rerun dir)) dir)
    end.

  Inductive scall :=
  | SAddFile (rel : bytes) | SAddFiles (rel : bytes) | SAddFileAs (rel url : bytes) | SAddFilesAs (rel to : bytes)
  | SAddData (path data : bytes) | SSassRef (rel ref : bytes) | SSassCss (rel css : bytes).
  Inductive call := PCompile (rel : bytes) | PStatics (cs : list scall).

  Definition path_for (base p : bytes) : bytes :=
    match p with 47%N :: _ => p | _ => base ++ [47%N] ++ p end.

  Definition do_scall (tree : node) (base : bytes) (s : sstate) (c : scall) : option sstate :=
    match c with
    | SAddFile rel => match find_node tree (split_path rel []) with
                      | Some (File content) => Some (add_file s (path_for base rel) content) | _ => None end
    | SAddFiles rel => match find_node tree (split_path rel []) with
                       | Some (Dir es) => Some (add_files s (path_for base rel) es) | _ => None end
    | SAddFileAs rel url => match find_node tree (split_path rel []) with
                            | Some (File _) => Some (add_file_as s (path_for base rel) url) | _ => None end
    | SAddFilesAs rel to => match find_node tree (split_path rel []) with
                            | Some (Dir es) => Some (add_files_as (depth tree) s (path_for base rel) to es) | _ => None end
    | SAddData path data => Some (sapply s (OpData (path_for base path) data))
    | SSassRef rel ref =>
        let p := path_for base rel in
        let s1 := sread (ssay s (rerun p)) p in
        match sass_ref uni_esc uni_alnum mm (st s1) p ref with
        | (st', true) => Some {| st := st'; sw := sw s1 |}
        | (_, false) => None
        end
    | SSassCss rel css =>
        (* the compiler is an oracle: given the css it returned, the file is announced (by rsass's
           CargoContext) and the css is added as <stem>.css through add_file_data *)
        let p := path_for base rel in
        let s1 := sread (ssay s (rerun p)) p in
        Some (sapply s1 (OpData (with_extension p (b "css")) css))
    end.

  Definition ructe_new (w : world) : world * bytes :=
    (write_if_changed w (b "templates/_utils.rs") utils_src,
     b "pub mod templates {" ++ [10%N] ++ b "#[doc(hidden)]" ++ [10%N] ++ b "mod _utils;" ++ [10%N] ++
     b "#[doc(inline)]" ++ [10%N] ++ b "pub use self::_utils::*;" ++ [10%N; 10%N]).
  Definition ructe_drop (w : world) (f : bytes) : world :=
    write_if_changed w (b "templates.rs") (f ++ b "}" ++ [10%N]).

  (* run a build-script program; a failing call ends the script (`?`), everything is dropped *)
  Fixpoint run_calls (tree : node) (base : bytes) (w : world) (f : bytes) (cs : list call) : world * bytes * bool :=
    match cs with
    | [] => (w, f, true)
    | PCompile rel :: rest =>
        match find_node tree (split_path rel []) with
        | Some (Dir es) =>
            let indir := path_for base rel in
            match handle_entries (depth tree) (note_read (say w (rerun indir)) indir) f indir (b "templates") es with
            | BOk (w', f') => run_calls tree base w' f' rest
            | BPanic w' => (w', f, false)
            | BErr w' => (w', f, false)
            end
        | _ => (w, f, false)
        end
    | PStatics scs :: rest =>
        let f1 := f ++ b "pub mod statics;" in
        let s0 := {| st := empty_statics statics_header; sw := w |} in
        let fix go (s : sstate) (l : list scall) : sstate * bool :=
          match l with
          | [] => (s, true)
          | c :: r => match do_scall tree base s c with Some s' => go s' r | None => (s, false) end
          end in
        let '(s, ok) := go s0 scs in
        let w' := write_if_changed (sw s) (b "templates/statics.rs") (finish (st s)) in
        if ok then run_calls tree base w' f1 rest else (w', f1, false)
    end.

  Definition run_build (tree : node) (base : bytes) (fs0 : list (bytes * bytes)) (cs : list call) : world * bool :=
    let w0 := {| fs := fs0; writes := []; out := []; reads := [] |} in
    let '(w1, f) := ructe_new w0 in
    let '(w2, f2, ok) := run_calls tree base w1 f cs in
    (ructe_drop w2 f2, ok).
End Build.
