(* src/templateexpression.rs: the AST and the parsers *)
From Ructe Require Import Nom Utf8 Spacelike Expression.
Local Open Scope string_scope.

Inductive texpr :=
| TComment
| TText (t : bytes)
| TExpr (e : bytes)
| TFor (name expr : bytes) (body : list texpr)
| TIf (expr : bytes) (body : list texpr) (els : option (list texpr))
| TMatch (expr : bytes) (arms : list (bytes * list texpr))
| TCall (name : bytes) (args : list targ)
with targ :=
| ARust (e : bytes)
| ABody (l : list texpr).

Definition beq (x y : bytes) : bool := if list_eq_dec N.eq_dec x y then true else false.

Definition rel_operator : parser bytes :=
  map_res (delimited spacelike
             (context (b "Expected relational operator")
                (alt [tag (b "!="); tag (b "&&"); tag (b "<="); tag (b "<"); tag (b "==");
                      tag (b ">="); tag (b ">"); tag (b "||")]))
             spacelike) to_str.

Inductive tnt := TE | IF2.

Section WithExpr.
  Variable E : nt -> parser bytes.
  Let expression := expression E.

  Fixpoint logic_expression (n : nat) : parser bytes :=
    match n with O => fun _ => Abort AFuel | S n' =>
      map_res (recognize
        (pair (pair (opt (terminated (char 33) spacelike)) expression)
              (opt (pair rel_operator
                         (context (b "Expected expression") (fun j => logic_expression n' j)))))) to_str
    end.

  Definition cond_expression (n : nat) : parser bytes := fun i =>
    match opt (tag (b "let")) i with
    | Ok (Some _) r =>
        pmap (fun '(lhs, rhs) => (b "let " ++ lhs ++ b " = " ++ rhs)%list)
          (pair (preceded spacelike (context (b "Expected LHS expression in let binding") expression))
                (preceded (delimited spacelike (char 61) spacelike)
                          (context (b "Expected RHS expression in let binding") expression))) r
    | Ok None r => context (b "Expected expression") (logic_expression n) r
    | Err e => Err e
    | Abort k => Abort k
    end.

  Definition loop_expression : parser bytes :=
    map_res (recognize (terminated expression
               (opt (preceded (terminated (tag (b "..")) (opt (char 61))) expression)))) to_str.

  Definition for_variable : parser bytes :=
    delimited spacelike
      (context (b "Expected loop variable name or destructuring tuple")
         (alt [ map_res (recognize (preceded rust_name (opt (expr_in_braces E)))) to_str;
                pmap (fun '(pre, args) =>
                        ((match pre with Some _ => b "&" | None => [] end) ++ b "(" ++ args ++ b ")")%list)
                     (pair (opt (char 38)) (delimited (char 40) (comma_expressions E) (char 41))) ]))
      spacelike.

  (* what follows the '@' decides the construct; "" = a plain @expression *)
  Definition dispatch : parser bytes :=
    preceded (char 64)
      (alt [ tag (b "*"); tag (b ":"); tag (b "@"); tag (b "{"); tag (b "}"); tag (b "(");
             terminated (alt [tag (b "if"); tag (b "for"); tag (b "match")]) (tag (b " "));
             value [] (tag (b "")) ]).

  Section Branches.
    Variable ln : nat.
    Variables te if2 : parser texpr.
    Definition template_block : parser (list texpr) :=
      preceded (char 123)
        (pmap fst (many_till (context (b "Error in expression starting here:") te) (char 125))).
    Definition template_argument : parser targ :=
      alt [ pmap ABody (delimited (char 123) (many0 te) (terminated (char 125) spacelike));
            pmap ARust expression ].
    Definition call_branch : parser texpr :=
      pmap (fun '(name, args) => TCall name args)
        (pair rust_name
              (delimited (char 40)
                         (separated_list0 (terminated (tag (b ",")) spacelike) template_argument)
                         (char 41))).
    Definition for_branch : parser texpr :=
      pmap (fun '(name, expr, body) => TFor name expr body)
        (pair (pair for_variable
                    (delimited (terminated (context (b "Expected ""in""") (tag (b "in"))) spacelike)
                               (context (b "Expected iterable expression") loop_expression)
                               spacelike))
              (context (b "Error in loop block:") template_block)).
    Definition match_branch : parser texpr :=
      context (b "Error in match expression:")
        (pmap (fun '(expr, arms) => TMatch expr arms)
           (pair (delimited spacelike expression spacelike)
                 (preceded (char 123)
                    (pmap fst
                       (many_till
                          (context (b "Error in match arm starting here:")
                             (pair (delimited spacelike expression spacelike)
                                   (preceded (terminated (tag (b "=>")) spacelike) template_block)))
                          (preceded spacelike (char 125))))))).
    Definition paren_branch : parser texpr :=
      pmap (fun e => TExpr (b "(" ++ e ++ b ")")%list) (terminated (expr_inside_parens E) (tag (b ")"))).
    Definition text_branch : parser texpr := pmap TText (map_res (is_not (b "@{}")) to_str).

    Definition te_branch (o : option bytes) : parser texpr :=
      match o with
      | None => text_branch
      | Some t => fun i =>
          if beq t (b ":") then call_branch i
          else if beq t (b "@") then Ok (TText (b "@")) i
          else if beq t (b "{") then Ok (TText (b "{")) i
          else if beq t (b "}") then Ok (TText (b "}")) i
          else if beq t (b "*") then value TComment comment_tail i
          else if beq t (b "if") then if2 i
          else if beq t (b "for") then for_branch i
          else if beq t (b "match") then match_branch i
          else if beq t (b "(") then paren_branch i
          else if beq t [] then pmap TExpr expression i
          else Abort APanic     (* unreachable!() at templateexpression.rs:258 *)
      end.

    Definition if2_body : parser texpr :=
      context (b "Error in conditional expression:")
        (pmap (fun '(c, body, els) => TIf c body els)
           (pair (pair (delimited spacelike (cond_expression ln) spacelike) template_block)
                 (opt (preceded (delimited spacelike (tag (b "else")) spacelike)
                                (alt [ preceded (tag (b "if")) (pmap (fun e => [e]) if2);
                                       template_block ]))))).
  End Branches.

  Definition texprF (ln : nat) (self0 : tnt -> parser texpr) (x : tnt) : parser texpr := fun i0 =>
    let te : parser texpr := fun j => self0 TE j in
    let if2 : parser texpr := fun j => self0 IF2 j in
    match x with
    | IF2 => if2_body ln te if2 i0
    | TE => bind (opt dispatch) (te_branch te if2) i0
    end.

  Fixpoint texpr_gram (ln n : nat) : tnt -> parser texpr :=
    match n with O => fun _ _ => Abort AFuel | S n => texprF ln (texpr_gram ln n) end.
End WithExpr.
