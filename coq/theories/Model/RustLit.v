(* rustc's reading of "..." and b"..." literals (rustc_lexer finds the closing quote,
   rustc_literal_escaper decodes the body): the part of rustc that decides whether the literals
   ructe emits compile and what bytes they denote.  Modelled, validated by the compile-and-read-back
   batches of C01/C08. *)
From Ructe Require Import Nom Utf8.
Local Open Scope N_scope.

Definition hexval (c : N) : option N :=
  if (48 <=? c) && (c <=? 57) then Some (c - 48)
  else if (97 <=? c) && (c <=? 102) then Some (c - 87)
  else if (65 <=? c) && (c <=? 70) then Some (c - 55)
  else None.

Inductive lexr :=
| LUnit (out : bytes) (rest : bytes)   (* one source unit decoded to these bytes *)
| LEnd (rest : bytes)                  (* the closing quote *)
| LErr.

Fixpoint skip_ws (i : bytes) : bytes :=
  match i with c :: r => if (c =? 32) || (c =? 9) || (c =? 10) || (c =? 13) then skip_ws r else i | [] => [] end.

(* escapes common to both kinds of literal, after the backslash; None = not one of these *)
Definition simple_escape (c : N) : option N :=
  if c =? 110 then Some 10 else if c =? 114 then Some 13 else if c =? 116 then Some 9
  else if c =? 92 then Some 92 else if c =? 48 then Some 0 else if c =? 39 then Some 39
  else if c =? 34 then Some 34 else None.

(* b"...": body bytes must be ASCII; \xHH may be any byte; no \u; bare CR is an error *)
Definition bstr_step (i : bytes) : lexr :=
  match i with
  | [] => LErr
  | c :: r =>
    if c =? 34 then LEnd r
    else if c =? 92 then
      match r with
      | [] => LErr
      | e :: r' =>
        match simple_escape e with
        | Some v => LUnit [v] r'
        | None =>
          if e =? 120 then
            match r' with
            | h1 :: h2 :: r'' => match hexval h1, hexval h2 with
                                 | Some a, Some d => LUnit [16 * a + d] r''
                                 | _, _ => LErr end
            | _ => LErr end
          else if e =? 10 then LUnit [] (skip_ws r')
          else LErr
        end
      end
    else if c =? 13 then LErr
    else if c <? 128 then LUnit [c] r
    else LErr
  end.

(* "\u{H..}": 1 to 6 hex digits (underscores allowed after the first), a scalar value *)
Fixpoint parse_u (n : nat) (acc : N) (digits : nat) (i : bytes) : option (N * bytes) :=
  match n with O => None | S n' =>
    match i with
    | [] => None
    | c :: r =>
      if c =? 125 then (if Nat.eqb digits 0 then None else Some (acc, r))
      else if c =? 95 then (if Nat.eqb digits 0 then None else parse_u n' acc digits r)
      else match hexval c with
           | Some v => if Nat.leb 6 digits then None else parse_u n' (16 * acc + v) (S digits) r
           | None => None end
    end end.
Definition is_scalar (cp : N) : bool := (cp <? 55296) || ((57344 <=? cp) && (cp <=? 1114111)).

(* "...": the body is UTF-8; \xHH only up to 7F; \u{..}; bare CR is an error; bytes >= 0x80
   belong to multi-byte characters of the source and are copied *)
Definition str_step (i : bytes) : lexr :=
  match i with
  | [] => LErr
  | c :: r =>
    if c =? 34 then LEnd r
    else if c =? 92 then
      match r with
      | [] => LErr
      | e :: r' =>
        match simple_escape e with
        | Some v => LUnit [v] r'
        | None =>
          if e =? 120 then
            match r' with
            | h1 :: h2 :: r'' => match hexval h1, hexval h2 with
                                 | Some a, Some d => if a <? 8 then LUnit [16 * a + d] r'' else LErr
                                 | _, _ => LErr end
            | _ => LErr end
          else if e =? 117 then
            match r' with
            | o :: r'' => if o =? 123 then
                            match parse_u 16 0 0 r'' with
                            | Some (cp, r3) => if is_scalar cp then LUnit (utf8_encode cp) r3 else LErr
                            | None => LErr end
                          else LErr
            | [] => LErr end
          else if e =? 10 then LUnit [] (skip_ws r')
          else LErr
        end
      end
    else if c =? 13 then LErr
    else LUnit [c] r
  end.

Section Lex.
  Variable step : bytes -> lexr.
  (* decode from just after the opening quote to the closing quote; returns the denoted bytes and
     what follows the literal *)
  Fixpoint lex_body (fuel : nat) (i : bytes) : option (bytes * bytes) :=
    match fuel with O => None | S f =>
      match step i with
      | LEnd r => Some ([], r)
      | LUnit out r => match lex_body f r with Some (d, r') => Some (out ++ d, r')%list | None => None end
      | LErr => None
      end end.
End Lex.

(* a literal at the head of the input: b"..."  /  "..." *)
Definition lex_bytestr_lit (i : bytes) : option (bytes * bytes) :=
  match i with
  | 98 :: 34 :: r => lex_body bstr_step (S (length r)) r
  | _ => None end.
Definition lex_str_lit (i : bytes) : option (bytes * bytes) :=
  match i with
  | 34 :: r => lex_body str_step (S (length r)) r
  | _ => None end.
