(* src/staticfiles.rs: the StaticFiles state machine.  File reads, directory walks and the
   sass compiler are outside this file: ops carry the bytes that were read (see Build.v). *)
From Ructe Require Import Nom Utf8 Md5 Emit Tables.
Local Open Scope string_scope.
Local Open Scope list_scope.

Definition beqb (x y : bytes) : bool := if list_eq_dec N.eq_dec x y then true else false.

Section WithUnicode.
  Variable uni_esc : N -> bool.     (* <str as Debug> escapes this scalar (>= 0x80) *)
  Variable uni_alnum : N -> bool.   (* char::is_alphanumeric for a scalar >= 0x80 *)

  Definition is_alnum_cp (c : N) : bool :=
    if (c <? 128)%N then is_alpha c || is_digit c else uni_alnum c.

  (* rust_ident (staticfiles.rs): every non-alphanumeric char becomes '_', and 'n' is put in
     front if the result is empty or starts with an ASCII digit *)
  Definition rust_ident (name : bytes) : bytes :=
    let cs := match utf8_decode name with Some l => l | None => [] end in
    let r := flat_map (fun c => if is_alnum_cp c then utf8_encode c else [95%N]) cs in
    match r with
    | [] => b "n"
    | c :: _ => if is_digit c then 110%N :: r else r
    end.

  (* the final path component (Path::file_name) of a plain path: no trailing slash, no "." or
     ".." component *)
  Fixpoint last_comp (p acc : bytes) : bytes :=
    match p with [] => rev acc | c :: r => if N.eqb c 47 then last_comp r [] else last_comp r (c :: acc) end.
  (* split a file name at its last dot: Path::extension is None when there is no dot or when the
     only dot is the leading one *)
  Fixpoint rsplit_dot (s : bytes) (before cur : bytes) (seen : bool) : option (bytes * bytes) :=
    match s with
    | [] => if seen then Some (before, cur) else None
    | c :: r => if N.eqb c 46 then rsplit_dot r (if seen then before ++ [46%N] ++ cur else cur) [] true
                else rsplit_dot r before (cur ++ [c]) seen
    end.
  Definition split_ext (f : bytes) : option (bytes * bytes) :=
    match rsplit_dot f [] [] false with
    | Some (stem, ext) => match stem with [] => None | _ => Some (stem, ext) end
    | None => None
    end.
  (* name_and_ext *)
  Definition name_and_ext (path : bytes) : option (bytes * bytes) := split_ext (last_comp path []).

  (* ByteString Display *)
  Definition bytestring (d : bytes) : bytes := b "b""" ++ flat_map escape_default d ++ b """".
  (* FileContent Display *)
  Definition filecontent (path : bytes) : bytes := b "include_bytes!(" ++ debug_str uni_esc path ++ b ")".

  (* ---- mime_arg ---- *)
  Inductive mime_mode := MNone | M03 | MHttp.
  Definition ascii_lower (c : N) : N := if ((65 <=? c) && (c <=? 90))%N then (c + 32)%N else c.
  Fixpoint lookup_b (k : bytes) (t : list (bytes * bytes)) : option bytes :=
    match t with [] => None | (k', v) :: r => if beqb k k' then Some v else lookup_b k r end.
  Definition mime_from_suffix (m : mime_mode) (suffix : bytes) : bytes :=
    let s := map ascii_lower suffix in
    match m with
    | MNone => []
    | M03 => match lookup_b s mime03_rows with Some c => c | None => mime03_default end
    | MHttp => match lookup_b s http_rows with Some c => c | None => http_default end
    end.
  Definition mime_arg (m : mime_mode) (suffix : bytes) : bytes :=
    match m with
    | MNone => []
    | _ => mime_arg_pre ++ mime_from_suffix m suffix ++ mime_arg_post
    end.

  (* ---- state ---- *)
  Record statics := { src : bytes; names : list (bytes * bytes); names_r : list (bytes * bytes) }.

  (* String's Ord: byte-lexicographic *)
  Fixpoint lex_lt (x y : bytes) : bool :=
    match x, y with
    | [], [] => false | [], _ => true | _, [] => false
    | a :: x', c :: y' => if (a <? c)%N then true else if (c <? a)%N then false else lex_lt x' y'
    end.
  (* BTreeMap::insert on the sorted association list *)
  Fixpoint insert (k v : bytes) (m : list (bytes * bytes)) : list (bytes * bytes) :=
    match m with
    | [] => [(k, v)]
    | (k', v') :: r => if beqb k k' then (k, v) :: r
                       else if lex_lt k k' then (k, v) :: m else (k', v') :: insert k v r
    end.

  Definition item_text (path rn url_name content mime : bytes) : bytes :=
    [10%N] ++ b "/// From " ++ debug_str uni_esc path ++ [10%N] ++
    b "#[allow(non_upper_case_globals)]" ++ [10%N] ++
    b "pub static " ++ rn ++ b ": StaticFile = StaticFile {" ++ [10%N] ++
    b "  content: " ++ content ++ b "," ++ [10%N] ++
    b "  name: " ++ debug_str uni_esc url_name ++ b "," ++ [10%N] ++ mime ++ b "};" ++ [10%N].

  Definition add_static (mm : mime_mode) (s : statics) (path rust_name url_name content suffix : bytes) : statics :=
    let rn := rust_ident rust_name in
    {| src := src s ++ item_text path rn url_name content (mime_arg mm suffix);
       names := insert rn url_name (names s);
       names_r := insert url_name rn (names_r s) |}.

  Definition hashed_url (name ext data : bytes) : bytes :=
    name ++ b "-" ++ checksum_slug data ++ b "." ++ ext.

  (* what reaches the handler, with paths already resolved by path_for and files already read *)
  Inductive sop :=
  | OpFile (path content : bytes)          (* add_file *)
  | OpFileAs (path url : bytes)            (* add_file_as *)
  | OpData (path data : bytes).            (* add_file_data *)

  Definition apply_op (mm : mime_mode) (s : statics) (o : sop) : statics :=
    match o with
    | OpFile path content =>
        match name_and_ext path with
        | Some (name, ext) =>
            add_static mm s path (name ++ b "_" ++ ext) (hashed_url name ext content) (filecontent path) ext
        | None => s
        end
    | OpFileAs path url =>
        let ext := match name_and_ext path with Some (_, e) => e | None => [] end in
        add_static mm s path url url (filecontent path) ext
    | OpData path data =>
        match name_and_ext path with
        | Some (name, ext) =>
            add_static mm s path (name ++ b "_" ++ ext) (hashed_url name ext data) (bytestring data) ext
        | None => s
        end
    end.

  (* Drop for StaticFiles: the STATICS line from names_r.values() *)
  Fixpoint statics_list (l : list (bytes * bytes)) : bytes :=
    match l with [] => [] | [(_, v)] => b "&" ++ v | (_, v) :: r => b "&" ++ v ++ b ", " ++ statics_list r end.
  Definition statics_line (s : statics) : bytes :=
    [10%N] ++ b "pub static STATICS: &[&StaticFile] = &[" ++ statics_list (names_r s) ++ b "];" ++ [10%N].
  Definition finish (s : statics) : bytes := src s ++ statics_line s.

  Definition empty_statics (header : bytes) : statics := {| src := header; names := []; names_r := [] |}.
  Definition run_ops (mm : mime_mode) (header : bytes) (ops : list sop) : statics :=
    fold_left (apply_op mm) ops (empty_statics header).

  (* ---- sass static_name(): lookup in a snapshot of `names` ---- *)
  (* str::rsplit_once('.') *)
  Fixpoint rsplit_once_dot (s : bytes) (before cur : bytes) (seen : bool) : option (bytes * bytes) :=
    match s with
    | [] => if seen then Some (before, cur) else None
    | c :: r => if N.eqb c 46 then rsplit_once_dot r (if seen then before ++ [46%N] ++ cur else cur) [] true
                else rsplit_once_dot r before (cur ++ [c]) seen
    end.
  Definition strip_suffix_b (suf s : bytes) : option bytes :=
    match strip_prefix (rev suf) (rev s) with Some r => Some (rev r) | None => None end.
  Definition is_url_name_for (url name : bytes) : bool :=
    beqb url name ||
    match rsplit_once_dot name [] [] false with
    | Some (stem, ext) =>
        match strip_prefix stem url with
        | Some u => match strip_suffix_b ext u with
                    | Some h => Nat.eqb (length h) 10 &&
                                match h with c :: _ => N.eqb c 45 | [] => false end &&
                                match rev h with c :: _ => N.eqb c 46 | [] => false end
                    | None => false end
        | None => false end
    | None => false
    end.
  Fixpoint find_name (rname name : bytes) (m : list (bytes * bytes)) : option bytes :=
    match m with
    | [] => None
    | (n, v) :: r => if beqb n rname && is_url_name_for v name then Some v else find_name rname name r
    end.
  Definition static_name (s : statics) (name : bytes) : option bytes :=
    find_name (rust_ident name) name (names s).

  (* ---- add_sass_file for scss of the fixed shape  a{b:static_name("<ref>")}  :
     the rsass compiler is an oracle; its assumed contract on this shape is that the CSS is
     a{b:"<url>"}\n when the builtin returns <url> (no quote or backslash in it) and a build error
     when the builtin fails.  The CSS is then added as <stem>.css through add_file_data. ---- *)
  Fixpoint dir_part (p acc cur : bytes) : bytes :=   (* everything up to and including the last '/' *)
    match p with
    | [] => acc
    | c :: r => if N.eqb c 47 then dir_part r (acc ++ cur ++ [47%N]) [] else dir_part r acc (cur ++ [c])
    end.
  Definition with_extension (path ext : bytes) : bytes :=
    let f := last_comp path [] in
    dir_part path [] [] ++ (match split_ext f with Some (stem, _) => stem | None => f end) ++ b "." ++ ext.
  Definition sass_ref (mm : mime_mode) (s : statics) (path ref : bytes) : statics * bool :=
    match static_name s ref with
    | Some url => (apply_op mm s (OpData (with_extension path (b "css")) (b "a{b:""" ++ url ++ b """}" ++ [10%N])), true)
    | None => (s, false)
    end.

  (* ---- the generated `StaticFile::get`: STATICS.binary_search_by_key(&name, |s| s.name),
     with core::slice::binary_search_by transcribed (branch-free loop of recent core) ---- *)
  Inductive ord := Lt | Eq | Gt.
  Definition cmp_b (x y : bytes) : ord := if beqb x y then Eq else if lex_lt x y then Lt else Gt.
  Fixpoint bs_loop (fuel : nat) (keys : list bytes) (key : bytes) (base size : nat) : nat :=
    match fuel with
    | O => base
    | S f =>
      if Nat.leb size 1 then base
      else let half := Nat.div2 size in
           let mid := base + half in
           let base' := match cmp_b (nth mid keys []) key with Gt => base | _ => mid end in
           bs_loop f keys key base' (size - half)
    end.
  Definition binary_search (keys : list bytes) (key : bytes) : option nat :=
    match keys with
    | [] => None
    | _ => let base := bs_loop (length keys) keys key 0 (length keys) in
           match cmp_b (nth base keys []) key with Eq => Some base | _ => None end
    end.
  (* STATICS as (name, identifier) pairs in names_r order; get returns the entry *)
  Definition statics_get (s : statics) (n : bytes) : option (bytes * bytes) :=
    match binary_search (map fst (names_r s)) n with
    | Some i => nth_error (names_r s) i
    | None => None
    end.
End WithUnicode.
