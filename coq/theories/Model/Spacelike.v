(* src/spacelike.rs *)
From Ructe Require Import Nom.
Local Open Scope string_scope.

Definition comment_tail : parser unit :=
  preceded
    (many0 (alt [ unitp (is_not (b "*"));
                  unitp (terminated (tag (b "*")) (pnot (tag (b "@")))) ]))
    (unitp (tag (b "*@"))).
Definition comment : parser unit := preceded (tag (b "@*")) comment_tail.
Definition spacelike : parser unit :=
  unitp (many0 (alt [ comment; unitp multispace1 ])).

(* The definition before commit "fix: template comment ending in **@ ..." (kept so that the
   refutation of C01/C11 on the old code stays machine-checked). *)
Definition comment_tail_legacy : parser unit :=
  preceded
    (many0 (alt [ unitp (is_not (b "*"));
                  unitp (preceded (tag (b "*")) (none_of (b "@"))) ]))
    (unitp (tag (b "*@"))).
