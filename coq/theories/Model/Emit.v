(* Code emission: src/templateexpression.rs:53-145 (write_code, Display for TemplateArgument)
   and src/template.rs:25-69 (write_rust). *)
From Ructe Require Import Nom Utf8 TemplateExpr Template.
Local Open Scope string_scope.
Local Open Scope list_scope.

Definition hexd (n : N) : N := if (n <? 10)%N then (48 + n)%N else (87 + n)%N.
Fixpoint hex_aux (fuel : nat) (n : N) (acc : bytes) : bytes :=
  match fuel with O => acc | S f =>
    let acc' := hexd (N.modulo n 16) :: acc in
    if (n <? 16)%N then acc' else hex_aux f (N.div n 16) acc' end.
(* {:x} of a u32 scalar value: lowercase, no leading zeros *)
Definition hex (n : N) := hex_aux 8 n [].

(* core::ascii::escape_default(byte), which is also what <[u8]>::escape_ascii yields per byte *)
Definition escape_default (c : N) : bytes :=
  if N.eqb c 9 then b "\t" else if N.eqb c 13 then b "\r" else if N.eqb c 10 then b "\n"
  else if N.eqb c 92 then b "\\" else if N.eqb c 39 then b "\'" else if N.eqb c 34 then b "\"""
  else if ((32 <=? c) && (c <=? 126))%N then [c]
  else b "\x" ++ [hexd (N.div c 16); hexd (N.modulo c 16)].
Definition escape_ascii (s : bytes) : bytes := flat_map escape_default s.

Section Debug.
  (* Oracle: for a scalar value >= 0x80, does <str as Debug> print it as \u{..}?
     (Grapheme_Extend or not printable, per the tables of the installed `core`.)
     Instantiated with the table the translator regenerates from the real core on each run. *)
  Variable uni_esc : N -> bool.

  (* char::escape_debug_ext with escape_grapheme_extended, escape_double_quote,
     not escape_single_quote: what <str as Debug>::fmt applies per char *)
  Definition debug_char (c : N) : bytes :=
    if N.eqb c 0 then b "\0" else if N.eqb c 9 then b "\t" else if N.eqb c 13 then b "\r"
    else if N.eqb c 10 then b "\n" else if N.eqb c 92 then b "\\" else if N.eqb c 34 then b "\"""
    else if (c <? 32)%N || N.eqb c 127 then b "\u{" ++ hex c ++ b "}"
    else if (c <? 128)%N then [c]
    else if uni_esc c then b "\u{" ++ hex c ++ b "}"
    else utf8_encode c.
  (* {:?} of a &str given as its (valid) UTF-8 bytes *)
  Definition debug_str (s : bytes) : bytes :=
    b """" ++ match utf8_decode s with Some cs => flat_map debug_char cs | None => [] end ++ b """".

  Definition nl : bytes := [10%N].

  Definition text_code (text : bytes) : bytes :=
    if is_ascii text then b "_ructe_out_.write_all(b""" ++ escape_ascii text ++ b """)?;" ++ nl
    else b "_ructe_out_.write_all(" ++ debug_str text ++ b ".as_bytes())?;" ++ nl.

  Fixpoint write_code (t : texpr) : bytes :=
    let fix codes (l : list texpr) : bytes :=
      match l with [] => [] | x :: r => write_code x ++ codes r end in
    let arg (a : targ) : bytes :=
      match a with
      | ARust s => s
      | ABody [] => b "|_| Ok(())"
      | ABody v => b "#[allow(clippy::used_underscore_binding)] |mut _ructe_out_| {" ++ nl ++ codes v ++ b "Ok(())" ++ nl ++ b "}" ++ nl
      end in
    match t with
    | TComment => []
    | TText text => text_code text
    | TExpr e => e ++ b ".to_html(_ructe_out_.by_ref())?;" ++ nl
    | TFor name expr body =>
        b "for " ++ name ++ b " in " ++ expr ++ b " {" ++ nl ++ codes body ++ b "}" ++ nl
    | TIf expr body els =>
        b "if " ++ expr ++ b " {" ++ nl ++ codes body ++ b "}" ++
        match els with
        | Some [TIf e2 b2 els2 as e] => b " else " ++ write_code e
        | Some body2 => b " else {" ++ nl ++ codes body2 ++ b "}" ++ nl
        | None => nl
        end
    | TMatch expr arms =>
        b "match " ++ expr ++ b " {" ++
        (fix arms_code (l : list (bytes * list texpr)) : bytes :=
           match l with [] => [] | (p, body) :: r => nl ++ b "  " ++ p ++ b " => {" ++ codes body ++ b "}" ++ arms_code r end) arms
        ++ nl ++ b "}" ++ nl
    | TCall name args =>
        name ++ b "(_ructe_out_.by_ref()" ++
        (fix args_code (l : list targ) : bytes :=
           match l with [] => [] | a :: r => b ", " ++ arg a ++ args_code r end) args
        ++ b ")?;" ++ nl
    end.

  Fixpoint codes (l : list texpr) : bytes := match l with [] => [] | x :: r => write_code x ++ codes r end.

  (* str::split_once(':') *)
  Fixpoint split_colon (s acc : bytes) : option (bytes * bytes) :=
    match s with
    | [] => None
    | c :: r => if N.eqb c 58 then Some (rev acc, r) else split_colon r (c :: acc)
    end.
  (* str::trim on strings whose leading/trailing whitespace can only be ASCII (see DESIGN):
     U+0009..U+000D and U+0020 *)
  Definition is_ws (c : N) : bool := ((9 <=? c) && (c <=? 13))%N || N.eqb c 32.
  Fixpoint trim_start (s : bytes) : bytes :=
    match s with c :: r => if is_ws c then trim_start r else s | [] => [] end.
  Definition trim (s : bytes) : bytes := rev (trim_start (rev (trim_start s))).

  Definition arg_code (a : bytes) : bytes :=
    match split_colon a [] with
    | Some (name, ty) =>
        if beq (trim ty) (b "Content")
        then name ++ b ": impl FnOnce(&mut W) -> io::Result<()>"
        else a
    | None => a
    end.

  Definition write_rust (t : template_t) (name : bytes) : bytes :=
    b "use std::io::{self, Write};" ++ nl ++
    b "#[allow(clippy::useless_attribute, unused)]" ++ nl ++
    b "use super::{Html,ToHtml};" ++ nl ++
    flat_map (fun l => l ++ b ";" ++ nl) (preamble t) ++
    nl ++ b "#[allow(clippy::used_underscore_binding)]" ++ nl ++
    b "pub fn " ++ name ++ b "<" ++ type_args t ++ (match type_args t with [] => [] | _ => b ", " end) ++ b "W>(" ++
    nl ++ b "  #[allow(unused_mut)] mut _ructe_out_: W," ++ nl ++
    flat_map (fun a => b "  " ++ arg_code a ++ b "," ++ nl) (args t) ++
    b ") -> io::Result<()>" ++ nl ++ b "where W: Write {" ++ nl ++
    codes (body t) ++
    b "Ok(())" ++ nl ++ b "}" ++ nl.
End Debug.
