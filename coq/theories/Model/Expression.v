(* src/expression.rs *)
From Ructe Require Import Nom Utf8.
Local Open Scope string_scope.

Definition ident_chars := b "_0123456789ABCDEFGHIJKLMNOPQRSTUVWXYZabcdefghijklmnopqrstuvwxyz".
Definition rust_name : parser bytes :=
  map_res (recognize (pair (alt [tag (b "_"); alpha1]) (opt (is_a ident_chars)))) to_str.

Definition quoted_string : parser bytes :=
  map_res (recognize (delimited (char 34)
                                (opt (escaped (is_not [34%N; 92%N]) 92 (one_of (b "'""\nrt0xu"))))
                                (char 34))) to_str.
Definition rust_comment : parser bytes :=
  delimited (tag (b "/*"))
            (recognize (many0 (alt [ is_not (b "*"); terminated (tag (b "*")) (pnot (tag (b "/"))) ])))
            (tag (b "*/")).

Inductive nt := NExpr | NParens | NInside | NBrackets | NBraces.

(* `slash` is the parser used for a division sign inside a group: the current code uses
   terminated(tag("/"), not(tag("*"))); the legacy code used none_of("*"). *)
Definition slash_now : parser unit := unitp (terminated (tag (b "/")) (pnot (tag (b "*")))).
Definition slash_legacy : parser unit := unitp (terminated (tag (b "/")) (none_of (b "*"))).

(* the three parts of `expression`: optional prefix, atom, chain of postfix forms *)
Definition prefix_alt : parser bytes := alt [tag (b "&"); tag (b "*"); tag (b "")].
Definition atom_alt (self : nt -> parser bytes) : parser bytes :=
  alt [ rust_name;
        map_res digit1 to_str;
        quoted_string;
        (fun j => self NParens j);
        (fun j => self NBrackets j) ].
Definition postfix_alt (self : nt -> parser bytes) : parser bytes :=
  alt [ preceded (context (b "separator") (tag (b "."))) (fun j => self NExpr j);
        preceded (tag (b "::")) (fun j => self NExpr j);
        (fun j => self NParens j);
        (fun j => self NBraces j);
        (fun j => self NBrackets j);
        preceded (tag (b "!")) (fun j => self NParens j);
        preceded (tag (b "!")) (fun j => self NBrackets j) ].

Definition exprF_gen (slash : parser unit) (self0 : nt -> parser bytes) (x : nt) : parser bytes := fun i0 =>
  let self := fun y j => self0 y j in
  match x with
  | NExpr =>
    map_res (recognize (context (b "Expected rust expression")
      (pair (pair prefix_alt (atom_alt self)) (fold_many0_unit (postfix_alt self))))) to_str
  | NParens =>
    map_res (recognize (delimited (tag (b "(")) (fun j => self NInside j) (tag (b ")")))) to_str
  | NBrackets =>
    map_res (recognize (delimited (tag (b "["))
      (many0 (alt [ unitp (is_not (b "[]()""/"));
                    unitp (fun j => self NBrackets j);
                    unitp (fun j => self NBraces j);
                    unitp (fun j => self NParens j);
                    unitp quoted_string;
                    unitp rust_comment;
                    slash ]))
      (tag (b "]")))) to_str
  | NBraces =>
    map_res (recognize (delimited (tag (b "{"))
      (many0 (alt [ unitp (is_not (b "{}[]()""/"));
                    unitp (fun j => self NBrackets j);
                    unitp (fun j => self NBraces j);
                    unitp (fun j => self NParens j);
                    unitp quoted_string;
                    unitp rust_comment;
                    slash ]))
      (tag (b "}")))) to_str
  | NInside =>
    map_res (recognize
      (many0 (alt [ unitp (is_not (b "{}[]()""/"));
                    unitp (fun j => self NBraces j);
                    unitp (fun j => self NBrackets j);
                    unitp (fun j => self NParens j);
                    unitp quoted_string;
                    unitp rust_comment;
                    slash ]))) to_str
  end i0.
Definition exprF := exprF_gen slash_now.
Fixpoint expr_gram (n : nat) : nt -> parser bytes :=
  match n with O => fun _ _ => Abort AFuel | S n => exprF (expr_gram n) end.
Fixpoint expr_gram_legacy (n : nat) : nt -> parser bytes :=
  match n with O => fun _ _ => Abort AFuel | S n => exprF_gen slash_legacy (expr_gram_legacy n) end.

Fixpoint join (sep : bytes) (l : list bytes) : bytes :=
  match l with [] => [] | [x] => x | x :: r => (x ++ sep ++ join sep r)%list end.

Section WithExpr.
  Variable E : nt -> parser bytes.
  Definition expression : parser bytes := fun i => E NExpr i.
  Definition expr_in_braces : parser bytes := fun i => E NBraces i.
  Definition expr_inside_parens : parser bytes := fun i => E NInside i.
  Definition comma_expressions : parser bytes :=
    pmap (join (b ", ")) (separated_list0 (preceded (tag (b ",")) (many0 (tag (b " ")))) expression).
End WithExpr.
