(* The whole S1+S2 pipeline of handle_template / verif_hooks::compile_template:
   bytes -> generated Rust | diagnostics | panic. *)
From Ructe Require Import Nom Utf8 Expression TemplateExpr Template ParseResult Emit.
Local Open Scope string_scope.

Inductive coutcome := Accepted (rust : bytes) | Rejected (diag : bytes) | Panicked | NoFuel.

Definition fuel_for (src : bytes) : nat := 4 * length src + 16.

Definition parse_template (src : bytes) : res template_t :=
  let f := fuel_for src in
  let E := expr_gram f in
  template (ty_gram f) (texpr_gram E f f TE) src.

Definition compile (uni_esc : N -> bool) (name src : bytes) : coutcome :=
  match parse_template src with
  | Ok t _ => Accepted (write_rust uni_esc t name)
  | Err e => match show_errors src e (b "cargo:warning=") with
             | Some d => Rejected d | None => Panicked end
  | Abort AFuel => NoFuel
  | Abort APanic => Panicked
  end.
