(* core::str::from_utf8 validity, decoding, encoding, and the character count of
   String::from_utf8_lossy (core::str::lossy::Utf8Chunks). *)
From Ructe Require Import Nom.
Local Open Scope N_scope.

Definition cont (c : N) := (128 <=? c) && (c <=? 191).

(* One step of UTF-8 validation/decoding at the head of [s]:
   [Some (cp, rest)] for a well-formed scalar, [None] otherwise. RFC 3629 ranges
   (overlong forms, surrogates and > U+10FFFF rejected), as core::str::validations. *)
Definition utf8_step (s : bytes) : option (N * bytes) :=
  match s with
  | [] => None
  | c :: r =>
    if c <? 128 then Some (c, r)
    else if (194 <=? c) && (c <=? 223) then
      match r with
      | c1 :: r' => if cont c1 then Some ((c - 192) * 64 + (c1 - 128), r') else None
      | _ => None end
    else if (224 <=? c) && (c <=? 239) then
      match r with
      | c1 :: c2 :: r' =>
        if (if c =? 224 then (160 <=? c1) && (c1 <=? 191)
            else if c =? 237 then (128 <=? c1) && (c1 <=? 159)
            else cont c1) && cont c2
        then Some ((c - 224) * 4096 + (c1 - 128) * 64 + (c2 - 128), r') else None
      | _ => None end
    else if (240 <=? c) && (c <=? 244) then
      match r with
      | c1 :: c2 :: c3 :: r' =>
        if (if c =? 240 then (144 <=? c1) && (c1 <=? 191)
            else if c =? 244 then (128 <=? c1) && (c1 <=? 143)
            else cont c1) && cont c2 && cont c3
        then Some ((c - 240) * 262144 + (c1 - 128) * 4096 + (c2 - 128) * 64 + (c3 - 128), r') else None
      | _ => None end
    else None
  end.

Fixpoint utf8_decode_aux (n : nat) (s : bytes) : option (list N) :=
  match s with
  | [] => Some []
  | _ => match n with
         | O => None
         | S n' => match utf8_step s with
                   | Some (cp, r) => match utf8_decode_aux n' r with
                                     | Some l => Some (cp :: l) | None => None end
                   | None => None
                   end
         end
  end.
(* from_utf8(s).ok().map(chars) *)
Definition utf8_decode (s : bytes) : option (list N) := utf8_decode_aux (length s) s.
Definition utf8_valid (s : bytes) : bool :=
  match utf8_decode s with Some _ => true | None => false end.
Definition to_str (s : bytes) : option bytes := if utf8_valid s then Some s else None.

(* char::encode_utf8 *)
Definition utf8_encode (cp : N) : bytes :=
  if cp <? 128 then [cp]
  else if cp <? 2048 then [192 + cp / 64; 128 + cp mod 64]
  else if cp <? 65536 then [224 + cp / 4096; 128 + (cp / 64) mod 64; 128 + cp mod 64]
  else [240 + cp / 262144; 128 + (cp / 4096) mod 64; 128 + (cp / 64) mod 64; 128 + cp mod 64].

Definition is_ascii (s : bytes) : bool := forallb (fun c => c <? 128) s.

(* Number of chars of String::from_utf8_lossy(s): Utf8Chunks yields maximal valid runs and,
   after each, the lead byte plus the continuation bytes that were accepted before the
   sequence turned out to be invalid; every such non-empty invalid chunk becomes one U+FFFD.
   Each step below accounts for exactly one char of the result. *)
Definition lossy_step (s : bytes) : bytes :=   (* what is left after one char *)
  match s with
  | [] => []
  | c :: r =>
    if c <? 128 then r
    else if (194 <=? c) && (c <=? 223) then
      match r with c1 :: r' => if cont c1 then r' else r | [] => [] end
    else if (224 <=? c) && (c <=? 239) then
      match r with
      | c1 :: r1 =>
        if (if c =? 224 then (160 <=? c1) && (c1 <=? 191)
            else if c =? 237 then (128 <=? c1) && (c1 <=? 159)
            else cont c1)
        then match r1 with c2 :: r2 => if cont c2 then r2 else r1 | [] => [] end
        else r
      | [] => [] end
    else if (240 <=? c) && (c <=? 244) then
      match r with
      | c1 :: r1 =>
        if (if c =? 240 then (144 <=? c1) && (c1 <=? 191)
            else if c =? 244 then (128 <=? c1) && (c1 <=? 143)
            else cont c1)
        then match r1 with
             | c2 :: r2 => if cont c2
                           then match r2 with c3 :: r3 => if cont c3 then r3 else r2 | [] => [] end
                           else r1
             | [] => [] end
        else r
      | [] => [] end
    else r
  end.
Fixpoint lossy_count_aux (n : nat) (s : bytes) : nat :=
  match s with
  | [] => O
  | _ => match n with O => O | S n' => S (lossy_count_aux n' (lossy_step s)) end
  end.
Definition lossy_char_count (s : bytes) : nat := lossy_count_aux (length s) s.
