(* C19 - content types follow the file suffix.  Theorems only; the tables are regenerated from
   src/staticfiles.rs (and the mime crate) on every run, so these are re-checked against the source. *)
From Coq Require Import Lia.
From Ructe Require Import Nom Utf8 Md5 Emit Tables Static MapProofs MimeProofs.
Local Open Scope list_scope.

(* every suffix string, both features: if the (lowercased) suffix is in the feature's table the
   constant's media type is a registered type for that suffix - never the type of another format -
   and otherwise it is the generic binary type *)
Theorem mime_follows_suffix : forall (mm : mime_mode) (s : bytes), mm <> MNone ->
  match lookup_b (map ascii_lower s) (match mm with M03 => mime03_rows | _ => http_rows end) with
  | Some _ => exists ty allowed, media_type mm s = Some ty /\
                                 lookup_reg (map ascii_lower s) registry = Some allowed /\ memb ty allowed = true
  | None => media_type mm s = Some generic_type
  end.
Proof. exact media_type_registered. Qed.

(* matching is case-insensitive *)
Theorem mime_case_insensitive : forall (mm : mime_mode) (s : bytes),
  mime_from_suffix mm s = mime_from_suffix mm (map ascii_lower s).
Proof. exact mime_case_insensitive_lemma. Qed.

(* the generated code names constants that exist in the crate, as mime::<CONST> *)
Theorem mime_consts_exist : forall (mm : mime_mode) (s : bytes),
  match mm with
  | MNone => mime_arg mm s = []
  | M03 => (exists ty, lookup_b (mime_from_suffix mm s) mime03_consts = Some ty) /\
           mime_arg mm s = b "  mime: &mime::" ++ mime_from_suffix mm s ++ b "," ++ [10%N]
  | MHttp => (exists ty, lookup_b (mime_from_suffix mm s) http_consts = Some ty) /\
             mime_arg mm s = b "  mime: &mime::" ++ mime_from_suffix mm s ++ b "," ++ [10%N]
  end.
Proof.
  intros mm s. pose proof (mime_from_suffix_in_consts mm s) as H. destruct mime_arg_prefix_ok as [P Q].
  destruct mm; [reflexivity| |]; (split; [exact H|]); unfold mime_arg; rewrite P, Q; reflexivity.
Qed.

(* the suffixes the property names are in the mime03 table *)
Theorem named_suffixes_in_table :
  forallb (fun s => match lookup_b s mime03_rows with Some _ => true | None => false end)
          [b "css"; b "js"; b "json"; b "png"; b "jpg"; b "jpeg"; b "svg"; b "woff"; b "woff2"] = true.
Proof. exact named_suffixes_present. Qed.

(* the tables of the pinned commit fail the same conditions *)
Lemma legacy_tables_refuted :
  rows_ok [(b "woff2", b "FONT_WOFF")] mime03_consts = false /\
  rows_ok [(b "html", b "CSS")] http_consts = false /\
  default_ok (b "mime::BYTE_STREAM") http_consts = false.
Proof. vm_compute. repeat split; reflexivity. Qed.

Example woff2_and_case : mime_from_suffix M03 (b "WoFf2") = b "FONT_WOFF2" /\ mime_from_suffix MHttp (b "HTM") = b "HTML" /\
  mime_from_suffix M03 (b "tar") = b "APPLICATION_OCTET_STREAM" /\ mime_from_suffix MHttp [] = b "BYTE_STREAM".
Proof. vm_compute. repeat split; reflexivity. Qed.

Redirect "assumptions/C19.mime_follows_suffix" Print Assumptions mime_follows_suffix.
Redirect "assumptions/C19.mime_case_insensitive" Print Assumptions mime_case_insensitive.
Redirect "assumptions/C19.mime_consts_exist" Print Assumptions mime_consts_exist.
Redirect "assumptions/C19.named_suffixes_in_table" Print Assumptions named_suffixes_in_table.
Redirect "assumptions/C19.legacy_tables_refuted" Print Assumptions legacy_tables_refuted.
