(* C13 - declarations reach the generated signature unchanged.  Theorems only. *)
From Coq Require Import Lia.
From Ructe Require Import Nom NomFacts Utf8 Spacelike Expression TemplateExpr Template Emit ParserProofs EmitProofs.
Local Open Scope list_scope.

Section C13.
  Variable uni_esc : N -> bool.

  (* the generated function takes the sink first and then exactly the declared parameters, in
     declared order, one per line; every use line becomes `<line>;` on its own line, in order;
     the lifetime list is copied *)
  Theorem signature_shape : forall (t : template_t) (name : bytes),
    write_rust uni_esc t name =
      b "use std::io::{self, Write};" ++ nl ++ b "#[allow(clippy::useless_attribute, unused)]" ++ nl ++ b "use super::{Html,ToHtml};" ++ nl ++
      flat_map (fun l => l ++ b ";" ++ nl) (preamble t) ++
      nl ++ b "#[allow(clippy::used_underscore_binding)]" ++ nl ++
      b "pub fn " ++ name ++ b "<" ++ type_args t ++ (match type_args t with [] => [] | _ => b ", " end) ++ b "W>(" ++
      nl ++ b "  #[allow(unused_mut)] mut _ructe_out_: W," ++ nl ++
      flat_map (fun a => b "  " ++ arg_code a ++ b "," ++ nl) (args t) ++
      b ") -> io::Result<()>" ++ nl ++ b "where W: Write {" ++ nl ++ codes uni_esc (body t) ++ b "Ok(())" ++ nl ++ b "}" ++ nl.
  Proof. exact (write_rust_shape uni_esc). Qed.
End C13.

(* a parameter is copied verbatim unless it is <name>:<type> whose type, trimmed, is exactly
   `Content` (split at the first colon); then, and only then, it becomes the block parameter.
   Types that merely begin with or contain the word are therefore left alone. *)
Theorem param_verbatim_or_content : forall a : bytes,
  (arg_code a = a /\
     forall name ty, a = name ++ 58%N :: ty -> Forall (fun c => c <> 58%N) name -> trim ty <> b "Content") \/
  (exists name ty, a = name ++ 58%N :: ty /\ Forall (fun c => c <> 58%N) name /\ trim ty = b "Content" /\
                   arg_code a = name ++ b ": impl FnOnce(&mut W) -> io::Result<()>").
Proof. exact arg_code_cases. Qed.

(* what the parser stores for a parameter is the declaration's own text, and what it stores for a
   use line is the text between `@` and `;` *)
Theorem formal_argument_is_source_slice : forall TY, (forall x, good (TY x)) -> forall i a r,
  formal_argument TY i = Ok a r -> i = a ++ r /\ utf8_valid a = true.
Proof. exact formal_argument_slice. Qed.
Theorem use_line_is_source_slice : forall i l r, use_line i = Ok l r ->
  exists ws, i = b "@" ++ l ++ b ";" ++ ws ++ r /\ utf8_valid l = true /\ l <> [] /\ Forall (fun c => mem c (b ";()") = false) l.
Proof. exact use_line_slice. Qed.

(* the substring replacement of the pinned commit did both things wrong *)
Fixpoint legacy_replace (fuel : nat) (pat to s : bytes) : bytes :=
  match fuel with O => s | S f =>
  match s with
  | [] => []
  | c :: r => match strip_prefix pat s with
              | Some rest => to ++ legacy_replace f pat to rest
              | None => c :: legacy_replace f pat to r
              end
  end end.
Definition legacy_arg_code (a : bytes) := legacy_replace (S (length a)) (b " Content") (b " impl FnOnce(&mut W) -> io::Result<()>") a.
Lemma legacy_content_rewrite_refuted :
  legacy_arg_code (b "a: ContentType") = b "a: impl FnOnce(&mut W) -> io::Result<()>Type" /\
  legacy_arg_code (b "b:Content") = b "b:Content".
Proof. vm_compute. split; reflexivity. Qed.
Example content_examples :
  arg_code (b "a: ContentType") = b "a: ContentType" /\
  arg_code (b "b:Content") = b "b: impl FnOnce(&mut W) -> io::Result<()>" /\
  arg_code (b "c : Content") = b "c : impl FnOnce(&mut W) -> io::Result<()>" /\
  arg_code (b "d: &Content") = b "d: &Content" /\ arg_code (b "e: Vec<Content>") = b "e: Vec<Content>" /\
  arg_code (b "f: MyContent") = b "f: MyContent" /\ arg_code (b "g: Contents") = b "g: Contents".
Proof. vm_compute. repeat split; reflexivity. Qed.

Redirect "assumptions/C13.signature_shape" Print Assumptions signature_shape.
Redirect "assumptions/C13.param_verbatim_or_content" Print Assumptions param_verbatim_or_content.
Redirect "assumptions/C13.formal_argument_is_source_slice" Print Assumptions formal_argument_is_source_slice.
Redirect "assumptions/C13.use_line_is_source_slice" Print Assumptions use_line_is_source_slice.
Redirect "assumptions/C13.legacy_content_rewrite_refuted" Print Assumptions legacy_content_rewrite_refuted.
