(* C13 - declarations reach the generated signature unchanged.  Theorems only. *)
From Coq Require Import Lia.
From Ructe Require Import Nom NomFacts Utf8 Spacelike Expression TemplateExpr Template Emit Compile ParserProofs EmitProofs RoundTrip ExprComplete.
Local Open Scope list_scope.

Section C13.
  Variable uni_esc : N -> bool.

  (* the generated function takes the sink first and then exactly the declared parameters, in
     declared order, one per line; every use line becomes `<line>;` on its own line, in order;
     the lifetime list is copied *)
  Theorem signature_shape : forall (t : template_t) (name : bytes),
    write_rust uni_esc t name =
      b "use std::io::{self, Write};" ++ nl ++ b "#[allow(clippy::useless_attribute, unused)]" ++ nl ++ b "use super::{Html,ToHtml};" ++ nl ++
      flat_map (fun l => l ++ b ";" ++ nl) (preamble t) ++
      nl ++ b "#[allow(clippy::used_underscore_binding)]" ++ nl ++
      b "pub fn " ++ name ++ b "<" ++ type_args t ++ (match type_args t with [] => [] | _ => b ", " end) ++ b "W>(" ++
      nl ++ b "  #[allow(unused_mut)] mut _ructe_out_: W," ++ nl ++
      flat_map (fun a => b "  " ++ arg_code a ++ b "," ++ nl) (args t) ++
      b ") -> io::Result<()>" ++ nl ++ b "where W: Write {" ++ nl ++ codes uni_esc (body t) ++ b "Ok(())" ++ nl ++ b "}" ++ nl.
  Proof. exact (write_rust_shape uni_esc). Qed.
End C13.

(* a parameter is copied verbatim unless it is <name>:<type> whose type, trimmed, is exactly
   `Content` (split at the first colon); then, and only then, it becomes the block parameter.
   Types that merely begin with or contain the word are therefore left alone. *)
Theorem param_verbatim_or_content : forall a : bytes,
  (arg_code a = a /\
     forall name ty, a = name ++ 58%N :: ty -> Forall (fun c => c <> 58%N) name -> trim ty <> b "Content") \/
  (exists name ty, a = name ++ 58%N :: ty /\ Forall (fun c => c <> 58%N) name /\ trim ty = b "Content" /\
                   arg_code a = name ++ b ": impl FnOnce(&mut W) -> io::Result<()>").
Proof. exact arg_code_cases. Qed.

(* what the parser stores for a parameter is the declaration's own text, and what it stores for a
   use line is the text between `@` and `;` *)
Theorem formal_argument_is_source_slice : forall TY, (forall x, good (TY x)) -> forall i a r,
  formal_argument TY i = Ok a r -> i = a ++ r /\ utf8_valid a = true.
Proof. exact formal_argument_slice. Qed.
Theorem use_line_is_source_slice : forall i l r, use_line i = Ok l r ->
  exists ws, i = b "@" ++ l ++ b ";" ++ ws ++ r /\ utf8_valid l = true /\ l <> [] /\ Forall (fun c => mem c (b ";()") = false) l.
Proof. exact use_line_slice. Qed.

(* completeness for a whole file: a text made of use lines, a declaration and a derivable body
   (the declarative grammar of Proofs/RoundTrip.v) is compiled -- by the real pipeline, at the fuel
   Compile.v uses -- into the signature of [signature_shape] over exactly those use lines and
   parameters: every `@use X;` becomes `use X;`, the parameters appear in declared order, verbatim
   unless their type is exactly Content *)
Theorem declared_header_reaches_the_code : forall (uni_esc : N -> bool) (name src : bytes) d t,
  let f := fuel_for src in
  PT (expr_gram f) f (ty_gram f) d t src -> d < f ->
  compile uni_esc name src = Accepted (write_rust uni_esc t name).
Proof.
  intros ue name src d t f H Hd. unfold compile, parse_template. fold f.
  rewrite (template_complete (expr_gram f) (good_expr_gram f) f (ty_gram f) d t src f (texpr_gram (expr_gram f) f f TE) (fun j => eq_refl) H Hd).
  reflexivity.
Qed.

Example a_whole_template :
  let src := b "@* header *@" ++ [10%N] ++ b "@use super::base_html;" ++ [10%N] ++ b "@use crate::models::*;" ++ [10%N; 10%N] ++
             b "@<'a>(title: &'a str, items: &[(u8, &str,)], body:Content)" ++ [10%N] ++ b "<h1>@title</h1>@for (n, s) in items {<li>@n: @s</li>}@:body()" ++ [10%N] in
  let f := fuel_for src in
  PT (expr_gram f) f (ty_gram f) 4
     {| preamble := [b "use super::base_html"; b "use crate::models::*"]; type_args := b "'a";
        args := [b "title: &'a str"; b "items: &[(u8, &str,)]"; b "body:Content"];
        body := [TText (b "<h1>"); TExpr (b "title"); TText (b "</h1>");
                 TFor (b "(n, s)") (b "items") [TText (b "<li>"); TExpr (b "n"); TText (b ": "); TExpr (b "s"); TText (b "</li>")];
                 TCall (b "body") []; TText [10%N]] |} src.
Proof.
  intros src f. 
  match goal with |- PT _ _ _ _ ?t ?s => let s' := eval vm_compute in s in let f' := eval vm_compute in f in change s with s'; change f with f' end.
  eapply (PT_mk _ _ _ 4 _ (Some (b "'a"))).
  { lex. }
  { cbn [steps]. eexists. split; [lex|]. split; [xlen|]. eexists. split; [lex|]. split; [xlen|]. reflexivity. }
  { eexists. lex. }
  { lex. }
  { lex. }
  match goal with |- PIs _ _ _ ?a ?s _ => concrete a end. pi_items.
Qed.

(* the substring replacement of the pinned commit did both things wrong *)
Fixpoint legacy_replace (fuel : nat) (pat to s : bytes) : bytes :=
  match fuel with O => s | S f =>
  match s with
  | [] => []
  | c :: r => match strip_prefix pat s with
              | Some rest => to ++ legacy_replace f pat to rest
              | None => c :: legacy_replace f pat to r
              end
  end end.
Definition legacy_arg_code (a : bytes) := legacy_replace (S (length a)) (b " Content") (b " impl FnOnce(&mut W) -> io::Result<()>") a.
Lemma legacy_content_rewrite_refuted :
  legacy_arg_code (b "a: ContentType") = b "a: impl FnOnce(&mut W) -> io::Result<()>Type" /\
  legacy_arg_code (b "b:Content") = b "b:Content".
Proof. vm_compute. split; reflexivity. Qed.
Example content_examples :
  arg_code (b "a: ContentType") = b "a: ContentType" /\
  arg_code (b "b:Content") = b "b: impl FnOnce(&mut W) -> io::Result<()>" /\
  arg_code (b "c : Content") = b "c : impl FnOnce(&mut W) -> io::Result<()>" /\
  arg_code (b "d: &Content") = b "d: &Content" /\ arg_code (b "e: Vec<Content>") = b "e: Vec<Content>" /\
  arg_code (b "f: MyContent") = b "f: MyContent" /\ arg_code (b "g: Contents") = b "g: Contents".
Proof. vm_compute. repeat split; reflexivity. Qed.

Redirect "assumptions/C13.signature_shape" Print Assumptions signature_shape.
Redirect "assumptions/C13.param_verbatim_or_content" Print Assumptions param_verbatim_or_content.
Redirect "assumptions/C13.formal_argument_is_source_slice" Print Assumptions formal_argument_is_source_slice.
Redirect "assumptions/C13.use_line_is_source_slice" Print Assumptions use_line_is_source_slice.
Redirect "assumptions/C13.declared_header_reaches_the_code" Print Assumptions declared_header_reaches_the_code.
Redirect "assumptions/C13.a_whole_template" Print Assumptions a_whole_template.
Redirect "assumptions/C13.legacy_content_rewrite_refuted" Print Assumptions legacy_content_rewrite_refuted.
