(* C01 - literal template text is reproduced byte for byte.  Theorems only. *)
From Coq Require Import Lia.
From Ructe Require Import Nom NomFacts Utf8 Spacelike Expression TemplateExpr Template Emit RustLit
                          ParserProofs SpaceProofs TextProofs RustLitProofs EmitProofs.
Local Open Scope list_scope.

Section C01.
  Variable E : nt -> parser bytes.          (* the expression grammar, at any fuel *)
  Hypothesis HE : forall x, good (E x).
  Variable ln n : nat.
  Notation TEp := (texpr_gram E ln (S n) TE).

  (* a run of text -- any bytes other than @ { } forming valid UTF-8: quotes, backslashes, CR/LF,
     NUL and every other control character included -- up to the next @ { } or the end of input
     becomes one Text node holding exactly those bytes *)
  Theorem text_run_capture : forall run rest : bytes,
    run <> [] -> Forall (fun c => plain c = true) run -> utf8_valid run = true -> text_stop rest ->
    TEp (run ++ rest) = Ok (TText run) rest.
  Proof. exact (text_run_capture_lemma E ln n). Qed.

  (* @@, @{ and @} followed by anything produce @, { and } and consume exactly two bytes *)
  Theorem escape_tokens : forall r : bytes,
    TEp (b "@@" ++ r) = Ok (TText (b "@")) r /\ TEp (b "@{" ++ r) = Ok (TText (b "{")) r /\ TEp (b "@}" ++ r) = Ok (TText (b "}")) r.
  Proof. exact (escape_tokens_lemma E ln n). Qed.

  (* a comment whose body has no "*@" (bodies ending in any number of stars included) ends at its
     terminator whatever follows, and produces no output *)
  Theorem comment_skipped : forall body rest : bytes, no_close body = true ->
    TEp (b "@*" ++ body ++ b "*@" ++ rest) = Ok TComment rest /\ forall ue, write_code ue TComment = [].
  Proof. intros body rest H. split; [exact (comment_node_lemma E ln n body rest H)|reflexivity]. Qed.

  (* conversely, on EVERY input: a Text node is a slice of the source (or one of the escapes), so
     no literal text is invented, reordered or altered by the parser *)
  Theorem text_node_is_source_slice : forall i t r : bytes, TEp i = Ok (TText t) r ->
    i = t ++ r \/ (exists c, In c [64%N; 123%N; 125%N] /\ t = [c] /\ i = 64%N :: c :: r).
  Proof. exact (text_node_is_source_slice_lemma E ln n). Qed.
End C01.

(* the run of whitespace and comments after the declaration is skipped, up to the first byte that
   is neither whitespace nor opens a comment -- and spacelike consumes nothing else *)
Theorem leading_trim_only : forall s rest : bytes, layout s -> stops rest -> spacelike (s ++ rest) = Ok tt rest.
Proof. exact spacelike_skips_lemma. Qed.

(* the literal emitted for a Text node denotes exactly the text, for every valid UTF-8 text: the
   b"..." arm for pure ASCII (every code point 0x00-0x7F), the "...".as_bytes() arm otherwise;
   (RustLit.v is the model of rustc's literal lexer) *)
Theorem text_literal_denotes_text : forall (ue : N -> bool) (t : bytes), utf8_valid t = true ->
  exists lit tail, write_code ue (TText t) = b "_ructe_out_.write_all(" ++ lit ++ tail /\
    (if is_ascii t then lex_bytestr_lit (lit ++ tail) = Some (t, tail) /\ tail = b ")?;" ++ nl
     else lex_str_lit (lit ++ tail) = Some (t, tail) /\ tail = b ".as_bytes())?;" ++ nl).
Proof.
  intros ue t V. cbn [write_code]. unfold text_code. destruct (is_ascii t) eqn:A.
  - exists (b "b""" ++ escape_ascii t ++ b """"), (b ")?;" ++ nl). split.
    { change (b "_ructe_out_.write_all(b""") with (b "_ructe_out_.write_all(" ++ b "b""").
      change (b """)?;") with (b """" ++ b ")?;"). now rewrite <- !app_assoc. }
    split; [|reflexivity]. rewrite <- !app_assoc. apply bytestr_literal_roundtrip.
    unfold is_ascii in A. rewrite forallb_forall in A. apply Forall_forall. intros x Hx. specialize (A x Hx).
    apply N.ltb_lt in A. lia.
  - exists (debug_str ue t), (b ".as_bytes())?;" ++ nl). split; [reflexivity|].
    split; [|reflexivity]. now apply str_literal_roundtrip.
Qed.

(* the defects of the pinned commit, refuted on their witnesses *)
Definition legacy_text_code (ue : N -> bool) (t : bytes) : bytes := b "b" ++ debug_str ue t.
Lemma legacy_literal_refuted :
  lex_bytestr_lit (legacy_text_code (fun _ => false) (b "ab" ++ [12%N] ++ b "cd") ++ b ")") = None.
Proof. vm_compute. reflexivity. Qed.
Lemma legacy_comment_refuted :
  comment_tail_legacy (b " x **@B@* y *@C") = Ok tt (b "C") /\ comment_tail (b " x **@B@* y *@C") = Ok tt (b "B@* y *@C").
Proof. vm_compute. split; reflexivity. Qed.

Example control_characters_in_text :
  write_code (fun _ => false) (TText (b "a" ++ [0; 12; 27; 127; 13; 10]%N ++ b "\""")) =
  b "_ructe_out_.write_all(b""a\x00\x0c\x1b\x7f\r\n\\\"""")?;" ++ nl.
Proof. vm_compute. reflexivity. Qed.

Redirect "assumptions/C01.text_run_capture" Print Assumptions text_run_capture.
Redirect "assumptions/C01.escape_tokens" Print Assumptions escape_tokens.
Redirect "assumptions/C01.comment_skipped" Print Assumptions comment_skipped.
Redirect "assumptions/C01.text_node_is_source_slice" Print Assumptions text_node_is_source_slice.
Redirect "assumptions/C01.leading_trim_only" Print Assumptions leading_trim_only.
Redirect "assumptions/C01.text_literal_denotes_text" Print Assumptions text_literal_denotes_text.
Redirect "assumptions/C01.legacy_literal_refuted" Print Assumptions legacy_literal_refuted.
Redirect "assumptions/C01.legacy_comment_refuted" Print Assumptions legacy_comment_refuted.
