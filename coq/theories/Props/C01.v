(* C01 - literal template text is reproduced byte for byte.  Theorems only. *)
From Coq Require Import Lia.
From Ructe Require Import Nom NomFacts Utf8 Spacelike Expression TemplateExpr Template Emit RustLit Compile Exec
                          ParserProofs SpaceProofs TextProofs RustLitProofs EmitProofs RoundTrip.
Local Open Scope list_scope.

Section C01.
  Variable E : nt -> parser bytes.          (* the expression grammar, at any fuel *)
  Hypothesis HE : forall x, good (E x).
  Variable ln n : nat.
  Notation TEp := (texpr_gram E ln (S n) TE).

  (* a run of text -- any bytes other than @ { } forming valid UTF-8: quotes, backslashes, CR/LF,
     NUL and every other control character included -- up to the next @ { } or the end of input
     becomes one Text node holding exactly those bytes *)
  Theorem text_run_capture : forall run rest : bytes,
    run <> [] -> Forall (fun c => plain c = true) run -> utf8_valid run = true -> text_stop rest ->
    TEp (run ++ rest) = Ok (TText run) rest.
  Proof. exact (text_run_capture_lemma E ln n). Qed.

  (* @@, @{ and @} followed by anything produce @, { and } and consume exactly two bytes *)
  Theorem escape_tokens : forall r : bytes,
    TEp (b "@@" ++ r) = Ok (TText (b "@")) r /\ TEp (b "@{" ++ r) = Ok (TText (b "{")) r /\ TEp (b "@}" ++ r) = Ok (TText (b "}")) r.
  Proof. exact (escape_tokens_lemma E ln n). Qed.

  (* a comment whose body has no "*@" (bodies ending in any number of stars included) ends at its
     terminator whatever follows, and produces no output *)
  Theorem comment_skipped : forall body rest : bytes, no_close body = true ->
    TEp (b "@*" ++ body ++ b "*@" ++ rest) = Ok TComment rest /\ forall ue, write_code ue TComment = [].
  Proof. intros body rest H. split; [exact (comment_node_lemma E ln n body rest H)|reflexivity]. Qed.

  (* conversely, on EVERY input: a Text node is a slice of the source (or one of the escapes), so
     no literal text is invented, reordered or altered by the parser *)
  Theorem text_node_is_source_slice : forall i t r : bytes, TEp i = Ok (TText t) r ->
    i = t ++ r \/ (exists c, In c [64%N; 123%N; 125%N] /\ t = [c] /\ i = 64%N :: c :: r).
  Proof. exact (text_node_is_source_slice_lemma E ln n). Qed.
End C01.

(* the run of whitespace and comments after the declaration is skipped, up to the first byte that
   is neither whitespace nor opens a comment -- and spacelike consumes nothing else *)
Theorem leading_trim_only : forall s rest : bytes, layout s -> stops rest -> spacelike (s ++ rest) = Ok tt rest.
Proof. exact spacelike_skips_lemma. Qed.

(* the literal emitted for a Text node denotes exactly the text, for every valid UTF-8 text: the
   b"..." arm for pure ASCII (every code point 0x00-0x7F), the "...".as_bytes() arm otherwise;
   (RustLit.v is the model of rustc's literal lexer) *)
Theorem text_literal_denotes_text : forall (ue : N -> bool) (t : bytes), utf8_valid t = true ->
  exists lit tail, write_code ue (TText t) = b "_ructe_out_.write_all(" ++ lit ++ tail /\
    (if is_ascii t then lex_bytestr_lit (lit ++ tail) = Some (t, tail) /\ tail = b ")?;" ++ nl
     else lex_str_lit (lit ++ tail) = Some (t, tail) /\ tail = b ".as_bytes())?;" ++ nl).
Proof.
  intros ue t V. cbn [write_code]. unfold text_code. destruct (is_ascii t) eqn:A.
  - exists (b "b""" ++ escape_ascii t ++ b """"), (b ")?;" ++ nl). split.
    { change (b "_ructe_out_.write_all(b""") with (b "_ructe_out_.write_all(" ++ b "b""").
      change (b """)?;") with (b """" ++ b ")?;"). now rewrite <- !app_assoc. }
    split; [|reflexivity]. rewrite <- !app_assoc. apply bytestr_literal_roundtrip.
    unfold is_ascii in A. rewrite forallb_forall in A. apply Forall_forall. intros x Hx. specialize (A x Hx).
    apply N.ltb_lt in A. lia.
  - exists (debug_str ue t), (b ".as_bytes())?;" ++ nl). split; [reflexivity|].
    split; [|reflexivity]. now apply str_literal_roundtrip.
Qed.

(* the whole statement on the model, end to end: a body made of text runs, escapes and comments
   (any derivation in the declarative grammar whose nodes are Text / Comment) is parsed to exactly
   those nodes, and running them writes the text runs in order, byte for byte -- the comments
   contribute nothing, the escapes their one character -- whatever the environment, the callees
   and the fuel (above the number of nodes) *)
Fixpoint literal_of (items : list texpr) : option bytes :=
  match items with
  | [] => Some []
  | TText t :: r => match literal_of r with Some x => Some (t ++ x) | None => None end
  | TComment :: r => literal_of r
  | _ => None
  end.
Lemma render_literals env (o : oracle env) : forall items out fuel e cs,
  literal_of items = Some out -> List.length items < fuel -> render env o fuel e cs items = Some out.
Proof.
  induction items as [|it rest IH]; intros out fuel e cs H L; (destruct fuel as [|fuel]; [cbn in L; lia|]); cbn [render].
  - now inversion H.
  - cbn [List.length] in L. destruct it; cbn [literal_of] in H; try discriminate.
    + rewrite (IH out fuel e cs H ltac:(lia)). reflexivity.
    + destruct (literal_of rest) as [x|] eqn:R; [|discriminate]. inversion H; subst. rewrite (IH x fuel e cs eq_refl ltac:(lia)). reflexivity.
Qed.
Theorem literal_text_reproduced : forall (E : nt -> parser bytes) (ln : nat), (forall x, good (E x)) ->
  forall d items src out m, PIs E ln d items src [] -> literal_of items = Some out -> d < m ->
  many_till (context (b "Error in expression starting here:") (fun j => texpr_gram E ln m TE j)) end_of_file src = Ok (items, tt) [] /\
  forall env (o : oracle env) fuel e cs, List.length items < fuel -> render env o fuel e cs items = Some out.
Proof.
  intros E ln HE d items src out m H L Hm. split; [exact (body_complete E HE ln d items src m H Hm)|].
  intros env o fuel e cs Hf. now apply render_literals.
Qed.
Example a_literal_body :
  let E0 := expr_gram 4 in
  let items := [TText (b "<p class=""x"">") ; TComment; TText (b "@"); TText (b "mail.example"); TText (b "{"); TText (b " é€ "); TText (b "}"); TComment; TText (b "</p>" ++ [13%N; 10%N])] in
  PIs E0 1 0 items (b "<p class=""x"">@* note **@@@mail.example@{ é€ @}@**@</p>" ++ [13%N; 10%N]) [] /\
  literal_of items = Some (b "<p class=""x"">@mail.example{ é€ }</p>" ++ [13%N; 10%N]).
Proof.
  intros E0 items. unfold items. split; [|vm_compute; reflexivity].
  match goal with |- PIs _ _ _ ?a ?s _ => concrete a; concrete s end. pi_items.
Qed.

(* the defects of the pinned commit, refuted on their witnesses *)
Definition legacy_text_code (ue : N -> bool) (t : bytes) : bytes := b "b" ++ debug_str ue t.
Lemma legacy_literal_refuted :
  lex_bytestr_lit (legacy_text_code (fun _ => false) (b "ab" ++ [12%N] ++ b "cd") ++ b ")") = None.
Proof. vm_compute. reflexivity. Qed.
Lemma legacy_comment_refuted :
  comment_tail_legacy (b " x **@B@* y *@C") = Ok tt (b "C") /\ comment_tail (b " x **@B@* y *@C") = Ok tt (b "B@* y *@C").
Proof. vm_compute. split; reflexivity. Qed.

Example control_characters_in_text :
  write_code (fun _ => false) (TText (b "a" ++ [0; 12; 27; 127; 13; 10]%N ++ b "\""")) =
  b "_ructe_out_.write_all(b""a\x00\x0c\x1b\x7f\r\n\\\"""")?;" ++ nl.
Proof. vm_compute. reflexivity. Qed.

Redirect "assumptions/C01.text_run_capture" Print Assumptions text_run_capture.
Redirect "assumptions/C01.escape_tokens" Print Assumptions escape_tokens.
Redirect "assumptions/C01.comment_skipped" Print Assumptions comment_skipped.
Redirect "assumptions/C01.text_node_is_source_slice" Print Assumptions text_node_is_source_slice.
Redirect "assumptions/C01.leading_trim_only" Print Assumptions leading_trim_only.
Redirect "assumptions/C01.text_literal_denotes_text" Print Assumptions text_literal_denotes_text.
Redirect "assumptions/C01.render_literals" Print Assumptions render_literals.
Redirect "assumptions/C01.literal_text_reproduced" Print Assumptions literal_text_reproduced.
Redirect "assumptions/C01.a_literal_body" Print Assumptions a_literal_body.
Redirect "assumptions/C01.legacy_literal_refuted" Print Assumptions legacy_literal_refuted.
Redirect "assumptions/C01.legacy_comment_refuted" Print Assumptions legacy_comment_refuted.
