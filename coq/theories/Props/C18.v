(* C18 - generated code is reproducible.  Theorems only. *)
From Coq Require Import Lia Permutation.
From Ructe Require Import Nom Utf8 Emit Compile Md5 Static Tables Build MapProofs StaticProofs BuildProofs TreeMirror.
Local Open Scope list_scope.

Section C18.
  Variable uni_esc uni_alnum : N -> bool.
  Variable compile : bytes -> bytes -> coutcome.

  (* the code generated for a template is `compile name bytes` and nothing else: whatever the
     directory it is found in (indir, indir'), the output directory, the sub-directory handler,
     and hence whatever its siblings are and however often it is compiled *)
  Theorem template_code_function_of_bytes_and_name :
    forall rec rec' indir indir' outdir outdir' stem s content code,
    In s template_suffixes -> utf8_valid (stem ++ s) = true ->
    compile (stem ++ b "_" ++ skipn 4 s) content = Accepted code ->
    exists d d' g,
      entry_delta uni_esc compile rec indir outdir (stem ++ s, File content) = BOk _ (d, g) /\
      entry_delta uni_esc compile rec' indir' outdir' (stem ++ s, File content) = BOk _ (d', g) /\
      map snd (plan d) = [code] /\ map snd (plan d') = [code] /\
      map fst (plan d) = [pjoin outdir (b "template_" ++ stem ++ b "_" ++ skipn 4 s ++ b ".rs")].
  Proof.
    intros rec rec' indir indir' outdir outdir' stem s content code I V C.
    pose proof (template_entry_delta uni_esc compile rec indir outdir stem s content I V) as E1.
    pose proof (template_entry_delta uni_esc compile rec' indir' outdir' stem s content I V) as E2.
    cbv zeta in E1, E2. unfold handle_template in E1, E2. rewrite C in E1, E2.
    eexists. eexists. eexists. split; [exact E1|]. split; [exact E2|]. cbn. repeat split; try reflexivity.
    now rewrite <- !app_assoc.
  Qed.

  (* whole trees: the same template file (name and bytes) placed anywhere (below any chain of
     directories ds / ds') in any two trees, walked from any source locations into any output
     directories starting from any earlier state of the run (w, f / w', f': other calls made before,
     the same call made before), is planned with the same code, in the mirrored directory each time *)
  Theorem same_code_in_any_tree :
    forall stem s content code, In s template_suffixes -> utf8_valid (stem ++ s) = true ->
    let name := stem ++ b "_" ++ skipn 4 s in
    compile name content = Accepted code ->
    forall ds ds' fuel fuel' es es' w w' f f' indir indir' outdir outdir' w1 f1 w1' f1',
    at_path es ds (stem ++ s) content -> at_path es' ds' (stem ++ s) content ->
    handle_entries uni_esc compile fuel w f indir outdir es = BOk _ (w1, f1) ->
    handle_entries uni_esc compile fuel' w' f' indir' outdir' es' = BOk _ (w1', f1') ->
    In (pjoin (dir_join outdir ds) (b "template_" ++ name ++ b ".rs"), code) (plan w1) /\
    In (pjoin (dir_join outdir' ds') (b "template_" ++ name ++ b ".rs"), code) (plan w1').
  Proof.
    intros stem s content code I V name C ds ds' fuel fuel' es es' w w' f f' indir indir' outdir outdir' w1 f1 w1' f1' A A' H H'.
    split.
    - exact (proj1 (tree_mirror_lemma uni_esc compile stem s content code I V C ds fuel es w f indir outdir w1 f1 A H)).
    - exact (proj1 (tree_mirror_lemma uni_esc compile stem s content code I V C ds' fuel' es' w' f' indir' outdir' w1' f1' A' H')).
  Qed.

  (* the set of generated files and the set of declaration blocks of a directory depend only on
     its entries, not on the order read_dir yields them in *)
  Theorem module_decls_permutation_invariant :
    forall rec indir outdir es es' deltas, framed rec -> Permutation es es' ->
    Forall2 (fun e dg => entry_delta uni_esc compile rec indir outdir e = BOk _ dg) es deltas ->
    exists deltas', Permutation deltas deltas' /\
      entries_loop uni_esc compile rec w_empty [] indir outdir es = BOk _ (sum_w deltas, sum_f deltas) /\
      entries_loop uni_esc compile rec w_empty [] indir outdir es' = BOk _ (sum_w deltas', sum_f deltas') /\
      Permutation (plan (sum_w deltas)) (plan (sum_w deltas')).
  Proof.
    intros rec indir outdir es es' deltas Hrec P F.
    destruct (Forall2_perm _ _ _ _ P F) as [deltas' [Pd Fd]].
    exists deltas'. split; [exact Pd|].
    rewrite (loop_all_ok uni_esc compile rec Hrec indir outdir es w_empty [] deltas F).
    rewrite (loop_all_ok uni_esc compile rec Hrec indir outdir es' w_empty [] deltas' Fd).
    rewrite !wapp_empty_l. cbn [app]. split; [reflexivity|]. split; [reflexivity|].
    exact (proj1 (sum_plan_perm _ _ Pd)).
  Qed.

  (* the order of STATICS (the url-name map) depends only on the set of additions *)
  Theorem statics_order_permutation_invariant : forall mm header (ops ops' : list sop),
    Permutation ops ops' ->
    NoDup (map fst (pubs uni_alnum ops)) -> NoDup (map snd (pubs uni_alnum ops)) ->
    names_r (run_ops uni_esc uni_alnum mm header ops) = names_r (run_ops uni_esc uni_alnum mm header ops') /\
    statics_line (run_ops uni_esc uni_alnum mm header ops) = statics_line (run_ops uni_esc uni_alnum mm header ops').
  Proof.
    intros mm header ops ops' P N1 N2.
    pose proof (names_r_order_independent uni_esc uni_alnum mm header ops ops' P N1 N2) as E.
    split; [exact E|]. unfold statics_line. now rewrite E.
  Qed.
End C18.

Redirect "assumptions/C18.template_code_function_of_bytes_and_name" Print Assumptions template_code_function_of_bytes_and_name.
Redirect "assumptions/C18.same_code_in_any_tree" Print Assumptions same_code_in_any_tree.
Redirect "assumptions/C18.module_decls_permutation_invariant" Print Assumptions module_decls_permutation_invariant.
Redirect "assumptions/C18.statics_order_permutation_invariant" Print Assumptions statics_order_permutation_invariant.
