(* C20 - Sass static_name() resolves to the published names.  Theorems only. *)
From Coq Require Import Lia.
From Ructe Require Import Nom Utf8 Md5 Emit Tables Static HashProofs StaticProofs MapProofs.
Local Open Scope list_scope.

Section C20.
  Variable uni_esc uni_alnum : N -> bool.
  Variable mm : mime_mode.
  Variable header : bytes.
  Notation run := (run_ops uni_esc uni_alnum mm header).
  Notation pubs := (pubs uni_alnum).

  (* after any history (distinct identifiers and url names), for every file added under a hashed
     name whose final path component is the ASCII name stem.ext, static_name("stem.ext") is its
     published url name -- whatever punctuation or leading digit the name has *)
  Theorem static_name_finds_added : forall (ops : list sop) o path content stem ext,
    NoDup (map fst (pubs ops)) -> NoDup (map snd (pubs ops)) ->
    In o ops -> (o = OpFile path content \/ o = OpData path content) ->
    name_and_ext path = Some (stem, ext) -> no_byte 46 ext -> is_ascii (stem ++ 46%N :: ext) = true ->
    static_name uni_alnum (run ops) (stem ++ 46%N :: ext) = Some (hashed_url stem ext content).
  Proof. exact (static_name_finds_hashed uni_esc uni_alnum mm header). Qed.

  (* a file added with add_file_as is found under its url name *)
  Theorem static_name_finds_added_as : forall (ops : list sop) path url,
    NoDup (map fst (pubs ops)) -> NoDup (map snd (pubs ops)) ->
    In (OpFileAs path url) ops -> static_name uni_alnum (run ops) url = Some url.
  Proof. exact (static_name_finds_as uni_esc uni_alnum mm header). Qed.

  (* never a silently wrong url: a result is the url name some operation published under the
     requested name's own identifier, and it is the requested name itself or the requested name
     with "-" + 8 characters inserted before its extension; in every other case the builtin fails *)
  Theorem static_name_unknown_is_error : forall (ops : list sop) g v,
    static_name uni_alnum (run ops) g = Some v ->
    (exists o, In o ops /\ published uni_alnum o = Some (rust_ident uni_alnum g, v)) /\
    (v = g \/ exists stem ext h, rsplit_dot g [] [] false = Some (stem, ext) /\ v = stem ++ h ++ ext /\
                                 length h = 10 /\ hd 0%N h = 45%N /\ last h 0%N = 46%N).
  Proof. exact (static_name_sound uni_esc uni_alnum mm header). Qed.

  (* the compiled css is itself added as <stem>.css through add_file_data, so C07 applies to it *)
  Theorem sass_css_added_as_hashed : forall s path ref url,
    static_name uni_alnum s ref = Some url ->
    sass_ref uni_esc uni_alnum mm s path ref =
      (apply_op uni_esc uni_alnum mm s (OpData (with_extension path (b "css")) (b "a{b:""" ++ url ++ b """}" ++ [10%N])), true).
  Proof. intros s path ref url H. unfold sass_ref. now rewrite H. Qed.
End C20.

(* the lookup of the pinned commit (replace only '-' and '.', no url check), kept so that the
   refutation stays machine-checked: 17.css was not found, and a.b-c resolved to the file a_b.c *)
Definition legacy_rname (name : bytes) : bytes := map (fun c => if N.eqb c 45 || N.eqb c 46 then 95%N else c) name.
Fixpoint legacy_find (rname : bytes) (m : list (bytes * bytes)) : option bytes :=
  match m with [] => None | (n, v) :: r => if beqb n rname then Some v else legacy_find rname r end.
Definition legacy_static_name (s : statics) (name : bytes) : option bytes := legacy_find (legacy_rname name) (names s).
Lemma legacy_static_name_refuted :
  let s := run_ops (fun _ => false) (fun _ => false) MNone [] [OpData (b "17.css") []; OpData (b "a_b.c") []] in
  legacy_static_name s (b "17.css") = None /\
  legacy_static_name s (b "a.b-c") = Some (b "a_b-1B2M2Y8A.c").
Proof. vm_compute. split; reflexivity. Qed.
Example fixed_on_the_same_witnesses :
  let s := run_ops (fun _ => false) (fun _ => false) MNone [] [OpData (b "17.css") []; OpData (b "a_b.c") []] in
  static_name (fun _ => false) s (b "17.css") = Some (b "17-1B2M2Y8A.css") /\
  static_name (fun _ => false) s (b "a.b-c") = None /\
  static_name (fun _ => false) s (b "a_b.c") = Some (b "a_b-1B2M2Y8A.c").
Proof. vm_compute. repeat split; reflexivity. Qed.

Redirect "assumptions/C20.static_name_finds_added" Print Assumptions static_name_finds_added.
Redirect "assumptions/C20.static_name_finds_added_as" Print Assumptions static_name_finds_added_as.
Redirect "assumptions/C20.static_name_unknown_is_error" Print Assumptions static_name_unknown_is_error.
Redirect "assumptions/C20.sass_css_added_as_hashed" Print Assumptions sass_css_added_as_hashed.
Redirect "assumptions/C20.legacy_static_name_refuted" Print Assumptions legacy_static_name_refuted.
