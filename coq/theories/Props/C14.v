(* C14 - sink failures propagate and the output is always a prefix.  Theorems only. *)
From Coq Require Import Lia.
From Ructe Require Import Nom Utf8 TemplateExpr Template Emit Tables Io IoProofs Exec ExecProofs EmitProofs.
Local Open Scope list_scope.

Section C14.
  Variable env : Type.
  Variable o : oracle env.

  (* every statement list ructe can emit (any template body: text, expressions incl. Html(..) and
     buffers, for / if / match at any nesting, calls and block arguments), every oracle for the
     embedded Rust fragments, every sink schedule (accept any number of bytes per call,
     Interrupted, permanent failure at any point): what the sink accepted is a prefix of the
     full rendering, and all of it when the function returns Ok *)
  Theorem exec_prefix : forall fuel e cs (items : list texpr) (s s' : sink) (r : outcome) (full : bytes),
    exec env o fuel e cs items s = (s', r) -> render env o fuel e cs items = Some full ->
    exists p, log s' = log s ++ p /\ prefix p full /\ (r = Done -> p = full).
  Proof.
    intros fuel e cs items s s' r full H R. destruct (exec_Pre env o fuel e cs items s s' r H) as [p [L C]].
    rewrite R in C. exists p. tauto.
  Qed.

  (* sinks that only accept part of each write, or report Interrupted, do not change the output:
     on a schedule without a permanent failure the function returns Ok and the sink got everything *)
  Theorem exec_partial_interrupt_invariant : forall fuel e cs items s s' r full,
    exec env o fuel e cs items s = (s', r) -> render env o fuel e cs items = Some full ->
    no_fault (sched s) -> r <> OutOfFuel -> r = Done /\ log s' = log s ++ full /\ no_fault (sched s').
  Proof.
    intros fuel e cs items s s' r full H R F NF0.
    destruct (exec_NF env o fuel e cs items s s' r H F) as [[Rd|Rf] F']; [|congruence].
    destruct (exec_prefix fuel e cs items s s' r full H R) as [p [L [_ D]]]. rewrite (D Rd) in L. tauto.
  Qed.

  (* the first statement that fails ends the function with that result: nothing after it runs *)
  Theorem exec_error_propagates : forall (a k : sink -> sink * outcome) s s1 x,
    a s = (s1, Failed x) -> seq a k s = (s1, Failed x).
  Proof. intros a k s s1 x H. unfold seq. now rewrite H. Qed.
End C14.

(* non-vacuity: a body with an escaped expression inside a conditional, run against a sink that
   takes two bytes, reports Interrupted, takes three more and then fails for good: the hypotheses of
   exec_prefix hold, the failure comes back, and what was accepted is a proper prefix of the rendering;
   the same body on a sink that only delivers short writes and Interrupted gets everything *)
Example a_failing_and_a_slow_sink :
  let o := {| o_val := fun (_ : nat) _ => VDisplay [b "<b>"]; o_if := fun e _ => Some e;
              o_for := fun _ _ _ => []; o_match := fun _ _ _ => None; o_call := fun _ _ _ => None |} in
  let items := [TText (b "x="); TIf (b "c") [TExpr (b "v"); TText (b "!")] None; TText (b ".")] in
  let bad := {| sched := [Accept 2; Interrupted; Accept 3; Fail 7]; log := [] |} in
  let slow := {| sched := [Accept 1; Interrupted; Accept 1; Interrupted; Interrupted; Accept 2]; log := [] |} in
  render nat o 5 0 [] items = Some (b "x=&lt;b&gt;!.") /\
  (let '(s', r) := exec nat o 5 0 [] items bad in r = Failed (Io 7) /\ log s' = b "x=&lt") /\
  (let '(s', r) := exec nat o 5 0 [] items slow in r = Done /\ log s' = b "x=&lt;b&gt;!." /\ no_fault (sched slow)).
Proof. vm_compute. repeat split; try reflexivity; repeat constructor. Qed.

(* the error returned is the sink's own: a write_all fails only with what `write` returned, or
   with WriteZero when the sink accepted nothing *)
Theorem sink_error_is_returned : forall fuel s d s' e,
  write_all sink_write fuel s d = (s', Failed e) ->
  (e = WriteZero /\ In (Accept 0) (sched s)) \/ (exists c, e = Io c /\ In (Fail c) (sched s)).
Proof. exact write_all_error_from_sink. Qed.

(* the `?` of the semantics is in the emitted text: every leaf statement ends in `?;`, blocks are
   made of such statements, closures end in Ok(()) and so does the function *)
Theorem question_marks_present : forall (ue : N -> bool),
  (forall t, ends_q (write_code ue (TText t))) /\
  (forall e, write_code ue (TExpr e) = e ++ b ".to_html(_ructe_out_.by_ref())?;" ++ nl) /\
  (forall name args, write_code ue (TCall name args) = name ++ b "(_ructe_out_.by_ref()" ++ args_text ue args ++ b ")?;" ++ nl) /\
  (forall x v, arg_text ue (ABody (x :: v)) =
     b "#[allow(clippy::used_underscore_binding)] |mut _ructe_out_| {" ++ nl ++ codes ue (x :: v) ++ b "Ok(())" ++ nl ++ b "}" ++ nl) /\
  (forall t name, exists pre, write_rust ue t name = pre ++ codes ue (body t) ++ b "Ok(())" ++ nl ++ b "}" ++ nl).
Proof.
  intros ue. split; [intros t; apply text_code_q|]. split; [reflexivity|]. split; [apply write_code_call|]. split; [reflexivity|].
  intros t name. exists (write_rust_head t name). apply write_rust_split.
Qed.

Redirect "assumptions/C14.exec_prefix" Print Assumptions exec_prefix.
Redirect "assumptions/C14.exec_partial_interrupt_invariant" Print Assumptions exec_partial_interrupt_invariant.
Redirect "assumptions/C14.exec_error_propagates" Print Assumptions exec_error_propagates.
Redirect "assumptions/C14.a_failing_and_a_slow_sink" Print Assumptions a_failing_and_a_slow_sink.
Redirect "assumptions/C14.sink_error_is_returned" Print Assumptions sink_error_is_returned.
Redirect "assumptions/C14.question_marks_present" Print Assumptions question_marks_present.
