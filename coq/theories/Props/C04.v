(* C04 - template calls and block (Content) arguments compose.  Theorems only. *)
From Coq Require Import Lia.
From Ructe Require Import Nom NomFacts Utf8 Spacelike Expression TemplateExpr Template Emit Tables Io IoProofs Exec
                          ParserProofs TextProofs EmitProofs ExecProofs RoundTrip.
Local Open Scope list_scope.

Section Parse.
  Variable E : nt -> parser bytes.
  Variable ln n : nat.
  (* `@:` hands over to the call parser: a name, then a parenthesised, comma-separated list of Rust
     expressions and `{ ... }` blocks *)
  Theorem call_form : forall i,
    texpr_gram E ln (S n) TE (b "@:" ++ i) =
    call_branch E (fun j => texpr_gram E ln n TE j) i.
  Proof. reflexivity. Qed.
End Parse.

(* the call parser captures the arguments it is given, in order and nested to any depth: Rust
   fragments as written, blocks as the list of template expressions they hold (empty blocks,
   comment-only blocks and blocks with further calls alike) -- [PArgs] is the declarative grammar
   of an argument list (Proofs/RoundTrip.v), with any layout spacelike skips after commas and after
   a block's closing brace *)
Theorem call_arguments_captured : forall (E : nt -> parser bytes) (ln : nat), (forall x, good (E x)) ->
  forall d name args i i1 r m, rust_name i = Ok name (40%N :: i1) -> PArgs E ln d args i1 (41%N :: r) -> S d < m ->
  texpr_gram E ln m TE (b "@:" ++ i) = Ok (TCall name args) r.
Proof.
  intros E ln HE d name args i i1 r m Hn Ha Hm.
  exact (proj1 (grammar_complete E HE ln) (S d) _ _ _ (PI_call E ln d name args i i1 r Hn Ha) m Hm).
Qed.
Example nested_call_arguments :
  let E0 := expr_gram 12 in
  PI E0 3 6 (TCall (b "page") [ARust (b "title"); ABody [TText (b "<h1>"); TCall (b "inner") [ABody []; ABody [TComment]]]; ARust (b "&xs[1..]")])
     (b "@:page(title, {<h1>@:inner({}, {@* only *@})},  &xs[1..])|") (b "|").
Proof.
  intros E0. match goal with |- PI _ _ _ ?a ?s ?r => concrete a; concrete s; concrete r end. pi_item.
Qed.

(* emission: `name(_ructe_out_.by_ref(), args..)?;` with Rust arguments verbatim, an empty block as
   `|_| Ok(())`, and any other block (one holding only a comment included) as a closure that runs
   the block's statements and ends in Ok(()) *)
Theorem block_argument_emission : forall (ue : N -> bool),
  (forall name args, write_code ue (TCall name args) = name ++ b "(_ructe_out_.by_ref()" ++ args_text ue args ++ b ")?;" ++ nl) /\
  (forall s, arg_text ue (ARust s) = s) /\
  arg_text ue (ABody []) = b "|_| Ok(())" /\
  (forall x v, arg_text ue (ABody (x :: v)) =
     b "#[allow(clippy::used_underscore_binding)] |mut _ructe_out_| {" ++ nl ++ codes ue (x :: v) ++ b "Ok(())" ++ nl ++ b "}" ++ nl) /\
  arg_text ue (ABody [TComment]) = b "#[allow(clippy::used_underscore_binding)] |mut _ructe_out_| {" ++ nl ++ b "Ok(())" ++ nl ++ b "}" ++ nl.
Proof.
  intros ue. split; [apply write_code_call|]. repeat split; reflexivity.
Qed.

(* a parameter declared exactly `Content` becomes `impl FnOnce(&mut W) -> io::Result<()>` (see C13) *)
Theorem content_param_rewrite :
  arg_code (b "c: Content") = b "c: impl FnOnce(&mut W) -> io::Result<()>".
Proof. vm_compute. reflexivity. Qed.

Section Run.
  Variable env : Type.
  Variable o : oracle env.

  (* a call renders, at that position, what the callee's body renders in the callee's environment
     for those Rust arguments, with the caller's blocks bound -- together with the CALLER's
     environment and the caller's own blocks -- to the callee's Content parameters *)
  Theorem exec_call : forall fuel e cs name args rest body e' names,
    lookup_clo env name cs = None ->
    o_call env o e name (rust_args args) = Some (body, e', names) ->
    render env o (S fuel) e cs (TCall name args :: rest) =
      oseq (render env o fuel e' (zip_clos env names (block_args args) e cs) body) (render env o fuel e cs rest).
  Proof. intros fuel e cs name args rest body e' names L C. cbn [render]. now rewrite L, C. Qed.

  (* when the callee invokes a Content parameter (`@:c()`), the block runs with the variables of
     the place where it was written, whatever the callee's own environment is *)
  Theorem exec_block_in_caller_env : forall fuel e_callee cs pname items e_caller cs_caller rest,
    lookup_clo env pname cs = Some (Clo env items e_caller cs_caller) ->
    render env o (S fuel) e_callee cs (TCall pname [] :: rest) =
      oseq (render env o fuel e_caller cs_caller items) (render env o fuel e_callee cs rest).
  Proof. intros fuel e_callee cs pname items e_caller cs_caller rest L. cbn [render]. now rewrite L. Qed.

  (* this composes through an intermediate template that forwards its block ({@:c()}): the caller
     passes blk to mid(c), mid passes {@:c()} to leaf(d), leaf invokes @:d() -- and blk still
     renders with the variables (and blocks) of the original caller *)
  Theorem forwarded_block_still_runs_in_the_original_env : forall fuel e0 blk e1 e2 cs0 out,
    let cs1 := zip_clos env [b "c"] [blk] e0 cs0 in
    let cs2 := zip_clos env [b "d"] [[TCall (b "c") []]] e1 cs1 in
    render env o fuel e0 cs0 blk = Some out ->
    render env o (S (S (S fuel))) e2 cs2 [TCall (b "d") []] = Some out.
  Proof.
    intros fuel e0 blk e1 e2 cs0 out cs1 cs2 H.
    rewrite (exec_block_in_caller_env (S (S fuel)) e2 cs2 (b "d") [TCall (b "c") []] e1 cs1 []) by reflexivity.
    rewrite (exec_block_in_caller_env (S fuel) e1 cs1 (b "c") blk e0 cs0 []) by reflexivity.
    rewrite (render_mono env o _ _ _ _ _ H). cbn [render oseq]. now rewrite !app_nil_r.
  Qed.
End Run.

Redirect "assumptions/C04.call_form" Print Assumptions call_form.
Redirect "assumptions/C04.call_arguments_captured" Print Assumptions call_arguments_captured.
Redirect "assumptions/C04.nested_call_arguments" Print Assumptions nested_call_arguments.
Redirect "assumptions/C04.block_argument_emission" Print Assumptions block_argument_emission.
Redirect "assumptions/C04.content_param_rewrite" Print Assumptions content_param_rewrite.
Redirect "assumptions/C04.exec_call" Print Assumptions exec_call.
Redirect "assumptions/C04.exec_block_in_caller_env" Print Assumptions exec_block_in_caller_env.
Redirect "assumptions/C04.forwarded_block_still_runs_in_the_original_env" Print Assumptions forwarded_block_still_runs_in_the_original_env.
