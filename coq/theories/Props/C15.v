(* C15 - layout and template comments between syntactic elements change nothing.  Theorems only. *)
From Coq Require Import Lia.
From Ructe Require Import Nom NomFacts Utf8 Spacelike Expression TemplateExpr Template Emit
                          ParserProofs SpaceProofs TextProofs RoundTrip.
Local Open Scope list_scope.

(* any run built from whitespace (space, tab, CR, LF: LF and CRLF line breaks alike) and closed
   comments (any body without "*@", multi-line bodies and bodies ending in stars included) is
   skipped by spacelike, up to the first byte that is neither whitespace nor opens a comment *)
Theorem spacelike_skips : forall s rest : bytes, layout s -> stops rest -> spacelike (s ++ rest) = Ok tt rest.
Proof. exact spacelike_skips_lemma. Qed.

(* hence at every position where the grammar calls spacelike before a parser q -- after a
   directive keyword, before `{`, around else / in / =>, between match arms, after call commas and
   block arguments, around @use lines, after the declaration -- two different layouts give the
   same result: only what follows the layout matters *)
Theorem layout_irrelevant_at_spacelike : forall {A} (q : parser A) (s1 s2 rest : bytes),
  layout s1 -> layout s2 -> stops rest ->
  preceded spacelike q (s1 ++ rest) = preceded spacelike q (s2 ++ rest) /\
  preceded spacelike q (s1 ++ rest) = q rest.
Proof.
  intros A q s1 s2 rest L1 L2 St. unfold preceded, bind.
  rewrite (spacelike_skips_lemma s1 rest L1 St), (spacelike_skips_lemma s2 rest L2 St). split; reflexivity.
Qed.
Theorem layout_irrelevant_after : forall {A} (p : parser A) (s1 s2 i rest : bytes) (a : A),
  p i = Ok a [] -> layout s1 -> layout s2 -> stops rest ->
  (forall t, p (i ++ t) = Ok a t) ->
  terminated p spacelike (i ++ s1 ++ rest) = terminated p spacelike (i ++ s2 ++ rest).
Proof.
  intros A p s1 s2 i rest a _ L1 L2 St H. unfold terminated, bind, pmap.
  rewrite !H. now rewrite (spacelike_skips_lemma s1 rest L1 St), (spacelike_skips_lemma s2 rest L2 St).
Qed.

(* the layout inside a `let` condition is normalised by the parser itself *)
Theorem let_condition_respaced : forall E n lhs rhs i r1 r2 r3 r4,
  spacelike i = Ok tt r1 -> expression E r1 = Ok lhs r2 ->
  delimited spacelike (char 61) spacelike r2 = Ok 61%N r3 -> expression E r3 = Ok rhs r4 ->
  cond_expression E n (b "let" ++ i) = Ok (b "let " ++ lhs ++ b " = " ++ rhs) r4.
Proof.
  intros E n lhs rhs i r1 r2 r3 r4 H1 H2 H3 H4. unfold cond_expression.
  assert (O : opt (tag (b "let")) (b "let" ++ i) = Ok (Some (b "let")) i) by reflexivity. rewrite O.
  unfold pmap, pair, bind, preceded, bind, context, pmap. rewrite H1, H2, H3, H4. reflexivity.
Qed.

(* whole bodies: the declarative grammar [PI] (Proofs/RoundTrip.v) lets any layout the lexical parsers
   skip stand at each position where the syntax allows it; two texts that derive the same AST are
   parsed to that same AST, hence give byte-identical generated code *)
Theorem layouts_of_one_ast_parse_alike : forall (E : nt -> parser bytes) (ln : nat), (forall x, good (E x)) ->
  forall d l i1 i2 m, PIs E ln d l i1 [] -> PIs E ln d l i2 [] -> d < m ->
  let body := many_till (context (b "Error in expression starting here:") (fun j => texpr_gram E ln m TE j)) end_of_file in
  body i1 = Ok (l, tt) [] /\ body i2 = body i1.
Proof.
  intros E ln HE d l i1 i2 m H1 H2 Hm body. unfold body.
  rewrite (body_complete E HE ln d l i1 m H1 Hm), (body_complete E HE ln d l i2 m H2 Hm). split; reflexivity.
Qed.
(* and where a derivation asks for "what spacelike skips", any syntactic layout will do *)
Theorem layout_is_what_spacelike_skips : forall s rest : bytes, layout s -> stops rest -> spacelike (s ++ rest) = Ok tt rest.
Proof. exact spacelike_skips_lemma. Qed.

(* two layouts of one body (spaces, tab, LF, comments also ending in stars, at the positions the
   syntax allows) derive the same AST *)
Example two_layouts_one_ast :
  let E0 := expr_gram 12 in
  let ast := [TText (b "<p>"); TIf (b "a") [TText (b "x"); TExpr (b "b")] (Some [TText (b "y")]); TFor (b "v") (b "xs") [TExpr (b "v"); TText (b ",")];
              TCall (b "wrap_html") [ARust (b "n"); ABody [TText (b "k")]; ABody []]; TText (b "@")] in
  PIs E0 3 6 ast (b "<p>@if a {x@b} else {y}@for v in xs {@v,}@:wrap_html(n, {k}, {})@@") [] /\
  PIs E0 3 6 ast (b "<p>@if   a" ++ [10%N] ++ b "{x@b}  @* c *@ else @**@ {y}@for v  in xs" ++ [9%N] ++ b "{@v,}@:wrap_html(n,{k}  ,  @* z **@{})@@") [].
Proof.
  intros E0 ast. unfold ast. split; (match goal with |- PIs _ _ _ ?a ?s _ => concrete a; concrete s end; pi_items).
Qed.

Example layouts :
  layout (b " " ++ [9%N; 13%N; 10%N] ++ b "@* c *@" ++ b "@*" ++ [10%N] ++ b " multi * @ line" ++ [10%N] ++ b "*@@**@@* x **@ ") /\
  stops (b "{") /\ stops (b "else") /\ stops (b "@if") /\ stops [].
Proof.
  split.
  - repeat first [ apply L_nil
                 | apply L_ws; [reflexivity|]
                 | apply (L_cmt (b " c ")); [reflexivity|]
                 | apply (L_cmt ([10%N] ++ b " multi * @ line" ++ [10%N])); [reflexivity|]
                 | apply (L_cmt []); [reflexivity|]
                 | apply (L_cmt (b " x *")); [reflexivity|] ].
  - cbn. repeat split; try discriminate; intros; try discriminate.
Qed.

Redirect "assumptions/C15.spacelike_skips" Print Assumptions spacelike_skips.
Redirect "assumptions/C15.layout_irrelevant_at_spacelike" Print Assumptions layout_irrelevant_at_spacelike.
Redirect "assumptions/C15.layout_irrelevant_after" Print Assumptions layout_irrelevant_after.
Redirect "assumptions/C15.layouts_of_one_ast_parse_alike" Print Assumptions layouts_of_one_ast_parse_alike.
Redirect "assumptions/C15.layout_is_what_spacelike_skips" Print Assumptions layout_is_what_spacelike_skips.
Redirect "assumptions/C15.two_layouts_one_ast" Print Assumptions two_layouts_one_ast.
Redirect "assumptions/C15.let_condition_respaced" Print Assumptions let_condition_respaced.
