(* C11 - the template parser is total and its diagnostics are well-formed.  Theorems only. *)
From Coq Require Import Lia.
From Ructe Require Import Nom NomFacts Utf8 Spacelike Expression TemplateExpr Template ParseResult Emit Compile ParserProofs DiagProofs FuelFacts FuelProofs.
Local Open Scope list_scope.

(* every byte sequence (valid UTF-8 or not, any nesting): neither the parser nor the rendering of
   its diagnostics can panic -- the model has a Panic outcome at every unwrap / index / subtraction
   / unreachable!() of the Rust code, and none is reachable *)
Theorem compile_never_panics : forall (uni_esc : N -> bool) (name src : bytes),
  compile uni_esc name src <> Panicked.
Proof. exact compile_never_panics_lemma. Qed.

Theorem parse_no_panic : forall src : bytes, parse_template src <> Abort APanic.
Proof. exact parse_template_no_panic. Qed.

(* the model itself is total: the fuel Model/Compile.v hands to its recursive grammars
   (4 * |src| + 16) is always enough, so the NoFuel outcome is unreachable and every source text is
   either Accepted or Rejected.  The Rust parsers recurse without a counter; the ranks used here
   (2k+2 for the expression grammar, 2k+2 for types, k+1 for template expressions and conditions on
   inputs of length k) bound their recursion depth, which is why they terminate. *)
Theorem parse_fuel_sufficient : forall src : bytes, parse_template src <> Abort AFuel.
Proof. exact parse_fuel_sufficient_lemma. Qed.

Theorem compile_total : forall (uni_esc : N -> bool) (name src : bytes),
  (exists rust, compile uni_esc name src = Accepted rust) \/ (exists diag, compile uni_esc name src = Rejected diag).
Proof.
  intros ue name src. pose proof (compile_never_panics_lemma ue name src). pose proof (compile_never_out_of_fuel_lemma ue name src).
  destruct (compile ue name src); [left; eauto|right; eauto|congruence|congruence].
Qed.

(* and the fuel is only a bound, not a parameter of the result: every larger fuel gives the same
   answer (each combinator is monotone in the order "agrees wherever the smaller one does not run
   out of fuel"), so the model describes the unbounded recursion of the Rust parsers *)
Theorem parse_fuel_irrelevant : forall (src : bytes) (f : nat), fuel_for src <= f ->
  template (ty_gram f) (texpr_gram (expr_gram f) f f TE) src = parse_template src.
Proof. exact parse_fuel_irrelevant_lemma. Qed.

(* the recursion-depth bounds behind it, for every fuel n and input length k *)
Theorem grammar_fuel_ranks :
  (forall n k x, erank x k <= n -> nf k (expr_gram n x)) /\
  (forall n k x, tyrank x k <= n -> nf k (ty_gram n x)) /\
  (forall E, (forall x, good (E x)) -> forall ln n k x, k + 1 <= n -> (forall y, nf k (E y)) -> nf k (logic_expression E ln) -> nf k (texpr_gram E ln n x)).
Proof. split; [exact expr_fuel|split; [exact ty_fuel|]]. intros E HE ln n k x. now apply texpr_fuel. Qed.

(* every error position the parser records lies inside the input, so `buf.len() - rest.len()`
   and `buf[0..pos]` cannot panic, and show_errors is total *)
Theorem errors_are_inside_input : forall (src : bytes) (e : errs),
  parse_template src = Err e ->
  Forall (fun ne => fst ne <= length src) e /\ exists d, show_errors src e (b "cargo:warning=") = Some d.
Proof.
  intros src e H. pose proof (parse_template_errors_inside src e H) as B.
  split; [exact B|]. now apply show_errors_total_lemma.
Qed.

(* a rejection yields at least one diagnostic, and every diagnostic is well-formed: its line
   number is between 1 and the number of lines of the input, its caret column between 1 and
   (bytes of that line) + 1, and the echoed line is that source line, or the placeholder exactly
   when the line is not valid UTF-8 *)
Theorem reject_has_wellformed_diagnostics : forall (src : bytes) (e : errs),
  parse_template src = Err e ->
  exists l, diags src e = Some l /\ l <> [] /\
    Forall (fun d => exists pos msg, pos <= length src /\ d = locate src pos msg /\
      let ls := last_nl_end (firstn pos src) 0 0 in
      1 <= d_line_no d <= S (count_nl src) /\
      d_line_no d = S (count_nl (firstn ls src)) /\
      ls <= pos /\ (ls = 0 \/ nth (ls - 1) src 0%N = 10%N) /\
      1 <= d_col d <= S (length (until_nl (skipn ls src))) /\
      d_line d = (if utf8_valid (until_nl (skipn ls src)) then until_nl (skipn ls src) else b "(Failed to display line)")) l.
Proof.
  intros src e H. destruct (diags_total src e (parse_template_errors_inside src e H)) as [l Hl].
  exists l. split; [exact Hl|]. split; [exact (diags_nonempty src e l (reject_has_diagnostic_lemma src e H) Hl)|].
  pose proof (diags_are_locates src e l Hl) as F. eapply Forall_impl; [|exact F]. cbn beta.
  intros d [pos [msg [Hp Hd]]]. exists pos, msg. split; [exact Hp|]. split; [exact Hd|].
  pose proof (locate_wellformed src pos msg Hp) as W. cbv zeta in W. rewrite <- Hd in W. cbv zeta. tauto.
Qed.

(* the echoed segment is a whole line: newline-free, and followed by a newline or the end *)
Theorem echoed_line_is_a_source_line : forall s : bytes,
  Forall (fun c => c <> 10%N) (until_nl s) /\ exists t, s = until_nl s ++ t /\ (t = [] \/ exists t', t = 10%N :: t').
Proof. intros s. split; [apply until_nl_no_nl|apply until_nl_prefix]. Qed.

(* the scanners of the pinned commit did panic: nom's none_of widens a byte >= 0x80 to a two-byte
   char, so a trailing 0xFF after `*` in a comment (or after `/` in a group) indexes out of range *)
Lemma legacy_parser_panics :
  comment_tail_legacy (b " *" ++ [255%N]) = Abort APanic /\
  expr_gram_legacy 9 NParens (b "(a /" ++ [255%N]) = Abort APanic /\
  comment_tail (b " *" ++ [255%N]) <> Abort APanic.
Proof. repeat split; try (vm_compute; reflexivity). vm_compute. discriminate. Qed.

Example witnesses_now_rejected_with_diagnostics :
  (exists d, compile (fun _ => false) (b "t") (b "@* " ++ [255%N] ++ b " *@ @(") = Rejected d) /\
  (exists d, compile (fun _ => false) (b "t") (b "@()@* *" ++ [255%N]) = Rejected d) /\
  (exists d, compile (fun _ => false) (b "t") (b "@()@(a /" ++ [255%N]) = Rejected d).
Proof. repeat split; eexists; vm_compute; reflexivity. Qed.

Redirect "assumptions/C11.compile_never_panics" Print Assumptions compile_never_panics.
Redirect "assumptions/C11.parse_no_panic" Print Assumptions parse_no_panic.
Redirect "assumptions/C11.parse_fuel_sufficient" Print Assumptions parse_fuel_sufficient.
Redirect "assumptions/C11.parse_fuel_irrelevant" Print Assumptions parse_fuel_irrelevant.
Redirect "assumptions/C11.compile_total" Print Assumptions compile_total.
Redirect "assumptions/C11.grammar_fuel_ranks" Print Assumptions grammar_fuel_ranks.
Redirect "assumptions/C11.errors_are_inside_input" Print Assumptions errors_are_inside_input.
Redirect "assumptions/C11.reject_has_wellformed_diagnostics" Print Assumptions reject_has_wellformed_diagnostics.
Redirect "assumptions/C11.echoed_line_is_a_source_line" Print Assumptions echoed_line_is_a_source_line.
Redirect "assumptions/C11.legacy_parser_panics" Print Assumptions legacy_parser_panics.
