(* C07 - static URL names are a pure function of file name and content hash.  Theorems only. *)
From Coq Require Import Lia.
From Ructe Require Import Nom Utf8 Md5 Emit Tables Static HashProofs StaticProofs.
Local Open Scope list_scope.

Section C07.
  Variable uni_esc uni_alnum : N -> bool.

  (* a path whose final component is stem.ext (ext without dot), with or without a directory part,
     through add_file (OpFile) or add_file_data (OpData), is published as
     stem-<b64url of the first 6 bytes of md5(content)>.ext, whatever the handler held before *)
  Theorem url_name_shape : forall mm (s : statics) dir stem ext content (o : sop),
    stem <> [] -> no_byte 47 stem -> no_byte 46 ext -> no_byte 47 ext ->
    (o = OpFile (dir ++ 47%N :: stem ++ 46%N :: ext) content \/
     o = OpData (dir ++ 47%N :: stem ++ 46%N :: ext) content \/
     o = OpFile (stem ++ 46%N :: ext) content \/ o = OpData (stem ++ 46%N :: ext) content) ->
    let url := stem ++ b "-" ++ b64url (firstn 6 (md5 content)) ++ b "." ++ ext in
    let id := rust_ident uni_alnum (stem ++ b "_" ++ ext) in
    names (apply_op uni_esc uni_alnum mm s o) = insert id url (names s) /\
    names_r (apply_op uni_esc uni_alnum mm s o) = insert url id (names_r s).
  Proof.
    intros mm s dir stem ext content o Hs H1 H2 H3 Ho url id.
    pose proof (apply_op_maps uni_esc uni_alnum mm s o) as M.
    rewrite (hashed_url_shape_lemma uni_alnum dir stem ext content o Hs H1 H2 H3 Ho) in M. exact M.
  Qed.

  (* the published pair depends only on the final path component and the content: not on the
     prior state, the directory part, the entry point, or the MIME mode *)
  Theorem url_name_history_independent : forall p1 p2 content,
    last_comp p1 [] = last_comp p2 [] ->
    published uni_alnum (OpFile p1 content) = published uni_alnum (OpData p2 content) /\
    published uni_alnum (OpFile p1 content) = published uni_alnum (OpFile p2 content) /\
    forall mm1 mm2 s1 s2,
      match published uni_alnum (OpFile p1 content) with
      | Some (id, url) =>
          names_r (apply_op uni_esc uni_alnum mm1 s1 (OpFile p1 content)) = insert url id (names_r s1) /\
          names_r (apply_op uni_esc uni_alnum mm2 s2 (OpData p2 content)) = insert url id (names_r s2)
      | None => apply_op uni_esc uni_alnum mm1 s1 (OpFile p1 content) = s1 /\
                apply_op uni_esc uni_alnum mm2 s2 (OpData p2 content) = s2
      end.
  Proof.
    intros p1 p2 content H.
    assert (E : published uni_alnum (OpFile p1 content) = published uni_alnum (OpData p2 content)).
    { cbn [published]. unfold name_and_ext. now rewrite H. }
    split; [exact E|]. split; [cbn [published]; unfold name_and_ext; now rewrite H|].
    intros mm1 mm2 s1 s2.
    pose proof (apply_op_maps uni_esc uni_alnum mm1 s1 (OpFile p1 content)) as M1.
    pose proof (apply_op_maps uni_esc uni_alnum mm2 s2 (OpData p2 content)) as M2.
    rewrite <- E in M2.
    destruct (published uni_alnum (OpFile p1 content)) as [[id url]|]; [|tauto].
    destruct M1 as [_ M1]. destruct M2 as [_ M2]. tauto.
  Qed.
End C07.

(* the slug is the URL-safe base64 of the first 6 bytes (48 bits) of the MD5: 8 characters
   over A-Z a-z 0-9 - _ *)
Theorem slug_is_md5_prefix : forall data,
  checksum_slug data = b64url (firstn 6 (md5 data)) /\
  length (checksum_slug data) = 8%nat /\
  Forall (fun c => url_safe c = true) (checksum_slug data).
Proof. intros d. split; [reflexivity|]. split; [apply slug_length|apply slug_alphabet]. Qed.

(* the 8 characters determine the 48 bits *)
Theorem b64url_6_injective : forall l1 l2 : bytes,
  length l1 = 6%nat -> length l2 = 6%nat ->
  Forall (fun x => (x < 256)%N) l1 -> Forall (fun x => (x < 256)%N) l2 ->
  b64url l1 = b64url l2 -> l1 = l2.
Proof. exact b64url_6_injective_lemma. Qed.

(* "changing any byte changes the name" is a collision-resistance claim about a 48-bit value and
   is false by counting; what is proved is that two contents under the same stem and extension
   get the same name exactly when the first 48 bits of their MD5 agree *)
Theorem name_changes_partial : forall stem ext c1 c2,
  hashed_url stem ext c1 = hashed_url stem ext c2 <-> firstn 6 (md5 c1) = firstn 6 (md5 c2).
Proof.
  intros stem ext c1 c2. unfold hashed_url, checksum_slug. split.
  - intros H. apply app_inv_head in H. apply app_inv_head in H.
    assert (L : forall c, length (b64url (firstn 6 (md5 c))) = 8%nat) by (intros c; apply slug_length).
    assert (E : b64url (firstn 6 (md5 c1)) = b64url (firstn 6 (md5 c2))).
    { eapply app_eq_len; [|exact H]. now rewrite !L. }
    apply b64url_6_injective_lemma; try exact E.
    + rewrite firstn_length, md5_length. reflexivity.
    + rewrite firstn_length, md5_length. reflexivity.
    + apply Forall_firstn, md5_bytes.
    + apply Forall_firstn, md5_bytes.
  - intros H. now rewrite H.
Qed.

(* the model's MD5 is RFC 1321's: the seven vectors of appendix A.5 and the documented example *)
Theorem md5_rfc1321_vectors :
  hexstr (md5 []) = b "d41d8cd98f00b204e9800998ecf8427e" /\
  hexstr (md5 (b "a")) = b "0cc175b9c0f1b6a831c399e269772661" /\
  hexstr (md5 (b "abc")) = b "900150983cd24fb0d6963f7d28e17f72" /\
  hexstr (md5 (b "message digest")) = b "f96b697d7cb7938d525a2f31aaf161d0" /\
  hexstr (md5 (b "abcdefghijklmnopqrstuvwxyz")) = b "c3fcd3d76192e4007dfb496cca67e13b" /\
  hexstr (md5 (b "ABCDEFGHIJKLMNOPQRSTUVWXYZabcdefghijklmnopqrstuvwxyz0123456789")) = b "d174ab98d277d9f5a5611c2c9f419d9f" /\
  hexstr (md5 (b "12345678901234567890123456789012345678901234567890123456789012345678901234567890")) = b "57edf4a22be3c955ac49da2e2107b67a".
Proof. exact md5_rfc1321_vectors_lemma. Qed.

(* the whole content reaches the compression function: padding is injective, and the 64-byte
   blocks that are hashed concatenate to the padded content *)
Theorem md5_pad_injective : forall m1 m2, pad m1 = pad m2 -> m1 = m2.
Proof. exact md5_pad_injective_lemma. Qed.
Theorem md5_hashes_all_blocks : forall msg,
  List.concat (chunks (S (length (pad msg) / 64)) (pad msg)) = pad msg.
Proof. exact md5_reads_whole_padded_message. Qed.

Example documented_name :
  hashed_url (b "black") (b "css") (b "body{color:black}" ++ [10%N]) = b "black-r3rltVhW.css".
Proof. vm_compute. reflexivity. Qed.

Redirect "assumptions/C07.url_name_shape" Print Assumptions url_name_shape.
Redirect "assumptions/C07.url_name_history_independent" Print Assumptions url_name_history_independent.
Redirect "assumptions/C07.slug_is_md5_prefix" Print Assumptions slug_is_md5_prefix.
Redirect "assumptions/C07.b64url_6_injective" Print Assumptions b64url_6_injective.
Redirect "assumptions/C07.name_changes_partial" Print Assumptions name_changes_partial.
Redirect "assumptions/C07.md5_rfc1321_vectors" Print Assumptions md5_rfc1321_vectors.
Redirect "assumptions/C07.md5_pad_injective" Print Assumptions md5_pad_injective.
Redirect "assumptions/C07.md5_hashes_all_blocks" Print Assumptions md5_hashes_all_blocks.
