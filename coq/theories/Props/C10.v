(* C10 - the generated module tree mirrors the template directory tree.  Theorems only. *)
From Coq Require Import Lia Permutation.
From Ructe Require Import Nom Utf8 Emit Compile Md5 Static Tables Build MapProofs StaticProofs BuildProofs TreeMirror.
Local Open Scope list_scope.

Section C10.
  Variable uni_esc : N -> bool.
  Variable compile : bytes -> bytes -> coutcome.
  Variable rec : world -> bytes -> bytes -> bytes -> list (bytes * node) -> bres (world * bytes).
  Hypothesis Hrec : framed rec.
  Variable indir outdir : bytes.
  Notation delta := (entry_delta uni_esc compile rec indir outdir).
  Notation loop := (entries_loop uni_esc compile rec).

  (* a file <stem>.rs.<ext> (ext in the suffix table regenerated from src/lib.rs) that parses
     contributes exactly one generated file template_<stem>_<ext>.rs in the mirrored directory,
     holding the code for the function <stem>_<ext>, one cargo line, and one declaration block *)
  Theorem template_becomes_function : forall stem s content code,
    In s template_suffixes -> utf8_valid (stem ++ s) = true ->
    let name := stem ++ b "_" ++ skipn 4 s in
    let path := indir ++ [47%N] ++ stem ++ s in
    compile name content = Accepted code ->
    delta (stem ++ s, File content) =
      BOk _ ({| plan := [(pjoin outdir (b "template_" ++ name ++ b ".rs"), code)];
                out := [Line (b "cargo:rerun-if-changed=" ++ path)]; reads := [path] |}, mod_decl name).
  Proof.
    intros stem s content code I V name path C.
    rewrite (template_entry_delta uni_esc compile rec indir outdir stem s content I V). cbv zeta.
    fold name. fold path. unfold handle_template. rewrite C. reflexivity.
  Qed.

  (* a template that fails to parse is reported with a cargo:warning naming the file followed by
     the diagnostics; it contributes neither a file nor a declaration ... *)
  Theorem broken_template_reported : forall stem s content diag,
    In s template_suffixes -> utf8_valid (stem ++ s) = true ->
    let name := stem ++ b "_" ++ skipn 4 s in
    let path := indir ++ [47%N] ++ stem ++ s in
    compile name content = Rejected diag ->
    delta (stem ++ s, File content) =
      BOk _ ({| plan := [];
                out := [Line (b "cargo:rerun-if-changed=" ++ path);
                        Line (b "cargo:warning=Template parse error in " ++ debug_str uni_esc path ++ b ":"); Raw diag];
                reads := [path] |}, []).
  Proof.
    intros stem s content diag I V name path C.
    rewrite (template_entry_delta uni_esc compile rec indir outdir stem s content I V). cbv zeta.
    fold name. fold path. unfold handle_template. rewrite C. reflexivity.
  Qed.

  (* ... and does not disturb any other template: the rest of the directory is processed exactly as
     if the entry were not there, apart from those stdout lines *)
  Theorem broken_template_isolated : forall e rest w f d,
    delta e = BOk _ (d, []) -> plan d = [] ->
    loop w f indir outdir (e :: rest) = loop (wapp w d) f indir outdir rest /\ plan (wapp w d) = plan w.
  Proof.
    intros e rest w f d H P. split; [exact (loop_skip_entry uni_esc compile rec Hrec indir outdir w f e rest d H)|].
    cbn. now rewrite P, app_nil_r.
  Qed.

  (* files with other names produce nothing at all *)
  Theorem other_files_ignored : forall w f filename content rest,
    forallb (fun s => negb (ends_with filename s)) template_suffixes = true ->
    loop w f indir outdir ((filename, File content) :: rest) = loop w f indir outdir rest.
  Proof. intros. now apply entries_loop_other_file. Qed.

  (* a sub-directory becomes a module of the same name: its mod.rs starts with the Html/ToHtml
     re-import and the parent declares `pub mod <name>;` *)
  Theorem subdir_becomes_module : forall name sub w2 modrs,
    utf8_valid name = true ->
    rec (announce_read w_empty (indir ++ [47%N] ++ name)) modrs_header (indir ++ [47%N] ++ name) (pjoin outdir name) sub = BOk _ (w2, modrs) ->
    delta (name, Dir sub) =
      BOk _ (write_if_changed w2 (pjoin (pjoin outdir name) (b "mod.rs")) modrs, b "pub mod " ++ name ++ b ";" ++ [10%N; 10%N]).
  Proof. intros name sub w2 modrs V H. unfold entry_delta. cbn [entries_loop]. rewrite V, H. reflexivity. Qed.

  (* a directory is the sum of its entries: when every entry succeeds, the generated files, the
     stdout and the declaration text are the concatenation of the entries' own contributions *)
  Theorem directory_is_sum_of_entries : forall es w f deltas,
    Forall2 (fun e dg => delta e = BOk _ dg) es deltas ->
    loop w f indir outdir es = BOk _ (wapp w (sum_w deltas), f ++ sum_f deltas).
  Proof. exact (loop_all_ok uni_esc compile rec Hrec indir outdir). Qed.
End C10.

(* handle_entries satisfies the framing hypothesis at every depth, so the theorems above apply to
   the real recursion *)
Theorem handle_entries_is_framed : forall uni_esc compile fuel, framed (handle_entries uni_esc compile fuel).
Proof. exact handle_entries_frame. Qed.

(* whole trees: wherever a parsing template <stem>.rs.<ext> sits -- below any chain ds of directories
   with UTF-8 names, among any siblings, at any depth -- a successful compile_templates has planned
   the file template_<stem>_<ext>.rs with its code in the mirrored directory, declared it in that
   directory's module text (templates.rs for the root, the planned mod.rs below), and declared the
   first directory of the chain as `pub mod` (and, by the same statement one level down, every
   further one) *)
Theorem tree_mirror : forall (uni_esc : N -> bool) (compile : bytes -> bytes -> coutcome) (stem s content code : bytes),
  In s template_suffixes -> utf8_valid (stem ++ s) = true ->
  let name := stem ++ b "_" ++ skipn 4 s in
  compile name content = Accepted code ->
  forall ds fuel es w f indir outdir w' f', at_path es ds (stem ++ s) content ->
  handle_entries uni_esc compile fuel w f indir outdir es = BOk _ (w', f') ->
  In (pjoin (dir_join outdir ds) (b "template_" ++ name ++ b ".rs"), code) (plan w') /\
  match ds with
  | [] => exists g, f' = f ++ g /\ contains g (mod_decl name)
  | d :: _ => (exists g, f' = f ++ g /\ contains g (b "pub mod " ++ d ++ b ";" ++ [10%N; 10%N])) /\
              exists modrs, In (pjoin (dir_join outdir ds) (b "mod.rs"), modrs) (plan w') /\ contains modrs (mod_decl name)
  end.
Proof. exact tree_mirror_lemma. Qed.

(* the converse: nothing else is generated.  Every write a successful compile_templates plans is
   either the function file of a file of the tree whose (UTF-8) name ends in one of the template
   suffixes and whose content parses - placed in the mirrored directory and holding exactly the code
   compiled from that content under that name - or the mod.rs of a (UTF-8 named) directory of the
   tree.  Files with other names, and templates that fail, leave no file behind. *)
Theorem nothing_else_generated : forall (uni_esc : N -> bool) (compile : bytes -> bytes -> coutcome) fuel es indir outdir w' f',
  handle_entries uni_esc compile fuel w_empty [] indir outdir es = BOk _ (w', f') ->
  forall p c, In (p, c) (plan w') ->
  (exists ds filename content s, at_path es ds filename content /\ utf8_valid filename = true /\
     In s template_suffixes /\ ends_with filename s = true /\
     p = pjoin (dir_join outdir ds) (b "template_" ++ suffix_name filename s ++ b ".rs") /\
     compile (suffix_name filename s) content = Accepted c) \/
  (exists ds d sub, dir_at es ds d sub /\ p = pjoin (dir_join outdir (ds ++ [d])) (b "mod.rs")).
Proof.
  intros uni_esc compile fuel es indir outdir w' f' H p c I.
  destruct (tree_mirror_converse_lemma uni_esc compile fuel _ _ _ _ _ _ _ H (p, c) I) as [[]|O]. exact O.
Qed.

(* ... and nothing else is declared: the module text a directory contributes (to templates.rs for
   the root, to its own mod.rs below, whichever walker `rec` handles the sub-directories) is, in
   entry order, one declaration block per file whose UTF-8 name ends in a template suffix and whose
   content parses, and one `pub mod` line per UTF-8 named sub-directory.  A template that fails, a
   file with another name, a directory with a non-UTF-8 name contribute no declaration *)
Theorem nothing_else_declared : forall (uni_esc : N -> bool) (compile : bytes -> bytes -> coutcome) rec es w f indir outdir w' f',
  entries_loop uni_esc compile rec w f indir outdir es = BOk _ (w', f') ->
  exists items, f' = f ++ flat_map render_item items /\ Forall (item_justified compile es) items.
Proof. exact module_text_lemma. Qed.

(* the same stem under different suffixes gives different functions; a whole tree *)
Example same_stem_different_suffix :
  let tree := [(b "a.rs.html", File (b "H")); (b "a.rs.svg", File (b "S")); (b "notes.txt", File (b "x"));
               (b "sub", Dir [(b "b.rs.xml", File (b "X")); (b "bad.rs.html", File (b "!"))])] in
  let compile := fun name content => match content with [33%N] => Rejected (b "D") | _ => Accepted (name ++ b ":" ++ content) end in
  match handle_entries (fun _ => false) compile 3 w_empty [] (b "/i/t") (b "templates") tree with
  | BOk _ (w, f) =>
      map fst (plan w) = [b "templates/template_a_html.rs"; b "templates/template_a_svg.rs";
                          b "templates/sub/template_b_xml.rs"; b "templates/sub/mod.rs"] /\
      map snd (plan w) = [b "a_html:H"; b "a_svg:S"; b "b_xml:X"; modrs_header ++ mod_decl (b "b_xml")] /\
      f = mod_decl (b "a_html") ++ mod_decl (b "a_svg") ++ b "pub mod sub;" ++ [10%N; 10%N]
  | _ => False
  end.
Proof. vm_compute. repeat split; reflexivity. Qed.

Redirect "assumptions/C10.template_becomes_function" Print Assumptions template_becomes_function.
Redirect "assumptions/C10.broken_template_reported" Print Assumptions broken_template_reported.
Redirect "assumptions/C10.broken_template_isolated" Print Assumptions broken_template_isolated.
Redirect "assumptions/C10.other_files_ignored" Print Assumptions other_files_ignored.
Redirect "assumptions/C10.subdir_becomes_module" Print Assumptions subdir_becomes_module.
Redirect "assumptions/C10.directory_is_sum_of_entries" Print Assumptions directory_is_sum_of_entries.
Redirect "assumptions/C10.handle_entries_is_framed" Print Assumptions handle_entries_is_framed.
Redirect "assumptions/C10.tree_mirror" Print Assumptions tree_mirror.
Redirect "assumptions/C10.nothing_else_generated" Print Assumptions nothing_else_generated.
Redirect "assumptions/C10.nothing_else_declared" Print Assumptions nothing_else_declared.
