(* C05 - an @expression ends exactly where the documentation says.  Theorems only. *)
From Coq Require Import Lia.
From Ructe Require Import Nom NomFacts Utf8 Spacelike Expression TemplateExpr Template Emit Compile
                          ParserProofs SpaceProofs TextProofs ExprProofs EmitProofs.
Local Open Scope list_scope.

(* on EVERY input: the fragment taken is a non-empty, valid UTF-8 prefix of the input, and it is
   maximal -- where it ends no further postfix form (.member, ::path, (..), {..}, [..], !(..),
   ![..]) parses, so everything after that point is literal text *)
Theorem expression_sound_and_maximal : forall n i e r,
  expression (expr_gram (S n)) i = Ok e r ->
  i = e ++ r /\ e <> [] /\ utf8_valid e = true /\ exists err, postfix_alt (expr_gram n) r = Err err.
Proof. exact expression_spec. Qed.

Section C05.
  Variable E : nt -> parser bytes.
  Variable ln n : nat.
  Notation TEp := (texpr_gram E ln (S n) TE).

  (* `@( .. )` ends at the parenthesis that closes the group scanned by expr_inside_parens, and
     the fragment handed to rustc is the parenthesised text *)
  Theorem paren_expression : forall i e r,
    expr_inside_parens E i = Ok e (41%N :: r) ->
    TEp (b "@(" ++ i) = Ok (TExpr (b "(" ++ e ++ b ")")) r.
  Proof. intros i e r H. rewrite (paren_form_lemma E ln n). now apply paren_branch_spec. Qed.
End C05.

(* inside a group a '/' that does not start a block comment consumes exactly one byte, so an
   opening delimiter or a quote right after a division is scanned normally *)
Theorem division_is_transparent : forall c r, N.eqb c 42 = false -> slash_now (47%N :: c :: r) = Ok tt (c :: r).
Proof. exact slash_now_spec. Qed.

(* the fragment reaches rustc unmodified, exactly once *)
Theorem fragment_verbatim_once : forall (ue : N -> bool) (e : bytes),
  write_code ue (TExpr e) = e ++ b ".to_html(_ructe_out_.by_ref())?;" ++ nl.
Proof. intros. reflexivity. Qed.

(* the scanner of the pinned commit swallowed the byte after the slash *)
Lemma legacy_division_refuted : slash_legacy (b "/(y)") = Ok tt (b "y)") /\ slash_now (b "/(y)") = Ok tt (b "(y)").
Proof. exact slash_legacy_swallows. Qed.

(* the shapes the documentation names, and the repaired division witnesses, through the whole pipeline *)
Definition body_of (src : bytes) : option (list texpr) :=
  match parse_template src with Ok t [] => Some (body t) | _ => None end.
Example doc_examples :
  body_of (b "@()@a.@a") = Some [TExpr (b "a"); TText (b "."); TExpr (b "a")] /\
  body_of (b "@()@a.") = Some [TExpr (b "a"); TText (b ".")] /\
  body_of (b "@()@(a).len()") = Some [TExpr (b "(a)"); TText (b ".len()")] /\
  body_of (b "@()@a.len()") = Some [TExpr (b "a.len()")] /\
  body_of (b "@()@foo(x/(y))") = Some [TExpr (b "foo(x/(y))")] /\
  body_of (b "@()@(x/""s"".len())") = Some [TExpr (b "(x/""s"".len())")] /\
  body_of (b "@()@a.b::c(d[e{f}])![g]<i>") = Some [TExpr (b "a.b::c(d[e{f}])![g]"); TText (b "<i>")] /\
  body_of (b "@()@f("")}]"" /* ) */)x") = Some [TExpr (b "f("")}]"" /* ) */)"); TText (b "x")].
Proof. vm_compute. repeat split; reflexivity. Qed.

Redirect "assumptions/C05.expression_sound_and_maximal" Print Assumptions expression_sound_and_maximal.
Redirect "assumptions/C05.paren_expression" Print Assumptions paren_expression.
Redirect "assumptions/C05.division_is_transparent" Print Assumptions division_is_transparent.
Redirect "assumptions/C05.fragment_verbatim_once" Print Assumptions fragment_verbatim_once.
Redirect "assumptions/C05.legacy_division_refuted" Print Assumptions legacy_division_refuted.
