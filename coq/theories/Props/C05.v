(* C05 - an @expression ends exactly where the documentation says.  Theorems only. *)
From Coq Require Import Lia.
From Ructe Require Import Nom NomFacts Utf8 Spacelike Expression TemplateExpr Template Emit Compile
                          ParserProofs SpaceProofs TextProofs ExprProofs EmitProofs RoundTrip ExprComplete FuelFacts FuelProofs.
Local Open Scope list_scope.

(* on EVERY input: the fragment taken is a non-empty, valid UTF-8 prefix of the input, and it is
   maximal -- where it ends no further postfix form (.member, ::path, (..), {..}, [..], !(..),
   ![..]) parses, so everything after that point is literal text *)
Theorem expression_sound_and_maximal : forall n i e r,
  expression (expr_gram (S n)) i = Ok e r ->
  i = e ++ r /\ e <> [] /\ utf8_valid e = true /\ exists err, postfix_alt (expr_gram n) r = Err err.
Proof. exact expression_spec. Qed.

(* completeness: the declarative grammar [XE] (Proofs/ExprComplete.v) is the documented form -- an
   optional & or * prefix; a name, number, string literal, ( ) or [ ] group; any chain of .member,
   ::path, ( ), { }, [ ], !( ), ![ ] whose groups are balanced, with string literals and block
   comments hiding the delimiters they contain and a `/` that opens no comment standing for
   itself.  `expression` takes exactly the text the grammar derives, at the fuel n of the derivation *)
Theorem expression_complete : forall n i r, XE n i r -> expression (expr_gram n) i = Ok (slice i r) r.
Proof. intros n i r H. exact (proj1 expr_complete n i r H). Qed.

(* at the fuel of the derivation and at every larger one (more fuel never changes an answer) *)
Theorem expression_complete_any_fuel : forall n m i r, XE n i r -> n <= m -> expression (expr_gram m) i = Ok (slice i r) r.
Proof.
  intros n m i r H Hm. unfold expression. rewrite (expr_gram_mono n m Hm NExpr i); [exact (proj1 expr_complete n i r H)|].
  rewrite (proj1 expr_complete n i r H). discriminate.
Qed.

(* ... and `@( .. )` scans exactly the items up to the parenthesis that closes it *)
Theorem paren_scan_complete : forall n i r, XIs false (S n) i (41%N :: r) -> utf8_valid (slice i (41%N :: r)) = true ->
  expr_inside_parens (expr_gram (S (S n))) i = Ok (slice i (41%N :: r)) (41%N :: r).
Proof. intros n i r H V. exact (inside_complete n i r H V). Qed.

(* the chain ends, and literal text begins, wherever no postfix form starts: at the end of input;
   before any byte other than . : ( { [ ! ; before a `.` or `::` that is not followed by the start
   of an expression (`@a.`, `@a.@a`, `@a. b`, `@a.<`); before a `!` not followed by ( or [ *)
Theorem chain_stops : forall n r, xstop r -> exists e, postfix_alt (fun y j => expr_gram (S (S n)) y j) r = Err e.
Proof. exact postfix_stops. Qed.

(* block comments hide whatever they contain: a body without the two bytes */ -- any delimiters,
   quotes, stars, slashes and line breaks in it, bodies ending in runs of stars included -- is taken
   exactly up to its terminator (so a group scanner steps over it as one item, XI_cmt) *)
Theorem comments_hide_delimiters : forall body rest : bytes, no_close_rc body = true ->
  rust_comment (b "/*" ++ body ++ b "*/" ++ rest) = Ok body rest.
Proof. exact rust_comment_skips. Qed.

(* string literals too: a literal without backslashes runs to the next double quote, whatever
   delimiters and comment openers it holds (escapes: derivations evaluate quoted_string; see the grid) *)
Theorem plain_string_literal : forall body rest : bytes, Forall (fun c => plain_str c = true) body ->
  utf8_valid (34%N :: body ++ [34%N]) = true ->
  quoted_string (34%N :: body ++ 34%N :: rest) = Ok (34%N :: body ++ [34%N]) rest.
Proof. exact quoted_string_plain. Qed.

(* ... and with every supported escape: a body made of maximal runs of ordinary bytes and of backslash
   pairs (apostrophe, double quote, backslash, n r t 0 x u) runs to the first unescaped double quote *)
Theorem string_literal_with_escapes : forall body rest : bytes, sbody body -> utf8_valid (34%N :: body ++ [34%N]) = true ->
  quoted_string (34%N :: body ++ 34%N :: rest) = Ok (34%N :: body ++ [34%N]) rest.
Proof. exact quoted_string_escapes. Qed.
Example a_literal_with_escapes_and_delimiters :
  sbody (b ")]}" ++ b "\""" ++ b " /* {[( " ++ b "\\" ++ b "\n" ++ b "\x41\u{7D}\'\0\r\t" ++ b "end").
Proof.
  apply (sb_run (b ")]}")); [discriminate|repeat constructor|right; eexists; reflexivity|].
  apply sb_esc; [reflexivity|]. apply (sb_run (b " /* {[( ")); [discriminate|repeat constructor|right; eexists; reflexivity|].
  apply sb_esc; [reflexivity|]. apply sb_esc; [reflexivity|]. apply sb_esc; [reflexivity|].
  apply (sb_run (b "41")); [discriminate|repeat constructor|right; eexists; reflexivity|].
  apply sb_esc; [reflexivity|]. apply (sb_run (b "{7D}")); [discriminate|repeat constructor|right; eexists; reflexivity|].
  apply sb_esc; [reflexivity|]. apply sb_esc; [reflexivity|]. apply sb_esc; [reflexivity|]. apply sb_esc; [reflexivity|].
  rewrite <- (app_nil_r (b "end")). apply sb_run; [discriminate|repeat constructor|now left|apply sb_nil].
Qed.

(* fully syntactic instances: a name is a letter or underscore followed by letters, digits and
   underscores, and ends at the first other byte; a chain of members a.b.c is taken whole when what
   follows neither continues the last name nor starts a postfix form -- e.g. before a space, `<`,
   `,`, `)`, `}` of the enclosing block, `@`, the end of the text, or a `.` that is followed by no
   expression (`@user.name.` renders the member, then a full stop) *)
Theorem name_taken_whole : forall c cs r, ident_start c = true -> Forall (fun x => ident_char x = true) cs -> name_stop r ->
  rust_name ((c :: cs) ++ r) = Ok (c :: cs) r.
Proof. exact rust_name_ident. Qed.
Theorem member_chain_taken_whole : forall segs r n, segs <> [] -> Forall is_ident segs -> name_stop r -> xstop r ->
  List.length segs + 2 <= n -> expression (expr_gram n) (dotted segs ++ r) = Ok (dotted segs) r.
Proof. exact ExprComplete.member_chain_taken_whole. Qed.
Example user_name_then_full_stop :
  expression (expr_gram 9) (dotted [b "user"; b "name_2"; b "_x"] ++ b ". Next") = Ok (b "user.name_2._x") (b ". Next").
Proof.
  apply member_chain_taken_whole; [discriminate| | | |cbn; lia].
  - assert (I : forall s, match s with c :: cs => ident_start c && forallb ident_char cs | [] => false end = true -> is_ident s).
    { intros [|c cs] H; [discriminate|]. apply andb_true_iff in H. destruct H as [H1 H2]. exists c, cs. split; [reflexivity|]. split; [exact H1|].
      apply Forall_forall. rewrite forallb_forall in H2. exact H2. }
    repeat (apply Forall_cons; [apply I; vm_compute; reflexivity|]). apply Forall_nil.
  - right. exists 46%N, (b " Next"). split; reflexivity.
  - cbn. repeat split; try discriminate; intros; try discriminate; cbn; repeat split; try discriminate.
Qed.

(* together with the template level: `@` followed by a derivable expression is one Expr node holding exactly that text *)
Theorem at_expression_complete : forall n ln m i r, XE n i r -> dispatch (64%N :: i) = Ok [] i ->
  texpr_gram (expr_gram n) ln (S m) TE (64%N :: i) = Ok (TExpr (slice i r)) r.
Proof.
  intros n ln m i r H D.
  apply (proj1 (grammar_complete (expr_gram n) (good_expr_gram n) ln) 0 _ _ _ (PI_expr _ ln 0 _ _ _ D (expression_complete n i r H))). lia.
Qed.

(* expression x follower: derivations for the documented shapes, found greedily like the parser *)
Example expression_follower_grid :
  XE 12 (b "a.@a") (b ".@a") /\ XE 12 (b "a.") (b ".") /\ XE 12 (b "a. b") (b ". b") /\ XE 12 (b "a.len()") (b "") /\
  XE 12 (b "a.b::c(d[e{f}])![g]<i>") (b "<i>") /\ XE 12 (b "f("")}]"" /* ) */)x") (b "x") /\
  XE 12 (b "&xs[1..].iter().map(|x| x / 2).len() as") (b " as") /\ XE 12 (b "n}") (b "}") /\ XE 12 (b "s,") (b ",") /\
  XE 12 (b "vec![1, 2][0]@") (b "@") /\ XE 12 (b "P{a: 3, b: 4}.a)") (b ")") /\ XE 12 (b """a\""b\\""::<") (b "::<") /\
  XIs false 9 (b "x/""s"".len() /* ) **/ + [1, 2][0])|") (b ")|").
Proof.
  repeat split;
    match goal with
    | |- XE _ ?i ?r => concrete i; concrete r; xe
    | |- XIs _ _ ?i ?r => concrete i; concrete r; xis
    end.
Qed.

Section C05.
  Variable E : nt -> parser bytes.
  Variable ln n : nat.
  Notation TEp := (texpr_gram E ln (S n) TE).

  (* `@( .. )` ends at the parenthesis that closes the group scanned by expr_inside_parens, and
     the fragment handed to rustc is the parenthesised text *)
  Theorem paren_expression : forall i e r,
    expr_inside_parens E i = Ok e (41%N :: r) ->
    TEp (b "@(" ++ i) = Ok (TExpr (b "(" ++ e ++ b ")")) r.
  Proof. intros i e r H. rewrite (paren_form_lemma E ln n). now apply paren_branch_spec. Qed.
End C05.

(* inside a group a '/' that does not start a block comment consumes exactly one byte, so an
   opening delimiter or a quote right after a division is scanned normally *)
Theorem division_is_transparent : forall c r, N.eqb c 42 = false -> slash_now (47%N :: c :: r) = Ok tt (c :: r).
Proof. exact slash_now_spec. Qed.

(* the fragment reaches rustc unmodified, exactly once *)
Theorem fragment_verbatim_once : forall (ue : N -> bool) (e : bytes),
  write_code ue (TExpr e) = e ++ b ".to_html(_ructe_out_.by_ref())?;" ++ nl.
Proof. intros. reflexivity. Qed.

(* the scanner of the pinned commit swallowed the byte after the slash *)
Lemma legacy_division_refuted : slash_legacy (b "/(y)") = Ok tt (b "y)") /\ slash_now (b "/(y)") = Ok tt (b "(y)").
Proof. exact slash_legacy_swallows. Qed.

(* the shapes the documentation names, and the repaired division witnesses, through the whole pipeline *)
Definition body_of (src : bytes) : option (list texpr) :=
  match parse_template src with Ok t [] => Some (body t) | _ => None end.
Example doc_examples :
  body_of (b "@()@a.@a") = Some [TExpr (b "a"); TText (b "."); TExpr (b "a")] /\
  body_of (b "@()@a.") = Some [TExpr (b "a"); TText (b ".")] /\
  body_of (b "@()@(a).len()") = Some [TExpr (b "(a)"); TText (b ".len()")] /\
  body_of (b "@()@a.len()") = Some [TExpr (b "a.len()")] /\
  body_of (b "@()@foo(x/(y))") = Some [TExpr (b "foo(x/(y))")] /\
  body_of (b "@()@(x/""s"".len())") = Some [TExpr (b "(x/""s"".len())")] /\
  body_of (b "@()@a.b::c(d[e{f}])![g]<i>") = Some [TExpr (b "a.b::c(d[e{f}])![g]"); TText (b "<i>")] /\
  body_of (b "@()@f("")}]"" /* ) */)x") = Some [TExpr (b "f("")}]"" /* ) */)"); TText (b "x")].
Proof. vm_compute. repeat split; reflexivity. Qed.

Redirect "assumptions/C05.expression_sound_and_maximal" Print Assumptions expression_sound_and_maximal.
Redirect "assumptions/C05.expression_complete" Print Assumptions expression_complete.
Redirect "assumptions/C05.expression_complete_any_fuel" Print Assumptions expression_complete_any_fuel.
Redirect "assumptions/C05.paren_scan_complete" Print Assumptions paren_scan_complete.
Redirect "assumptions/C05.chain_stops" Print Assumptions chain_stops.
Redirect "assumptions/C05.comments_hide_delimiters" Print Assumptions comments_hide_delimiters.
Redirect "assumptions/C05.plain_string_literal" Print Assumptions plain_string_literal.
Redirect "assumptions/C05.string_literal_with_escapes" Print Assumptions string_literal_with_escapes.
Redirect "assumptions/C05.a_literal_with_escapes_and_delimiters" Print Assumptions a_literal_with_escapes_and_delimiters.
Redirect "assumptions/C05.name_taken_whole" Print Assumptions name_taken_whole.
Redirect "assumptions/C05.member_chain_taken_whole" Print Assumptions member_chain_taken_whole.
Redirect "assumptions/C05.user_name_then_full_stop" Print Assumptions user_name_then_full_stop.
Redirect "assumptions/C05.at_expression_complete" Print Assumptions at_expression_complete.
Redirect "assumptions/C05.expression_follower_grid" Print Assumptions expression_follower_grid.
Redirect "assumptions/C05.paren_expression" Print Assumptions paren_expression.
Redirect "assumptions/C05.division_is_transparent" Print Assumptions division_is_transparent.
Redirect "assumptions/C05.fragment_verbatim_once" Print Assumptions fragment_verbatim_once.
Redirect "assumptions/C05.legacy_division_refuted" Print Assumptions legacy_division_refuted.
