(* C08 - embedded static content and names are exact.  Theorems only. *)
From Coq Require Import Lia.
From Ructe Require Import Nom Utf8 Md5 Emit Tables Static RustLit RustLitProofs StaticProofs.
Local Open Scope list_scope.

(* ByteString Display: for all byte strings the emitted b"..." literal denotes exactly the
   bytes, and ends at its closing quote whatever follows *)
Theorem bytestring_roundtrip : forall (d rest : bytes), Forall (fun c => (c < 256)%N) d ->
  lex_bytestr_lit (bytestring d ++ rest) = Some (d, rest).
Proof.
  intros d rest H. unfold bytestring. rewrite <- !app_assoc. now apply bytestr_literal_roundtrip.
Qed.

Section C08.
  Variable uni_esc uni_alnum : N -> bool.

  (* FileContent Display: include_bytes!(<path:?>) names the file that was read, for every valid
     UTF-8 path (quotes, backslashes, control characters, non-ASCII) *)
  Theorem path_literal_roundtrip : forall (p rest : bytes), utf8_valid p = true ->
    exists pre, filecontent uni_esc p ++ rest = pre ++ debug_str uni_esc p ++ (b ")" ++ rest) /\
                pre = b "include_bytes!(" /\
                lex_str_lit (debug_str uni_esc p ++ (b ")" ++ rest)) = Some (p, b ")" ++ rest).
  Proof.
    intros p rest H. exists (b "include_bytes!("). split; [unfold filecontent; now rewrite <- !app_assoc|].
    split; [reflexivity|]. now apply str_literal_roundtrip.
  Qed.

  (* the emitted `name:` literal denotes the url name character for character *)
  Theorem name_literal_roundtrip : forall (url rest : bytes), utf8_valid url = true ->
    lex_str_lit (debug_str uni_esc url ++ rest) = Some (url, rest).
  Proof. intros url rest H. now apply str_literal_roundtrip. Qed.

  (* the item emitted for every addition has exactly this shape, with the literals above *)
  Theorem item_shape : forall mm (s : statics) path rust_name url_name content suffix,
    src (add_static uni_esc uni_alnum mm s path rust_name url_name content suffix) =
      src s ++
      [10%N] ++ b "/// From " ++ debug_str uni_esc path ++ [10%N] ++
      b "#[allow(non_upper_case_globals)]" ++ [10%N] ++
      b "pub static " ++ rust_ident uni_alnum rust_name ++ b ": StaticFile = StaticFile {" ++ [10%N] ++
      b "  content: " ++ content ++ b "," ++ [10%N] ++
      b "  name: " ++ debug_str uni_esc url_name ++ b "," ++ [10%N] ++ mime_arg mm suffix ++ b "};" ++ [10%N].
  Proof. reflexivity. Qed.
End C08.

(* the `name: "{url_name}"` of the pinned commit was not a literal for the name: the witness lexes
   to a different string (and leaves garbage behind) *)
Lemma legacy_name_literal_refuted :
  let url := b "to/q""uo.txt" in
  lex_str_lit (b """" ++ url ++ b """" ++ b ",") <> Some (url, b ",").
Proof. vm_compute. discriminate. Qed.

Example bytestring_example :
  bytestring [0; 9; 10; 13; 34; 39; 92; 65; 127; 128; 255]%N = b "b""\x00\t\n\r\""\'\\A\x7f\x80\xff""".
Proof. vm_compute. reflexivity. Qed.

Redirect "assumptions/C08.bytestring_roundtrip" Print Assumptions bytestring_roundtrip.
Redirect "assumptions/C08.path_literal_roundtrip" Print Assumptions path_literal_roundtrip.
Redirect "assumptions/C08.name_literal_roundtrip" Print Assumptions name_literal_roundtrip.
Redirect "assumptions/C08.item_shape" Print Assumptions item_shape.
Redirect "assumptions/C08.legacy_name_literal_refuted" Print Assumptions legacy_name_literal_refuted.
