(* C08 - embedded static content and names are exact.  Theorems only. *)
From Coq Require Import Lia.
From Ructe Require Import Nom Utf8 Md5 Emit Tables Static RustLit RustLitProofs StaticProofs Build ScriptNI WalkNames.
Local Open Scope list_scope.

(* ByteString Display: for all byte strings the emitted b"..." literal denotes exactly the
   bytes, and ends at its closing quote whatever follows *)
Theorem bytestring_roundtrip : forall (d rest : bytes), Forall (fun c => (c < 256)%N) d ->
  lex_bytestr_lit (bytestring d ++ rest) = Some (d, rest).
Proof.
  intros d rest H. unfold bytestring. rewrite <- !app_assoc. now apply bytestr_literal_roundtrip.
Qed.

Section C08.
  Variable uni_esc uni_alnum : N -> bool.

  (* FileContent Display: include_bytes!(<path:?>) names the file that was read, for every valid
     UTF-8 path (quotes, backslashes, control characters, non-ASCII) *)
  Theorem path_literal_roundtrip : forall (p rest : bytes), utf8_valid p = true ->
    exists pre, filecontent uni_esc p ++ rest = pre ++ debug_str uni_esc p ++ (b ")" ++ rest) /\
                pre = b "include_bytes!(" /\
                lex_str_lit (debug_str uni_esc p ++ (b ")" ++ rest)) = Some (p, b ")" ++ rest).
  Proof.
    intros p rest H. exists (b "include_bytes!("). split; [unfold filecontent; now rewrite <- !app_assoc|].
    split; [reflexivity|]. now apply str_literal_roundtrip.
  Qed.

  (* the emitted `name:` literal denotes the url name character for character *)
  Theorem name_literal_roundtrip : forall (url rest : bytes), utf8_valid url = true ->
    lex_str_lit (debug_str uni_esc url ++ rest) = Some (url, rest).
  Proof. intros url rest H. now apply str_literal_roundtrip. Qed.

  (* the item emitted for every addition has exactly this shape, with the literals above *)
  Theorem item_shape : forall mm (s : statics) path rust_name url_name content suffix,
    src (add_static uni_esc uni_alnum mm s path rust_name url_name content suffix) =
      src s ++
      [10%N] ++ b "/// From " ++ debug_str uni_esc path ++ [10%N] ++
      b "#[allow(non_upper_case_globals)]" ++ [10%N] ++
      b "pub static " ++ rust_ident uni_alnum rust_name ++ b ": StaticFile = StaticFile {" ++ [10%N] ++
      b "  content: " ++ content ++ b "," ++ [10%N] ++
      b "  name: " ++ debug_str uni_esc url_name ++ b "," ++ [10%N] ++ mime_arg mm suffix ++ b "};" ++ [10%N].
  Proof. reflexivity. Qed.
End C08.

(* add_files_as: the recursive walk is one add_file_as per file below the directory, in walk order
   (`rels`: the relative paths, sub-directories followed at any depth), each read from
   directory + "/" + relative path and published under  prefix + "/" + relative path  when the prefix
   is not empty -- whatever the prefix ends in -- and under the relative path alone when it is
   (`pfx`); each appends one item of the shape above carrying that name.  Stated for the call as a
   build script makes it (the model's fuel, the depth of the whole input tree, is enough). *)
Theorem add_files_as_publishes_prefix_slash_path : forall (uni_esc uni_alnum : N -> bool) mm tree base s rel to s',
  do_scall uni_esc uni_alnum mm tree base s (SAddFilesAs rel to) = Some s' ->
  exists es, find_node tree (split_path rel []) = Some (Dir es) /\
    (named (S (dmax es)) es = true ->
     exists l, st s' = fold_left (publish uni_esc uni_alnum mm) l (st s) /\
               src (st s') = src (st s) ++ flat_map (item_of uni_esc uni_alnum mm) l /\
               map snd l = map (pfx to) (rels (S (dmax es)) es) /\
               map fst l = map (fun r => path_for base rel ++ [47%N] ++ r) (rels (S (dmax es)) es)).
Proof. exact script_add_files_as_spec. Qed.

(* the same for the function itself, for any fuel that covers the directory *)
Theorem add_files_as_is_a_walk : forall (uni_esc uni_alnum : N -> bool) mm fuel s dir to es,
  S (dmax es) <= fuel -> named (S (dmax es)) es = true ->
  exists l, st (add_files_as uni_esc uni_alnum mm fuel s dir to es) = fold_left (publish uni_esc uni_alnum mm) l (st s) /\
            src (st (add_files_as uni_esc uni_alnum mm fuel s dir to es)) = src (st s) ++ flat_map (item_of uni_esc uni_alnum mm) l /\
            map snd l = map (pfx to) (rels (S (dmax es)) es) /\
            map fst l = map (fun r => dir ++ [47%N] ++ r) (rels (S (dmax es)) es).
Proof. exact add_files_as_spec. Qed.

(* the rule on a concrete tree: a file, a sub-directory with a file and a deeper one; the prefixes
   "", "lib", and "lib/" (which keeps its own slash: lib//app.js) *)
Example a_walk_and_its_names :
  let es := [(b "app.js", File (b "1")); (b "sub", Dir [(b "deep.css", File []); (b "more", Dir [(b "x.txt", File (b "x"))])])] in
  named (S (dmax es)) es = true /\
  rels (S (dmax es)) es = [b "app.js"; b "sub/deep.css"; b "sub/more/x.txt"] /\
  map (pfx []) (rels (S (dmax es)) es) = [b "app.js"; b "sub/deep.css"; b "sub/more/x.txt"] /\
  map (pfx (b "lib")) (rels (S (dmax es)) es) = [b "lib/app.js"; b "lib/sub/deep.css"; b "lib/sub/more/x.txt"] /\
  map (pfx (b "lib/")) (rels (S (dmax es)) es) = [b "lib//app.js"; b "lib//sub/deep.css"; b "lib//sub/more/x.txt"] /\
  map snd (walk (S (dmax es)) (b "st") (b "lib/") es) = [b "lib//app.js"; b "lib//sub/deep.css"; b "lib//sub/more/x.txt"] /\
  map fst (walk (S (dmax es)) (b "st") (b "lib/") es) = [b "st/app.js"; b "st/sub/deep.css"; b "st/sub/more/x.txt"].
Proof. vm_compute. repeat split; reflexivity. Qed.

(* the `name: "{url_name}"` of the pinned commit was not a literal for the name: the witness lexes
   to a different string (and leaves garbage behind) *)
Lemma legacy_name_literal_refuted :
  let url := b "to/q""uo.txt" in
  lex_str_lit (b """" ++ url ++ b """" ++ b ",") <> Some (url, b ",").
Proof. vm_compute. discriminate. Qed.

Example bytestring_example :
  bytestring [0; 9; 10; 13; 34; 39; 92; 65; 127; 128; 255]%N = b "b""\x00\t\n\r\""\'\\A\x7f\x80\xff""".
Proof. vm_compute. reflexivity. Qed.

Redirect "assumptions/C08.bytestring_roundtrip" Print Assumptions bytestring_roundtrip.
Redirect "assumptions/C08.path_literal_roundtrip" Print Assumptions path_literal_roundtrip.
Redirect "assumptions/C08.name_literal_roundtrip" Print Assumptions name_literal_roundtrip.
Redirect "assumptions/C08.item_shape" Print Assumptions item_shape.
Redirect "assumptions/C08.legacy_name_literal_refuted" Print Assumptions legacy_name_literal_refuted.
Redirect "assumptions/C08.add_files_as_publishes_prefix_slash_path" Print Assumptions add_files_as_publishes_prefix_slash_path.
Redirect "assumptions/C08.add_files_as_is_a_walk" Print Assumptions add_files_as_is_a_walk.
Redirect "assumptions/C08.a_walk_and_its_names" Print Assumptions a_walk_and_its_names.
