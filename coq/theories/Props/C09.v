(* C09 - STATICS is complete and sorted; lookup by name is exact.  Theorems only. *)
From Coq Require Import Lia Permutation.
From Ructe Require Import Nom Utf8 Md5 Emit Tables Static StaticProofs MapProofs Build ScriptNI PlanPaths WalkNames.
Local Open Scope list_scope.

Section C09.
  Variable uni_esc uni_alnum : N -> bool.
  Variable mm : mime_mode.
  Variable header : bytes.
  Notation run := (run_ops uni_esc uni_alnum mm header).
  Notation pubs := (pubs uni_alnum).

  (* after ANY sequence of additions the names of STATICS (the keys of names_r, in the order the
     STATICS line lists them) are strictly ascending in byte order *)
  Theorem statics_sorted : forall ops : list sop, ssorted (map fst (names_r (run ops))).
  Proof. intros ops. exact (proj1 (run_sorted uni_esc uni_alnum mm header ops)). Qed.

  (* ... and, when the published url names are pairwise distinct, they are exactly the url names
     of the added files, each once *)
  Theorem statics_complete : forall ops : list sop,
    NoDup (map snd (pubs ops)) -> Permutation (map fst (names_r (run ops))) (map snd (pubs ops)).
  Proof. exact (run_complete uni_esc uni_alnum mm header). Qed.

  (* the branch-free binary search of core::slice on a strictly sorted list finds exactly the members *)
  Theorem binary_search_correct : forall (keys : list bytes) (key : bytes), ssorted keys ->
    match binary_search keys key with
    | Some i => i < length keys /\ nth i keys [] = key
    | None => ~ In key keys
    end.
  Proof. exact binary_search_correct_lemma. Qed.

  (* StaticFile::get(n) returns the entry whose name is n when such a file was added, and None
     for every other string (distinct identifiers and url names, as the property's quantifier says) *)
  Theorem get_exact : forall (ops : list sop) (n : bytes),
    NoDup (map fst (pubs ops)) -> NoDup (map snd (pubs ops)) ->
    (forall id, In (id, n) (pubs ops) -> statics_get (run ops) n = Some (n, id)) /\
    (~ In n (map snd (pubs ops)) -> statics_get (run ops) n = None).
  Proof. exact (get_exact_lemma uni_esc uni_alnum mm header). Qed.

  (* the directory-walking entry points are sequences of those additions: after add_files_as the
     state is that of the earlier additions followed by one add_file_as per file below the directory
     (at any depth, `walk`), after add_files by one add_file per file directly in it (`direct_files`;
     sub-directories are not entered) -- so the theorems above, which hold for ANY sequence, cover
     build scripts that use them *)
  Theorem directory_walks_are_addition_sequences : forall ops s, st s = run ops ->
    (forall fuel dir to es, S (dmax es) <= fuel ->
       st (add_files_as uni_esc uni_alnum mm fuel s dir to es) = run (ops ++ ops_as (walk (S (dmax es)) dir to es))) /\
    (forall dir es,
       st (add_files uni_esc uni_alnum mm s dir es) = run (ops ++ ops_hashed dir (direct_files es))).
  Proof. exact (walks_extend_a_run uni_esc uni_alnum mm header). Qed.

  (* ... and for a walk over a well-formed directory (every listing holds distinct, non-empty names without '/', as a file
     system gives them) the published names are pairwise distinct, so STATICS of a fresh StaticFiles after add_files_as
     lists exactly prefix + "/" + relative path of every file below the directory, each once *)
  Theorem add_files_as_lists_every_file_once : forall s fuel dir to es, st s = empty_statics header ->
    S (dmax es) <= fuel -> named (S (dmax es)) es = true -> wf_es es ->
    Permutation (map fst (names_r (st (add_files_as uni_esc uni_alnum mm fuel s dir to es))))
                (map (pfx to) (rels (S (dmax es)) es)).
  Proof. exact (walk_statics_complete uni_esc uni_alnum mm header). Qed.
End C09.

(* the restriction to distinct url names is visible: two files with different identifiers and the
   same url name shadow each other in STATICS *)
Example same_url_shadows :
  let ops := [OpFileAs (b "p/a.js") (b "x.js"); OpFileAs (b "q/b.js") (b "x.js")] in
  map fst (names_r (run_ops (fun _ => false) (fun _ => false) MNone [] ops)) = [b "x.js"].
Proof. vm_compute. reflexivity. Qed.
Example get_example :
  let s := run_ops (fun _ => false) (fun _ => false) MNone []
             [OpData (b "b.css") (b "x"); OpFileAs (b "p/a.js") (b "to/a.js"); OpData (b "a.css") []] in
  map fst (names_r s) = [b "a-1B2M2Y8A.css"; b "b-ndTkYSaM.css"; b "to/a.js"] /\
  statics_get s (b "to/a.js") = Some (b "to/a.js", b "to_a_js") /\ statics_get s (b "to/a.j") = None.
Proof. vm_compute. repeat split; reflexivity. Qed.

(* a directory with a file, a sub-directory and a file in it: add_files takes the one direct file,
   add_files_as all of them; STATICS lists the published names in byte order *)
Example walks_example :
  let es := [(b "z.css", File (b "x")); (b "m", Dir [(b "a.js", File [])])] in
  let s0 := {| st := empty_statics []; sw := {| plan := []; out := []; reads := [] |} |} in
  direct_files es = [(b "z.css", b "x")] /\
  walk (S (dmax es)) (b "st") (b "v1") es = [(b "st/z.css", b "v1/z.css"); (b "st/m/a.js", b "v1/m/a.js")] /\
  map fst (names_r (st (add_files_as (fun _ => false) (fun _ => false) MNone 5 s0 (b "st") (b "v1") es))) = [b "v1/m/a.js"; b "v1/z.css"] /\
  map fst (names_r (st (add_files (fun _ => false) (fun _ => false) MNone s0 (b "st") es))) = [b "z-ndTkYSaM.css"].
Proof. vm_compute. repeat split; reflexivity. Qed.

(* the hypotheses of add_files_as_lists_every_file_once hold for the tree of walks_example *)
Example a_well_formed_tree :
  let es := [(b "z.css", File (b "x")); (b "m", Dir [(b "a.js", File [])])] in
  wf_es es /\ named (S (dmax es)) es = true.
Proof.
  cbv zeta. split; [|vm_compute; reflexivity].
  assert (Hin : wf_es [(b "a.js", File [])]).
  { constructor.
    - cbn [map fst]. constructor; [intros []|constructor].
    - intros n x [[= <- <-]|[]]. vm_compute. intuition discriminate.
    - intros n sub [[= ]|[]]. }
  constructor.
  - cbn [map fst]. constructor; [|constructor; [intros []|constructor]]. intros [E|[]]. vm_compute in E. discriminate.
  - intros n x [[= <- <-]|[[= <- <-]|[]]]; vm_compute; intuition discriminate.
  - intros n sub [[= ]|[[= <- <-]|[]]]. exact Hin.
Qed.

Redirect "assumptions/C09.statics_sorted" Print Assumptions statics_sorted.
Redirect "assumptions/C09.statics_complete" Print Assumptions statics_complete.
Redirect "assumptions/C09.binary_search_correct" Print Assumptions binary_search_correct.
Redirect "assumptions/C09.get_exact" Print Assumptions get_exact.
Redirect "assumptions/C09.directory_walks_are_addition_sequences" Print Assumptions directory_walks_are_addition_sequences.
Redirect "assumptions/C09.walks_example" Print Assumptions walks_example.
Redirect "assumptions/C09.add_files_as_lists_every_file_once" Print Assumptions add_files_as_lists_every_file_once.
Redirect "assumptions/C09.a_well_formed_tree" Print Assumptions a_well_formed_tree.
