(* C06 - explicitly raw output is emitted verbatim, exactly once.  Theorems only. *)
From Ructe Require Import Tables Io IoProofs EscapeProofs TableChecks.

(* Html(v): every chunking, every schedule: the sink receives a prefix of the Display text
   itself (no escaping), and all of it when the call succeeds *)
Theorem html_raw_prefix : forall (ps : list bytes) (s s' : sink) (r : outcome),
  to_html_raw ps s = (s', r) ->
  exists p, log s' = log s ++ p /\ prefix p (concat ps) /\ (r = Done -> p = concat ps).
Proof. exact to_html_raw_prefix. Qed.

Theorem html_raw_no_fault : forall (ps : list bytes) (s s' : sink) (r : outcome),
  to_html_raw ps s = (s', r) ->
  r <> OutOfFuel /\ (no_fault (sched s) -> r = Done /\ log s' = log s ++ concat ps).
Proof.
  intros ps s s' r H.
  destruct (to_html_fuel_and_completion entities_nonempty_ok (VRaw ps) s s' r H) as [A B].
  split; [exact A|]. intros F. specialize (B F). split; [exact B|].
  destruct (to_html_raw_prefix ps s s' r H) as [p [L [_ S]]]. now rewrite L, (S B).
Qed.

(* to_buffer holds exactly the bytes to_html writes to an accept-all sink, for Display values,
   Html(..) values and buffers alike *)
Theorem to_buffer_eq_to_html : forall (v : hval) (pre : bytes),
  to_buffer v = Some (rendering v) /\
  exists s', to_html v {| sched := []; log := pre |} = (s', Done) /\ log s' = pre ++ rendering v.
Proof.
  intros v pre. split; [exact (to_buffer_rendering entities_nonempty_ok v)|].
  destruct (to_html v {| sched := []; log := pre |}) as [s' r] eqn:E.
  destruct (to_html_fuel_and_completion entities_nonempty_ok _ _ _ _ E) as [_ C]. specialize (C I). subst r.
  destruct (to_html_prefix_all _ _ _ _ E) as [p [L [_ S]]]. exists s'. split; [reflexivity|].
  now rewrite L, (S eq_refl).
Qed.

(* both PartialEq instances are byte equality *)
Theorem buffer_eq_is_equality : forall a c : bytes, buffer_eq a c = true <-> a = c.
Proof. exact buffer_eq_spec. Qed.

(* a buffer interpolated again is written verbatim under every schedule - never escaped a second
   time - hence to_buffer is idempotent *)
Theorem buffer_not_reescaped : forall (v : hval) (b : bytes), to_buffer v = Some b ->
  (forall s s' r, to_html (VBuffer b) s = (s', r) ->
     exists p, log s' = log s ++ p /\ prefix p b /\ (r = Done -> p = b)) /\
  to_buffer (VBuffer b) = Some b.
Proof.
  intros v b _. split.
  - intros s s' r H. exact (to_html_buffer_prefix b s s' r H).
  - exact (to_buffer_rendering entities_nonempty_ok (VBuffer b)).
Qed.

Example raw_not_escaped :
  to_html (VRaw [[60;97]%N; [62]%N]) {| sched := [Accept 1; Interrupted]; log := [] |}
  = ({| sched := []; log := [60;97;62]%N |}, Done).
Proof. vm_compute. reflexivity. Qed.
Example buffer_of_buffer :
  to_buffer (VDisplay [[60]%N]) = Some [38;108;116;59]%N /\
  to_buffer (VBuffer [38;108;116;59]%N) = Some [38;108;116;59]%N.
Proof. split; vm_compute; reflexivity. Qed.

Redirect "assumptions/C06.html_raw_prefix" Print Assumptions html_raw_prefix.
Redirect "assumptions/C06.html_raw_no_fault" Print Assumptions html_raw_no_fault.
Redirect "assumptions/C06.to_buffer_eq_to_html" Print Assumptions to_buffer_eq_to_html.
Redirect "assumptions/C06.buffer_eq_is_equality" Print Assumptions buffer_eq_is_equality.
Redirect "assumptions/C06.buffer_not_reescaped" Print Assumptions buffer_not_reescaped.
