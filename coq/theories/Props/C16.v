(* C16 - static files get valid, predictable Rust identifiers.  Theorems only. *)
From Coq Require Import Lia.
From Ructe Require Import Nom Utf8 Md5 Emit Tables Static StaticProofs MapProofs.
Local Open Scope list_scope.

Section C16.
  Variable uni_esc uni_alnum : N -> bool.

  (* every ASCII name: each non-alphanumeric character becomes `_`, a leading digit (or an empty
     name) gets the `n` prefix, and the result matches [A-Za-z_][A-Za-z0-9_]* *)
  Theorem mangle_ascii_legal : forall s : bytes, is_ascii s = true ->
    rust_ident uni_alnum s =
      match map subst_ident s with
      | [] => [110%N]
      | c :: r => if is_digit c then 110%N :: c :: r else c :: r
      end /\
    ident_ok (rust_ident uni_alnum s) = true.
  Proof. intros s H. split; [exact (rust_ident_ascii uni_alnum s H)|exact (rust_ident_ascii_legal uni_alnum s H)]. Qed.

  (* the hashed entry points derive the identifier from stem_ext: it contains `_` and has at
     least two characters, so it is neither the reserved `_` nor a keyword *)
  Theorem mangle_hashed_not_keyword : forall stem ext : bytes, stem <> [] ->
    is_ascii (stem ++ 95%N :: ext) = true ->
    let r := rust_ident uni_alnum (stem ++ 95%N :: ext) in
    In 95%N r /\ 2 <= length r /\ ~ In r rust_keywords.
  Proof.
    intros stem ext Hs H r.
    destruct (rust_ident_hashed_has_underscore uni_alnum stem ext Hs H) as [A B].
    split; [exact A|]. split; [exact B|]. now apply not_keyword_if_underscore.
  Qed.

  (* get_names() maps the identifier of every file added so far to its published url name
     (pairwise distinct identifiers and url names) *)
  Theorem names_map_tracks : forall mm header (ops : list sop),
    NoDup (map fst (pubs uni_alnum ops)) -> NoDup (map snd (pubs uni_alnum ops)) ->
    forall id url, In (id, url) (pubs uni_alnum ops) ->
      lookup id (names (run_ops uni_esc uni_alnum mm header ops)) = Some url.
  Proof.
    intros mm header ops N1 N2 id url I.
    exact (proj2 (run_lookup uni_esc uni_alnum mm header ops N1 N2 id url I)).
  Qed.
End C16.

Example ident_examples :
  rust_ident (fun _ => false) (b "17_css") = b "n17_css" /\
  rust_ident (fun _ => false) (b "a-b.c d_js") = b "a_b_c_d_js" /\
  rust_ident (fun _ => false) (b "to/x.y") = b "to_x_y" /\ rust_ident (fun _ => false) [] = b "n".
Proof. vm_compute. repeat split; reflexivity. Qed.

Redirect "assumptions/C16.mangle_ascii_legal" Print Assumptions mangle_ascii_legal.
Redirect "assumptions/C16.mangle_hashed_not_keyword" Print Assumptions mangle_hashed_not_keyword.
Redirect "assumptions/C16.names_map_tracks" Print Assumptions names_map_tracks.
