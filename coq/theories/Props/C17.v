(* C17 - every input is announced to cargo for rebuild tracking.  Theorems only. *)
From Coq Require Import Lia.
From Ructe Require Import Nom Utf8 Emit Compile Md5 Static Tables Build MapProofs BuildProofs.
Local Open Scope list_scope.

Section C17.
  Variable uni_esc uni_alnum : N -> bool.
  Variable compile : bytes -> bytes -> coutcome.
  Variable utils_src statics_header : bytes.
  Variable mm : mime_mode.

  (* every input tree and every build-script program over compile_templates, add_file, add_files,
     add_file_as, add_files_as (recursive) and add_sass_file: every path the run reads or lists --
     template directories and sub-directories, template files, static directories at every level,
     static files, the sass file -- has its own cargo:rerun-if-changed line on stdout *)
  Theorem reads_are_announced : forall (tree : node) (base : bytes) (cs : list call) (p : bytes),
    let w := fst (run_script uni_esc uni_alnum compile utils_src statics_header mm tree base cs) in
    In p (reads w) -> In (Line (b "cargo:rerun-if-changed=" ++ p)) (out w).
  Proof. intros tree base cs p w I. exact (Ann_run_script uni_esc uni_alnum compile utils_src statics_header mm tree base cs p I). Qed.
End C17.

(* non-vacuity, and the walked directory of add_files_as in particular (the defect fixed in
   cc40dba): the directory and its sub-directory are both read and both announced *)
Example add_files_as_announces_directories :
  let tree := Dir [(b "st", Dir [(b "a.css", File (b "x")); (b "img", Dir [(b "l.png", File (b "y"))])])] in
  let w := fst (run_script (fun _ => false) (fun _ => false) (fun _ _ => Panicked) [] [] MNone tree (b "/base")
                           [PStatics [SAddFilesAs (b "st") (b "pre")]]) in
  reads w = [b "/base/st"; b "/base/st/a.css"; b "/base/st/img"; b "/base/st/img/l.png"] /\
  out w = [Line (b "cargo:rerun-if-changed=/base/st"); Line (b "cargo:rerun-if-changed=/base/st/a.css");
           Line (b "cargo:rerun-if-changed=/base/st/img"); Line (b "cargo:rerun-if-changed=/base/st/img/l.png")].
Proof. vm_compute. split; reflexivity. Qed.

Redirect "assumptions/C17.reads_are_announced" Print Assumptions reads_are_announced.
