(* C17 - every input is announced to cargo for rebuild tracking.  Theorems only. *)
From Coq Require Import Lia.
From Ructe Require Import Nom Utf8 Emit Compile Md5 Static Tables Build MapProofs BuildProofs NonInterference ScriptNI.
Local Open Scope list_scope.

Section C17.
  Variable uni_esc uni_alnum : N -> bool.
  Variable compile : bytes -> bytes -> coutcome.
  Variable utils_src statics_header : bytes.
  Variable mm : mime_mode.

  (* every input tree and every build-script program over compile_templates, add_file, add_files,
     add_file_as, add_files_as (recursive) and add_sass_file: every path the run reads or lists --
     template directories and sub-directories, template files, static directories at every level,
     static files, the sass file -- has its own cargo:rerun-if-changed line on stdout *)
  Theorem reads_are_announced : forall (tree : node) (base : bytes) (cs : list call) (p : bytes),
    let w := fst (run_script uni_esc uni_alnum compile utils_src statics_header mm tree base cs) in
    In p (reads w) -> In (Line (b "cargo:rerun-if-changed=" ++ p)) (out w).
  Proof. intros tree base cs p w I. exact (Ann_run_script uni_esc uni_alnum compile utils_src statics_header mm tree base cs p I). Qed.

  (* the converse: what is not announced cannot influence the output.  compile_templates sees a
     directory only through the names and kinds of its entries, the content of template files
     (UTF-8 name with a template suffix) and, recursively, the same of sub-directories with a UTF-8
     name: erasing everything else -- other files' contents, whatever lies below a skipped
     directory -- leaves the result (generated files, stdout, read set, success) unchanged ... *)
  Theorem unannounced_inputs_cannot_matter : forall fuel w f indir outdir es,
    handle_entries uni_esc compile fuel w f indir outdir es =
    handle_entries uni_esc compile fuel w f indir outdir (erase_es es).
  Proof. exact (handle_entries_erase uni_esc compile). Qed.

  (* ... and the paths that survive the erasure -- the visited sub-directories and the template
     files -- are exactly what a successful walk records as read (each of them announced, by the
     theorem above; the directory given to compile_templates itself is announced by the caller) *)
  Theorem reads_are_exactly_what_is_looked_at : forall fuel w f indir outdir es w' f',
    handle_entries uni_esc compile fuel w f indir outdir es = BOk _ (w', f') ->
    reads w' = reads w ++ reads_t fuel indir es.
  Proof. exact (reads_handle_entries uni_esc compile). Qed.

  (* add_files reads the regular files of one directory that have an extension: sub-directories
     are not entered, files without an extension are skipped unread *)
  Theorem add_files_ignores_what_it_skips : forall s dir es,
    add_files uni_esc uni_alnum mm s dir es = add_files uni_esc uni_alnum mm s dir (erase_files dir es).
  Proof. exact (add_files_erase uni_esc uni_alnum mm). Qed.

  (* add_files_as embeds by path (include_bytes!): only the names and kinds of the entries reach the
     generated text and the announcements, never the contents *)
  Theorem add_files_as_depends_on_names_only : forall fuel s dir to es,
    add_files_as uni_esc uni_alnum mm fuel s dir to es = add_files_as uni_esc uni_alnum mm fuel s dir to (shape_es es).
  Proof. exact (add_files_as_shape uni_esc uni_alnum mm). Qed.

  (* what the static walkers read -- and announce, by reads_are_announced -- is exactly what their
     views keep: add_files the directory and its regular files with an extension; add_files_as the
     directory, every regular file below it and every sub-directory *)
  Theorem add_files_reads_its_view : forall s dir es,
    reads (sw (add_files uni_esc uni_alnum mm s dir es)) = reads (sw s) ++ dir :: reads_files dir es.
  Proof. exact (reads_add_files uni_esc uni_alnum mm). Qed.
  Theorem add_files_as_reads_its_view : forall fuel s dir to es,
    reads (sw (add_files_as uni_esc uni_alnum mm fuel s dir to es)) = reads (sw s) ++ reads_as fuel dir es.
  Proof. exact (reads_add_files_as uni_esc uni_alnum mm). Qed.

  (* whole scripts: two input trees on which every call of the program finds the same view -- for
     compile_templates the erasure of its directory (entry names and kinds in order, contents of
     template files, recursively below UTF-8 named directories), for add_files the erasure of that
     one directory, for add_files_as the shape below it, for add_file the content, for add_file_as
     the existence of the file -- give the same writes, the same stdout, the same reads and the
     same result.  Everything in a view is listed or read by that call, hence announced
     (reads_are_announced); so a difference between two trees that changes anything the run produces
     is a difference in something announced *)
  Theorem whole_script_depends_on_views_only : forall (t1 t2 : node) (base : bytes) (cs : list call),
    Forall (agree_call t1 t2 base) cs ->
    run_script uni_esc uni_alnum compile utils_src statics_header mm t1 base cs =
    run_script uni_esc uni_alnum compile utils_src statics_header mm t2 base cs.
  Proof. exact (script_noninterference uni_esc uni_alnum compile utils_src statics_header mm). Qed.
End C17.

(* non-vacuity: two trees of different depth that differ in a file no call looks at, in the content
   of a file add_files_as embeds by path, in a file add_files skips, and agree for a four-call program *)
Example trees_that_agree_for_a_program :
  let t1 := Dir [(b "t", Dir [(b "a.rs.html", File (b "T")); (b "README", File (b "one"))]);
                 (b "st", Dir [(b "a.css", File (b "x")); (b "Makefile", File (b "m1")); (b "d", Dir [(b "deep", Dir [])])]);
                 (b "img", Dir [(b "l.png", File (b "p1"))]); (b "elsewhere", File (b "1"))] in
  let t2 := Dir [(b "t", Dir [(b "a.rs.html", File (b "T")); (b "README", File (b "two"))]);
                 (b "st", Dir [(b "a.css", File (b "x")); (b "Makefile", File (b "m2")); (b "d", Dir [])]);
                 (b "img", Dir [(b "l.png", File (b "p2, other bytes"))]);
                 (b "other", Dir [(b "x", Dir [(b "y", Dir [(b "z", File [])])])])] in
  let cs := [PCompile (b "t"); PStatics [SAddFiles (b "st"); SAddFilesAs (b "img") (b "i"); SAddFileAs (b "img/l.png") (b "logo.png")]] in
  Forall (agree_call t1 t2 (b "/base")) cs /\ depth t1 <> depth t2.
Proof. split; [|vm_compute; discriminate]. repeat constructor; vm_compute; reflexivity. Qed.

(* non-vacuity: two trees that differ in a non-template file, in a file below a directory whose
   name is not UTF-8, and in nothing that is announced *)
Example unannounced_differences :
  let t1 := [(b "a.rs.html", File (b "T")); (b "notes.txt", File (b "one")); ([255%N], Dir [(b "x.rs.html", File (b "P"))])] in
  let t2 := [(b "a.rs.html", File (b "T")); (b "notes.txt", File (b "two, longer")); ([255%N], Dir [(b "y.rs.html", File (b "Q")); (b "z", Dir [])])] in
  erase_es t1 = erase_es t2 /\ t1 <> t2.
Proof. split; [vm_compute; reflexivity|discriminate]. Qed.

(* non-vacuity, and the walked directory of add_files_as in particular (the defect fixed in
   cc40dba): the directory and its sub-directory are both read and both announced *)
Example add_files_as_announces_directories :
  let tree := Dir [(b "st", Dir [(b "a.css", File (b "x")); (b "img", Dir [(b "l.png", File (b "y"))])])] in
  let w := fst (run_script (fun _ => false) (fun _ => false) (fun _ _ => Panicked) [] [] MNone tree (b "/base")
                           [PStatics [SAddFilesAs (b "st") (b "pre")]]) in
  reads w = [b "/base/st"; b "/base/st/a.css"; b "/base/st/img"; b "/base/st/img/l.png"] /\
  out w = [Line (b "cargo:rerun-if-changed=/base/st"); Line (b "cargo:rerun-if-changed=/base/st/a.css");
           Line (b "cargo:rerun-if-changed=/base/st/img"); Line (b "cargo:rerun-if-changed=/base/st/img/l.png")].
Proof. vm_compute. split; reflexivity. Qed.

Redirect "assumptions/C17.reads_are_announced" Print Assumptions reads_are_announced.
Redirect "assumptions/C17.unannounced_inputs_cannot_matter" Print Assumptions unannounced_inputs_cannot_matter.
Redirect "assumptions/C17.reads_are_exactly_what_is_looked_at" Print Assumptions reads_are_exactly_what_is_looked_at.
Redirect "assumptions/C17.add_files_ignores_what_it_skips" Print Assumptions add_files_ignores_what_it_skips.
Redirect "assumptions/C17.add_files_as_depends_on_names_only" Print Assumptions add_files_as_depends_on_names_only.
Redirect "assumptions/C17.add_files_reads_its_view" Print Assumptions add_files_reads_its_view.
Redirect "assumptions/C17.add_files_as_reads_its_view" Print Assumptions add_files_as_reads_its_view.
Redirect "assumptions/C17.whole_script_depends_on_views_only" Print Assumptions whole_script_depends_on_views_only.
Redirect "assumptions/C17.trees_that_agree_for_a_program" Print Assumptions trees_that_agree_for_a_program.
Redirect "assumptions/C17.unannounced_differences" Print Assumptions unannounced_differences.
