(* C12 - incremental output equals a clean build; unchanged files are untouched.  Theorems only. *)
From Coq Require Import Lia.
From Ructe Require Import Nom Utf8 Emit Compile Md5 Static Tables Build MapProofs BuildProofs PlanPaths TreeMirror.
Local Open Scope list_scope.

(* write_if_changed: afterwards the path holds the content and no other path changed; a physical
   write happens iff the path did not already hold exactly that content (read_to_string fails on
   non-UTF-8, so garbage and truncations compare unequal) *)
Theorem write_if_changed_spec : forall (fs : list (bytes * bytes)) (p c : bytes),
  let '(fs', wrote) := wic_step fs p c in
  fs_get p fs' = Some c /\
  (forall q, q <> p -> fs_get q fs' = fs_get q fs) /\
  (wrote = false <-> (fs_get p fs = Some c /\ utf8_valid c = true)) /\
  (wrote = false -> fs' = fs).
Proof. exact wic_step_spec. Qed.

Section C12.
  Variable uni_esc uni_alnum : N -> bool.
  Variable compile : bytes -> bytes -> coutcome.
  Variable utils_src statics_header : bytes.
  Variable mm : mime_mode.
  Notation script := (run_script uni_esc uni_alnum compile utils_src statics_header mm).
  Notation build := (run_build uni_esc uni_alnum compile utils_src statics_header mm).

  (* the list of (path, content) pairs a run hands to write_if_changed, its stdout and its result
     are functions of the inputs only: run_build is exec_plan applied to a plan computed without
     any reference to the prior OUT_DIR *)
  Theorem write_plan_independent_of_outdir : forall tree base cs fs0,
    let w := fst (script tree base cs) in
    r_fs (build tree base fs0 cs) = fst (exec_plan fs0 (plan w)) /\
    r_writes (build tree base fs0 cs) = snd (exec_plan fs0 (plan w)) /\
    r_out (build tree base fs0 cs) = render_out (out w) /\
    r_ok (build tree base fs0 cs) = snd (script tree base cs).
  Proof.
    intros tree base cs fs0 w. unfold run_build. subst w.
    destruct (script tree base cs) as [w ok]. cbn [fst snd].
    destruct (exec_plan fs0 (plan w)) as [fs1 ws]. cbn. tauto.
  Qed.

  (* whatever OUT_DIR held before (results of earlier builds, truncated files, garbage: every fs0),
     each file the run generates ends up with the same content as in a build into an empty directory *)
  Theorem generated_files_equal_clean_build : forall tree base cs fs0 p,
    In p (map fst (plan (fst (script tree base cs)))) ->
    fs_get p (r_fs (build tree base fs0 cs)) = fs_get p (r_fs (build tree base [] cs)).
  Proof.
    intros tree base cs fs0 p I.
    destruct (write_plan_independent_of_outdir tree base cs fs0) as [E _].
    destruct (write_plan_independent_of_outdir tree base cs []) as [E0 _].
    cbv zeta in E, E0. rewrite E, E0. now apply planned_independent.
  Qed.

  (* a run whose inputs have not changed rewrites no file: running the same script again on its
     own result performs no physical write (planned paths pairwise distinct; contents are Rust
     Strings, i.e. valid UTF-8) *)
  Theorem second_run_writes_nothing : forall tree base cs fs0,
    let pl := plan (fst (script tree base cs)) in
    NoDup (map fst pl) -> Forall (fun pc => utf8_valid (snd pc) = true) pl ->
    r_writes (build tree base (r_fs (build tree base fs0 cs)) cs) = [] /\
    r_fs (build tree base (r_fs (build tree base fs0 cs)) cs) = r_fs (build tree base fs0 cs).
  Proof.
    intros tree base cs fs0 pl ND V.
    destruct (write_plan_independent_of_outdir tree base cs fs0) as [E _]. cbv zeta in E. fold pl in E.
    destruct (write_plan_independent_of_outdir tree base cs (r_fs (build tree base fs0 cs))) as [E2 [W2 _]].
    cbv zeta in E2, W2. fold pl in E2, W2. rewrite E in E2, W2.
    rewrite (second_run_noop pl fs0 ND V) in E2, W2. cbn [fst snd] in E2, W2. rewrite <- E in E2. split; [rewrite E; exact W2|exact E2].
  Qed.

  (* the same with the side conditions in decidable form: [plan_ok] is evaluated by the extracted
     driver on every scenario the correspondence check runs, so on each of them the conclusion is a
     consequence of this theorem and not only an observation *)
  Theorem second_run_writes_nothing_checked : forall tree base cs fs0,
    plan_ok (plan (fst (script tree base cs))) = true ->
    r_writes (build tree base (r_fs (build tree base fs0 cs)) cs) = [] /\
    r_fs (build tree base (r_fs (build tree base fs0 cs)) cs) = r_fs (build tree base fs0 cs).
  Proof.
    intros tree base cs fs0 H. apply second_run_writes_nothing.
    - apply nodupb_spec. unfold plan_ok in H. apply andb_true_iff in H. tauto.
    - unfold plan_ok in H. apply andb_true_iff in H. destruct H as [_ H]. apply Forall_forall. intros pc I.
      rewrite forallb_forall in H. now apply H.
  Qed.

  (* the first side condition discharged: on a well-formed input tree (the entry names of a
     directory pairwise distinct and free of '/', as in any file system) a successful build script
     that calls compile_templates at most once and uses at most one StaticFiles, in either order,
     plans every file of OUT_DIR at most once -- by the mirror structure of the walk and the
     injectivity of the generated file names *)
  Theorem planned_paths_distinct : forall tree base cs,
    wf_node tree -> shape_ok false false cs = true -> snd (script tree base cs) = true ->
    NoDup (map fst (plan (fst (script tree base cs)))).
  Proof. exact (script_paths_distinct uni_esc uni_alnum compile utils_src statics_header mm). Qed.

  Theorem second_run_writes_nothing_documented_shape : forall tree base cs fs0,
    wf_node tree -> shape_ok false false cs = true -> snd (script tree base cs) = true ->
    Forall (fun pc => utf8_valid (snd pc) = true) (plan (fst (script tree base cs))) ->
    r_writes (build tree base (r_fs (build tree base fs0 cs)) cs) = [] /\
    r_fs (build tree base (r_fs (build tree base fs0 cs)) cs) = r_fs (build tree base fs0 cs).
  Proof.
    intros tree base cs fs0 W S K V. apply second_run_writes_nothing; [|exact V]. now apply planned_paths_distinct.
  Qed.
End C12.

(* reachable = planned: the module text a directory contributes (templates.rs for the root, its
   mod.rs below) consists of declarations each of which refers to a file planned in this very run --
   template_<name>.rs for a template declaration, <dir>/mod.rs for a `pub mod` -- and of nothing else.
   By generated_files_equal_clean_build those files end up equal to the clean build's; whatever
   else an earlier build left in OUT_DIR (a deleted template's code, a broken template's last good
   version) is referred to by no declaration *)
Theorem declared_files_are_planned : forall (uni_esc : N -> bool) (compile : bytes -> bytes -> coutcome) fuel es w f indir outdir w' f',
  handle_entries uni_esc compile (S fuel) w f indir outdir es = BOk _ (w', f') ->
  exists items, f' = f ++ flat_map render_item items /\ Forall (item_planned outdir w') items.
Proof.
  intros uni_esc compile fuel es w f indir outdir w' f' H. cbn [handle_entries] in H.
  exact (declared_files_planned_lemma uni_esc compile _ (handle_entries_frame uni_esc compile fuel) es w f indir outdir w' f' H).
Qed.

(* the shape condition is needed: two compile_templates calls on directories that share a
   sub-directory name plan templates/sub/mod.rs twice with different contents, so every run rewrites it *)
Example two_walks_sharing_a_directory_name_collide :
  let tree := Dir [(b "t1", Dir [(b "sub", Dir [(b "a.rs.html", File (b "A"))])]);
                   (b "t2", Dir [(b "sub", Dir [(b "b.rs.html", File (b "B"))])])] in
  let compile := fun name content => Accepted (name ++ b ":" ++ content) in
  let cs := [PCompile (b "t1"); PCompile (b "t2")] in
  let r1 := run_build (fun _ => false) (fun _ => false) compile (b "U") [] MNone tree (b "/b") [] cs in
  let r2 := run_build (fun _ => false) (fun _ => false) compile (b "U") [] MNone tree (b "/b") (r_fs r1) cs in
  wf_node tree /\ r_ok r1 = true /\ shape_ok false false cs = false /\ r_writes r2 = [b "templates/sub/mod.rs"; b "templates/sub/mod.rs"].
Proof.
  split; [|vm_compute; repeat split; reflexivity].
  cbn [wf_node]. constructor; [repeat constructor; cbn; intuition discriminate| |].
  - intros n x [[= <- <-]|[[= <- <-]|[]]] J; cbn in J; intuition discriminate.
  - intros n sub [[= <- <-]|[[= <- <-]|[]]]; (constructor; [repeat constructor; cbn; intuition discriminate| |]).
    + intros n x [[= <- <-]|[]] J; cbn in J; intuition discriminate.
    + intros n s [[= <- <-]|[]]. constructor; [repeat constructor; cbn; intuition discriminate| |].
      * intros n x [[= <- <-]|[]] J; cbn in J; intuition discriminate.
      * intros n s [[=]|[]].
    + intros n x [[= <- <-]|[]] J; cbn in J; intuition discriminate.
    + intros n s [[= <- <-]|[]]. constructor; [repeat constructor; cbn; intuition discriminate| |].
      * intros n x [[= <- <-]|[]] J; cbn in J; intuition discriminate.
      * intros n s [[=]|[]].
Qed.

(* a state left behind by a build that died at a write is just another prior OUT_DIR: the two
   theorems above quantify over every fs0, so they cover every crash point and every truncation *)
Example crash_state_is_some_fs0 :
  let fs_crashed := [(b "templates.rs", b "pub mod templ"); (b "templates/_utils.rs", [255%N; 254%N])] in
  fst (exec_plan fs_crashed [(b "templates/_utils.rs", b "U"); (b "templates.rs", b "T")]) =
  fst (exec_plan [(b "templates.rs", [])] [(b "templates/_utils.rs", b "U"); (b "templates.rs", b "T")]) /\
  snd (exec_plan fs_crashed [(b "templates/_utils.rs", b "U"); (b "templates.rs", b "T")]) = [b "templates/_utils.rs"; b "templates.rs"].
Proof. vm_compute. split; reflexivity. Qed.

Redirect "assumptions/C12.write_if_changed_spec" Print Assumptions write_if_changed_spec.
Redirect "assumptions/C12.write_plan_independent_of_outdir" Print Assumptions write_plan_independent_of_outdir.
Redirect "assumptions/C12.generated_files_equal_clean_build" Print Assumptions generated_files_equal_clean_build.
Redirect "assumptions/C12.second_run_writes_nothing" Print Assumptions second_run_writes_nothing.
Redirect "assumptions/C12.declared_files_are_planned" Print Assumptions declared_files_are_planned.
Redirect "assumptions/C12.planned_paths_distinct" Print Assumptions planned_paths_distinct.
Redirect "assumptions/C12.second_run_writes_nothing_documented_shape" Print Assumptions second_run_writes_nothing_documented_shape.
Redirect "assumptions/C12.two_walks_sharing_a_directory_name_collide" Print Assumptions two_walks_sharing_a_directory_name_collide.
Redirect "assumptions/C12.second_run_writes_nothing_checked" Print Assumptions second_run_writes_nothing_checked.
