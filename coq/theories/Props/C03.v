(* C03 - conditionals, loops and matches render what the Rust construct would.  Theorems only. *)
From Coq Require Import Lia.
From Ructe Require Import Nom NomFacts Utf8 Spacelike Expression TemplateExpr Template Emit Tables Io IoProofs Exec
                          ParserProofs SpaceProofs TextProofs EmitProofs ExecProofs RoundTrip.
Local Open Scope list_scope.

Section Parse.
  Variable E : nt -> parser bytes.
  Hypothesis HE : forall x, good (E x).
  Variable ln : nat.

  (* on EVERY input: a block is `{` items `}` and leaves untouched whatever follows its `}` *)
  Theorem block_ends_at_its_brace : forall te i items r, good te -> template_block te i = Ok items r ->
    exists body, i = 123%N :: body ++ 125%N :: r.
  Proof. intros te i items r G H. exact (template_block_ends te i items r G H). Qed.

  (* on EVERY input: an @if -- with or without else, with any else-if chain -- consumes text that
     ends with the `}` of its last block; in particular without an else nothing after the block's
     closing brace is swallowed.  The same for @for. *)
  Theorem nothing_swallowed_after_if : forall m i a r, texpr_gram E ln m IF2 i = Ok a r -> ends_with_brace i r.
  Proof. exact (if2_ends E HE ln). Qed.
  Theorem nothing_swallowed_after_for : forall te i a r, good te -> for_branch E te i = Ok a r -> ends_with_brace i r.
  Proof. intros te i a r G H. exact (for_branch_ends E HE te i a r G H). Qed.
  Theorem nothing_swallowed_after_match : forall te i a r, good te -> match_branch E te i = Ok a r -> ends_with_brace i r.
  Proof. intros te i a r G H. exact (match_branch_ends E HE te i a r G H). Qed.
End Parse.

(* completeness: template_expression returns exactly the AST that the declarative grammar [PI]
   (Proofs/RoundTrip.v) derives for a text -- @if with else / else-if chains, @for, @match with its
   arms, calls with block arguments, nested to any depth d -- at every fuel above d.  The lexical
   pieces of a derivation (layout, Rust fragments) are whatever spacelike / expression /
   cond_expression / loop_expression / for_variable take at that point of the text *)
Theorem template_grammar_complete : forall (E : nt -> parser bytes) (ln : nat), (forall x, good (E x)) ->
  (forall d t i r, PI E ln d t i r -> forall m, d < m -> texpr_gram E ln m TE i = Ok t r) /\
  (forall d l i r m, PIs E ln d l i (125%N :: r) -> d < m -> template_block (fun j => texpr_gram E ln m TE j) (123%N :: i) = Ok l r) /\
  (forall d l i m, PIs E ln d l i [] -> d < m ->
     many_till (context (b "Error in expression starting here:") (fun j => texpr_gram E ln m TE j)) end_of_file i = Ok (l, tt) []).
Proof.
  intros E ln HE. split; [exact (proj1 (grammar_complete E HE ln))|]. split.
  - intros d l i r m H Hm. exact (block_complete E HE ln d l i r m H Hm).
  - intros d l i m H Hm. exact (body_complete E HE ln d l i m H Hm).
Qed.

(* non-vacuity: a text with every construct has a derivation, found by evaluating the lexical side conditions *)
Example a_derivation :
  let E0 := expr_gram 12 in
  PIs E0 3 6
    [TText (b "<p>"); TIf (b "a") [TText (b "x"); TExpr (b "b")] (Some [TIf (b "c") [] None]);
     TFor (b "v") (b "xs") [TExpr (b "v"); TText (b ",")];
     TMatch (b "o") [(b "Some(k)", [TExpr (b "k")]); (b "None", [])];
     TCall (b "wrap_html") [ARust (b "n"); ABody [TText (b "k")]; ABody []]; TComment; TText (b "@")]
    (b "<p>@if a {x@b} else if c {}@for v in xs {@v,}@match o { Some(k) => {@k} None => {} }@:wrap_html(n, {k}, {})@* c *@@@") [].
Proof.
  intros E0.
  match goal with |- PIs _ _ _ ?a ?s _ => concrete a; concrete s end. pi_items.
Qed.

(* the emitted code has the structure of the construct, with the fragments verbatim and the
   bodies emitted recursively; an else holding exactly one @if is flattened to `else if` *)
Theorem emit_structure : forall (ue : N -> bool),
  (forall name expr body, write_code ue (TFor name expr body) =
     b "for " ++ name ++ b " in " ++ expr ++ b " {" ++ nl ++ codes ue body ++ b "}" ++ nl) /\
  (forall expr body els, write_code ue (TIf expr body els) =
     b "if " ++ expr ++ b " {" ++ nl ++ codes ue body ++ b "}" ++
     match els with
     | Some [TIf e2 b2 els2 as e] => b " else " ++ write_code ue e
     | Some body2 => b " else {" ++ nl ++ codes ue body2 ++ b "}" ++ nl
     | None => nl
     end) /\
  (forall expr arms, write_code ue (TMatch expr arms) = b "match " ++ expr ++ b " {" ++ arms_text ue arms ++ nl ++ b "}" ++ nl).
Proof. intros ue. split; [apply write_code_for|]. split; [apply write_code_if|apply write_code_match]. Qed.

Section Run.
  Variable env : Type.
  Variable o : oracle env.

  (* what runs: exactly the bodies the Rust construct would execute, in execution order *)
  Theorem render_control_flow : forall fuel e cs rest,
    (forall c body els, render env o (S fuel) e cs (TIf c body els :: rest) =
       oseq (match o_if env o e c with
             | Some e' => render env o fuel e' cs body
             | None => match els with Some b2 => render env o fuel e cs b2 | None => Some [] end end)
            (render env o fuel e cs rest)) /\
    (forall name x body, render env o (S fuel) e cs (TFor name x body :: rest) =
       oseq (fold_right (fun e1 acc => oseq (render env o fuel e1 cs body) acc) (Some []) (o_for env o e name x))
            (render env o fuel e cs rest)) /\
    (forall x arms, render env o (S fuel) e cs (TMatch x arms :: rest) =
       oseq (match o_match env o e x (map fst arms) with
             | Some (k, e') => render env o fuel e' cs (snd (nth k arms ([], [])))
             | None => Some [] end)
            (render env o fuel e cs rest)).
  Proof.
    intros fuel e cs rest. split; [reflexivity|]. split; [|reflexivity].
    intros name x body. cbn [render]. f_equal; try reflexivity.
    all: induction (o_for env o e name x) as [|e1 es IH]; [reflexivity|]; cbn [fold_right]; now rewrite <- IH.
  Qed.

  (* and the sink receives a prefix of that rendering, all of it on success (C14's theorem) *)
  Theorem exec_renders : forall fuel e cs items s s' r full,
    exec env o fuel e cs items s = (s', r) -> render env o fuel e cs items = Some full ->
    exists p, log s' = log s ++ p /\ prefix p full /\ (r = Done -> p = full).
  Proof.
    intros fuel e cs items s s' r full H R. destruct (exec_Pre env o fuel e cs items s s' r H) as [p [L C]].
    rewrite R in C. exists p. tauto.
  Qed.
End Run.

Example if_else_chain_runs_one_body :
  let o := {| o_val := fun (_ : nat) _ => VDisplay []; o_if := fun e c => if beq c (b "c2") then Some e else None;
              o_for := fun _ _ _ => []; o_match := fun _ _ _ => None; o_call := fun _ _ _ => None |} in
  render nat o 5 0 [] [TIf (b "c1") [TText (b "A")] (Some [TIf (b "c2") [TText (b "B")] (Some [TText (b "C")])]); TText (b "!")] = Some (b "B!").
Proof. vm_compute. reflexivity. Qed.

Redirect "assumptions/C03.block_ends_at_its_brace" Print Assumptions block_ends_at_its_brace.
Redirect "assumptions/C03.nothing_swallowed_after_if" Print Assumptions nothing_swallowed_after_if.
Redirect "assumptions/C03.nothing_swallowed_after_for" Print Assumptions nothing_swallowed_after_for.
Redirect "assumptions/C03.nothing_swallowed_after_match" Print Assumptions nothing_swallowed_after_match.
Redirect "assumptions/C03.template_grammar_complete" Print Assumptions template_grammar_complete.
Redirect "assumptions/C03.a_derivation" Print Assumptions a_derivation.
Redirect "assumptions/C03.emit_structure" Print Assumptions emit_structure.
Redirect "assumptions/C03.render_control_flow" Print Assumptions render_control_flow.
Redirect "assumptions/C03.exec_renders" Print Assumptions exec_renders.
