(* C02 - every interpolated value is HTML-escaped by default.
   Theorems only; proofs are in Proofs/IoProofs.v, Proofs/EscapeProofs.v, Proofs/TableChecks.v. *)
From Ructe Require Import Tables Io IoProofs EscapeProofs TableChecks.

(* every chunking [ps] of the Display text, every sink schedule, every prior log:
   the sink receives a prefix of the escaped text, and all of it when the call succeeds *)
Theorem to_html_prefix : forall (ps : list bytes) (s s' : sink) (r : outcome),
  to_html_display ps s = (s', r) ->
  exists p, log s' = log s ++ p /\ prefix p (escape (concat ps)) /\
            (r = Done -> p = escape (concat ps)).
Proof. exact to_html_display_prefix. Qed.

(* the model's fuel never runs out, and a schedule without failure and without a zero-length
   accept (partial accepts and finitely many Interrupted allowed) yields Ok and the whole text *)
Theorem to_html_no_fault : forall (ps : list bytes) (s s' : sink) (r : outcome),
  to_html_display ps s = (s', r) ->
  r <> OutOfFuel /\
  (no_fault (sched s) -> r = Done /\ log s' = log s ++ escape (concat ps)).
Proof.
  intros ps s s' r H.
  destruct (to_html_fuel_and_completion entities_nonempty_ok (VDisplay ps) s s' r H) as [A B].
  split; [exact A|]. intros F. specialize (B F). split; [exact B|].
  destruct (to_html_display_prefix ps s s' r H) as [p [L [_ S]]]. now rewrite L, (S B).
Qed.

(* HTML-decoding the escaped text gives back exactly the Display text *)
Theorem decode_escape : forall s : bytes, html_decode (escape s) = s.
Proof. exact (decode_escape_lemma codes_prefix_free_ok entity_shape_ok_ok). Qed.

(* no raw lt, gt, dquote or squote reaches the sink, and the only special byte that does is the & that starts
   a character reference; the output is one chunk per input byte, in order *)
Theorem escape_no_special : forall s : bytes,
  Forall (fun x => special x = true -> x = 38%N) (escape s) /\
  escape s = concat (map esc1 s).
Proof. intros s. split; [exact (escape_only_amp entity_shape_ok_ok s)|exact (escape_chunks s)]. Qed.

(* every other byte passes through unchanged *)
Theorem escape_passthrough : forall s : bytes,
  Forall (fun c => special c = false) s -> escape s = s.
Proof. exact escape_passthrough_lemma. Qed.

(* the escaped set is exactly the five bytes the property names *)
Theorem special_is_the_five :
  forallb (fun c => special c) [34;38;39;60;62]%N = true /\
  forallb (fun c => negb (special c) || memN c [34;38;39;60;62]%N) (map N.of_nat (seq 0 256)) = true.
Proof. exact special_bytes_are_the_five. Qed.

(* non-vacuity: a schedule with partial accepts and an interruption is fault-free, and a
   concrete run ends inside an entity when the sink fails there *)
Example no_fault_example : no_fault [Accept 1; Interrupted; Accept 2; Accept 1; Interrupted; Accept 3].
Proof. exact I. Qed.
Example prefix_inside_entity :
  to_html_display [[97;60]%N; [98]%N] {| sched := [Accept 1; Interrupted; Accept 2; Fail 7]; log := [] |}
  = ({| sched := []; log := [97;38;108]%N |}, Failed (Io 7)).
Proof. vm_compute. reflexivity. Qed.

Redirect "assumptions/C02.to_html_prefix" Print Assumptions to_html_prefix.
Redirect "assumptions/C02.to_html_no_fault" Print Assumptions to_html_no_fault.
Redirect "assumptions/C02.decode_escape" Print Assumptions decode_escape.
Redirect "assumptions/C02.escape_no_special" Print Assumptions escape_no_special.
Redirect "assumptions/C02.escape_passthrough" Print Assumptions escape_passthrough.
Redirect "assumptions/C02.special_is_the_five" Print Assumptions special_is_the_five.
