(* Extraction of the executable model.  Only ExtrOcamlBasic's directives are in force
   (7 Extract Inductive: bool option unit list prod sumbool sumor; 2 Extract Inlined
   Constant: andb orb).  N, positive and nat are extracted as their inductive datatypes. *)
From Ructe Require Import Nom Utf8 Compile UniTables Io Md5 Static Build.
Require Extraction ExtrOcamlBasic.

Definition compile_m := compile uni_debug_esc.

Definition apply_op_m := apply_op uni_debug_esc uni_alnum.
Definition sass_ref_m := sass_ref uni_debug_esc uni_alnum.
Definition static_name_m := static_name uni_alnum.
Definition statics_get_m := statics_get.
Definition rust_ident_m := rust_ident uni_alnum.

Definition run_build_m := run_build uni_debug_esc uni_alnum compile_m.
Definition plan_ok_m utils hdr mm tree base cs :=
  plan_ok (plan (fst (run_script uni_debug_esc uni_alnum compile_m utils hdr mm tree base cs))).

Extraction "model.ml" run_build_m plan_ok_m compile_m to_html to_buffer buffer_eq
  apply_op_m sass_ref_m static_name_m statics_get_m rust_ident_m finish empty_statics checksum_slug md5.
