(* Extraction of the executable model.  Only ExtrOcamlBasic's directives are in force
   (7 Extract Inductive: bool option unit list prod sumbool sumor; 2 Extract Inlined
   Constant: andb orb).  N, positive and nat are extracted as their inductive datatypes. *)
From Ructe Require Import Nom Utf8 Compile UniTables Io.
Require Extraction ExtrOcamlBasic.

Definition compile_m := compile uni_debug_esc.

Extraction "model.ml" compile_m to_html to_buffer buffer_eq.
