(* Transcription of the nom 8.0.0 combinators ructe uses, over &[u8] with
   nom-language's VerboseError.  Error lists are kept in REVERSE push order
   (head = last pushed = outermost), positions as remaining-input lengths. *)
From Coq Require Export List NArith Bool Arith Ascii.
Require Export Coq.Strings.String.
Export ListNotations.
Export String.StringSyntax.
Notation length := List.length (only parsing).

Definition bytes := list N.
Definition b (s : String.string) : bytes := map N_of_ascii (String.list_ascii_of_string s).

Inductive ekind := EContext (msg : bytes) | EChar (c : N) | ENom.
Definition errs := list (nat * ekind).

Inductive abort := AFuel | APanic.
Inductive res (A : Type) :=
| Ok (a : A) (rest : bytes)
| Err (e : errs)
| Abort (k : abort).
Arguments Ok {A}. Arguments Err {A}. Arguments Abort {A}.
Definition parser A := bytes -> res A.

Definition err1 {A} (i : bytes) (k : ekind) : res A := Err [(length i, k)].
Definition push (i : bytes) (k : ekind) (e : errs) : errs := (length i, k) :: e.

Definition bind {A B} (p : parser A) (f : A -> parser B) : parser B :=
  fun i => match p i with Ok a r => f a r | Err e => Err e | Abort k => Abort k end.
Definition pmap {A B} (f : A -> B) (p : parser A) : parser B :=
  fun i => match p i with Ok a r => Ok (f a) r | Err e => Err e | Abort k => Abort k end.
Definition value {A B} (v : B) (p : parser A) : parser B := pmap (fun _ => v) p.
Definition unitp {A} (p : parser A) : parser unit := value tt p.

Definition pair {A B} (p : parser A) (q : parser B) : parser (A * B) :=
  bind p (fun a => pmap (fun x => (a, x)) q).
Definition preceded {A B} (p : parser A) (q : parser B) : parser B := bind p (fun _ => q).
Definition terminated {A B} (p : parser A) (q : parser B) : parser A :=
  bind p (fun a => pmap (fun _ => a) q).
Definition delimited {A B C} (p : parser A) (q : parser B) (r : parser C) : parser B :=
  preceded p (terminated q r).

Fixpoint strip_prefix (t i : bytes) : option bytes :=
  match t, i with
  | [], _ => Some i
  | x :: t', y :: i' => if N.eqb x y then strip_prefix t' i' else None
  | _ :: _, [] => None
  end.
Definition tag (t : bytes) : parser bytes :=
  fun i => match strip_prefix t i with Some r => Ok t r | None => err1 i ENom end.
Definition char (c : N) : parser N :=
  fun i => match i with
           | x :: r => if N.eqb x c then Ok c r else err1 i (EChar c)
           | [] => err1 i (EChar c) end.
Fixpoint mem (c : N) (s : bytes) : bool :=
  match s with [] => false | x :: s' => N.eqb c x || mem c s' end.
Fixpoint span (p : N -> bool) (i : bytes) : bytes * bytes :=
  match i with
  | x :: r => if p x then let '(a, t) := span p r in (x :: a, t) else ([], i)
  | [] => ([], []) end.
Definition take_while1 (p : N -> bool) : parser bytes :=
  fun i => match span p i with ([], _) => err1 i ENom | (a, r) => Ok a r end.
Definition take_while0 (p : N -> bool) : parser bytes :=
  fun i => let '(a, r) := span p i in Ok a r.
Definition is_not (s : bytes) := take_while1 (fun c => negb (mem c s)).
Definition is_a (s : bytes) := take_while1 (fun c => mem c s).
(* nom 8 Satisfy on &[u8]: the byte is widened to a char and `take_from(c.len_utf8())`
   is applied, so a byte >= 0x80 consumes TWO bytes, and panics if only one is left *)
Definition none_of (s : bytes) : parser N :=
  fun i => match i with
           | x :: r => if mem x s then err1 i ENom
                       else if (x <? 128)%N then Ok x r
                       else match r with _ :: r' => Ok x r' | [] => Abort APanic end
           | [] => err1 i ENom end.
Definition one_of (s : bytes) : parser N :=
  fun i => match i with x :: r => if mem x s then Ok x r else err1 i ENom | [] => err1 i ENom end.

Local Open Scope N_scope.
Definition is_alpha (c : N) := ((65 <=? c) && (c <=? 90)) || ((97 <=? c) && (c <=? 122)).
Definition is_digit (c : N) := (48 <=? c) && (c <=? 57).
Definition is_space (c : N) := (c =? 32) || (c =? 9) || (c =? 13) || (c =? 10).
Local Close Scope N_scope.
Definition alpha1 := take_while1 is_alpha.
Definition digit1 := take_while1 is_digit.
Definition multispace0 := take_while0 is_space.
Definition multispace1 := take_while1 is_space.

(* alt: last branch's error, then (input, Alt) pushed *)
Fixpoint alt' {A} (ps : list (parser A)) (last : errs) : parser A :=
  fun i => match ps with
           | [] => Err (push i ENom last)
           | p :: ps' => match p i with Err e => alt' ps' e i | r => r end
           end.
Definition alt {A} (ps : list (parser A)) : parser A := alt' ps [].
Definition opt {A} (p : parser A) : parser (option A) :=
  fun i => match p i with Ok a r => Ok (Some a) r | Err _ => Ok None i | Abort k => Abort k end.
Definition context {A} (msg : bytes) (p : parser A) : parser A :=
  fun i => match p i with Err e => Err (push i (EContext msg) e) | r => r end.
Definition recognize {A} (p : parser A) : parser bytes :=
  fun i => match p i with
           | Ok _ r => Ok (firstn (length i - length r) i) r
           | Err e => Err e | Abort k => Abort k end.
Definition map_res {A B} (p : parser A) (f : A -> option B) : parser B :=
  fun i => match p i with
           | Ok a r => match f a with Some x => Ok x r | None => err1 i ENom end
           | Err e => Err e | Abort k => Abort k end.
Definition pnot {A} (p : parser A) : parser unit :=
  fun i => match p i with Ok _ _ => err1 i ENom | Err _ => Ok tt i | Abort k => Abort k end.

(* loops: internal fuel = length of the input, every successful round must consume *)
Fixpoint many0_aux {A} (p : parser A) (n : nat) (i : bytes) : res (list A) :=
  match p i with
  | Err _ => Ok [] i
  | Abort k => Abort k
  | Ok a r => if Nat.eqb (length r) (length i) then err1 i ENom
              else match n with
                   | O => Abort AFuel
                   | S n' => match many0_aux p n' r with
                             | Ok l r' => Ok (a :: l) r' | Err e => Err e | Abort k => Abort k end
                   end
  end.
Definition many0 {A} (p : parser A) : parser (list A) := fun i => many0_aux p (length i) i.
Definition fold_many0_unit {A} (p : parser A) : parser unit := unitp (many0 p).

Fixpoint many_till_aux {A B} (f : parser A) (g : parser B) (n : nat) (i : bytes) : res (list A * B) :=
  match g i with
  | Ok x r => Ok ([], x) r
  | Abort k => Abort k
  | Err _ =>
    match f i with
    | Err e => Err (push i ENom e)
    | Abort k => Abort k
    | Ok a r => if Nat.eqb (length r) (length i) then err1 i ENom
                else match n with
                     | O => Abort AFuel
                     | S n' => match many_till_aux f g n' r with
                               | Ok (l, x) r' => Ok (a :: l, x) r' | Err e => Err e | Abort k => Abort k end
                     end
    end
  end.
Definition many_till {A B} (f : parser A) (g : parser B) : parser (list A * B) :=
  fun i => many_till_aux f g (length i) i.

Fixpoint sep_rest {A S} (sep : parser S) (f : parser A) (n : nat) (i : bytes) : res (list A) :=
  match sep i with
  | Err _ => Ok [] i
  | Abort k => Abort k
  | Ok _ i1 =>
    match f i1 with
    | Err _ => Ok [] i
    | Abort k => Abort k
    | Ok a i2 => if Nat.eqb (length i2) (length i) then err1 i ENom
                 else match n with
                      | O => Abort AFuel
                      | S n' => match sep_rest sep f n' i2 with
                                | Ok l r => Ok (a :: l) r | Err e => Err e | Abort k => Abort k end
                      end
    end
  end.
Definition separated_list0 {A S} (sep : parser S) (f : parser A) : parser (list A) :=
  fun i => match f i with
           | Err _ => Ok [] i
           | Abort k => Abort k
           | Ok a r => match sep_rest sep f (length r) r with
                       | Ok l r' => Ok (a :: l) r' | Err e => Err e | Abort k => Abort k end
           end.
Definition separated_list1 {A S} (sep : parser S) (f : parser A) : parser (list A) :=
  fun i => match f i with
           | Err e => Err e
           | Abort k => Abort k
           | Ok a r => match sep_rest sep f (length r) r with
                       | Ok l r' => Ok (a :: l) r' | Err e => Err e | Abort k => Abort k end
           end.

(* nom::bytes::complete::escaped(normal, control, escapable), complete mode;
   returns the recognised prefix *)
Fixpoint escaped_aux {A B} (normal : parser A) (ctrl : N) (escapable : parser B)
         (n : nat) (input i : bytes) : res bytes :=
  match i with
  | [] => Ok input []
  | x :: _ =>
    match normal i with
    | Abort k => Abort k
    | Ok _ i2 =>
      match i2 with
      | [] => Ok input []
      | _ => if Nat.eqb (length i2) (length i)
             then Ok (firstn (length input - length i2) input) i2
             else match n with O => Abort AFuel | S n' => escaped_aux normal ctrl escapable n' input i2 end
      end
    | Err _ =>
      if N.eqb x ctrl then
        match i with
        | _ :: ((_ :: _) as after) =>
          match escapable after with
          | Ok _ i2 => match i2 with
                       | [] => Ok input []
                       | _ => match n with O => Abort AFuel | S n' => escaped_aux normal ctrl escapable n' input i2 end
                       end
          | Err e => Err e
          | Abort k => Abort k
          end
        | _ => err1 input ENom
        end
      else if Nat.eqb (length i) (length input) then err1 input ENom
           else Ok (firstn (length input - length i) input) i
    end
  end.
Definition escaped {A B} (normal : parser A) (ctrl : N) (escapable : parser B) : parser bytes :=
  fun i => escaped_aux normal ctrl escapable (length i) i i.
