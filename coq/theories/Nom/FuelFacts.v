(* Fuel: [nf k p] -- on inputs of length at most k the parser never answers Abort AFuel.
   Closed under every combinator; where a strict (consuming) parser comes first, what follows only
   needs the property for k-1.  This is what turns "fuel = a multiple of the input length" into a
   proof that the fuelled grammars never run out. *)
From Coq Require Import Lia.
From Ructe Require Import Nom NomFacts.
Local Open Scope list_scope.

Definition nf {A} (k : nat) (p : parser A) := forall i, List.length i <= k -> p i <> Abort AFuel.

Lemma nf_mono {A} k k' (p : parser A) : k' <= k -> nf k p -> nf k' p.
Proof. intros L H i Hi. apply H. lia. Qed.
Lemma nf_ext {A} k (p q : parser A) : (forall i, p i = q i) -> nf k p -> nf k q.
Proof. intros E H i Hi. rewrite <- E. now apply H. Qed.
Lemma nf_eta {A} k (p : parser A) : nf k p -> nf k (fun j => p j).
Proof. apply nf_ext. reflexivity. Qed.

(* leaves never abort *)
Lemma nf_tag k t : nf k (tag t). Proof. intros i _. unfold tag. destruct (strip_prefix t i); discriminate. Qed.
Lemma nf_char k c : nf k (char c). Proof. intros [|x i] _; cbn; [discriminate|]. destruct (N.eqb x c); discriminate. Qed.
Lemma nf_take_while1 k f : nf k (take_while1 f).
Proof. intros i _. unfold take_while1. destruct (span f i) as [[|x a] r]; discriminate. Qed.
Lemma nf_take_while0 k f : nf k (take_while0 f).
Proof. intros i _. unfold take_while0. destruct (span f i); discriminate. Qed.
Lemma nf_one_of k s : nf k (one_of s).
Proof. intros [|x i] _; cbn; [discriminate|]. destruct (mem x s); discriminate. Qed.

(* sequencing *)
Lemma nf_bind {A B} k (p : parser A) (f : A -> parser B) : nf k p -> sfx p -> (forall a, nf k (f a)) -> nf k (bind p f).
Proof.
  intros Hp Sp Hf i Hi. unfold bind. destruct (p i) as [a r|e|a] eqn:E; [|discriminate|].
  - apply Hf. pose proof (sfx_len p Sp _ _ _ E). lia.
  - intros [= ->]. now apply (Hp i Hi).
Qed.
Lemma nf_bind_strict {A B} k (p : parser A) (f : A -> parser B) :
  nf k p -> strict p -> (0 < k -> forall a, nf (k - 1) (f a)) -> nf k (bind p f).
Proof.
  intros Hp Sp Hf i Hi. unfold bind. destruct (p i) as [a r|e|a] eqn:E; [|discriminate|].
  - pose proof (Sp _ _ _ E). apply Hf; lia.
  - intros [= ->]. now apply (Hp i Hi).
Qed.
Lemma nf_pmap {A B} k (g : A -> B) p : nf k p -> nf k (pmap g p).
Proof. intros H i Hi. unfold pmap. destruct (p i) eqn:E; try discriminate. intros [= ->]. now apply (H i Hi). Qed.
Lemma nf_value {A B} k (v : B) (p : parser A) : nf k p -> nf k (value v p). Proof. apply nf_pmap. Qed.
Lemma nf_unitp {A} k (p : parser A) : nf k p -> nf k (unitp p). Proof. apply nf_pmap. Qed.
Lemma nf_pair {A B} k (p : parser A) (q : parser B) : nf k p -> sfx p -> nf k q -> nf k (pair p q).
Proof. intros. unfold pair. apply nf_bind; try assumption. intros a. now apply nf_pmap. Qed.
Lemma nf_preceded {A B} k (p : parser A) (q : parser B) : nf k p -> sfx p -> nf k q -> nf k (preceded p q).
Proof. intros. unfold preceded. now apply nf_bind. Qed.
Lemma nf_preceded_strict {A B} k (p : parser A) (q : parser B) : nf k p -> strict p -> (0 < k -> nf (k - 1) q) -> nf k (preceded p q).
Proof. intros. unfold preceded. apply nf_bind_strict; auto. Qed.
Lemma nf_pair_strict {A B} k (p : parser A) (q : parser B) : nf k p -> strict p -> (0 < k -> nf (k - 1) q) -> nf k (pair p q).
Proof. intros. unfold pair. apply nf_bind_strict; auto. intros. apply nf_pmap. auto. Qed.
Lemma nf_terminated_strict {A B} k (p : parser A) (q : parser B) : nf k p -> strict p -> (0 < k -> nf (k - 1) q) -> nf k (terminated p q).
Proof. intros. unfold terminated. apply nf_bind_strict; auto. intros. apply nf_pmap. auto. Qed.
Lemma nf_terminated {A B} k (p : parser A) (q : parser B) : nf k p -> sfx p -> nf k q -> nf k (terminated p q).
Proof. intros. unfold terminated. apply nf_bind; try assumption. intros a. now apply nf_pmap. Qed.
Lemma nf_delimited {A B C} k (p : parser A) (q : parser B) (r : parser C) :
  nf k p -> sfx p -> nf k q -> sfx q -> nf k r -> nf k (delimited p q r).
Proof. intros. unfold delimited. apply nf_preceded; try assumption. now apply nf_terminated. Qed.
Lemma nf_delimited_strict {A B C} k (p : parser A) (q : parser B) (r : parser C) :
  nf k p -> strict p -> (0 < k -> nf (k - 1) q) -> sfx q -> nf k r -> nf k (delimited p q r).
Proof.
  intros Hp Sp Hq Sq Hr. unfold delimited. apply nf_preceded_strict; try assumption.
  intros K. apply nf_terminated; auto. eapply nf_mono; [|exact Hr]. lia.
Qed.

(* choice etc. *)
Lemma nf_alt' {A} k (ps : list (parser A)) : Forall (nf k) ps -> forall last, nf k (alt' ps last).
Proof.
  induction 1 as [|p ps Hp Hps IH]; intros last i Hi; cbn [alt']; [discriminate|].
  destruct (p i) eqn:E; [discriminate|now apply IH|]. intros [= ->]. now apply (Hp i Hi).
Qed.
Lemma nf_alt {A} k (ps : list (parser A)) : Forall (nf k) ps -> nf k (alt ps).
Proof. intros. now apply nf_alt'. Qed.
Lemma nf_opt {A} k (p : parser A) : nf k p -> nf k (opt p).
Proof. intros H i Hi. unfold opt. destruct (p i) eqn:E; try discriminate. intros [= ->]. now apply (H i Hi). Qed.
Lemma nf_context {A} k m (p : parser A) : nf k p -> nf k (context m p).
Proof. intros H i Hi. unfold context. destruct (p i) eqn:E; try discriminate. intros [= ->]. now apply (H i Hi). Qed.
Lemma nf_recognize {A} k (p : parser A) : nf k p -> nf k (recognize p).
Proof. intros H i Hi. unfold recognize. destruct (p i) eqn:E; try discriminate. intros [= ->]. now apply (H i Hi). Qed.
Lemma nf_map_res {A B} k (p : parser A) (f : A -> option B) : nf k p -> nf k (map_res p f).
Proof.
  intros H i Hi. unfold map_res. destruct (p i) eqn:E; try discriminate; [destruct (f a); discriminate|].
  intros [= ->]. now apply (H i Hi).
Qed.
Lemma nf_pnot {A} k (p : parser A) : nf k p -> nf k (pnot p).
Proof. intros H i Hi. unfold pnot. destruct (p i) eqn:E; try discriminate. intros [= ->]. now apply (H i Hi). Qed.

(* repetition: the internal fuel (the input length) always suffices *)
Lemma nf_many0_aux {A} k (p : parser A) : nf k p -> sfx p -> forall n i, List.length i <= n -> List.length i <= k ->
  many0_aux p n i <> Abort AFuel.
Proof.
  intros Hp Sp. induction n as [|n IH]; intros i Hn Hk; cbn [many0_aux]; destruct (p i) as [a r|e|a] eqn:E; try discriminate.
  - pose proof (sfx_len p Sp _ _ _ E). destruct i; [|cbn in Hn; lia].
    assert (X : Nat.eqb (List.length r) (List.length (@nil N)) = true) by (apply Nat.eqb_eq; cbn in *; lia). rewrite X. discriminate.
  - intros [= ->]. now apply (Hp i Hk).
  - pose proof (sfx_len p Sp _ _ _ E). destruct (Nat.eqb (List.length r) (List.length i)) eqn:X; [discriminate|].
    apply Nat.eqb_neq in X. specialize (IH r ltac:(lia) ltac:(lia)). destruct (many0_aux p n r); try discriminate. intros [= ->]. now apply IH.
  - intros [= ->]. now apply (Hp i Hk).
Qed.
Lemma nf_many0 {A} k (p : parser A) : nf k p -> sfx p -> nf k (many0 p).
Proof. intros Hp Sp i Hi. unfold many0. now apply (nf_many0_aux k p Hp Sp). Qed.
Lemma nf_fold_many0_unit {A} k (p : parser A) : nf k p -> sfx p -> nf k (fold_many0_unit p).
Proof. intros. apply nf_unitp. now apply nf_many0. Qed.

Lemma nf_many_till_aux {A B} k (f : parser A) (g : parser B) : nf k f -> sfx f -> nf k g -> forall n i,
  List.length i <= n -> List.length i <= k -> many_till_aux f g n i <> Abort AFuel.
Proof.
  intros Hf Sf Hg. induction n as [|n IH]; intros i Hn Hk; cbn [many_till_aux]; destruct (g i) as [x rg|eg|ag] eqn:Eg; try discriminate.
  - destruct (f i) as [a r|e|a] eqn:E; try discriminate.
    + pose proof (sfx_len f Sf _ _ _ E). destruct i; [|cbn in Hn; lia].
      assert (X : Nat.eqb (List.length r) (List.length (@nil N)) = true) by (apply Nat.eqb_eq; cbn in *; lia). rewrite X. discriminate.
    + intros [= ->]. now apply (Hf i Hk).
  - intros [= ->]. now apply (Hg i Hk).
  - destruct (f i) as [a r|e|a] eqn:E; try discriminate.
    + pose proof (sfx_len f Sf _ _ _ E). destruct (Nat.eqb (List.length r) (List.length i)) eqn:X; [discriminate|].
      apply Nat.eqb_neq in X. specialize (IH r ltac:(lia) ltac:(lia)). destruct (many_till_aux f g n r) as [[l x] r'| |]; try discriminate.
      intros [= ->]. now apply IH.
    + intros [= ->]. now apply (Hf i Hk).
  - intros [= ->]. now apply (Hg i Hk).
Qed.
Lemma nf_many_till {A B} k (f : parser A) (g : parser B) : nf k f -> sfx f -> nf k g -> nf k (many_till f g).
Proof. intros Hf Sf Hg i Hi. unfold many_till. now apply (nf_many_till_aux k f g Hf Sf Hg). Qed.

Lemma nf_sep_rest {A S} k (sep : parser S) (f : parser A) : nf k sep -> sfx sep -> nf k f -> sfx f -> forall n i,
  List.length i <= n -> List.length i <= k -> sep_rest sep f n i <> Abort AFuel.
Proof.
  intros Hs Ss Hf Sf. induction n as [|n IH]; intros i Hn Hk; cbn [sep_rest]; destruct (sep i) as [s0 i1|es|as0] eqn:Es; try discriminate.
  - pose proof (sfx_len sep Ss _ _ _ Es). destruct (f i1) as [a i2|e|a] eqn:E; try discriminate.
    + pose proof (sfx_len f Sf _ _ _ E). destruct i; [|cbn in Hn; lia].
      assert (X : Nat.eqb (List.length i2) (List.length (@nil N)) = true) by (apply Nat.eqb_eq; cbn in *; lia). rewrite X. discriminate.
    + intros [= ->]. apply (Hf i1); [lia|exact E].
  - intros [= ->]. now apply (Hs i Hk).
  - pose proof (sfx_len sep Ss _ _ _ Es). destruct (f i1) as [a i2|e|a] eqn:E; try discriminate.
    + pose proof (sfx_len f Sf _ _ _ E). destruct (Nat.eqb (List.length i2) (List.length i)) eqn:X; [discriminate|].
      apply Nat.eqb_neq in X. specialize (IH i2 ltac:(lia) ltac:(lia)). destruct (sep_rest sep f n i2); try discriminate. intros [= ->]. now apply IH.
    + intros [= ->]. apply (Hf i1); [lia|exact E].
  - intros [= ->]. now apply (Hs i Hk).
Qed.
Lemma nf_separated_list0 {A S} k (sep : parser S) (f : parser A) : nf k sep -> sfx sep -> nf k f -> sfx f -> nf k (separated_list0 sep f).
Proof.
  intros Hs Ss Hf Sf i Hi. unfold separated_list0. destruct (f i) as [a r|e|a] eqn:E; try discriminate.
  - pose proof (sfx_len f Sf _ _ _ E). pose proof (nf_sep_rest k sep f Hs Ss Hf Sf (List.length r) r (le_n _) ltac:(lia)) as N0.
    destruct (sep_rest sep f (List.length r) r); try discriminate. intros [= ->]. now apply N0.
  - intros [= ->]. now apply (Hf i Hi).
Qed.
Lemma nf_separated_list1 {A S} k (sep : parser S) (f : parser A) : nf k sep -> sfx sep -> nf k f -> sfx f -> nf k (separated_list1 sep f).
Proof.
  intros Hs Ss Hf Sf i Hi. unfold separated_list1. destruct (f i) as [a r|e|a] eqn:E; try discriminate.
  - pose proof (sfx_len f Sf _ _ _ E). pose proof (nf_sep_rest k sep f Hs Ss Hf Sf (List.length r) r (le_n _) ltac:(lia)) as N0.
    destruct (sep_rest sep f (List.length r) r); try discriminate. intros [= ->]. now apply N0.
  - intros [= ->]. now apply (Hf i Hi).
Qed.

Lemma nf_escaped_aux {A B} k (normal : parser A) ctrl (escapable : parser B) : nf k normal -> sfx normal -> nf k escapable -> sfx escapable ->
  forall n input i, List.length i <= n -> List.length i <= k -> escaped_aux normal ctrl escapable n input i <> Abort AFuel.
Proof.
  intros Hn Sn He Se. induction n as [|n IH]; intros input i Ln Lk.
  - destruct i; [cbn; discriminate|cbn in Ln; lia].
  - cbn [escaped_aux]. destruct i as [|x i']; [discriminate|].
    destruct (normal (x :: i')) as [a i2|e|a] eqn:En.
    + pose proof (sfx_len normal Sn _ _ _ En). destruct i2 as [|y i2']; [discriminate|].
      destruct (Nat.eqb (List.length (y :: i2')) (List.length (x :: i'))) eqn:X; [discriminate|]. apply Nat.eqb_neq in X.
      apply IH; cbn [List.length] in *; lia.
    + destruct (N.eqb x ctrl); [|destruct (Nat.eqb (List.length (x :: i')) (List.length input)); discriminate].
      destruct i' as [|z after]; [discriminate|].
      destruct (escapable (z :: after)) as [b0 i2|e2|a2] eqn:Ee; try discriminate.
      * pose proof (sfx_len escapable Se _ _ _ Ee). destruct i2; [discriminate|]. apply IH; cbn [List.length] in *; lia.
      * intros [= ->]. apply (He (z :: after)); [cbn [List.length] in *; lia|exact Ee].
    + intros [= ->]. now apply (Hn (x :: i') Lk).
Qed.
Lemma nf_escaped {A B} k (normal : parser A) ctrl (escapable : parser B) : nf k normal -> sfx normal -> nf k escapable -> sfx escapable ->
  nf k (escaped normal ctrl escapable).
Proof. intros Hn Sn He Se i Hi. unfold escaped. now apply (nf_escaped_aux k normal ctrl escapable Hn Sn He Se). Qed.

(* ---- more fuel never changes an answer ----
   [le_p p q]: q agrees with p wherever p does not run out of fuel.  Every combinator is monotone
   for this order, so a grammar at fuel n+1 refines the same grammar at fuel n: fuel only decides
   whether there is an answer, never which. *)
Definition le_p {A} (p q : parser A) := forall i, p i <> Abort AFuel -> q i = p i.

Lemma le_refl {A} (p : parser A) : le_p p p. Proof. intros i _. reflexivity. Qed.
Lemma le_trans {A} (p q r : parser A) : le_p p q -> le_p q r -> le_p p r.
Proof. intros H1 H2 i Hi. rewrite (H2 i); [now apply H1|]. now rewrite (H1 i Hi). Qed.
Lemma le_bot {A} (q : parser A) : le_p (fun _ => Abort AFuel) q. Proof. intros i H. congruence. Qed.
Lemma le_eta {A} (p q : parser A) : le_p p q -> le_p (fun j => p j) (fun j => q j). Proof. intros H i. apply H. Qed.

Lemma le_bind {A B} (p q : parser A) (f g : A -> parser B) : le_p p q -> (forall a, le_p (f a) (g a)) -> le_p (bind p f) (bind q g).
Proof.
  intros Hp Hf i Hi. unfold bind in *. destruct (p i) as [a r|e|k] eqn:E.
  - rewrite (Hp i) by congruence. rewrite E. now apply Hf.
  - rewrite (Hp i) by congruence. now rewrite E.
  - rewrite (Hp i) by congruence. now rewrite E.
Qed.
Lemma le_pmap {A B} (g : A -> B) p q : le_p p q -> le_p (pmap g p) (pmap g q).
Proof. intros H i Hi. unfold pmap in *. rewrite (H i); [reflexivity|]. intros X. rewrite X in Hi. congruence. Qed.
Lemma le_value {A B} (v : B) (p q : parser A) : le_p p q -> le_p (value v p) (value v q). Proof. apply le_pmap. Qed.
Lemma le_unitp {A} (p q : parser A) : le_p p q -> le_p (unitp p) (unitp q). Proof. apply le_pmap. Qed.
Lemma le_pair {A B} (p p' : parser A) (q q' : parser B) : le_p p p' -> le_p q q' -> le_p (pair p q) (pair p' q').
Proof. intros. unfold pair. apply le_bind; [assumption|]. intros a. now apply le_pmap. Qed.
Lemma le_preceded {A B} (p p' : parser A) (q q' : parser B) : le_p p p' -> le_p q q' -> le_p (preceded p q) (preceded p' q').
Proof. intros. unfold preceded. now apply le_bind. Qed.
Lemma le_terminated {A B} (p p' : parser A) (q q' : parser B) : le_p p p' -> le_p q q' -> le_p (terminated p q) (terminated p' q').
Proof. intros. unfold terminated. apply le_bind; [assumption|]. intros a. now apply le_pmap. Qed.
Lemma le_delimited {A B C} (p p' : parser A) (q q' : parser B) (r r' : parser C) :
  le_p p p' -> le_p q q' -> le_p r r' -> le_p (delimited p q r) (delimited p' q' r').
Proof. intros. unfold delimited. apply le_preceded; [assumption|]. now apply le_terminated. Qed.

Lemma le_alt' {A} (ps qs : list (parser A)) : Forall2 le_p ps qs -> forall last, le_p (alt' ps last) (alt' qs last).
Proof.
  induction 1 as [|p q ps qs Hpq _ IH]; intros last i Hi; cbn [alt'] in *; [reflexivity|].
  destruct (p i) as [a r|e|k] eqn:E.
  - rewrite (Hpq i) by congruence. now rewrite E.
  - rewrite (Hpq i) by congruence. rewrite E. now apply IH.
  - rewrite (Hpq i) by congruence. now rewrite E.
Qed.
Lemma le_alt {A} (ps qs : list (parser A)) : Forall2 le_p ps qs -> le_p (alt ps) (alt qs).
Proof. intros. now apply le_alt'. Qed.
Lemma le_opt {A} (p q : parser A) : le_p p q -> le_p (opt p) (opt q).
Proof. intros H i Hi. unfold opt in *. rewrite (H i); [reflexivity|]. intros X. rewrite X in Hi. congruence. Qed.
Lemma le_context {A} m (p q : parser A) : le_p p q -> le_p (context m p) (context m q).
Proof. intros H i Hi. unfold context in *. rewrite (H i); [reflexivity|]. intros X. rewrite X in Hi. congruence. Qed.
Lemma le_recognize {A} (p q : parser A) : le_p p q -> le_p (recognize p) (recognize q).
Proof. intros H i Hi. unfold recognize in *. rewrite (H i); [reflexivity|]. intros X. rewrite X in Hi. congruence. Qed.
Lemma le_map_res {A B} (p q : parser A) (f : A -> option B) : le_p p q -> le_p (map_res p f) (map_res q f).
Proof. intros H i Hi. unfold map_res in *. rewrite (H i); [reflexivity|]. intros X. rewrite X in Hi. congruence. Qed.
Lemma le_pnot {A} (p q : parser A) : le_p p q -> le_p (pnot p) (pnot q).
Proof. intros H i Hi. unfold pnot in *. rewrite (H i); [reflexivity|]. intros X. rewrite X in Hi. congruence. Qed.

Lemma le_many0_aux {A} (p q : parser A) : le_p p q -> forall n i, many0_aux p n i <> Abort AFuel -> many0_aux q n i = many0_aux p n i.
Proof.
  intros H. induction n as [|n IH]; intros i Hi; cbn [many0_aux] in *; destruct (p i) as [a r|e|k] eqn:E;
    try (rewrite (H i) by congruence; rewrite E; reflexivity).
  rewrite (H i) by congruence. rewrite E. destruct (Nat.eqb (List.length r) (List.length i)); [reflexivity|].
  rewrite IH; [reflexivity|]. intros X. rewrite X in Hi. congruence.
Qed.
Lemma le_many0 {A} (p q : parser A) : le_p p q -> le_p (many0 p) (many0 q).
Proof. intros H i. unfold many0. now apply le_many0_aux. Qed.
Lemma le_fold_many0_unit {A} (p q : parser A) : le_p p q -> le_p (fold_many0_unit p) (fold_many0_unit q).
Proof. intros. now apply le_unitp, le_many0. Qed.

Lemma le_many_till_aux {A B} (f f' : parser A) (g g' : parser B) : le_p f f' -> le_p g g' -> forall n i,
  many_till_aux f g n i <> Abort AFuel -> many_till_aux f' g' n i = many_till_aux f g n i.
Proof.
  intros Hf Hg. induction n as [|n IH]; intros i Hi; cbn [many_till_aux] in *; destruct (g i) as [x rg|eg|kg] eqn:Eg;
    try (rewrite (Hg i) by congruence; rewrite Eg; reflexivity);
    rewrite (Hg i) by congruence; rewrite Eg; destruct (f i) as [a r|e|k] eqn:E;
    try (rewrite (Hf i) by congruence; rewrite E; reflexivity).
  rewrite (Hf i) by congruence. rewrite E. destruct (Nat.eqb (List.length r) (List.length i)); [reflexivity|].
  rewrite IH; [reflexivity|]. intros X. rewrite X in Hi. congruence.
Qed.
Lemma le_many_till {A B} (f f' : parser A) (g g' : parser B) : le_p f f' -> le_p g g' -> le_p (many_till f g) (many_till f' g').
Proof. intros Hf Hg i. unfold many_till. now apply le_many_till_aux. Qed.

Lemma le_sep_rest {A S} (s s' : parser S) (f f' : parser A) : le_p s s' -> le_p f f' -> forall n i,
  sep_rest s f n i <> Abort AFuel -> sep_rest s' f' n i = sep_rest s f n i.
Proof.
  intros Hs Hf. induction n as [|n IH]; intros i Hi; cbn [sep_rest] in *; destruct (s i) as [x i1|es|ks] eqn:Es;
    try (rewrite (Hs i) by congruence; rewrite Es; reflexivity);
    rewrite (Hs i) by congruence; rewrite Es; destruct (f i1) as [a i2|e|k] eqn:E;
    try (rewrite (Hf i1) by congruence; rewrite E; reflexivity).
  rewrite (Hf i1) by congruence. rewrite E. destruct (Nat.eqb (List.length i2) (List.length i)); [reflexivity|].
  rewrite IH; [reflexivity|]. intros X. rewrite X in Hi. congruence.
Qed.
Lemma le_separated_list0 {A S} (s s' : parser S) (f f' : parser A) : le_p s s' -> le_p f f' -> le_p (separated_list0 s f) (separated_list0 s' f').
Proof.
  intros Hs Hf i Hi. unfold separated_list0 in *. destruct (f i) as [a r|e|k] eqn:E;
    try (rewrite (Hf i) by congruence; rewrite E; reflexivity).
  rewrite (Hf i) by congruence. rewrite E. rewrite (le_sep_rest s s' f f' Hs Hf); [reflexivity|].
  intros X. rewrite X in Hi. congruence.
Qed.
Lemma le_separated_list1 {A S} (s s' : parser S) (f f' : parser A) : le_p s s' -> le_p f f' -> le_p (separated_list1 s f) (separated_list1 s' f').
Proof.
  intros Hs Hf i Hi. unfold separated_list1 in *. destruct (f i) as [a r|e|k] eqn:E;
    try (rewrite (Hf i) by congruence; rewrite E; reflexivity).
  rewrite (Hf i) by congruence. rewrite E. rewrite (le_sep_rest s s' f f' Hs Hf); [reflexivity|].
  intros X. rewrite X in Hi. congruence.
Qed.

(* structural search *)
Ltac le_step :=
  first [ assumption | apply le_refl | (apply le_eta; assumption)
        | apply le_pmap | apply le_value | apply le_unitp | apply le_opt | apply le_context | apply le_recognize | apply le_map_res | apply le_pnot
        | apply le_many0 | apply le_fold_many0_unit | apply le_many_till | apply le_separated_list0 | apply le_separated_list1
        | apply le_delimited | apply le_pair | apply le_preceded | apply le_terminated
        | (apply le_alt; repeat (apply Forall2_cons || apply Forall2_nil)) ].
Ltac le_auto := repeat le_step.
