(* Generic facts about the nom combinators of Nom.v, packaged as one predicate [good] that is
   closed under every combinator ructe uses:
     np    the parser never panics
     sfx   on success the remaining input is a suffix of the input
     epos  every recorded error position (a remaining-input length) is at most the input length *)
From Coq Require Import Lia.
From Ructe Require Import Nom.
Local Open Scope list_scope.

Definition np {A} (p : parser A) := forall i, p i <> Abort APanic.
Definition sfx {A} (p : parser A) := forall i a r, p i = Ok a r -> exists c, i = c ++ r.
(* a parser that consumes at least one byte whenever it succeeds *)
Definition strict {A} (p : parser A) := forall i a r, p i = Ok a r -> length r < length i.
Definition ebound (n : nat) (e : errs) := Forall (fun ne => fst ne <= n) e.
Definition epos {A} (p : parser A) := forall i e, p i = Err e -> ebound (length i) e.
Record good {A} (p : parser A) : Prop := { g_np : np p; g_sfx : sfx p; g_epos : epos p }.
Arguments g_np {A p}. Arguments g_sfx {A p}. Arguments g_epos {A p}.

Lemma sfx_len {A} (p : parser A) : sfx p -> forall i a r, p i = Ok a r -> length r <= length i.
Proof. intros H i a r E. destruct (H _ _ _ E) as [c ->]. rewrite app_length. lia. Qed.
Lemma ebound_mono n m e : n <= m -> ebound n e -> ebound m e.
Proof. intros L F. eapply Forall_impl; [|exact F]. cbn. intros; lia. Qed.
Lemma ebound_push i k e n : length i <= n -> ebound n e -> ebound n (push i k e).
Proof. intros L F. constructor; [exact L|exact F]. Qed.
Lemma ebound_err1 {A} i k n : length i <= n -> forall e, @err1 A i k = Err e -> ebound n e.
Proof. intros L e [= <-]. constructor; [exact L|constructor]. Qed.

Lemma good_ext {A} (p q : parser A) : (forall i, p i = q i) -> good p -> good q.
Proof.
  intros E [H1 H2 H3]. constructor.
  - intros i. rewrite <- E. apply H1.
  - intros i a r. rewrite <- E. apply H2.
  - intros i e. rewrite <- E. apply H3.
Qed.
Lemma good_eta {A} (p : parser A) : good p -> good (fun j => p j).
Proof. apply good_ext. reflexivity. Qed.

(* ---- leaves ---- *)
Lemma strip_prefix_sfx t : forall i r, strip_prefix t i = Some r -> i = t ++ r.
Proof.
  induction t as [|x t IH]; intros i r H; cbn in H; [now inversion H|].
  destruct i as [|y i]; [discriminate|]. destruct (N.eqb x y) eqn:E; [|discriminate].
  apply N.eqb_eq in E. subst y. cbn. f_equal. now apply IH.
Qed.
Lemma good_tag t : good (tag t).
Proof.
  constructor.
  - intros i. unfold tag. destruct (strip_prefix t i); discriminate.
  - intros i a r. unfold tag. destruct (strip_prefix t i) eqn:E; [|discriminate]. intros [= <- <-].
    exists t. now apply strip_prefix_sfx.
  - intros i e. unfold tag. destruct (strip_prefix t i); [discriminate|]. now apply ebound_err1.
Qed.
Lemma good_char c : good (char c).
Proof.
  constructor.
  - intros [|x r]; cbn; [discriminate|]. destruct (N.eqb x c); discriminate.
  - intros [|x r] a r'; cbn; [discriminate|]. destruct (N.eqb x c); [|discriminate]. intros [= <- <-]. now exists [x].
  - intros [|x r] e; cbn; [now apply ebound_err1|]. destruct (N.eqb x c); [discriminate|]. intros [= <-]. constructor; [cbn; lia|constructor].
Qed.
Lemma span_app p i : i = fst (span p i) ++ snd (span p i).
Proof.
  induction i as [|x i IH]; cbn; [reflexivity|]. destruct (p x); [|reflexivity].
  destruct (span p i). cbn in *. now rewrite <- IH.
Qed.
Lemma span_fst_all (f : N -> bool) i : Forall (fun c => f c = true) (fst (span f i)).
Proof.
  induction i as [|c i IH]; cbn [span]; [constructor|]. destruct (f c) eqn:E; [|constructor].
  destruct (span f i). cbn [fst] in *. now constructor.
Qed.
Lemma good_take_while1 f : good (take_while1 f).
Proof.
  constructor.
  - intros i. unfold take_while1. destruct (span f i) as [[|x a] r]; discriminate.
  - intros i a r. unfold take_while1. pose proof (span_app f i) as S.
    destruct (span f i) as [[|x a'] r']; [discriminate|]. intros [= <- <-]. now exists (x :: a').
  - intros i e. unfold take_while1. destruct (span f i) as [[|x a'] r']; [|discriminate]. now apply ebound_err1.
Qed.
Lemma good_take_while0 f : good (take_while0 f).
Proof.
  constructor.
  - intros i. unfold take_while0. destruct (span f i); discriminate.
  - intros i a r. unfold take_while0. pose proof (span_app f i) as S. destruct (span f i) as [a' r']. intros [= <- <-]. now exists a'.
  - intros i e. unfold take_while0. destruct (span f i); discriminate.
Qed.
Lemma good_is_not s : good (is_not s). Proof. apply good_take_while1. Qed.
Lemma good_is_a s : good (is_a s). Proof. apply good_take_while1. Qed.
Lemma good_alpha1 : good alpha1. Proof. apply good_take_while1. Qed.
Lemma good_digit1 : good digit1. Proof. apply good_take_while1. Qed.
Lemma good_multispace0 : good multispace0. Proof. apply good_take_while0. Qed.
Lemma good_multispace1 : good multispace1. Proof. apply good_take_while1. Qed.
Lemma good_one_of s : good (one_of s).
Proof.
  constructor.
  - intros [|x r]; cbn; [discriminate|]. destruct (mem x s); discriminate.
  - intros [|x r] a r'; cbn; [discriminate|]. destruct (mem x s); [|discriminate]. intros [= <- <-]. now exists [x].
  - intros [|x r] e; cbn; [now apply ebound_err1|]. destruct (mem x s); [discriminate|]. intros [= <-]. constructor; [cbn; lia|constructor].
Qed.

(* ---- sequencing ---- *)
Lemma good_bind {A B} (p : parser A) (f : A -> parser B) : good p -> (forall a, good (f a)) -> good (bind p f).
Proof.
  intros [P1 P2 P3] Hf. constructor.
  - intros i. unfold bind. destruct (p i) as [a r|e|k] eqn:E; [apply (Hf a)|discriminate|]. intros [= ->]. now apply (P1 i).
  - intros i b0 r. unfold bind. destruct (p i) as [a r1|e|k] eqn:E; try discriminate. intros H.
    destruct (P2 _ _ _ E) as [c1 ->]. destruct (g_sfx (Hf a) _ _ _ H) as [c2 ->]. exists (c1 ++ c2). now rewrite app_assoc.
  - intros i e. unfold bind. destruct (p i) as [a r1|e1|k] eqn:E; try discriminate.
    + intros H. eapply ebound_mono; [exact (sfx_len p P2 _ _ _ E)|]. exact (g_epos (Hf a) _ _ H).
    + intros [= <-]. now apply P3.
Qed.
Lemma good_pmap {A B} (f : A -> B) p : good p -> good (pmap f p).
Proof.
  intros [P1 P2 P3]. constructor.
  - intros i. unfold pmap. destruct (p i) eqn:E; try discriminate. intros [= ->]. now apply (P1 i).
  - intros i b0 r. unfold pmap. destruct (p i) eqn:E; try discriminate. intros [= <- <-]. eauto.
  - intros i e. unfold pmap. destruct (p i) eqn:E; try discriminate. intros [= <-]. now apply P3.
Qed.
Lemma good_value {A B} (v : B) (p : parser A) : good p -> good (value v p). Proof. apply good_pmap. Qed.
Lemma good_unitp {A} (p : parser A) : good p -> good (unitp p). Proof. apply good_pmap. Qed.
Lemma good_pair {A B} (p : parser A) (q : parser B) : good p -> good q -> good (pair p q).
Proof. intros Hp Hq. unfold pair. apply good_bind; [exact Hp|]. intros a. now apply good_pmap. Qed.
Lemma good_preceded {A B} (p : parser A) (q : parser B) : good p -> good q -> good (preceded p q).
Proof. intros Hp Hq. unfold preceded. now apply good_bind. Qed.
Lemma good_terminated {A B} (p : parser A) (q : parser B) : good p -> good q -> good (terminated p q).
Proof. intros Hp Hq. unfold terminated. apply good_bind; [exact Hp|]. intros a. now apply good_pmap. Qed.
Lemma good_delimited {A B C} (p : parser A) (q : parser B) (r : parser C) : good p -> good q -> good r -> good (delimited p q r).
Proof. intros. unfold delimited. apply good_preceded; [assumption|]. now apply good_terminated. Qed.

(* ---- choice, option, context, recognize, map_res, not ---- *)
Lemma good_alt' {A} (ps : list (parser A)) : Forall good ps ->
  forall last i, ebound (length i) last ->
    alt' ps last i <> Abort APanic /\
    (forall a r, alt' ps last i = Ok a r -> exists c, i = c ++ r) /\
    (forall e, alt' ps last i = Err e -> ebound (length i) e).
Proof.
  induction 1 as [|p ps Hp Hps IH]; intros last i HL; cbn [alt'].
  - split; [discriminate|]. split; [discriminate|]. intros e [= <-]. now apply ebound_push.
  - destruct (p i) as [a r|e|k] eqn:E.
    + split; [discriminate|]. split; [|discriminate]. intros a0 r0 [= <- <-]. exact (g_sfx Hp _ _ _ E).
    + apply IH. exact (g_epos Hp _ _ E).
    + split; [intros [= ->]; now apply (g_np Hp i)|]. split; discriminate.
Qed.
Lemma good_alt {A} (ps : list (parser A)) : Forall good ps -> good (alt ps).
Proof.
  intros F. constructor.
  - intros i. apply (good_alt' ps F [] i). constructor.
  - intros i. apply (good_alt' ps F [] i). constructor.
  - intros i. apply (good_alt' ps F [] i). constructor.
Qed.
Lemma good_opt {A} (p : parser A) : good p -> good (opt p).
Proof.
  intros [P1 P2 P3]. constructor.
  - intros i. unfold opt. destruct (p i) eqn:E; try discriminate. intros [= ->]. now apply (P1 i).
  - intros i a r. unfold opt. destruct (p i) eqn:E; try discriminate.
    + intros [= <- <-]. eauto.
    + intros [= <- <-]. now exists [].
  - intros i e. unfold opt. destruct (p i); discriminate.
Qed.
Lemma good_context {A} m (p : parser A) : good p -> good (context m p).
Proof.
  intros [P1 P2 P3]. constructor.
  - intros i. unfold context. destruct (p i) eqn:E; try discriminate. intros [= ->]. now apply (P1 i).
  - intros i a r. unfold context. destruct (p i) eqn:E; try discriminate. intros [= <- <-]. eauto.
  - intros i e. unfold context. destruct (p i) eqn:E; try discriminate. intros [= <-]. apply ebound_push; [lia|now apply P3].
Qed.
Lemma good_recognize {A} (p : parser A) : good p -> good (recognize p).
Proof.
  intros [P1 P2 P3]. constructor.
  - intros i. unfold recognize. destruct (p i) eqn:E; try discriminate. intros [= ->]. now apply (P1 i).
  - intros i a r. unfold recognize. destruct (p i) eqn:E; try discriminate. intros [= <- <-]. eauto.
  - intros i e. unfold recognize. destruct (p i) eqn:E; try discriminate. intros [= <-]. now apply P3.
Qed.
Lemma recognize_slice {A} (p : parser A) : sfx p -> forall i a r, recognize p i = Ok a r -> i = a ++ r.
Proof.
  intros Hp i a r H. unfold recognize in H. destruct (p i) eqn:E; inversion H; subst.
  destruct (Hp _ _ _ E) as [c ->]. rewrite app_length, Nat.add_sub.
  now rewrite firstn_app, Nat.sub_diag, firstn_all, app_nil_r.
Qed.
Lemma good_map_res {A B} (p : parser A) (f : A -> option B) : good p -> good (map_res p f).
Proof.
  intros [P1 P2 P3]. constructor.
  - intros i. unfold map_res. destruct (p i) eqn:E; try discriminate; [destruct (f a); discriminate|]. intros [= ->]. now apply (P1 i).
  - intros i b0 r. unfold map_res. destruct (p i) eqn:E; try discriminate. destruct (f a); [|discriminate]. intros [= <- <-]. eauto.
  - intros i e. unfold map_res. destruct (p i) eqn:E; try discriminate.
    + destruct (f a); [discriminate|]. now apply ebound_err1.
    + intros [= <-]. now apply P3.
Qed.
Lemma good_pnot {A} (p : parser A) : good p -> good (pnot p).
Proof.
  intros [P1 P2 P3]. constructor.
  - intros i. unfold pnot. destruct (p i) eqn:E; try discriminate. intros [= ->]. now apply (P1 i).
  - intros i a r. unfold pnot. destruct (p i) eqn:E; try discriminate. intros [= <- <-]. now exists [].
  - intros i e. unfold pnot. destruct (p i) eqn:E; try discriminate. now apply ebound_err1.
Qed.

(* ---- repetition ---- *)
Lemma good_many0_aux {A} (p : parser A) : good p -> forall n i,
  many0_aux p n i <> Abort APanic /\
  (forall l r, many0_aux p n i = Ok l r -> exists c, i = c ++ r) /\
  (forall e, many0_aux p n i = Err e -> ebound (length i) e).
Proof.
  intros [P1 P2 P3]. induction n as [|n IH]; intros i; cbn [many0_aux]; destruct (p i) as [a r|e|k] eqn:E.
  - destruct (Nat.eqb (length r) (length i)); (split; [discriminate|]); (split; [discriminate|]); [now apply ebound_err1|discriminate].
  - split; [discriminate|]. split; [intros l r [= <- <-]; now exists []|discriminate].
  - split; [intros [= ->]; now apply (P1 i)|]. split; discriminate.
  - destruct (Nat.eqb (length r) (length i)).
    + split; [discriminate|]. split; [discriminate|]. now apply ebound_err1.
    + destruct (IH r) as [I1 [I2 I3]]. destruct (many0_aux p n r) as [l r'|e|k] eqn:E2.
      * split; [discriminate|]. split; [|discriminate]. intros l0 r0 [= <- <-].
        destruct (P2 _ _ _ E) as [c1 ->]. destruct (I2 _ _ eq_refl) as [c2 ->]. exists (c1 ++ c2). now rewrite app_assoc.
      * split; [discriminate|]. split; [discriminate|]. intros e0 [= <-].
        eapply ebound_mono; [exact (sfx_len p P2 _ _ _ E)|]. now apply I3.
      * split; [intros [= ->]; now apply I1|]. split; discriminate.
  - split; [discriminate|]. split; [intros l r [= <- <-]; now exists []|discriminate].
  - split; [intros [= ->]; now apply (P1 i)|]. split; discriminate.
Qed.
Lemma good_many0 {A} (p : parser A) : good p -> good (many0 p).
Proof.
  intros Hp. constructor; intros i; unfold many0; apply (good_many0_aux p Hp).
Qed.
Lemma good_fold_many0_unit {A} (p : parser A) : good p -> good (fold_many0_unit p).
Proof. intros. apply good_unitp. now apply good_many0. Qed.

Lemma good_many_till_aux {A B} (f : parser A) (g : parser B) : good f -> good g -> forall n i,
  many_till_aux f g n i <> Abort APanic /\
  (forall l r, many_till_aux f g n i = Ok l r -> exists c, i = c ++ r) /\
  (forall e, many_till_aux f g n i = Err e -> ebound (length i) e).
Proof.
  intros [F1 F2 F3] [G1 G2 G3]. induction n as [|n IH]; intros i; cbn [many_till_aux];
    destruct (g i) as [x rg|eg|kg] eqn:Eg.
  - split; [discriminate|]. split; [|discriminate]. intros l r [= <- <-]. eauto.
  - destruct (f i) as [a r|e|k] eqn:E.
    + destruct (Nat.eqb (length r) (length i)); (split; [discriminate|]); (split; [discriminate|]); [now apply ebound_err1|discriminate].
    + split; [discriminate|]. split; [discriminate|]. intros e0 [= <-]. apply ebound_push; [lia|now apply F3].
    + split; [intros [= ->]; now apply (F1 i)|]. split; discriminate.
  - split; [intros [= ->]; now apply (G1 i)|]. split; discriminate.
  - split; [discriminate|]. split; [|discriminate]. intros l r [= <- <-]. eauto.
  - destruct (f i) as [a r|e|k] eqn:E.
    + destruct (Nat.eqb (length r) (length i)).
      * split; [discriminate|]. split; [discriminate|]. now apply ebound_err1.
      * destruct (IH r) as [I1 [I2 I3]]. destruct (many_till_aux f g n r) as [[l x] r'|e|k] eqn:E2.
        { split; [discriminate|]. split; [|discriminate]. intros l0 r0 [= <- <-].
          destruct (F2 _ _ _ E) as [c1 ->]. destruct (I2 _ _ eq_refl) as [c2 ->]. exists (c1 ++ c2). now rewrite app_assoc. }
        { split; [discriminate|]. split; [discriminate|]. intros e0 [= <-].
          eapply ebound_mono; [exact (sfx_len f F2 _ _ _ E)|]. now apply I3. }
        { split; [intros [= ->]; now apply I1|]. split; discriminate. }
    + split; [discriminate|]. split; [discriminate|]. intros e0 [= <-]. apply ebound_push; [lia|now apply F3].
    + split; [intros [= ->]; now apply (F1 i)|]. split; discriminate.
  - split; [intros [= ->]; now apply (G1 i)|]. split; discriminate.
Qed.
Lemma good_many_till {A B} (f : parser A) (g : parser B) : good f -> good g -> good (many_till f g).
Proof. intros Hf Hg. constructor; intros i; unfold many_till; apply (good_many_till_aux f g Hf Hg). Qed.

Lemma good_sep_rest {A S} (sep : parser S) (f : parser A) : good sep -> good f -> forall n i,
  sep_rest sep f n i <> Abort APanic /\
  (forall l r, sep_rest sep f n i = Ok l r -> exists c, i = c ++ r) /\
  (forall e, sep_rest sep f n i = Err e -> ebound (length i) e).
Proof.
  intros [S1 S2 S3] [F1 F2 F3]. induction n as [|n IH]; intros i; cbn [sep_rest];
    destruct (sep i) as [s0 i1|es|ks] eqn:Es.
  - destruct (f i1) as [a i2|e|k] eqn:E.
    + destruct (Nat.eqb (length i2) (length i)); (split; [discriminate|]); (split; [discriminate|]); [now apply ebound_err1|discriminate].
    + split; [discriminate|]. split; [intros l r [= <- <-]; now exists []|discriminate].
    + split; [intros [= ->]; now apply (F1 i1)|]. split; discriminate.
  - split; [discriminate|]. split; [intros l r [= <- <-]; now exists []|discriminate].
  - split; [intros [= ->]; now apply (S1 i)|]. split; discriminate.
  - destruct (f i1) as [a i2|e|k] eqn:E.
    + destruct (Nat.eqb (length i2) (length i)).
      * split; [discriminate|]. split; [discriminate|]. now apply ebound_err1.
      * destruct (IH i2) as [I1 [I2 I3]]. destruct (sep_rest sep f n i2) as [l r'|e|k] eqn:E2.
        { split; [discriminate|]. split; [|discriminate]. intros l0 r0 [= <- <-].
          destruct (S2 _ _ _ Es) as [c0 ->]. destruct (F2 _ _ _ E) as [c1 ->]. destruct (I2 _ _ eq_refl) as [c2 ->].
          exists (c0 ++ c1 ++ c2). now rewrite !app_assoc. }
        { split; [discriminate|]. split; [discriminate|]. intros e0 [= <-].
          pose proof (sfx_len sep S2 _ _ _ Es). pose proof (sfx_len f F2 _ _ _ E).
          eapply ebound_mono; [|now apply I3]. lia. }
        { split; [intros [= ->]; now apply I1|]. split; discriminate. }
    + split; [discriminate|]. split; [intros l r [= <- <-]; now exists []|discriminate].
    + split; [intros [= ->]; now apply (F1 i1)|]. split; discriminate.
  - split; [discriminate|]. split; [intros l r [= <- <-]; now exists []|discriminate].
  - split; [intros [= ->]; now apply (S1 i)|]. split; discriminate.
Qed.
Lemma good_separated_list0 {A S} (sep : parser S) (f : parser A) : good sep -> good f -> good (separated_list0 sep f).
Proof.
  intros Hs Hf. pose proof (good_sep_rest sep f Hs Hf) as R. destruct Hf as [F1 F2 F3]. constructor.
  - intros i. unfold separated_list0. destruct (f i) as [a r|e|k] eqn:E; [|discriminate|intros [= ->]; now apply (F1 i)].
    destruct (R (length r) r) as [R1 _]. destruct (sep_rest sep f (length r) r); try discriminate. intros [= ->]. now apply R1.
  - intros i l r0. unfold separated_list0. destruct (f i) as [a r|e|k] eqn:E; [|intros [= <- <-]; now exists []|discriminate].
    destruct (R (length r) r) as [_ [R2 _]]. destruct (sep_rest sep f (length r) r) as [l' r'|e|k]; try discriminate. intros [= <- <-].
    destruct (F2 _ _ _ E) as [c1 ->]. destruct (R2 _ _ eq_refl) as [c2 ->]. exists (c1 ++ c2). now rewrite app_assoc.
  - intros i e0. unfold separated_list0. destruct (f i) as [a r|e|k] eqn:E; try discriminate.
    destruct (R (length r) r) as [_ [_ R3]]. destruct (sep_rest sep f (length r) r) as [l' r'|e|k]; try discriminate. intros [= <-].
    eapply ebound_mono; [exact (sfx_len f F2 _ _ _ E)|]. now apply R3.
Qed.
Lemma good_separated_list1 {A S} (sep : parser S) (f : parser A) : good sep -> good f -> good (separated_list1 sep f).
Proof.
  intros Hs Hf. pose proof (good_sep_rest sep f Hs Hf) as R. destruct Hf as [F1 F2 F3]. constructor.
  - intros i. unfold separated_list1. destruct (f i) as [a r|e|k] eqn:E; [|discriminate|intros [= ->]; now apply (F1 i)].
    destruct (R (length r) r) as [R1 _]. destruct (sep_rest sep f (length r) r); try discriminate. intros [= ->]. now apply R1.
  - intros i l r0. unfold separated_list1. destruct (f i) as [a r|e|k] eqn:E; try discriminate.
    destruct (R (length r) r) as [_ [R2 _]]. destruct (sep_rest sep f (length r) r) as [l' r'|e|k]; try discriminate. intros [= <- <-].
    destruct (F2 _ _ _ E) as [c1 ->]. destruct (R2 _ _ eq_refl) as [c2 ->]. exists (c1 ++ c2). now rewrite app_assoc.
  - intros i e0. unfold separated_list1. destruct (f i) as [a r|e|k] eqn:E; try discriminate.
    + destruct (R (length r) r) as [_ [_ R3]]. destruct (sep_rest sep f (length r) r) as [l' r'|e|k]; try discriminate. intros [= <-].
      eapply ebound_mono; [exact (sfx_len f F2 _ _ _ E)|]. now apply R3.
    + intros [= <-]. now apply F3.
Qed.

Lemma good_escaped_aux {A B} (normal : parser A) ctrl (escapable : parser B) : good normal -> good escapable ->
  forall n input i, (exists pre, input = pre ++ i) ->
  escaped_aux normal ctrl escapable n input i <> Abort APanic /\
  (forall o r, escaped_aux normal ctrl escapable n input i = Ok o r -> exists c, input = c ++ r) /\
  (forall e, escaped_aux normal ctrl escapable n input i = Err e -> ebound (length input) e).
Proof.
  intros [N1 N2 N3] [E1 E2 E3]. induction n as [|n IH]; intros input i [pre Hpre].
  - cbn [escaped_aux]. destruct i as [|x i']; [split; [discriminate|]; split; [intros o r [= <- <-]; exists input; now rewrite app_nil_r|discriminate]|].
    destruct (normal (x :: i')) as [a i2|e|k] eqn:En.
    + destruct i2 as [|y i2']; [split; [discriminate|]; split; [intros o r [= <- <-]; exists input; now rewrite app_nil_r|discriminate]|].
      destruct (Nat.eqb (length (y :: i2')) (length (x :: i'))).
      * split; [discriminate|]. split; [|discriminate]. intros o r [= <- <-].
        destruct (N2 _ _ _ En) as [c Hc]. exists (pre ++ c). rewrite Hpre, Hc. now rewrite app_assoc.
      * split; [discriminate|]. split; discriminate.
    + destruct (N.eqb x ctrl).
      * destruct i' as [|z after]; [split; [discriminate|]; split; [discriminate|]; intros e0 [= <-]; constructor; [cbn; lia|constructor]|].
        destruct (escapable (z :: after)) as [b0 i2|e2|k2] eqn:Ee.
        { destruct i2; [split; [discriminate|]; split; [intros o r [= <- <-]; exists input; now rewrite app_nil_r|discriminate]|].
          split; [discriminate|]. split; discriminate. }
        { split; [discriminate|]. split; [discriminate|]. intros e0 [= <-].
          eapply ebound_mono; [|exact (E3 _ _ Ee)]. rewrite Hpre, app_length. cbn [length]. lia. }
        { split; [intros [= ->]; now apply (E1 (z :: after))|]. split; discriminate. }
      * destruct (Nat.eqb (length (x :: i')) (length input)).
        { split; [discriminate|]. split; [discriminate|]. intros e0 [= <-]. constructor; [cbn; lia|constructor]. }
        { split; [discriminate|]. split; [|discriminate]. intros o r [= <- <-]. now exists pre. }
    + split; [intros [= ->]; now apply (N1 (x :: i'))|]. split; discriminate.
  - cbn [escaped_aux]. destruct i as [|x i']; [split; [discriminate|]; split; [intros o r [= <- <-]; exists input; now rewrite app_nil_r|discriminate]|].
    destruct (normal (x :: i')) as [a i2|e|k] eqn:En.
    + destruct i2 as [|y i2'] eqn:Ei2; [split; [discriminate|]; split; [intros o r [= <- <-]; exists input; now rewrite app_nil_r|discriminate]|].
      destruct (N2 _ _ _ En) as [c Hc].
      destruct (Nat.eqb (length (y :: i2')) (length (x :: i'))).
      * split; [discriminate|]. split; [|discriminate]. intros o r [= <- <-].
        exists (pre ++ c). rewrite Hpre, Hc. now rewrite app_assoc.
      * apply IH. exists (pre ++ c). rewrite Hpre, Hc. now rewrite app_assoc.
    + destruct (N.eqb x ctrl).
      * destruct i' as [|z after]; [split; [discriminate|]; split; [discriminate|]; intros e0 [= <-]; constructor; [cbn; lia|constructor]|].
        destruct (escapable (z :: after)) as [b0 i2|e2|k2] eqn:Ee.
        { destruct i2 as [|y i2'] eqn:Ei2; [split; [discriminate|]; split; [intros o r [= <- <-]; exists input; now rewrite app_nil_r|discriminate]|].
          destruct (E2 _ _ _ Ee) as [c Hc]. apply IH. exists (pre ++ x :: c). rewrite Hpre, Hc. now rewrite <- app_assoc. }
        { split; [discriminate|]. split; [discriminate|]. intros e0 [= <-].
          eapply ebound_mono; [|exact (E3 _ _ Ee)]. rewrite Hpre, app_length. cbn [length]. lia. }
        { split; [intros [= ->]; now apply (E1 (z :: after))|]. split; discriminate. }
      * destruct (Nat.eqb (length (x :: i')) (length input)).
        { split; [discriminate|]. split; [discriminate|]. intros e0 [= <-]. constructor; [cbn; lia|constructor]. }
        { split; [discriminate|]. split; [|discriminate]. intros o r [= <- <-]. now exists pre. }
    + split; [intros [= ->]; now apply (N1 (x :: i'))|]. split; discriminate.
Qed.
Lemma good_escaped {A B} (normal : parser A) ctrl (escapable : parser B) : good normal -> good escapable -> good (escaped normal ctrl escapable).
Proof.
  intros Hn He. constructor; intros i; unfold escaped; apply (good_escaped_aux normal ctrl escapable Hn He (length i) i i); now exists [].
Qed.

(* structural proof search over combinator expressions *)
Ltac good_step :=
  first [ assumption
        | apply good_separated_list0 | apply good_separated_list1 | apply good_escaped
        | apply good_many0 | apply good_fold_many0_unit | apply good_many_till
        | apply good_tag | apply good_char | apply good_is_not | apply good_is_a | apply good_alpha1 | apply good_digit1
        | apply good_multispace0 | apply good_multispace1 | apply good_one_of | apply good_take_while1 | apply good_take_while0
        | apply good_pair | apply good_preceded | apply good_terminated | apply good_delimited
        | apply good_pmap | apply good_value | apply good_unitp
        | apply good_opt | apply good_context | apply good_recognize | apply good_map_res | apply good_pnot
        | apply good_many0 | apply good_fold_many0_unit | apply good_many_till
        | apply good_separated_list0 | apply good_separated_list1 | apply good_escaped
        | apply good_bind
        | (apply good_alt; repeat (apply Forall_cons || apply Forall_nil)) ].
Ltac good_auto := repeat good_step.
