(* C05: where an @expression ends. *)
From Coq Require Import Lia.
From Ructe Require Import Nom NomFacts Utf8 Spacelike Expression TemplateExpr ParserProofs DiagProofs SpaceProofs.
Local Open Scope string_scope.
Local Open Scope list_scope.

Lemma strict_bind_r {A B} (p : parser A) (f : A -> parser B) : sfx p -> (forall a, strict (f a)) -> strict (bind p f).
Proof.
  intros SP SF i b0 r. unfold bind. destruct (p i) as [a r1|e|k] eqn:E; try discriminate. intros H.
  pose proof (sfx_len _ SP _ _ _ E). pose proof (SF a _ _ _ H). lia.
Qed.
Lemma strict_recognize {A} (p : parser A) : strict p -> strict (recognize p).
Proof. intros H i a r. unfold recognize. destruct (p i) eqn:E; try discriminate. intros [= <- <-]. eauto. Qed.
Lemma strict_eta {A} (p : parser A) : strict p -> strict (fun j => p j).
Proof. intros H i a r. apply H. Qed.

(* many0 stops because its element fails at the point where it stopped *)
Lemma many0_aux_end {A} (p : parser A) : forall n i l r, many0_aux p n i = Ok l r -> exists e, p r = Err e.
Proof.
  induction n as [|n IH]; intros i l r; cbn [many0_aux]; destruct (p i) as [a r1|e|k] eqn:E; try discriminate.
  - destruct (Nat.eqb (List.length r1) (List.length i)); discriminate.
  - intros [= <- <-]. eauto.
  - destruct (Nat.eqb (List.length r1) (List.length i)); [discriminate|].
    destruct (many0_aux p n r1) as [l' r'| |] eqn:E2; try discriminate. intros [= <- <-]. eauto.
  - intros [= <- <-]. eauto.
Qed.
Lemma many0_end {A} (p : parser A) i l r : many0 p i = Ok l r -> exists e, p r = Err e.
Proof. apply many0_aux_end. Qed.

Lemma strict_rust_name : strict rust_name.
Proof.
  unfold rust_name. apply strict_map_res, strict_recognize. unfold pair. apply strict_bind_l.
  - apply strict_alt. repeat constructor; [apply strict_tag; discriminate|apply strict_take_while1].
  - intros a. assert (G : good (pmap (fun x : option bytes => (a, x)) (opt (is_a ident_chars)))) by good_auto. apply G.
Qed.
Lemma strict_quoted_string : strict quoted_string.
Proof.
  unfold quoted_string. apply strict_map_res, strict_recognize. unfold delimited, preceded. apply strict_bind_l; [apply strict_char|].
  intros _. assert (G : good (terminated (opt (escaped (is_not [34%N; 92%N]) 92 (one_of (b "'""\nrt0xu")))) (char 34))) by good_auto. apply G.
Qed.

Section X.
  Variable self : nt -> parser bytes.
  Hypothesis Hself : forall y, good (self y).
  Hypothesis Sself : forall y, y <> NInside -> strict (self y).

  Lemma good_prefix_alt : good prefix_alt. Proof. unfold prefix_alt. good_auto. Qed.
  Lemma good_atom_alt : good (atom_alt self).
  Proof.
    unfold atom_alt. pose proof good_rust_name. pose proof good_quoted_string.
    good_auto; apply good_eta, Hself.
  Qed.
  Lemma good_postfix_alt : good (postfix_alt self).
  Proof. unfold postfix_alt. good_auto; apply good_eta, Hself. Qed.
  Lemma strict_atom_alt : strict (atom_alt self).
  Proof.
    unfold atom_alt. apply strict_alt. repeat constructor.
    - apply strict_rust_name.
    - apply strict_map_res, strict_take_while1.
    - apply strict_quoted_string.
    - apply strict_eta, Sself. discriminate.
    - apply strict_eta, Sself. discriminate.
  Qed.

  (* the fragment is a non-empty, valid UTF-8 prefix of the input, and it is maximal: no further
     postfix form (.member, ::path, (..), {..}, [..], !(..), ![..]) parses where it ends *)
  Lemma exprF_NExpr_spec i e r : exprF self NExpr i = Ok e r ->
    i = e ++ r /\ e <> [] /\ utf8_valid e = true /\ exists err, postfix_alt self r = Err err.
  Proof.
    unfold exprF, exprF_gen. cbv zeta. intros H. apply map_res_to_str_inv in H. destruct H as [H V].
    set (P := context (b "Expected rust expression")
                (pair (pair prefix_alt (atom_alt (fun y j => self y j))) (fold_many0_unit (postfix_alt (fun y j => self y j))))) in H.
    assert (GP : good P).
    { unfold P. pose proof good_prefix_alt. pose proof good_atom_alt. pose proof good_postfix_alt.
      apply good_context, good_pair; [apply good_pair; assumption|]. now apply good_fold_many0_unit. }
    pose proof (recognize_slice P (g_sfx GP) _ _ _ H) as Sl.
    split; [exact Sl|]. split; [|split; [exact V|]].
    - (* non-empty: the atom consumes *)
      intros Ee. assert (Ll : List.length i = List.length r) by (rewrite Sl, Ee; reflexivity).
      assert (S : strict (recognize P)).
      { apply strict_recognize. unfold P. apply strict_context. unfold pair at 1. apply strict_bind_l.
        - unfold pair. apply strict_bind_r; [apply good_prefix_alt|]. intros a0. apply strict_pmap. apply strict_atom_alt.
        - intros a0. assert (G : good (pmap (fun x : unit => (a0, x)) (fold_many0_unit (postfix_alt (fun y j => self y j))))).
          { apply good_pmap, good_fold_many0_unit. apply good_postfix_alt. }
          apply G. }
      pose proof (S _ _ _ H) as L. lia.
    - unfold recognize in H. destruct (P i) as [a r0| |] eqn:EP; try discriminate.
      assert (r0 = r) by (inversion H; reflexivity). subst r0. clear H Sl.
      unfold P, context in EP.
      match type of EP with match ?X with _ => _ end = _ => destruct X as [[[pf at0] u] r1| |] eqn:EX; try discriminate end.
      assert (r1 = r) by (inversion EP; reflexivity). subst r1. clear EP.
      unfold pair at 1 in EX. unfold bind in EX.
      destruct (pair prefix_alt (atom_alt (fun y j => self y j)) i) as [[pf' at'] r2| |]; try discriminate.
      unfold pmap, fold_many0_unit, unitp, value, pmap in EX.
      destruct (many0 (postfix_alt (fun y j => self y j)) r2) as [l r3| |] eqn:EM; try discriminate.
      assert (r3 = r) by (inversion EX; reflexivity). subst r3. exact (many0_end _ _ _ _ EM).
  Qed.
End X.

Lemma strict_expr_gram n : forall x, x <> NInside -> strict (expr_gram n x).
Proof.
  induction n as [|n IH]; intros x Hx; [intros i a r; discriminate|]. cbn [expr_gram].
  pose proof (good_expr_gram n) as G.
  destruct x; try congruence; unfold exprF, exprF_gen; cbv zeta; apply strict_eta.
  - (* NExpr *) intros i e r H.
    destruct (exprF_NExpr_spec (expr_gram n) G IH i e r H) as [Sl [Ne _]]. rewrite Sl, app_length. destruct e; [congruence|cbn; lia].
  - apply strict_map_res, strict_recognize. unfold delimited, preceded. apply strict_bind_l; [apply strict_tag; discriminate|].
    intros _. assert (GG : good (terminated (fun j => expr_gram n NInside j) (tag (b ")")))) by (apply good_terminated; [apply good_eta, G|apply good_tag]). apply GG.
  - apply strict_map_res, strict_recognize. unfold delimited, preceded. apply strict_bind_l; [apply strict_tag; discriminate|].
    intros _. pose proof good_quoted_string. pose proof good_rust_comment. pose proof good_slash_now.
    assert (HEt : forall y, good (fun j => expr_gram n y j)) by (intros; apply good_eta, G).
    match goal with |- sfx ?p => assert (GG : good p) by (good_auto; apply HEt); apply GG end.
  - apply strict_map_res, strict_recognize. unfold delimited, preceded. apply strict_bind_l; [apply strict_tag; discriminate|].
    intros _. pose proof good_quoted_string. pose proof good_rust_comment. pose proof good_slash_now.
    assert (HEt : forall y, good (fun j => expr_gram n y j)) by (intros; apply good_eta, G).
    match goal with |- sfx ?p => assert (GG : good p) by (good_auto; apply HEt); apply GG end.
Qed.

Lemma expression_spec n i e r : expression (expr_gram (S n)) i = Ok e r ->
  i = e ++ r /\ e <> [] /\ utf8_valid e = true /\ exists err, postfix_alt (expr_gram n) r = Err err.
Proof.
  unfold expression. cbn [expr_gram]. intros H.
  destruct (exprF_NExpr_spec (expr_gram n) (good_expr_gram n) (strict_expr_gram n) i e r H) as [A [B0 [C [err D]]]].
  repeat split; try assumption. exists err. exact D.
Qed.

(* division: a '/' that does not start a block comment consumes exactly one byte *)
Lemma slash_now_spec c r : N.eqb c 42 = false -> slash_now (47%N :: c :: r) = Ok tt (c :: r).
Proof.
  intros H. unfold slash_now, unitp, value, pmap, terminated, bind, pmap, tag, pnot. cbn [strip_prefix b map String.list_ascii_of_string].
  change (N_of_ascii "/") with 47%N. change (N_of_ascii "*") with 42%N. cbn [strip_prefix]. rewrite N.eqb_refl.
  cbn [strip_prefix]. rewrite (N.eqb_sym 42 c), H. reflexivity.
Qed.
Lemma slash_now_end : slash_now [47%N] = Ok tt []. Proof. reflexivity. Qed.
Lemma slash_legacy_swallows : slash_legacy (b "/(y)") = Ok tt (b "y)") /\ slash_now (b "/(y)") = Ok tt (b "(y)").
Proof. split; reflexivity. Qed.
