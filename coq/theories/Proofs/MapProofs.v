(* The sorted association lists that model BTreeMap<String,String>: order facts for the
   byte-lexicographic comparison, insert, lookup, sortedness, and the binary search. *)
From Coq Require Import Lia Permutation.
From Ructe Require Import Nom Static.
Local Open Scope list_scope.

Lemma beqb_true x y : beqb x y = true <-> x = y.
Proof. unfold beqb. destruct (list_eq_dec N.eq_dec x y); split; congruence. Qed.
Lemma beqb_false x y : beqb x y = false <-> x <> y.
Proof. unfold beqb. destruct (list_eq_dec N.eq_dec x y); split; congruence. Qed.
Lemma beqb_refl x : beqb x x = true. Proof. now apply beqb_true. Qed.

(* ---- lex_lt is a strict total order ---- *)
Lemma lex_lt_irrefl x : lex_lt x x = false.
Proof. induction x as [|a x IH]; cbn; [reflexivity|]. now rewrite N.ltb_irrefl. Qed.

Lemma lex_lt_trans x : forall y z, lex_lt x y = true -> lex_lt y z = true -> lex_lt x z = true.
Proof.
  induction x as [|a x IH]; intros [|c y] [|d z]; cbn; try discriminate; try reflexivity.
  destruct (a <? c)%N eqn:E1.
  - intros _. destruct (c <? d)%N eqn:E2.
    + intros _. apply N.ltb_lt in E1, E2. assert (H : (a <? d)%N = true) by (apply N.ltb_lt; lia). now rewrite H.
    + destruct (d <? c)%N eqn:E3; [discriminate|]. intros _.
      apply N.ltb_lt in E1. apply N.ltb_ge in E2, E3. assert (c = d) by lia. subst d.
      assert (H : (a <? c)%N = true) by (apply N.ltb_lt; lia). now rewrite H.
  - destruct (c <? a)%N eqn:E2; [discriminate|]. intros H1.
    apply N.ltb_ge in E1, E2. assert (a = c) by lia. subst c.
    destruct (a <? d)%N; [reflexivity|]. destruct (d <? a)%N; [discriminate|]. now apply IH.
Qed.

Lemma lex_lt_total x : forall y, lex_lt x y = false -> x <> y -> lex_lt y x = true.
Proof.
  induction x as [|a x IH]; intros [|c y]; cbn; try discriminate; try congruence; try reflexivity.
  destruct (a <? c)%N eqn:E1; [discriminate|]. destruct (c <? a)%N eqn:E2; [reflexivity|].
  apply N.ltb_ge in E1, E2. assert (a = c) by lia. subst c.
  intros H N0. apply IH; [exact H|congruence].
Qed.
Lemma lex_lt_asym x y : lex_lt x y = true -> lex_lt y x = false.
Proof.
  intros H. destruct (lex_lt y x) eqn:E; [|reflexivity].
  pose proof (lex_lt_trans _ _ _ H E) as T. now rewrite lex_lt_irrefl in T.
Qed.
Lemma lex_lt_neq x y : lex_lt x y = true -> x <> y.
Proof. intros H ->. now rewrite lex_lt_irrefl in H. Qed.

(* ---- strictly sorted key lists ---- *)
Inductive ssorted : list bytes -> Prop :=
| ss_nil : ssorted []
| ss_one k : ssorted [k]
| ss_cons k k' r : lex_lt k k' = true -> ssorted (k' :: r) -> ssorted (k :: k' :: r).

Lemma ssorted_tail k r : ssorted (k :: r) -> ssorted r.
Proof. inversion 1; subst; [constructor|assumption]. Qed.
Lemma ssorted_head_lt k r : ssorted (k :: r) -> Forall (fun x => lex_lt k x = true) r.
Proof.
  revert k; induction r as [|k' r IH]; intros k H; [constructor|].
  inversion H; subst. constructor; [assumption|].
  specialize (IH _ H4). eapply Forall_impl; [|exact IH]. cbn. intros a Ha. eapply lex_lt_trans; eauto.
Qed.
Lemma ssorted_nodup l : ssorted l -> NoDup l.
Proof.
  induction l as [|k r IH]; intros H; [constructor|].
  constructor; [|apply IH; eapply ssorted_tail; eauto].
  intros I. pose proof (ssorted_head_lt _ _ H) as F. rewrite Forall_forall in F.
  specialize (F _ I). now rewrite lex_lt_irrefl in F.
Qed.
Lemma ssorted_nth l : ssorted l -> forall i j, i < j < length l -> lex_lt (nth i l []) (nth j l []) = true.
Proof.
  induction l as [|k r IH]; intros H i j Hij; [cbn in Hij; lia|].
  destruct j as [|j]; [lia|]. destruct i as [|i].
  - cbn [nth]. pose proof (ssorted_head_lt _ _ H) as F. rewrite Forall_forall in F.
    apply F. apply nth_In. cbn in Hij. lia.
  - cbn [nth]. apply IH; [eapply ssorted_tail; eauto|cbn in Hij; lia].
Qed.

(* ---- insert ---- *)
Lemma insert_keys_sorted k v m : ssorted (map fst m) -> ssorted (map fst (insert k v m)).
Proof.
  induction m as [|[k' v'] r IH]; intros H; cbn [insert map fst].
  - constructor.
  - destruct (beqb k k') eqn:E.
    + apply beqb_true in E. subst k'. exact H.
    + destruct (lex_lt k k') eqn:L.
      * cbn [map fst]. constructor; assumption.
      * cbn [map fst]. apply beqb_false in E. pose proof (lex_lt_total _ _ L E) as G.
        pose proof (ssorted_tail _ _ H) as Ht. specialize (IH Ht).
        destruct r as [|[k2 v2] r2].
        { cbn. constructor; [exact G|constructor]. }
        { cbn [insert] in *. inversion H; subst.
          destruct (beqb k k2); [cbn [map fst]; constructor; assumption|].
          destruct (lex_lt k k2); cbn [map fst] in *; constructor; assumption. }
Qed.

Fixpoint lookup (k : bytes) (m : list (bytes * bytes)) : option bytes :=
  match m with [] => None | (k', v) :: r => if beqb k k' then Some v else lookup k r end.

Lemma lookup_insert_same k v m : lookup k (insert k v m) = Some v.
Proof.
  induction m as [|[k' v'] r IH]; cbn [insert lookup]; [now rewrite beqb_refl|].
  destruct (beqb k k') eqn:E; [cbn [lookup]; now rewrite beqb_refl|].
  destruct (lex_lt k k'); cbn [lookup]; [now rewrite beqb_refl|]. now rewrite E.
Qed.
Lemma lookup_insert_other k v k0 m : k0 <> k -> lookup k0 (insert k v m) = lookup k0 m.
Proof.
  intros N0. induction m as [|[k' v'] r IH]; cbn [insert lookup].
  - apply beqb_false in N0. now rewrite N0.
  - destruct (beqb k k') eqn:E.
    + apply beqb_true in E. subst k'. cbn [lookup]. apply beqb_false in N0. now rewrite N0.
    + destruct (lex_lt k k'); cbn [lookup].
      * apply beqb_false in N0. now rewrite N0.
      * destruct (beqb k0 k'); [reflexivity|exact IH].
Qed.

Lemma insert_keys_perm k v m : ~ In k (map fst m) -> Permutation (map fst (insert k v m)) (k :: map fst m).
Proof.
  induction m as [|[k' v'] r IH]; intros N0; cbn [insert map fst]; [reflexivity|].
  destruct (beqb k k') eqn:E.
  - apply beqb_true in E. subst k'. exfalso. apply N0. now left.
  - destruct (lex_lt k k'); cbn [map fst]; [reflexivity|].
    rewrite IH; [apply perm_swap|]. intros I. apply N0. now right.
Qed.
Lemma insert_keys_in k v m x : In x (map fst (insert k v m)) <-> x = k \/ In x (map fst m).
Proof.
  induction m as [|[k' v'] r IH]; cbn [insert map fst In]; [intuition|].
  destruct (beqb k k') eqn:E.
  - apply beqb_true in E. subst k'. cbn [map fst In]. intuition.
  - destruct (lex_lt k k'); cbn [map fst In]; [intuition|]. rewrite IH. intuition.
Qed.
Lemma lookup_In k v m : lookup k m = Some v -> In (k, v) m.
Proof.
  induction m as [|[k' v'] r IH]; cbn [lookup]; [discriminate|].
  destruct (beqb k k') eqn:E; [apply beqb_true in E; subst; intros [= ->]; now left|].
  intros H. right. now apply IH.
Qed.
Lemma In_lookup k v m : NoDup (map fst m) -> In (k, v) m -> lookup k m = Some v.
Proof.
  induction m as [|[k' v'] r IH]; intros ND I; [destruct I|].
  cbn [lookup]. inversion ND; subst. destruct I as [[= -> ->]|I].
  - now rewrite beqb_refl.
  - destruct (beqb k k') eqn:E; [|now apply IH].
    apply beqb_true in E. subst k'. exfalso. apply H1. change k with (fst (k, v)). now apply in_map.
Qed.

(* ---- binary search (core::slice::binary_search_by as used by the generated get) ---- *)
Lemma cmp_b_Eq x y : cmp_b x y = Eq <-> x = y.
Proof.
  unfold cmp_b. destruct (beqb x y) eqn:E; [apply beqb_true in E; tauto|].
  apply beqb_false in E. destruct (lex_lt x y); split; congruence.
Qed.
Lemma cmp_b_Gt x y : cmp_b x y = Gt <-> lex_lt y x = true.
Proof.
  unfold cmp_b. destruct (beqb x y) eqn:E.
  - apply beqb_true in E. subst. rewrite lex_lt_irrefl. split; discriminate.
  - apply beqb_false in E. destruct (lex_lt x y) eqn:L.
    + rewrite (lex_lt_asym _ _ L). split; discriminate.
    + rewrite (lex_lt_total _ _ L E). split; reflexivity.
Qed.
Lemma cmp_b_notGt x y : cmp_b x y <> Gt -> x = y \/ lex_lt x y = true.
Proof.
  unfold cmp_b. destruct (beqb x y) eqn:E; [apply beqb_true in E; tauto|].
  destruct (lex_lt x y); [tauto|congruence].
Qed.

Definition bs_inv (keys : list bytes) (key : bytes) (base size : nat) : Prop :=
  1 <= size /\ base + size <= length keys /\
  (forall j, j < base -> lex_lt (nth j keys []) key = true) /\
  (forall j, base + size <= j < length keys -> lex_lt key (nth j keys []) = true).

Lemma div2_bounds n : 2 <= n -> 1 <= Nat.div2 n /\ Nat.div2 n <= n - Nat.div2 n /\ Nat.div2 n < n.
Proof.
  intros H. pose proof (Nat.div2_odd n) as E. destruct (Nat.odd n); cbn in E; lia.
Qed.

Lemma bs_loop_inv keys key : ssorted keys -> forall fuel base size,
  size <= fuel -> bs_inv keys key base size ->
  bs_inv keys key (bs_loop fuel keys key base size) 1.
Proof.
  intros S. induction fuel as [|f IH]; intros base size Hf I.
  - destruct I as [I1 _]. lia.
  - cbn [bs_loop]. destruct (Nat.leb size 1) eqn:E.
    + apply Nat.leb_le in E. unfold bs_inv in *. destruct I as [I1 I2]. assert (size = 1) by lia. subst size. split; [lia|exact I2].
    + apply Nat.leb_gt in E. destruct (div2_bounds size ltac:(lia)) as [D1 [D2 D3]].
      destruct I as [I1 [I2 [I3 I4]]].
      apply IH; [lia|].
      destruct (cmp_b (nth (base + Nat.div2 size) keys []) key) eqn:C.
      * (* Lt: base := mid *)
        unfold bs_inv. split; [lia|]. split; [lia|]. split.
        { intros j Hj. assert (NG : cmp_b (nth (base + Nat.div2 size) keys []) key <> Gt) by congruence.
          destruct (cmp_b_notGt _ _ NG) as [Q|Q].
          - rewrite <- Q. apply ssorted_nth; [exact S|lia].
          - eapply lex_lt_trans; [|exact Q]. apply ssorted_nth; [exact S|lia]. }
        { intros j Hj. apply I4. lia. }
      * (* Eq *)
        unfold bs_inv. split; [lia|]. split; [lia|]. split.
        { intros j Hj. apply cmp_b_Eq in C. rewrite <- C. apply ssorted_nth; [exact S|lia]. }
        { intros j Hj. apply I4. lia. }
      * (* Gt: base stays *)
        apply cmp_b_Gt in C.
        unfold bs_inv. split; [lia|]. split; [lia|]. split; [exact I3|].
        intros j Hj. destruct (Nat.eq_dec j (base + Nat.div2 size)) as [->|NE]; [exact C|].
        eapply lex_lt_trans; [exact C|]. apply ssorted_nth; [exact S|lia].
Qed.

Lemma binary_search_correct_lemma keys key : ssorted keys ->
  match binary_search keys key with
  | Some i => i < length keys /\ nth i keys [] = key
  | None => ~ In key keys
  end.
Proof.
  intros S. unfold binary_search. destruct keys as [|k0 r] eqn:EK; [tauto|]. rewrite <- EK in *.
  assert (I0 : bs_inv keys key 0 (length keys)).
  { unfold bs_inv. subst keys. cbn [length]. split; [lia|]. split; [lia|]. split; intros j Hj; lia. }
  pose proof (bs_loop_inv keys key S (length keys) 0 (length keys) (le_n _) I0) as [_ [B2 [B3 B4]]].
  set (bi := bs_loop (length keys) keys key 0 (length keys)) in *.
  destruct (cmp_b (nth bi keys []) key) eqn:C.
  - intros I. apply In_nth with (d := []) in I. destruct I as [j [Hj Ej]].
    destruct (Nat.lt_trichotomy j bi) as [L|[L|L]].
    + specialize (B3 j L). rewrite Ej, lex_lt_irrefl in B3. discriminate.
    + subst j. rewrite Ej in C. assert (cmp_b key key = Eq) by now apply cmp_b_Eq. congruence.
    + specialize (B4 j ltac:(lia)). rewrite Ej, lex_lt_irrefl in B4. discriminate.
  - apply cmp_b_Eq in C. split; [lia|exact C].
  - intros I. apply In_nth with (d := []) in I. destruct I as [j [Hj Ej]].
    destruct (Nat.lt_trichotomy j bi) as [L|[L|L]].
    + specialize (B3 j L). rewrite Ej, lex_lt_irrefl in B3. discriminate.
    + subst j. rewrite Ej in C. assert (cmp_b key key = Eq) by now apply cmp_b_Eq. congruence.
    + specialize (B4 j ltac:(lia)). rewrite Ej, lex_lt_irrefl in B4. discriminate.
Qed.
