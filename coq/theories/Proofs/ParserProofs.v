(* The template parser (Model/Spacelike, Expression, TemplateExpr, Template) is [good] at every
   fuel: it never panics, success leaves a suffix of the input, and every recorded error position
   lies inside the input. *)
From Coq Require Import Lia.
From Ructe Require Import Nom NomFacts Utf8 Spacelike Expression TemplateExpr Template.
Local Open Scope list_scope.

Lemma good_comment_tail : good comment_tail. Proof. unfold comment_tail. good_auto. Qed.
Lemma good_comment : good comment. Proof. unfold comment. pose proof good_comment_tail. good_auto. Qed.
Lemma good_spacelike : good spacelike. Proof. unfold spacelike. pose proof good_comment. good_auto. Qed.

Lemma good_rust_name : good rust_name. Proof. unfold rust_name. good_auto. Qed.
Lemma good_quoted_string : good quoted_string. Proof. unfold quoted_string. good_auto. Qed.
Lemma good_rust_comment : good rust_comment. Proof. unfold rust_comment. good_auto. Qed.
Lemma good_slash_now : good slash_now. Proof. unfold slash_now. good_auto. Qed.

Lemma good_exprF self : (forall y, good (self y)) -> forall x, good (exprF self x).
Proof.
  intros H x.
  pose proof good_rust_name. pose proof good_quoted_string. pose proof good_rust_comment. pose proof good_slash_now.
  assert (HE : forall y, good (fun j => self y j)) by (intros y; apply good_eta, H).
  unfold exprF, exprF_gen. destruct x; cbv zeta;
    (eapply good_ext; [intros i; reflexivity|]); good_auto; try apply HE.
Qed.
Lemma good_expr_gram n : forall x, good (expr_gram n x).
Proof.
  induction n as [|n IH]; intros x; cbn [expr_gram].
  - constructor; [intros i; discriminate|intros i a r; discriminate|intros i e; discriminate].
  - now apply good_exprF.
Qed.

(* bind where the continuation only needs to be good on values the first parser can return *)
Lemma good_bind_reach {A B} (p : parser A) (f : A -> parser B) :
  good p -> (forall a, (exists i r, p i = Ok a r) -> good (f a)) -> good (bind p f).
Proof.
  intros [P1 P2 P3] Hf. constructor.
  - intros i. unfold bind. destruct (p i) as [a r|e|k] eqn:E; [apply (Hf a); eauto|discriminate|]. intros [= ->]. now apply (P1 i).
  - intros i b0 r. unfold bind. destruct (p i) as [a r1|e|k] eqn:E; try discriminate. intros H.
    destruct (P2 _ _ _ E) as [c1 ->]. destruct (g_sfx (Hf a ltac:(eauto)) _ _ _ H) as [c2 ->]. exists (c1 ++ c2). now rewrite app_assoc.
  - intros i e. unfold bind. destruct (p i) as [a r1|e1|k] eqn:E; try discriminate.
    + intros H. eapply ebound_mono; [exact (sfx_len p P2 _ _ _ E)|]. exact (g_epos (Hf a ltac:(eauto)) _ _ H).
    + intros [= <-]. now apply P3.
Qed.

(* which values a parser can return *)
Definition vals {A} (S : list A) (p : parser A) := forall i a r, p i = Ok a r -> In a S.
Lemma vals_tag t : vals [t] (tag t).
Proof. intros i a r. unfold tag. destruct (strip_prefix t i); [|discriminate]. intros [= <- <-]. now left. Qed.
Lemma vals_value {A B} (v : B) (p : parser A) : vals [v] (value v p).
Proof. intros i a r. unfold value, pmap. destruct (p i); try discriminate. intros [= <- <-]. now left. Qed.
Lemma vals_terminated {A B} S (p : parser A) (q : parser B) : vals S p -> vals S (terminated p q).
Proof.
  intros H i a r. unfold terminated, bind, pmap. destruct (p i) as [a0 r0|e|k] eqn:E; try discriminate.
  destruct (q r0); try discriminate. intros [= <- <-]. eauto.
Qed.
Lemma vals_weaken {A} S S' (p : parser A) : (forall x, In x S -> In x S') -> vals S p -> vals S' p.
Proof. intros H V i a r E. apply H. eauto. Qed.
Lemma vals_alt' {A} S (ps : list (parser A)) : Forall (vals S) ps -> forall last, vals S (alt' ps last).
Proof.
  induction 1 as [|p ps Hp Hps IH]; intros last i a r; cbn [alt']; [discriminate|].
  destruct (p i) eqn:E; [intros [= <- <-]; eauto|apply IH|discriminate].
Qed.
Lemma vals_alt {A} S (ps : list (parser A)) : Forall (vals S) ps -> vals S (alt ps).
Proof. intros F. now apply vals_alt'. Qed.
Lemma vals_preceded {A B} S (p : parser A) (q : parser B) : vals S q -> vals S (preceded p q).
Proof.
  intros H i a r. unfold preceded, bind. destruct (p i) as [a0 r0|e|k]; try discriminate. apply H.
Qed.
Lemma vals_opt {A} S (p : parser A) : vals S p -> forall i o r, opt p i = Ok o r -> match o with Some a => In a S | None => True end.
Proof.
  intros H i o r. unfold opt. destruct (p i) eqn:E; try discriminate; intros [= <- <-]; [eauto|exact I].
Qed.

Local Open Scope string_scope.
Definition dispatch_set : list bytes := [b "*"; b ":"; b "@"; b "{"; b "}"; b "("; b "if"; b "for"; b "match"; []].
Lemma vals_dispatch : vals dispatch_set dispatch.
Proof.
  unfold dispatch. apply vals_preceded. apply vals_alt.
  repeat (apply Forall_cons || apply Forall_nil).
  1-6: (eapply vals_weaken; [|apply vals_tag]; intros x [<-|[]]; unfold dispatch_set; cbn; tauto).
  - apply vals_terminated. apply vals_alt. repeat (apply Forall_cons || apply Forall_nil);
      (eapply vals_weaken; [|apply vals_tag]; intros x [<-|[]]; unfold dispatch_set; cbn; tauto).
  - eapply vals_weaken; [|apply vals_value]. intros x [<-|[]]. unfold dispatch_set. cbn. tauto.
Qed.
Lemma good_dispatch : good dispatch. Proof. unfold dispatch. good_auto. Qed.

Lemma good_rel_operator : good rel_operator.
Proof. unfold rel_operator. pose proof good_spacelike. good_auto. Qed.

Lemma good_const {A} (v : A) : good (fun i => Ok v i).
Proof.
  constructor; [intros i; discriminate| |intros i e; discriminate].
  intros i a r [= <- <-]. now exists [].
Qed.

Section G.
  Variable E : nt -> parser bytes.
  Hypothesis HE : forall x, good (E x).

  Lemma good_expression : good (expression E). Proof. unfold expression. apply good_eta, HE. Qed.
  Lemma good_expr_in_braces : good (expr_in_braces E). Proof. unfold expr_in_braces. apply good_eta, HE. Qed.
  Lemma good_expr_inside_parens : good (expr_inside_parens E). Proof. unfold expr_inside_parens. apply good_eta, HE. Qed.
  Lemma good_comma_expressions : good (comma_expressions E).
  Proof. unfold comma_expressions. pose proof good_expression. good_auto. Qed.

  Lemma good_logic_expression n : good (logic_expression E n).
  Proof.
    induction n as [|n IH]; cbn [logic_expression].
    - constructor; [intros i; discriminate|intros i a r; discriminate|intros i e; discriminate].
    - pose proof good_expression. pose proof good_spacelike. pose proof good_rel_operator.
      assert (good (fun j => logic_expression E n j)) by now apply good_eta.
      good_auto.
  Qed.

  Lemma good_cond_expression n : good (cond_expression E n).
  Proof.
    pose proof good_expression. pose proof good_spacelike. pose proof (good_logic_expression n).
    apply (good_ext (bind (opt (tag (b "let"))) (fun o => match o with
        | Some _ => pmap (fun '(lhs, rhs) => (b "let " ++ lhs ++ b " = " ++ rhs)%list)
                      (pair (preceded spacelike (context (b "Expected LHS expression in let binding") (expression E)))
                            (preceded (delimited spacelike (char 61) spacelike)
                                      (context (b "Expected RHS expression in let binding") (expression E))))
        | None => context (b "Expected expression") (logic_expression E n) end))).
    - intros i. unfold cond_expression, bind. destruct (opt (tag (b "let")) i) as [[t|] r|e|k]; reflexivity.
    - apply good_bind; [good_auto|]. intros [t|]; good_auto.
  Qed.

  Lemma good_loop_expression : good (loop_expression E).
  Proof. unfold loop_expression. pose proof good_expression. good_auto. Qed.
  Lemma good_for_variable : good (for_variable E).
  Proof.
    unfold for_variable. pose proof good_spacelike. pose proof good_rust_name. pose proof good_expr_in_braces. pose proof good_comma_expressions.
    good_auto.
  Qed.

  Section B.
    Variable ln : nat.
    Variables te if2 : parser texpr.
    Hypothesis Hte : good te.
    Hypothesis Hif2 : good if2.

    Lemma good_template_block : good (template_block te). Proof. unfold template_block. good_auto. Qed.
    Lemma good_template_argument : good (template_argument E te).
    Proof. unfold template_argument. pose proof good_expression. pose proof good_spacelike. good_auto. Qed.
    Lemma good_call_branch : good (call_branch E te).
    Proof. unfold call_branch. pose proof good_template_argument. pose proof good_rust_name. pose proof good_spacelike. good_auto. Qed.
    Lemma good_for_branch : good (for_branch E te).
    Proof. unfold for_branch. pose proof good_template_block. pose proof good_for_variable. pose proof good_loop_expression. pose proof good_spacelike. good_auto. Qed.
    Lemma good_match_branch : good (match_branch E te).
    Proof. unfold match_branch. pose proof good_template_block. pose proof good_expression. pose proof good_spacelike. good_auto. Qed.
    Lemma good_paren_branch : good (paren_branch E).
    Proof. unfold paren_branch. pose proof good_expr_inside_parens. good_auto. Qed.
    Lemma good_text_branch : good text_branch. Proof. unfold text_branch. good_auto. Qed.
    Lemma good_if2_body : good (if2_body E ln te if2).
    Proof. unfold if2_body. pose proof good_template_block. pose proof (good_cond_expression ln). pose proof good_spacelike. good_auto. Qed.

    (* the unreachable!() of template_expression is unreachable: the dispatch parser only returns
       the ten tokens the branches test for *)
    Lemma good_te_branch o : (exists i r, opt dispatch i = Ok o r) -> good (te_branch E te if2 o).
    Proof.
      intros [i [r Hr]]. destruct o as [t|]; [|apply good_text_branch].
      pose proof (vals_opt _ _ vals_dispatch _ _ _ Hr) as Hin. cbn beta iota in Hin.
      pose proof good_call_branch. pose proof good_for_branch. pose proof good_match_branch. pose proof good_paren_branch.
      pose proof good_comment_tail. pose proof good_expression.
      unfold dispatch_set in Hin. cbn [In] in Hin.
      repeat (destruct Hin as [<-|Hin]; [unfold te_branch; eapply good_ext; [intros j; vm_compute beq; cbv beta iota; reflexivity|];
                                          first [apply good_const | apply good_eta; good_auto | good_auto]|]).
      destruct Hin.
    Qed.
  End B.

  Lemma good_texprF ln self : (forall y, good (self y)) -> forall x, good (texprF E ln self x).
  Proof.
    intros H x.
    assert (HT : good (fun j => self TE j)) by apply good_eta, H.
    assert (HI : good (fun j => self IF2 j)) by apply good_eta, H.
    destruct x; unfold texprF; cbv zeta; (eapply good_ext; [intros i; reflexivity|]).
    - apply good_bind_reach; [apply good_opt, good_dispatch|]. intros o Ho. now apply good_te_branch.
    - now apply good_if2_body.
  Qed.

  Lemma good_texpr_gram ln n : forall x, good (texpr_gram E ln n x).
  Proof.
    induction n as [|n IH]; intros x; cbn [texpr_gram].
    - constructor; [intros i; discriminate|intros i a r; discriminate|intros i e; discriminate].
    - now apply good_texprF.
  Qed.
End G.

(* ---- src/template.rs ---- *)
Lemma good_lifetime : good lifetime.
Proof. unfold lifetime. pose proof good_spacelike. pose proof good_rust_name. good_auto. Qed.
Lemma good_tyF self : (forall y, good (self y)) -> forall x, good (tyF self x).
Proof.
  intros H x. pose proof good_spacelike. pose proof good_rust_name. pose proof good_lifetime.
  assert (HA : good (fun j => self TyExpr j)) by apply good_eta, H.
  assert (HB : good (fun j => self TyComma j)) by apply good_eta, H.
  unfold tyF. destruct x; cbv zeta; (eapply good_ext; [intros i; reflexivity|]); good_auto.
Qed.
Lemma good_ty_gram n : forall x, good (ty_gram n x).
Proof.
  induction n as [|n IH]; intros x; cbn [ty_gram].
  - constructor; [intros i; discriminate|intros i a r; discriminate|intros i e; discriminate].
  - now apply good_tyF.
Qed.
Lemma good_end_of_file : good end_of_file.
Proof.
  constructor.
  - intros [|x i]; discriminate.
  - intros [|x i] a r; cbn; [intros [= <- <-]; now exists []|discriminate].
  - intros [|x i] e; cbn; [discriminate|]. intros [= <-]. constructor; [cbn; lia|constructor].
Qed.
Lemma good_template TY TEX : (forall x, good (TY x)) -> good TEX -> good (template TY TEX).
Proof.
  intros HTY HTEX. pose proof good_spacelike. pose proof good_rust_name. pose proof good_end_of_file.
  assert (good (fun j => TY TyExpr j)) by apply good_eta, HTY.
  assert (good (formal_argument TY)) by (unfold formal_argument; good_auto).
  unfold template. good_auto.
Qed.

(* ---- what the declaration parsers return is the source text itself ---- *)
Local Open Scope list_scope.
Lemma map_res_to_str_inv (p : parser bytes) i a r :
  map_res p to_str i = Ok a r -> p i = Ok a r /\ utf8_valid a = true.
Proof.
  unfold map_res, to_str. destruct (p i) as [a0 r0|e|k]; try discriminate.
  destruct (utf8_valid a0) eqn:V; [|discriminate]. intros [= <- <-]. auto.
Qed.

Lemma formal_argument_slice TY : (forall x, good (TY x)) -> forall i a r,
  formal_argument TY i = Ok a r -> i = a ++ r /\ utf8_valid a = true.
Proof.
  intros HTY i a r H. unfold formal_argument in H. apply map_res_to_str_inv in H. destruct H as [H V]. split; [|exact V].
  eapply recognize_slice; [|exact H].
  pose proof good_spacelike. pose proof good_rust_name. assert (good (fun j => TY TyExpr j)) by apply good_eta, HTY.
  assert (G : good (pair (pair (pair (pair rust_name spacelike) (char 58)) spacelike) (fun j => TY TyExpr j))) by good_auto.
  apply G.
Qed.

Definition use_line : parser bytes :=
  delimited (tag (b "@")) (map_res (is_not (b ";()")) to_str) (terminated (tag (b ";")) spacelike).
Lemma tag_inv t i a r : tag t i = Ok a r -> a = t /\ i = t ++ r.
Proof.
  unfold tag. destruct (strip_prefix t i) eqn:S; [|discriminate]. intros [= <- <-]. split; [reflexivity|now apply strip_prefix_sfx].
Qed.
Lemma use_line_slice i l r : use_line i = Ok l r ->
  exists ws, i = b "@" ++ l ++ b ";" ++ ws ++ r /\ utf8_valid l = true /\ l <> [] /\ Forall (fun c => mem c (b ";()") = false) l.
Proof.
  unfold use_line, delimited, preceded, terminated, bind, pmap.
  destruct (tag (b "@") i) as [t r0|e|k] eqn:E0; try discriminate.
  destruct (map_res (is_not (b ";()")) to_str r0) as [l0 r1|e|k] eqn:E1; try discriminate.
  destruct (tag (b ";") r1) as [t2 r2|e|k] eqn:E2; try discriminate.
  destruct (spacelike r2) as [u r3|e|k] eqn:E3; try discriminate. intros [= <- <-].
  apply map_res_to_str_inv in E1. destruct E1 as [E1 V].
  destruct (tag_inv _ _ _ _ E0) as [_ H0]. destruct (tag_inv _ _ _ _ E2) as [_ H2].
  destruct (g_sfx good_spacelike _ _ _ E3) as [ws Hws].
  unfold is_not, take_while1 in E1. pose proof (span_app (fun c => negb (mem c (b ";()"))) r0) as SA.
  assert (SP : Forall (fun c => mem c (b ";()") = false) (fst (span (fun c => negb (mem c (b ";()"))) r0))).
  { eapply Forall_impl; [|apply span_fst_all]. cbv beta. intros c Hc. now apply negb_true_iff in Hc. }
  destruct (span (fun c => negb (mem c (b ";()"))) r0) as [[|x a'] rr]; [discriminate|].
  cbn [fst snd] in *. assert (l0 = x :: a' /\ r1 = rr) as [-> ->] by (inversion E1; auto).
  exists ws. split; [|split; [exact V|split; [discriminate|exact SP]]].
  rewrite H0, SA, H2, Hws. rewrite <- ?app_assoc. reflexivity.
Qed.
