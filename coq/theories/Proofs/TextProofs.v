(* What template_expression does with literal text, escapes, comments, @( ) and plain
   @expressions (C01, C05), and where blocks end (C03). *)
From Coq Require Import Lia.
From Ructe Require Import Nom NomFacts Utf8 Spacelike Expression TemplateExpr Template ParserProofs DiagProofs SpaceProofs.
Local Open Scope string_scope.
Local Open Scope list_scope.

Section T.
  Variable E : nt -> parser bytes.
  Hypothesis HE : forall x, good (E x).
  Variable ln n : nat.
  Notation TEp := (texpr_gram E ln (S n) TE).
  Notation te := (fun j => texpr_gram E ln n TE j).
  Notation if2 := (fun j => texpr_gram E ln n IF2 j).

  Lemma TE_unfold i : TEp i = bind (opt dispatch) (te_branch E te if2) i.
  Proof. reflexivity. Qed.

  Lemma dispatch_not_at c r : N.eqb c 64 = false -> opt dispatch (c :: r) = Ok None (c :: r).
  Proof. intros H. unfold opt, dispatch, preceded, bind, char. now rewrite H. Qed.
  Lemma dispatch_nil : opt dispatch [] = Ok None []. Proof. reflexivity. Qed.

  (* a text run: everything up to the next '@', '{' or '}' (or the end), UTF-8 validated *)
  Definition plain (c : N) : bool := negb (mem c (b "@{}")).
  Definition text_stop (rest : bytes) : Prop := rest = [] \/ exists x t, rest = x :: t /\ plain x = false.

  Lemma text_run_capture_lemma run rest :
    run <> [] -> Forall (fun c => plain c = true) run -> utf8_valid run = true -> text_stop rest ->
    TEp (run ++ rest) = Ok (TText run) rest.
  Proof.
    intros Hne Hrun Hutf Hrest. destruct run as [|c run]; [congruence|].
    assert (Hc : N.eqb c 64 = false).
    { inversion Hrun as [|? ? H1 _]; subst. unfold plain in H1. cbn in H1. apply negb_true_iff in H1.
      apply orb_false_iff in H1. destruct H1 as [H1 _]. exact H1. }
    rewrite TE_unfold. unfold bind. cbn [app]. rewrite (dispatch_not_at c _ Hc). cbn [te_branch].
    unfold text_branch, pmap, map_res, is_not, take_while1. fold plain.
    change (c :: run ++ rest) with ((c :: run) ++ rest).
    rewrite (span_app_stop plain (c :: run) rest Hrest).
    assert (S : span plain (c :: run) = (c :: run, [])).
    { clear -Hrun. induction Hrun as [|x l Hx Hl IH]; [reflexivity|]. cbn [span]. rewrite Hx, IH. reflexivity. }
    rewrite S. cbn [fst snd app]. unfold to_str. rewrite Hutf. reflexivity.
  Qed.

  (* the three escapes *)
  Lemma escape_tokens_lemma r :
    TEp (b "@@" ++ r) = Ok (TText (b "@")) r /\ TEp (b "@{" ++ r) = Ok (TText (b "{")) r /\ TEp (b "@}" ++ r) = Ok (TText (b "}")) r.
  Proof. repeat split; reflexivity. Qed.

  (* a comment produces a Comment node (which emits nothing) and ends at its first "*@" *)
  Lemma comment_node_lemma body rest : no_close body = true ->
    TEp (b "@*" ++ body ++ b "*@" ++ rest) = Ok TComment rest.
  Proof.
    intros H. rewrite TE_unfold. unfold bind.
    change (b "@*" ++ body ++ b "*@" ++ rest) with (64%N :: 42%N :: (body ++ b "*@" ++ rest)).
    assert (D : opt dispatch (64%N :: 42%N :: (body ++ b "*@" ++ rest)) = Ok (Some (b "*")) (body ++ b "*@" ++ rest)) by reflexivity.
    rewrite D. cbn [te_branch]. change (beq (b "*") (b ":")) with false. change (beq (b "*") (b "@")) with false.
    change (beq (b "*") (b "{")) with false. change (beq (b "*") (b "}")) with false. change (beq (b "*") (b "*")) with true.
    cbv iota. unfold value, pmap. now rewrite comment_tail_skips.
  Qed.

  (* @( .. ) is handled by the paren branch: it ends at the parenthesis that closes the group *)
  Lemma paren_form_lemma i : TEp (b "@(" ++ i) = paren_branch E i.
  Proof. reflexivity. Qed.
  Lemma paren_branch_spec i e r : expr_inside_parens E i = Ok e (41%N :: r) ->
    paren_branch E i = Ok (TExpr (b "(" ++ e ++ b ")")) r.
  Proof.
    intros H. unfold paren_branch, pmap, terminated, bind. rewrite H. unfold pmap, tag. cbn [strip_prefix b map String.list_ascii_of_string].
    change (N_of_ascii ")") with 41%N. cbn [strip_prefix]. rewrite N.eqb_refl. reflexivity.
  Qed.

  (* IF2 only ever yields an IfBlock *)
  Lemma if2_yields_if m i a r : texpr_gram E ln m IF2 i = Ok a r -> exists c bd e, a = TIf c bd e.
  Proof.
    destruct m as [|m]; [discriminate|]. cbn [texpr_gram]. unfold texprF. cbv zeta. unfold if2_body, context, pmap.
    match goal with |- context [pair ?p ?q i] => destruct (pair p q i) as [[[c bd] e] r0| |] end; try discriminate.
    intros [= <- <-]. eauto.
  Qed.

  (* what the dispatch parser consumed *)
  Lemma dispatch_inv i d r1 : dispatch i = Ok d r1 ->
    (In d [b "*"; b ":"; b "@"; b "{"; b "}"; b "("] /\ i = 64%N :: d ++ r1) \/
    (In d [b "if"; b "for"; b "match"] /\ i = 64%N :: d ++ 32%N :: r1) \/
    (d = [] /\ i = 64%N :: r1).
  Proof.
    unfold dispatch, preceded, bind, char. destruct i as [|x j]; [discriminate|].
    destruct (N.eqb x 64) eqn:Ex; [|discriminate]. apply N.eqb_eq in Ex. subst x.
    unfold alt. cbn [alt'].
    repeat match goal with
    | |- match tag ?t j with _ => _ end = _ -> _ =>
        let Et := fresh "Et" in destruct (tag t j) as [a0 r0| |] eqn:Et;
        [intros [= <- <-]; destruct (tag_inv _ _ _ _ Et) as [-> ->]; left; split; [cbn; tauto|reflexivity]| |discriminate]
    end.
    (* the keyword alternative *)
    unfold terminated, bind, value, pmap, alt. cbn [alt'].
    destruct (tag (b "if") j) as [a1 r1'| |] eqn:E1.
    - destruct (tag_inv _ _ _ _ E1) as [-> ->]. destruct (tag (b " ") r1') as [a2 r2| |] eqn:E2.
      + intros [= <- <-]. destruct (tag_inv _ _ _ _ E2) as [_ ->]. right. left. split; [cbn; tauto|reflexivity].
      + unfold value, pmap, tag. cbn [strip_prefix b map String.list_ascii_of_string]. intros [= <- <-]. right. right. split; reflexivity.
      + discriminate.
    - destruct (tag (b "for") j) as [a1 r1'| |] eqn:E1b.
      + destruct (tag_inv _ _ _ _ E1b) as [-> ->]. destruct (tag (b " ") r1') as [a2 r2| |] eqn:E2.
        * intros [= <- <-]. destruct (tag_inv _ _ _ _ E2) as [_ ->]. right. left. split; [cbn; tauto|reflexivity].
        * unfold value, pmap, tag. cbn [strip_prefix b map String.list_ascii_of_string]. intros [= <- <-]. right. right. split; reflexivity.
        * discriminate.
      + destruct (tag (b "match") j) as [a1 r1'| |] eqn:E1c.
        * destruct (tag_inv _ _ _ _ E1c) as [-> ->]. destruct (tag (b " ") r1') as [a2 r2| |] eqn:E2.
          { intros [= <- <-]. destruct (tag_inv _ _ _ _ E2) as [_ ->]. right. left. split; [cbn; tauto|reflexivity]. }
          { unfold value, pmap, tag. cbn [strip_prefix b map String.list_ascii_of_string]. intros [= <- <-]. right. right. split; reflexivity. }
          { discriminate. }
        * unfold value, pmap, tag. cbn [strip_prefix b map String.list_ascii_of_string]. intros [= <- <-]. right. right. split; reflexivity.
        * discriminate.
      + discriminate.
    - discriminate.
  Qed.

  (* every Text node is a slice of the source, or one of the three escapes *)
  Lemma text_node_is_source_slice_lemma i t r : TEp i = Ok (TText t) r ->
    i = t ++ r \/ (exists c, In c [64%N; 123%N; 125%N] /\ t = [c] /\ i = 64%N :: c :: r).
  Proof.
    rewrite TE_unfold. unfold bind. destruct (opt dispatch i) as [[d|] r1|e|k] eqn:Eo; try discriminate.
    - assert (Ed : dispatch i = Ok d r1).
      { unfold opt in Eo. destruct (dispatch i) as [d' r'| |]; try discriminate. now inversion Eo. }
      destruct (dispatch_inv _ _ _ Ed) as [[Hin Hi]|[[Hin Hi]|[Hd Hi]]].
      + cbn [In] in Hin. destruct Hin as [<-|[<-|[<-|[<-|[<-|[<-|[]]]]]]]; cbn [te_branch]; vm_compute beq; cbv iota.
        * unfold value, pmap. destruct (comment_tail r1); discriminate.
        * unfold call_branch, pmap. match goal with |- match ?X with _ => _ end = _ -> _ => destruct X as [[nm ar] r0| |] end; discriminate.
        * intros [= <- <-]. right. exists 64%N. split; [cbn; tauto|]. split; [reflexivity|exact Hi].
        * intros [= <- <-]. right. exists 123%N. split; [cbn; tauto|]. split; [reflexivity|exact Hi].
        * intros [= <- <-]. right. exists 125%N. split; [cbn; tauto|]. split; [reflexivity|exact Hi].
        * unfold paren_branch, pmap. match goal with |- match ?X with _ => _ end = _ -> _ => destruct X as [e0 r0| |] end; discriminate.
      + cbn [In] in Hin. destruct Hin as [<-|[<-|[<-|[]]]]; cbn [te_branch]; vm_compute beq; cbv iota.
        * intros H. destruct (if2_yields_if n _ _ _ H) as [c [bd [e0 X]]]. discriminate.
        * unfold for_branch, pmap. match goal with |- match ?X with _ => _ end = _ -> _ => destruct X as [[[nm ex] bd] r0| |] end; discriminate.
        * unfold match_branch, context, pmap. match goal with |- match match ?X with _ => _ end with _ => _ end = _ -> _ => destruct X as [[ex ar] r0| |] end; discriminate.
      + subst d. cbn [te_branch]. vm_compute beq. cbv iota. unfold pmap. destruct (expression E r1); discriminate.
    - cbn [te_branch]. unfold text_branch, pmap. intros H.
      destruct (map_res (is_not (b "@{}")) to_str r1) as [t0 r0| |] eqn:Em; try discriminate.
      assert (t0 = t /\ r0 = r) as [-> ->] by (inversion H; auto).
      apply map_res_to_str_inv in Em. destruct Em as [Em _].
      assert (r1 = i). { unfold opt in Eo. destruct (dispatch i); try discriminate. now inversion Eo. } subst r1.
      left. unfold is_not, take_while1 in Em. pose proof (span_app (fun c => negb (mem c (b "@{}"))) i) as SA.
      destruct (span (fun c => negb (mem c (b "@{}"))) i) as [[|x a'] rr]; [discriminate|].
      assert (t = x :: a' /\ r = rr) as [-> ->] by (inversion Em; auto). exact SA.
  Qed.
End T.

(* ---- where blocks end (C03) ---- *)
Lemma many_till_aux_end {A B} (f : parser A) (g : parser B) : sfx f -> forall n i l x r,
  many_till_aux f g n i = Ok (l, x) r -> exists c mid, i = c ++ mid /\ g mid = Ok x r.
Proof.
  intros Sf. induction n as [|n IH]; intros i l x r; cbn [many_till_aux]; destruct (g i) as [x0 rg| |] eqn:Eg; try discriminate.
  - intros [= <- <- <-]. exists [], i. split; [reflexivity|exact Eg].
  - destruct (f i) as [a r1| |]; try discriminate. destruct (Nat.eqb (List.length r1) (List.length i)); discriminate.
  - intros [= <- <- <-]. exists [], i. split; [reflexivity|exact Eg].
  - destruct (f i) as [a r1| |] eqn:Ef; try discriminate. destruct (Nat.eqb (List.length r1) (List.length i)); [discriminate|].
    destruct (many_till_aux f g n r1) as [[l' x'] r'| |] eqn:E2; try discriminate. intros [= <- <- <-].
    destruct (IH _ _ _ _ E2) as [c [mid [Hc Hg]]]. destruct (Sf _ _ _ Ef) as [c1 Hc1].
    exists (c1 ++ c), mid. split; [rewrite Hc1, Hc; now rewrite app_assoc|exact Hg].
Qed.
Lemma many_till_end {A B} (f : parser A) (g : parser B) : sfx f -> forall i l x r,
  many_till f g i = Ok (l, x) r -> exists c mid, i = c ++ mid /\ g mid = Ok x r.
Proof. intros Sf i l x r. apply many_till_aux_end. exact Sf. Qed.

Lemma char_inv c i a r : char c i = Ok a r -> a = c /\ i = c :: r.
Proof. destruct i as [|x i']; cbn; [discriminate|]. destruct (N.eqb x c) eqn:E; [|discriminate]. apply N.eqb_eq in E. intros [= <- <-]. now subst. Qed.

Definition ends_with_brace (i r : bytes) : Prop := exists pre, i = pre ++ 125%N :: r.

Section Blocks.
  Variable E : nt -> parser bytes.
  Hypothesis HE : forall x, good (E x).
  Variable ln : nat.

  (* a block is `{`, its items, `}`: what follows the closing brace is left untouched *)
  Lemma template_block_ends te i items r : good te -> template_block te i = Ok items r ->
    exists body, i = 123%N :: body ++ 125%N :: r.
  Proof.
    intros Gte. unfold template_block, preceded, bind, pmap.
    destruct (char 123 i) as [c0 r0| |] eqn:E0; try discriminate. destruct (char_inv _ _ _ _ E0) as [_ Hi].
    destruct (many_till (context (b "Error in expression starting here:") te) (char 125) r0) as [[l x] r1| |] eqn:Em; try discriminate.
    intros [= <- <-].
    assert (Gc : good (context (b "Error in expression starting here:") te)) by good_auto.
    destruct (many_till_end _ _ (g_sfx Gc) _ _ _ _ Em) as [c [mid [Hc Hg]]]. destruct (char_inv _ _ _ _ Hg) as [_ Hm].
    exists c. now rewrite Hi, Hc, Hm.
  Qed.

  Lemma opt_none_inv {A} (p : parser A) j r : opt p j = Ok None r -> r = j.
  Proof. unfold opt. destruct (p j); try discriminate. now intros [= <-]. Qed.

  (* an if (with or without else / else-if chain) ends with the `}` of its last block: nothing
     after a block's closing brace is swallowed unless an else really follows *)
  Lemma if2_ends : forall m i a r, texpr_gram E ln m IF2 i = Ok a r -> ends_with_brace i r.
  Proof.
    induction m as [|m IH]; intros i a r; [discriminate|]. cbn [texpr_gram]. unfold texprF. cbv zeta.
    set (te := fun j => texpr_gram E ln m TE j). set (if2 := fun j => texpr_gram E ln m IF2 j).
    assert (Gte : good te) by (apply good_eta, good_texpr_gram, HE).
    unfold if2_body, context, pmap.
    match goal with |- match match ?X with _ => _ end with _ => _ end = _ -> _ => destruct X as [[[c bd] els] r0| |] eqn:EX; try discriminate end.
    intros [= <- <-]. unfold pair at 1, bind in EX.
    destruct (pair (delimited spacelike (cond_expression E ln) spacelike) (template_block te) i) as [[c' bd'] r1| |] eqn:E1; try discriminate.
    unfold pmap at 1 in EX.
    match type of EX with match ?X with _ => _ end = _ => destruct X as [o r2| |] eqn:E2; try discriminate end.
    assert (r2 = r0) by (inversion EX; reflexivity). subst r2.
    (* the condition and first block *)
    unfold pair, bind in E1. destruct (delimited spacelike (cond_expression E ln) spacelike i) as [c2 r3| |] eqn:E3; try discriminate.
    unfold pmap in E1. destruct (template_block te r3) as [bd2 r4| |] eqn:E4; try discriminate.
    assert (r4 = r1) by (inversion E1; reflexivity). subst r4.
    destruct (template_block_ends _ _ _ _ Gte E4) as [body Hb].
    assert (G3 : good (delimited spacelike (cond_expression E ln) spacelike)) by (pose proof good_spacelike; pose proof (good_cond_expression E HE ln); good_auto).
    destruct (g_sfx G3 _ _ _ E3) as [c3 Hc3].
    destruct o as [eb|].
    - (* an else follows: the consumed text ends with the else block's brace *)
      unfold opt in E2. match type of E2 with match ?P r1 with _ => _ end = _ => destruct (P r1) as [eb' r5| |] eqn:E5; try discriminate end.
      assert (r5 = r0) by (inversion E2; reflexivity). subst r5.
      unfold preceded at 1, bind in E5.
      destruct (delimited spacelike (tag (b "else")) spacelike r1) as [t6 r6| |] eqn:E6; try discriminate.
      assert (G6 : good (delimited spacelike (tag (b "else")) spacelike)) by (pose proof good_spacelike; good_auto).
      destruct (g_sfx G6 _ _ _ E6) as [c6 Hc6].
      unfold alt in E5. cbn [alt'] in E5.
      match type of E5 with match ?X with _ => _ end = _ => destruct X as [v7 r7| |] eqn:E7 end.
      + assert (r7 = r0) by (inversion E5; reflexivity). subst r7.
        unfold preceded, bind in E7. destruct (tag (b "if") r6) as [t8 r8| |] eqn:E8; try discriminate.
        destruct (tag_inv _ _ _ _ E8) as [_ H8]. destruct (if2 r8) as [a9 r9| |] eqn:E9; try discriminate.
        assert (r9 = r0) by (inversion E7; reflexivity). subst r9.
        destruct (IH _ _ _ E9) as [pre Hpre]. exists (c3 ++ (123%N :: body ++ [125%N]) ++ c6 ++ b "if" ++ pre).
        rewrite Hc3, Hb, Hc6, H8, Hpre. rewrite <- !app_assoc. cbn [app]. rewrite <- !app_assoc. reflexivity.
      + destruct (template_block te r6) as [v7 r7| |] eqn:E7b; try discriminate.
        assert (r7 = r0) by (inversion E5; reflexivity). subst r7.
        destruct (template_block_ends _ _ _ _ Gte E7b) as [body2 Hb2].
        exists (c3 ++ (123%N :: body ++ [125%N]) ++ c6 ++ 123%N :: body2).
        rewrite Hc3, Hb, Hc6, Hb2. rewrite <- !app_assoc. cbn [app]. rewrite <- !app_assoc. reflexivity.
      + discriminate.
    - (* no else: the remaining input is exactly what follows the block's closing brace *)
      apply opt_none_inv in E2. subst r0. exists (c3 ++ 123%N :: body). rewrite Hc3, Hb. now rewrite <- app_assoc.
  Qed.

  Lemma for_branch_ends te i a r : good te -> for_branch E te i = Ok a r -> ends_with_brace i r.
  Proof.
    intros Gte. unfold for_branch, pmap.
    match goal with |- match ?X with _ => _ end = _ -> _ => destruct X as [[[nm ex] bd] r0| |] eqn:EX; try discriminate end.
    intros [= <- <-]. unfold pair at 1, bind in EX.
    match type of EX with match ?P i with _ => _ end = _ => destruct (P i) as [[nm' ex'] r1| |] eqn:E1; try discriminate end.
    unfold pmap, context in EX. destruct (template_block te r1) as [bd2 r2| |] eqn:E2; try discriminate.
    assert (r2 = r0) by (inversion EX; reflexivity). subst r2.
    destruct (template_block_ends _ _ _ _ Gte E2) as [body Hb].
    match type of E1 with ?P i = _ => assert (G1 : good P) end.
    { pose proof good_spacelike. pose proof (good_for_variable E HE). pose proof (good_loop_expression E HE). good_auto. }
    destruct (g_sfx G1 _ _ _ E1) as [c1 Hc1]. exists (c1 ++ 123%N :: body). rewrite Hc1, Hb. now rewrite <- app_assoc.
  Qed.
  (* a match ends with the `}` that closes its arm list: what follows is left untouched *)
  Lemma match_branch_ends te i a r : good te -> match_branch E te i = Ok a r -> ends_with_brace i r.
  Proof.
    intros Gte. unfold match_branch, context, pmap.
    match goal with |- match match ?X with _ => _ end with _ => _ end = _ -> _ => destruct X as [[ex arms] r0| |] eqn:EX; try discriminate end.
    intros [= <- <-]. unfold pair at 1, bind in EX.
    destruct (delimited spacelike (expression E) spacelike i) as [ex1 r1| |] eqn:E1; try discriminate.
    unfold pmap at 1 in EX.
    match type of EX with match ?X with _ => _ end = _ => destruct X as [arms2 r2| |] eqn:E2; try discriminate end.
    assert (r2 = r0) by (inversion EX; reflexivity). subst r2.
    assert (G1 : good (delimited spacelike (expression E) spacelike)) by (pose proof good_spacelike; pose proof (good_expression E HE); good_auto).
    destruct (g_sfx G1 _ _ _ E1) as [c1 Hc1].
    unfold preceded at 1, bind in E2. destruct (char 123 r1) as [c0 r3| |] eqn:E3; try discriminate.
    destruct (char_inv _ _ _ _ E3) as [_ H3]. unfold pmap in E2.
    match type of E2 with match ?X with _ => _ end = _ => destruct X as [[l x] r4| |] eqn:E4; try discriminate end.
    assert (r4 = r0) by (inversion E2; reflexivity). subst r4.
    match type of E4 with many_till ?F ?G r3 = _ => assert (GF : good F) end.
    { pose proof good_spacelike. pose proof (good_expression E HE).
      assert (good (template_block te)) by (unfold template_block; good_auto). good_auto. }
    destruct (many_till_end _ _ (g_sfx GF) _ _ _ _ E4) as [c [mid [Hc Hg]]].
    unfold preceded, bind in Hg. destruct (spacelike mid) as [u r5| |] eqn:E5; try discriminate.
    destruct (g_sfx good_spacelike _ _ _ E5) as [c5 Hc5]. destruct (char_inv _ _ _ _ Hg) as [_ H6].
    exists (c1 ++ 123%N :: c ++ c5). rewrite Hc1, H3, Hc, Hc5, H6. rewrite <- !app_assoc. cbn [app]. now rewrite <- !app_assoc.
  Qed.
End Blocks.
