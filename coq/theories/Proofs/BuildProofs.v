(* Proofs about Model/Build.v. *)
From Coq Require Import Lia Permutation.
From Ructe Require Import Nom Utf8 Emit Compile Md5 Static Tables Build MapProofs StaticProofs.
Local Open Scope list_scope.

(* ================= write_if_changed and plans (C12) ================= *)
Lemma fs_get_set_same p v l : fs_get p (fs_set p v l) = Some v.
Proof.
  induction l as [|[k w] r IH]; cbn [fs_set fs_get]; [now rewrite beqb_refl|].
  destruct (beqb k p) eqn:E; cbn [fs_get]; rewrite E; [reflexivity|exact IH].
Qed.
Lemma fs_get_set_other p q v l : q <> p -> fs_get q (fs_set p v l) = fs_get q l.
Proof.
  intros N0. induction l as [|[k w] r IH]; cbn [fs_set fs_get].
  - destruct (beqb p q) eqn:E; [apply beqb_true in E; congruence|reflexivity].
  - destruct (beqb k p) eqn:E; cbn [fs_get].
    + apply beqb_true in E. subst k. destruct (beqb p q) eqn:E2; [apply beqb_true in E2; congruence|reflexivity].
    + destruct (beqb k q); [reflexivity|exact IH].
Qed.
Lemma fs_set_idem p v l : fs_get p l = Some v -> fs_set p v l = l.
Proof.
  induction l as [|[k w] r IH]; cbn [fs_set fs_get]; [discriminate|].
  destruct (beqb k p) eqn:E; [intros [= ->]; reflexivity|]. intros H. now rewrite IH.
Qed.

(* one write_if_changed: afterwards the path holds the content; a physical write happens iff the
   path did not already hold exactly that content as valid UTF-8 (garbage, truncations and
   non-UTF-8 all compare unequal); no other path changes *)
Lemma wic_step_spec fs p c :
  let '(fs', wrote) := wic_step fs p c in
  fs_get p fs' = Some c /\
  (forall q, q <> p -> fs_get q fs' = fs_get q fs) /\
  (wrote = false <-> (fs_get p fs = Some c /\ utf8_valid c = true)) /\
  (wrote = false -> fs' = fs).
Proof.
  unfold wic_step. destruct (fs_get p fs) as [old|] eqn:E.
  - destruct (utf8_valid old && beqb old c) eqn:T.
    + apply andb_true_iff in T. destruct T as [T1 T2]. apply beqb_true in T2. subst old.
      split; [exact E|]. split; [reflexivity|]. split; [tauto|reflexivity].
    + split; [apply fs_get_set_same|]. split; [intros q Hq; now apply fs_get_set_other|].
      split; [|discriminate]. split; [discriminate|]. intros [[= ->] V]. rewrite V, beqb_refl in T. discriminate.
  - split; [apply fs_get_set_same|]. split; [intros q Hq; now apply fs_get_set_other|].
    split; [|discriminate]. split; [discriminate|]. intros [A _]. discriminate.
Qed.

(* the content a plan leaves at a path: the last one planned for it *)
Fixpoint last_of (p : bytes) (pl : list (bytes * bytes)) (acc : option bytes) : option bytes :=
  match pl with [] => acc | (q, c) :: r => last_of p r (if beqb q p then Some c else acc) end.

Lemma last_of_acc p pl : forall acc,
  last_of p pl acc = match last_of p pl None with Some c => Some c | None => acc end.
Proof.
  induction pl as [|[q c] r IH]; intros acc; cbn [last_of]; [reflexivity|].
  destruct (beqb q p); [|apply IH].
  rewrite (IH (Some c)). destruct (last_of p r None); reflexivity.
Qed.

Lemma exec_plan_final pl : forall fs p,
  fs_get p (fst (exec_plan fs pl)) = match last_of p pl None with Some c => Some c | None => fs_get p fs end.
Proof.
  induction pl as [|[q c] r IH]; intros fs p; cbn [exec_plan last_of fst]; [reflexivity|].
  pose proof (wic_step_spec fs q c) as S. destruct (wic_step fs q c) as [fs1 wrote].
  destruct S as [S1 [S2 _]]. specialize (IH fs1 p). destruct (exec_plan fs1 r) as [fs2 ws]. cbn [fst] in *.
  rewrite IH. destruct (beqb q p) eqn:E.
  - apply beqb_true in E. subst q. rewrite (last_of_acc p r (Some c)). destruct (last_of p r None); [reflexivity|exact S1].
  - apply beqb_false in E. rewrite (S2 p ltac:(congruence)). reflexivity.
Qed.

Lemma last_of_absent p pl : ~ In p (map fst pl) -> forall a, last_of p pl a = a.
Proof.
  induction pl as [|[q c] r IH]; intros NI a; [reflexivity|]. cbn [last_of].
  destruct (beqb q p) eqn:E; [apply beqb_true in E; subst; exfalso; apply NI; now left|].
  apply IH. intros I. apply NI. now right.
Qed.

(* every planned path ends up with a content that does not depend on the prior OUT_DIR *)
Lemma last_of_planned p pl : In p (map fst pl) -> forall acc, exists c, last_of p pl acc = Some c.
Proof.
  induction pl as [|[q c] r IH]; intros I acc; [destruct I|]. cbn [last_of].
  cbn [map fst] in I. destruct I as [->|I]; [|now apply IH]. rewrite beqb_refl.
  destruct (in_dec (list_eq_dec N.eq_dec) p (map fst r)) as [I|NI]; [now apply IH|].
  exists c. now apply last_of_absent.
Qed.

Lemma planned_independent pl fs fs' p : In p (map fst pl) ->
  fs_get p (fst (exec_plan fs pl)) = fs_get p (fst (exec_plan fs' pl)).
Proof.
  intros I. rewrite !exec_plan_final. destruct (last_of_planned p pl I None) as [c ->]. reflexivity.
Qed.

(* a plan whose every (path, content) is already in place as valid UTF-8 writes nothing *)
Lemma exec_plan_noop pl : forall fs,
  Forall (fun pc => fs_get (fst pc) fs = Some (snd pc) /\ utf8_valid (snd pc) = true) pl ->
  exec_plan fs pl = (fs, []).
Proof.
  induction pl as [|[p c] r IH]; intros fs F; [reflexivity|]. inversion F as [|? ? [A B] F']; subst. cbn [fst snd] in *.
  cbn [exec_plan]. pose proof (wic_step_spec fs p c) as S. destruct (wic_step fs p c) as [fs1 wrote].
  destruct S as [_ [_ [S3 S4]]]. assert (W : wrote = false) by (apply S3; tauto). subst wrote.
  rewrite (S4 eq_refl). now rewrite IH.
Qed.

Lemma last_of_nodup p c pl : NoDup (map fst pl) -> In (p, c) pl -> last_of p pl None = Some c.
Proof.
  induction pl as [|[q d] r IH]; intros ND I; [destruct I|]. cbn [last_of]. inversion ND; subst.
  destruct I as [[= -> ->]|I].
  - rewrite beqb_refl. now apply last_of_absent.
  - destruct (beqb q p) eqn:E.
    + apply beqb_true in E. subst q. exfalso. apply H1. change p with (fst (p, c)). now apply in_map.
    + now apply IH.
Qed.

Lemma second_run_noop pl fs : NoDup (map fst pl) -> Forall (fun pc => utf8_valid (snd pc) = true) pl ->
  exec_plan (fst (exec_plan fs pl)) pl = (fst (exec_plan fs pl), []).
Proof.
  intros ND V. apply exec_plan_noop. apply Forall_forall. intros [p c] I. cbn [fst snd]. split.
  - rewrite exec_plan_final. now rewrite (last_of_nodup p c pl ND I).
  - rewrite Forall_forall in V. exact (V _ I).
Qed.

Lemma nodupb_spec l : nodupb l = true -> NoDup l.
Proof.
  induction l as [|x r IH]; intros H; [constructor|]. cbn in H. apply andb_true_iff in H. destruct H as [H1 H2].
  constructor; [|now apply IH]. intros I. apply negb_true_iff in H1.
  assert (existsb (beqb x) r = true); [|congruence]. apply existsb_exists. exists x. split; [exact I|apply beqb_refl].
Qed.
Lemma second_run_noop_dec pl fs : plan_ok pl = true ->
  exec_plan (fst (exec_plan fs pl)) pl = (fst (exec_plan fs pl), []).
Proof.
  unfold plan_ok. intros H. apply andb_true_iff in H. destruct H as [H1 H2].
  apply second_run_noop; [now apply nodupb_spec|]. apply Forall_forall. intros pc I.
  rewrite forallb_forall in H2. now apply H2.
Qed.

(* ================= every read is announced (C17) ================= *)
Definition Ann (w : world) : Prop := forall p, In p (reads w) -> In (Line (rerun p)) (out w).

Lemma Ann_say w l : Ann w -> Ann (say w l).
Proof. intros A p I. cbn in *. apply in_app_iff. left. now apply A. Qed.
Lemma Ann_raw w t : Ann w -> Ann (say_raw w t).
Proof. intros A p I. cbn in *. apply in_app_iff. left. now apply A. Qed.
Lemma Ann_wic w p c : Ann w -> Ann (write_if_changed w p c).
Proof. intros A q I. cbn in *. now apply A. Qed.
Lemma Ann_announce w p : Ann w -> Ann (announce_read w p).
Proof.
  intros A q I. unfold announce_read, note_read, say in *. cbn in *. apply in_app_iff in I.
  apply in_app_iff. destruct I as [I|[<-|[]]]; [left; now apply A|right; now left].
Qed.
Lemma Ann_empty : Ann {| plan := []; out := []; reads := [] |}.
Proof. intros p []. Qed.

Definition AnnR {A} (r : bres (world * A)) : Prop :=
  match r with BOk _ (w, _) => Ann w | BPanic _ w => Ann w | BErr _ w => Ann w end.

Section A17.
  Variable uni_esc uni_alnum : N -> bool.
  Variable compile : bytes -> bytes -> coutcome.
  Variable utils_src statics_header : bytes.
  Variable mm : mime_mode.

  Lemma Ann_handle_template w name path outdir content : Ann w ->
    AnnR (handle_template uni_esc compile w name path outdir content).
  Proof.
    intros A. unfold handle_template. destruct (compile name content); cbn [AnnR].
    - now apply Ann_wic. - apply Ann_raw. now apply Ann_say. - now apply Ann_say. - exact A.
  Qed.

  Lemma Ann_suffix_loop ss : forall w f indir outdir filename content, Ann w ->
    AnnR (suffix_loop uni_esc compile w f indir outdir filename content ss).
  Proof.
    induction ss as [|s ss IH]; intros w f indir outdir filename content A; cbn [suffix_loop]; [exact A|].
    destruct (ends_with filename s); [|now apply IH].
    pose proof (Ann_handle_template (announce_read w (indir ++ [47%N] ++ filename)) (suffix_name filename s)
                  (indir ++ [47%N] ++ filename) outdir content (Ann_announce _ _ A)) as H.
    destruct (handle_template uni_esc compile _ _ _ _ _) as [[w' [|]]|w'|w']; cbn [AnnR] in *; try exact H; now apply IH.
  Qed.

  Lemma Ann_entries_loop rec :
    (forall w f indir outdir es, Ann w -> AnnR (rec w f indir outdir es)) ->
    forall es w f indir outdir, Ann w -> AnnR (entries_loop uni_esc compile rec w f indir outdir es).
  Proof.
    intros Hrec. induction es as [|[filename [content|sub]] rest IH]; intros w f indir outdir A; cbn [entries_loop]; [exact A| |].
    - destruct (utf8_valid filename); [|now apply IH].
      pose proof (Ann_suffix_loop template_suffixes w f indir outdir filename content A) as H.
      destruct (suffix_loop uni_esc compile w f indir outdir filename content template_suffixes) as [[w' f']|w'|w']; cbn [AnnR] in *; try exact H.
      now apply IH.
    - destruct (utf8_valid filename); [|now apply IH].
      pose proof (Hrec (announce_read w (indir ++ [47%N] ++ filename)) (modrs_header) (indir ++ [47%N] ++ filename)
                       (pjoin outdir filename) sub (Ann_announce _ _ A)) as H.
      destruct (rec _ _ _ _ sub) as [[w2 modrs]|w'|w']; cbn [AnnR] in *; try exact H.
      apply IH. now apply Ann_wic.
  Qed.

  Lemma Ann_handle_entries fuel : forall w f indir outdir es, Ann w ->
    AnnR (handle_entries uni_esc compile fuel w f indir outdir es).
  Proof.
    induction fuel as [|n IH]; intros w f indir outdir es A; cbn [handle_entries]; [exact A|].
    now apply Ann_entries_loop.
  Qed.

  Definition AnnS (s : sstate) : Prop := Ann (sw s).
  Lemma AnnS_apply s o : AnnS s -> AnnS (sapply uni_esc uni_alnum mm s o). Proof. exact (fun A => A). Qed.
  Lemma AnnS_announce s p : AnnS s -> AnnS (sannounce s p). Proof. intros A. now apply Ann_announce. Qed.
  Lemma AnnS_add_file s path content : AnnS s -> AnnS (add_file uni_esc uni_alnum mm s path content).
  Proof. intros A. unfold add_file. destruct (name_and_ext path); [apply AnnS_apply, AnnS_announce, A|exact A]. Qed.
  Lemma AnnS_add_file_as s path url : AnnS s -> AnnS (add_file_as uni_esc uni_alnum mm s path url).
  Proof. intros A. apply AnnS_apply, AnnS_announce, A. Qed.
  Lemma AnnS_fold {X} (g : sstate -> X -> sstate) (l : list X) :
    (forall s x, AnnS s -> AnnS (g s x)) -> forall s, AnnS s -> AnnS (fold_left g l s).
  Proof. intros H. induction l as [|x l IH]; intros s A; [exact A|]. cbn. apply IH. now apply H. Qed.
  Lemma AnnS_add_files s dir es : AnnS s -> AnnS (add_files uni_esc uni_alnum mm s dir es).
  Proof.
    intros A. unfold add_files. apply AnnS_fold; [|now apply AnnS_announce].
    intros s0 [name [c|sub]] A0; [now apply AnnS_add_file|exact A0].
  Qed.
  Lemma AnnS_add_files_as fuel : forall s dir to es, AnnS s -> AnnS (add_files_as uni_esc uni_alnum mm fuel s dir to es).
  Proof.
    induction fuel as [|n IH]; intros s dir to es A; cbn [add_files_as]; [exact A|].
    apply AnnS_fold; [|now apply AnnS_announce].
    intros s0 [name [c|sub]] A0; [now apply AnnS_add_file_as|now apply IH].
  Qed.

  Lemma AnnS_do_scall tree base s c s' : AnnS s ->
    do_scall uni_esc uni_alnum mm tree base s c = Some s' -> AnnS s'.
  Proof.
    intros A. destruct c as [rel|rel|rel url|rel to|path data|rel ref|rel css]; cbn [do_scall].
    - destruct (find_node tree (split_path rel [])) as [[content|es]|]; try discriminate. intros [= <-]. now apply AnnS_add_file.
    - destruct (find_node tree (split_path rel [])) as [[content|es]|]; try discriminate. intros [= <-]. now apply AnnS_add_files.
    - destruct (find_node tree (split_path rel [])) as [[content|es]|]; try discriminate. intros [= <-]. now apply AnnS_add_file_as.
    - destruct (find_node tree (split_path rel [])) as [[content|es]|]; try discriminate. intros [= <-]. now apply AnnS_add_files_as.
    - intros [= <-]. exact A.
    - destruct (sass_ref uni_esc uni_alnum mm (st (sannounce s (path_for base rel))) (path_for base rel) ref) as [st' [|]]; [|discriminate].
      intros [= <-]. unfold AnnS. cbn [sw]. now apply Ann_announce.
    - intros [= <-]. apply AnnS_apply. now apply AnnS_announce.
  Qed.

  Lemma Ann_run_calls tree base cs : forall w f, Ann w ->
    let '(w', _, _) := run_calls uni_esc uni_alnum compile statics_header mm tree base w f cs in Ann w'.
  Proof.
    induction cs as [|c cs IH]; intros w f A; cbn [run_calls]; [exact A|].
    destruct c as [rel|scs].
    - destruct (find_node tree (split_path rel [])) as [[content|es]|]; try exact A.
      pose proof (Ann_handle_entries (depth tree) (announce_read w (path_for base rel)) f (path_for base rel) (b "templates") es (Ann_announce _ _ A)) as H.
      destruct (handle_entries uni_esc compile (depth tree) _ f _ _ es) as [[w' f']|w'|w']; cbn [AnnR] in H; try exact H.
      now apply IH.
    - match goal with |- context [(fix go (s : sstate) (l : list scall) {struct l} : sstate * bool := _) ?s0 ?l0] =>
        set (GO := (fix go (s : sstate) (l : list scall) {struct l} : sstate * bool :=
                      match l with
                      | [] => (s, true)
                      | c :: r => match do_scall uni_esc uni_alnum mm tree base s c with Some s' => go s' r | None => (s, false) end
                      end)) in *;
        assert (G : forall l s, AnnS s -> AnnS (fst (GO s l))) end.
      { induction l as [|c0 l IHl]; intros s As; [exact As|]. cbn.
        destruct (do_scall uni_esc uni_alnum mm tree base s c0) as [s'|] eqn:E; [|exact As].
        apply IHl. eapply AnnS_do_scall; eauto. }
      specialize (G scs {| st := empty_statics statics_header; sw := w |} A).
      destruct (GO {| st := empty_statics statics_header; sw := w |} scs) as [s ok]. cbn [fst] in G.
      destruct ok; [apply IH; now apply Ann_wic|now apply Ann_wic].
  Qed.

  Lemma Ann_run_script tree base cs :
    Ann (fst (run_script uni_esc uni_alnum compile utils_src statics_header mm tree base cs)).
  Proof.
    unfold run_script, ructe_new.
    pose proof (Ann_run_calls tree base cs (write_if_changed {| plan := []; out := []; reads := [] |} (b "templates/_utils.rs") utils_src)
                  (b "pub mod templates {" ++ [10%N] ++ b "#[doc(hidden)]" ++ [10%N] ++ b "mod _utils;" ++ [10%N] ++
                   b "#[doc(inline)]" ++ [10%N] ++ b "pub use self::_utils::*;" ++ [10%N; 10%N]) (Ann_wic _ _ _ Ann_empty)) as H.
    destruct (run_calls _ _ _ _ _ _ _ _ _ cs) as [[w2 f2] ok]. cbn [fst]. unfold ructe_drop. now apply Ann_wic.
  Qed.
End A17.

(* ================= the world is a writer: every function only appends (C10, C18) ================= *)
Definition w_empty : world := {| plan := []; out := []; reads := [] |}.
Definition wapp (w d : world) : world :=
  {| plan := plan w ++ plan d; out := out w ++ out d; reads := reads w ++ reads d |}.
Lemma wapp_empty_r w : wapp w w_empty = w.
Proof. destruct w. unfold wapp. cbn. now rewrite !app_nil_r. Qed.
Lemma wapp_empty_l w : wapp w_empty w = w.
Proof. destruct w. reflexivity. Qed.
Lemma wapp_assoc a c d : wapp (wapp a c) d = wapp a (wapp c d).
Proof. unfold wapp. cbn. now rewrite !app_assoc. Qed.

Lemma wic_frame w p c : write_if_changed w p c = wapp w (write_if_changed w_empty p c).
Proof. unfold write_if_changed, wapp. cbn. now rewrite !app_nil_r. Qed.
Lemma say_frame w l : say w l = wapp w (say w_empty l).
Proof. unfold say, wapp. cbn. now rewrite !app_nil_r. Qed.
Lemma say_raw_frame w l : say_raw w l = wapp w (say_raw w_empty l).
Proof. unfold say_raw, wapp. cbn. now rewrite !app_nil_r. Qed.
Lemma announce_frame w p : announce_read w p = wapp w (announce_read w_empty p).
Proof. unfold announce_read, note_read, say, wapp. cbn. now rewrite !app_nil_r. Qed.

(* lifting a result computed from the empty world / empty text onto (w, f) *)
Definition lift {A} (w : world) (r : bres (world * A)) : bres (world * A) :=
  match r with BOk _ (d, a) => BOk _ (wapp w d, a) | BPanic _ d => BPanic _ (wapp w d) | BErr _ d => BErr _ (wapp w d) end.
Definition lift2 (w : world) (f : bytes) (r : bres (world * bytes)) : bres (world * bytes) :=
  match r with BOk _ (d, g) => BOk _ (wapp w d, f ++ g) | BPanic _ d => BPanic _ (wapp w d) | BErr _ d => BErr _ (wapp w d) end.

Lemma lift2_lift2 w f d g r : lift2 w f (lift2 d g r) = lift2 (wapp w d) (f ++ g) r.
Proof. destruct r as [[x y]|x|x]; cbn; now rewrite ?wapp_assoc, ?app_assoc. Qed.

Section Frame.
  Variable uni_esc : N -> bool.
  Variable compile : bytes -> bytes -> coutcome.

  Lemma handle_template_frame w name path outdir content :
    handle_template uni_esc compile w name path outdir content =
    lift w (handle_template uni_esc compile w_empty name path outdir content).
  Proof.
    unfold handle_template. destruct (compile name content); cbn [lift].
    - now rewrite wic_frame.
    - rewrite (say_raw_frame (say w _)), (say_frame w), wapp_assoc, <- (say_raw_frame (say w_empty _)). reflexivity.
    - now rewrite say_frame.
    - now rewrite wapp_empty_r.
  Qed.

  Lemma suffix_loop_frame ss : forall w f indir outdir filename content,
    suffix_loop uni_esc compile w f indir outdir filename content ss =
    lift2 w f (suffix_loop uni_esc compile w_empty [] indir outdir filename content ss).
  Proof.
    induction ss as [|s ss IH]; intros w f indir outdir filename content; cbn [suffix_loop].
    - cbn. now rewrite wapp_empty_r, app_nil_r.
    - destruct (ends_with filename s); [|apply IH].
      rewrite (handle_template_frame (announce_read w _)), (handle_template_frame (announce_read w_empty _)).
      rewrite (announce_frame w).
      destruct (handle_template uni_esc compile w_empty _ _ _ _) as [[d [|]]|d|d]; cbn [lift].
      + rewrite IH. rewrite (IH (wapp (announce_read w_empty _) d)). rewrite lift2_lift2.
        now rewrite wapp_assoc.
      + rewrite IH. rewrite (IH (wapp (announce_read w_empty _) d)). rewrite lift2_lift2.
        now rewrite wapp_assoc, app_nil_r.
      + cbn. now rewrite wapp_assoc.
      + cbn. now rewrite wapp_assoc.
  Qed.

  Definition framed (rec : world -> bytes -> bytes -> bytes -> list (bytes * node) -> bres (world * bytes)) : Prop :=
    forall w f indir outdir es, rec w f indir outdir es = lift2 w f (rec w_empty [] indir outdir es).

  Lemma entries_loop_frame rec : framed rec -> framed (entries_loop uni_esc compile rec).
  Proof.
    intros Hrec w f indir outdir es. revert w f.
    induction es as [|[filename [content|sub]] rest IH]; intros w f; cbn [entries_loop].
    - cbn. now rewrite wapp_empty_r, app_nil_r.
    - destruct (utf8_valid filename); [|apply IH].
      rewrite suffix_loop_frame.
      destruct (suffix_loop uni_esc compile w_empty [] indir outdir filename content template_suffixes) as [[d g]|d|d]; cbn [lift2]; try reflexivity.
      rewrite IH. rewrite (IH d g). now rewrite lift2_lift2.
    - destruct (utf8_valid filename); [|apply IH].
      rewrite (Hrec (announce_read w _)), (Hrec (announce_read w_empty _)). rewrite (announce_frame w).
      destruct (rec w_empty [] _ _ sub) as [[d g]|d|d]; cbn [lift2].
      + rewrite IH. rewrite (IH (write_if_changed (wapp (announce_read w_empty _) d) _ _)).
        rewrite lift2_lift2. f_equal.
        * rewrite wic_frame, (wic_frame (wapp (announce_read w_empty _) d)). now rewrite !wapp_assoc.
      + now rewrite wapp_assoc.
      + now rewrite wapp_assoc.
  Qed.

  Lemma handle_entries_frame fuel : framed (handle_entries uni_esc compile fuel).
  Proof.
    induction fuel as [|n IH]; intros w f indir outdir es; cbn [handle_entries].
    - cbn. now rewrite wapp_empty_r.
    - now apply entries_loop_frame.
  Qed.

  (* ---- one entry at a time (C10) ---- *)
  (* a file whose name ends in none of the template suffixes contributes nothing *)
  Lemma suffix_loop_other ss : forall w f indir outdir filename content,
    forallb (fun s => negb (ends_with filename s)) ss = true ->
    suffix_loop uni_esc compile w f indir outdir filename content ss = BOk _ (w, f).
  Proof.
    induction ss as [|s ss IH]; intros w f indir outdir filename content H; [reflexivity|].
    cbn [forallb] in H. apply andb_true_iff in H. destruct H as [H1 H2]. apply negb_true_iff in H1.
    cbn [suffix_loop]. rewrite H1. now apply IH.
  Qed.
  Lemma entries_loop_other_file rec w f indir outdir filename content rest :
    forallb (fun s => negb (ends_with filename s)) template_suffixes = true ->
    entries_loop uni_esc compile rec w f indir outdir ((filename, File content) :: rest) =
    entries_loop uni_esc compile rec w f indir outdir rest.
  Proof.
    intros H. cbn [entries_loop]. destruct (utf8_valid filename); [|reflexivity].
    now rewrite suffix_loop_other.
  Qed.

  (* a file that ends in exactly one suffix (the three suffixes are pairwise non-overlapping) *)
  Lemma suffix_loop_single pre post s w f indir outdir filename content :
    ends_with filename s = true ->
    forallb (fun x => negb (ends_with filename x)) pre = true ->
    forallb (fun x => negb (ends_with filename x)) post = true ->
    suffix_loop uni_esc compile w f indir outdir filename content (pre ++ s :: post) =
    let path := indir ++ [47%N] ++ filename in
    let name := suffix_name filename s in
    match handle_template uni_esc compile (announce_read w path) name path outdir content with
    | BOk _ (w', true) => BOk _ (w', f ++ mod_decl name)
    | BOk _ (w', false) => BOk _ (w', f)
    | BPanic _ w' => BPanic _ w'
    | BErr _ w' => BErr _ w'
    end.
  Proof.
    intros Hs Hpre Hpost. induction pre as [|x pre IH].
    - cbn [app suffix_loop]. rewrite Hs. cbv zeta.
      destruct (handle_template uni_esc compile _ _ _ _ _) as [[w' [|]]|w'|w']; try reflexivity; now rewrite suffix_loop_other.
    - cbn [forallb] in Hpre. apply andb_true_iff in Hpre. destruct Hpre as [H1 H2]. apply negb_true_iff in H1.
      cbn [app suffix_loop]. rewrite H1. now apply IH.
  Qed.
End Frame.

(* ================= a directory is the sum of its entries (C10, C18) ================= *)
Section Entries.
  Variable uni_esc : N -> bool.
  Variable compile : bytes -> bytes -> coutcome.
  Variable rec : world -> bytes -> bytes -> bytes -> list (bytes * node) -> bres (world * bytes).
  Hypothesis Hrec : framed rec.
  Variable indir outdir : bytes.
  Notation loop := (entries_loop uni_esc compile rec).

  (* what one entry contributes, computed from the empty world and the empty text *)
  Definition entry_delta (e : bytes * node) : bres (world * bytes) := loop w_empty [] indir outdir [e].

  Lemma loop_cons w f e rest :
    loop w f indir outdir (e :: rest) =
    match entry_delta e with
    | BOk _ (d, g) => loop (wapp w d) (f ++ g) indir outdir rest
    | BPanic _ d => BPanic _ (wapp w d)
    | BErr _ d => BErr _ (wapp w d)
    end.
  Proof.
    unfold entry_delta. destruct e as [filename [content|sub]]; cbn [entries_loop].
    - destruct (utf8_valid filename); [|cbn; now rewrite wapp_empty_r, app_nil_r].
      rewrite (suffix_loop_frame uni_esc compile template_suffixes w f).
      destruct (suffix_loop uni_esc compile w_empty [] indir outdir filename content template_suffixes) as [[d g]|d|d]; reflexivity.
    - destruct (utf8_valid filename); [|cbn; now rewrite wapp_empty_r, app_nil_r].
      rewrite (Hrec (announce_read w _)). rewrite (announce_frame w).
      destruct (rec w_empty [] _ _ sub) as [[d g]|d|d] eqn:E.
      + rewrite (Hrec (announce_read w_empty _)), E. cbn [lift2].
        rewrite !app_nil_l. f_equal.
        * rewrite wic_frame, (wic_frame (wapp (announce_read w_empty _) d)). now rewrite !wapp_assoc.
      + rewrite (Hrec (announce_read w_empty _)), E. cbn [lift2]. now rewrite wapp_assoc.
      + rewrite (Hrec (announce_read w_empty _)), E. cbn [lift2]. now rewrite wapp_assoc.
  Qed.

  (* when every entry succeeds, the directory's plan, stdout, read set and declaration text are
     the concatenations, in entry order, of the entries' own contributions *)
  Fixpoint sum_w (l : list (world * bytes)) : world :=
    match l with [] => w_empty | (d, _) :: r => wapp d (sum_w r) end.
  Fixpoint sum_f (l : list (world * bytes)) : bytes :=
    match l with [] => [] | (_, g) :: r => g ++ sum_f r end.

  Lemma loop_all_ok es : forall w f deltas,
    Forall2 (fun e dg => entry_delta e = BOk _ dg) es deltas ->
    loop w f indir outdir es = BOk _ (wapp w (sum_w deltas), f ++ sum_f deltas).
  Proof.
    induction es as [|e rest IH]; intros w f deltas F; inversion F; subst.
    - cbn. now rewrite wapp_empty_r, app_nil_r.
    - rewrite loop_cons. rewrite H1. destruct y as [d g]. rewrite (IH _ _ _ H3). cbn [sum_w sum_f].
      now rewrite wapp_assoc, app_assoc.
  Qed.

  (* an entry that contributes nothing to the plan and the text (a file with another name, or a
     template that fails to parse) does not disturb what the others contribute *)
  Lemma loop_skip_entry w f e rest d :
    entry_delta e = BOk _ (d, []) ->
    loop w f indir outdir (e :: rest) = loop (wapp w d) f indir outdir rest.
  Proof. intros H. rewrite loop_cons, H. now rewrite app_nil_r. Qed.
End Entries.

(* ---- permuting the entries permutes the contributions ---- *)
Lemma Forall2_perm {A B} (R : A -> B -> Prop) l1 l2 m1 :
  Permutation l1 l2 -> Forall2 R l1 m1 -> exists m2, Permutation m1 m2 /\ Forall2 R l2 m2.
Proof.
  intros P. revert m1. induction P as [|x l l' P IH|x y l|l l' l'' P1 IH1 P2 IH2]; intros m1 F.
  - inversion F; subst. exists []. split; constructor.
  - inversion F; subst. destruct (IH _ H3) as [m2 [Pm Fm]]. exists (y :: m2). split; [now constructor|now constructor].
  - inversion F; subst. inversion H3; subst. exists (y1 :: y0 :: l'0). split; [apply perm_swap|repeat constructor; assumption].
  - destruct (IH1 _ F) as [m2 [Pm Fm]]. destruct (IH2 _ Fm) as [m3 [Pm3 Fm3]]. exists m3. split; [eapply perm_trans; eauto|exact Fm3].
Qed.

Lemma sum_plan_perm (l1 l2 : list (world * bytes)) : Permutation l1 l2 ->
  Permutation (plan (sum_w l1)) (plan (sum_w l2)) /\ Permutation (out (sum_w l1)) (out (sum_w l2)).
Proof.
  induction 1 as [|[d g] l l' P [IH1 IH2]|[d g] [d2 g2] l|l l' l'' P1 [IH1 IH1'] P2 [IH2 IH2']]; cbn [sum_w wapp plan out].
  - split; constructor.
  - split; now apply Permutation_app_head.
  - split; rewrite !app_assoc; apply Permutation_app_tail; apply Permutation_app_comm.
  - split; eapply perm_trans; eauto.
Qed.

(* ---- names ---- *)
Lemma suffix_name_spec stem suffix : length suffix >= 4 ->
  suffix_name (stem ++ suffix) suffix = stem ++ b "_" ++ skipn 4 suffix.
Proof.
  intros H. unfold suffix_name. rewrite app_length.
  replace (length stem + length suffix - length suffix) with (length stem) by lia.
  now rewrite firstn_app, Nat.sub_diag, firstn_all, firstn_O, app_nil_r.
Qed.

Lemma ends_with_app x s : ends_with (x ++ s) s = true.
Proof. unfold ends_with. rewrite rev_app_distr. now rewrite strip_prefix_app. Qed.

Lemma strip_prefix_comparable a : forall c r x, strip_prefix a (c ++ r) = Some x ->
  strip_prefix a c <> None \/ strip_prefix c a <> None.
Proof.
  induction a as [|y a IH]; intros c r x H; cbn in *.
  - left. destruct c; discriminate.
  - destruct c as [|z c]; cbn in *.
    + right. discriminate.
    + destruct (N.eqb y z) eqn:E; [|discriminate].
      apply N.eqb_eq in E. subst z. rewrite N.eqb_refl. eapply IH; eauto.
Qed.
Lemma ends_with_comparable x s s' : ends_with (x ++ s) s' = true -> ends_with s s' = true \/ ends_with s' s = true.
Proof.
  unfold ends_with. rewrite rev_app_distr.
  destruct (strip_prefix (rev s') (rev s ++ rev x)) as [r|] eqn:E; [intros _|discriminate].
  destruct (strip_prefix_comparable _ _ _ _ E) as [H|H].
  - left. destruct (strip_prefix (rev s') (rev s)); [reflexivity|congruence].
  - right. destruct (strip_prefix (rev s) (rev s')); [reflexivity|congruence].
Qed.

(* no template suffix is a suffix of another one (checked on the regenerated table), and all are
   at least 4 bytes long (".rs." is cut off to form the function name) *)
Definition suffixes_exclusive : bool :=
  forallb (fun s => forallb (fun s' => beqb s s' || (negb (ends_with s s') && negb (ends_with s' s))) template_suffixes) template_suffixes
  && forallb (fun s => Nat.leb 4 (length s)) template_suffixes.
Lemma suffixes_exclusive_ok : suffixes_exclusive = true. Proof. vm_compute. reflexivity. Qed.

Lemma other_suffix_fails stem s s' : In s template_suffixes -> In s' template_suffixes -> s <> s' ->
  ends_with (stem ++ s) s' = false.
Proof.
  intros I I' N0. destruct (ends_with (stem ++ s) s') eqn:E; [|reflexivity]. exfalso.
  pose proof suffixes_exclusive_ok as X. unfold suffixes_exclusive in X. apply andb_true_iff in X. destruct X as [X _].
  rewrite forallb_forall in X. specialize (X s I). rewrite forallb_forall in X. specialize (X s' I').
  apply orb_true_iff in X. destruct X as [X|X]; [apply beqb_true in X; congruence|].
  apply andb_true_iff in X. destruct X as [X1 X2]. apply negb_true_iff in X1, X2.
  destruct (ends_with_comparable _ _ _ E); congruence.
Qed.

Lemma template_suffixes_nodup : NoDup template_suffixes.
Proof. apply nodupb_spec. vm_compute. reflexivity. Qed.
Lemma suffix_len s : In s template_suffixes -> length s >= 4.
Proof.
  intros I. pose proof suffixes_exclusive_ok as X. unfold suffixes_exclusive in X. apply andb_true_iff in X. destruct X as [_ X].
  rewrite forallb_forall in X. specialize (X s I). now apply Nat.leb_le in X.
Qed.

Section OneTemplate.
  Variable uni_esc : N -> bool.
  Variable compile : bytes -> bytes -> coutcome.
  Variable rec : world -> bytes -> bytes -> bytes -> list (bytes * node) -> bres (world * bytes).
  Variable indir outdir : bytes.

  (* what a file <stem><suffix> contributes to its directory *)
  Lemma template_entry_delta stem s content :
    In s template_suffixes -> utf8_valid (stem ++ s) = true ->
    let filename := stem ++ s in
    let path := indir ++ [47%N] ++ filename in
    let name := stem ++ b "_" ++ skipn 4 s in
    entry_delta uni_esc compile rec indir outdir (filename, File content) =
    match handle_template uni_esc compile (announce_read w_empty path) name path outdir content with
    | BOk _ (w', true) => BOk _ (w', mod_decl name)
    | BOk _ (w', false) => BOk _ (w', [])
    | BPanic _ w' => BPanic _ w'
    | BErr _ w' => BErr _ w'
    end.
  Proof.
    intros I V filename path name. subst filename path name. unfold entry_delta. cbn [entries_loop]. rewrite V.
    assert (SP : exists pre post : list bytes, template_suffixes = pre ++ s :: post) by exact (in_split s template_suffixes I).
    destruct SP as [pre [post E]].
    pose proof template_suffixes_nodup as ND. rewrite E in ND.
    assert (Hpre : forallb (fun x => negb (ends_with (stem ++ s) x)) pre = true).
    { apply forallb_forall. intros x Hx. apply negb_true_iff. apply other_suffix_fails; try assumption.
      - rewrite E. apply in_app_iff. now left.
      - intros ->. apply NoDup_remove_2 in ND. apply ND. apply in_app_iff. now left. }
    assert (Hpost : forallb (fun x => negb (ends_with (stem ++ s) x)) post = true).
    { apply forallb_forall. intros x Hx. apply negb_true_iff. apply other_suffix_fails; try assumption.
      - rewrite E. apply in_app_iff. right. now right.
      - intros ->. apply NoDup_remove_2 in ND. apply ND. apply in_app_iff. now right. }
    rewrite E. pose proof (suffix_loop_single uni_esc compile pre post s w_empty [] indir outdir (stem ++ s) content (ends_with_app stem s) Hpre Hpost) as Q.
    cbv zeta in Q.
    match goal with |- context [suffix_loop ?a ?b ?c ?d ?e ?f ?g ?h ?i] =>
      match type of Q with _ = ?rhs =>
        assert (Q2 : suffix_loop a b c d e f g h i = rhs) by exact Q; rewrite Q2; clear Q2 end end.
    clear Q. rewrite (suffix_name_spec stem s (suffix_len s I)).
    destruct (handle_template uni_esc compile _ _ _ outdir content) as [[w' [|]]|w'|w']; reflexivity.
  Qed.
End OneTemplate.
