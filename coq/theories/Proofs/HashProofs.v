(* MD5 / base64 facts for C07. *)
From Coq Require Import Lia ZArith Zify.
From Ructe Require Import Nom Md5.
Local Open Scope N_scope.

Lemma le_bytes_length n x : length (le_bytes n x) = n.
Proof. revert x; induction n as [|n IH]; intros x; cbn; [reflexivity|]. now rewrite IH. Qed.

Lemma md5_length msg : length (md5 msg) = 16%nat.
Proof.
  unfold md5. destruct (fold_left block _ md5_init) as [[[a b0] c] d].
  rewrite !app_length, !le_bytes_length. reflexivity.
Qed.

Lemma firstn6_shape (l : bytes) : length l = 16%nat ->
  exists a b0 c d e f, firstn 6 l = [a; b0; c; d; e; f].
Proof.
  intros H. do 6 (destruct l as [|? l]; [discriminate|]). cbn. eauto 10.
Qed.

Lemma slug_length data : length (checksum_slug data) = 8%nat.
Proof.
  unfold checksum_slug. destruct (firstn6_shape _ (md5_length data)) as (a & b0 & c & d & e & f & ->).
  reflexivity.
Qed.

(* A-Z a-z 0-9 - _ *)
Definition url_safe (c : N) : bool :=
  ((65 <=? c) && (c <=? 90)) || ((97 <=? c) && (c <=? 122)) || ((48 <=? c) && (c <=? 57)) || (c =? 45) || (c =? 95).

Lemma b64c_url_safe n : url_safe (b64c n) = true.
Proof.
  unfold b64c, url_safe.
  destruct (n <? 26) eqn:E1; [apply N.ltb_lt in E1|apply N.ltb_ge in E1].
  { replace ((65 <=? 65 + n) && (65 + n <=? 90)) with true; [reflexivity|].
    symmetry. apply andb_true_iff. split; apply N.leb_le; lia. }
  destruct (n <? 52) eqn:E2; [apply N.ltb_lt in E2|apply N.ltb_ge in E2].
  { replace ((97 <=? 97 + (n - 26)) && (97 + (n - 26) <=? 122)) with true; [now rewrite orb_true_r|].
    symmetry. apply andb_true_iff. split; apply N.leb_le; lia. }
  destruct (n <? 62) eqn:E3; [apply N.ltb_lt in E3|apply N.ltb_ge in E3].
  { replace ((48 <=? 48 + (n - 52)) && (48 + (n - 52) <=? 57)) with true; [now rewrite !orb_true_r|].
    symmetry. apply andb_true_iff. split; apply N.leb_le; lia. }
  destruct (n =? 62); reflexivity.
Qed.

Lemma b64url_url_safe : forall l, Forall (fun c => url_safe c = true) (b64url l).
Proof.
  fix IH 1. intros [|a [|b0 [|c r]]]; cbn [b64url].
  - constructor.
  - repeat constructor; apply b64c_url_safe.
  - repeat constructor; apply b64c_url_safe.
  - repeat (constructor; [apply b64c_url_safe|]). apply IH.
Qed.

Lemma slug_alphabet data : Forall (fun c => url_safe c = true) (checksum_slug data).
Proof. apply b64url_url_safe. Qed.

(* --- the 8 characters determine the 48 bits --- *)
Definition b64d (c : N) : N :=
  if (65 <=? c) && (c <=? 90) then c - 65
  else if (97 <=? c) && (c <=? 122) then c - 97 + 26
  else if (48 <=? c) && (c <=? 57) then c - 48 + 52
  else if c =? 45 then 62 else 63.
Lemma b64d_b64c_table : forallb (fun n => b64d (b64c n) =? n) (map N.of_nat (seq 0 64)) = true.
Proof. vm_compute. reflexivity. Qed.
Lemma b64d_b64c n : n < 64 -> b64d (b64c n) = n.
Proof.
  intros H. pose proof b64d_b64c_table as T. rewrite forallb_forall in T.
  apply N.eqb_eq. apply T. apply in_map_iff. exists (N.to_nat n). split; [apply N2Nat.id|].
  apply in_seq. lia.
Qed.

Definition dec3 (l : bytes) : bytes :=
  match l with
  | [p; q; r; s] => let x := b64d p * 262144 + b64d q * 4096 + b64d r * 64 + b64d s in
                    [x / 65536; (x / 256) mod 256; x mod 256]
  | _ => []
  end.

Ltac Zify.zify_post_hook ::= Z.to_euclidean_division_equations.
Lemma dec3_enc3 a b0 c : a < 256 -> b0 < 256 -> c < 256 -> dec3 (b64url [a; b0; c]) = [a; b0; c].
Proof.
  intros Ha Hb Hc. cbn [b64url dec3].
  set (x := 65536 * a + 256 * b0 + c).
  assert (Hx : x < 16777216) by (unfold x; lia).
  rewrite !b64d_b64c.
  - replace (x / 262144 * 262144 + x / 4096 mod 64 * 4096 + x / 64 mod 64 * 64 + x mod 64) with x by lia.
    unfold x. f_equal; [lia|]. f_equal; [lia|]. f_equal; lia.
  - apply N.mod_lt; discriminate.
  - apply N.mod_lt; discriminate.
  - apply N.mod_lt; discriminate.
  - lia.
Qed.

Lemma b64url_6_injective_lemma : forall l1 l2 : bytes,
  length l1 = 6%nat -> length l2 = 6%nat ->
  Forall (fun x => x < 256) l1 -> Forall (fun x => x < 256) l2 ->
  b64url l1 = b64url l2 -> l1 = l2.
Proof.
  intros l1 l2 H1 H2 F1 F2 E.
  do 7 (destruct l1 as [|? l1]; try discriminate). do 7 (destruct l2 as [|? l2]; try discriminate).
  repeat match goal with H : Forall _ (_ :: _) |- _ => inversion H; clear H; subst end.
  cbn [b64url] in E.
  match type of E with ?p1 :: ?p2 :: ?p3 :: ?p4 :: ?q1 :: ?q2 :: ?q3 :: ?q4 :: [] =
                       ?r1 :: ?r2 :: ?r3 :: ?r4 :: ?s1 :: ?s2 :: ?s3 :: ?s4 :: [] =>
    assert (EA : [p1; p2; p3; p4] = [r1; r2; r3; r4]) by congruence;
    assert (EB : [q1; q2; q3; q4] = [s1; s2; s3; s4]) by congruence end.
  clear E.
  apply (f_equal dec3) in EA. apply (f_equal dec3) in EB.
  change (dec3 (b64url [n; n0; n1]) = dec3 (b64url [n5; n6; n7])) in EA.
  change (dec3 (b64url [n2; n3; n4]) = dec3 (b64url [n8; n9; n10])) in EB.
  rewrite !dec3_enc3 in EA, EB by assumption. congruence.
Qed.

(* md5 output bytes are bytes *)
Lemma le_bytes_lt n x : Forall (fun y => y < 256) (le_bytes n x).
Proof.
  revert x; induction n as [|n IH]; intros x; cbn; constructor; [|apply IH].
  apply N.mod_lt. discriminate.
Qed.
Lemma md5_bytes msg : Forall (fun y => y < 256) (md5 msg).
Proof.
  unfold md5. destruct (fold_left block _ md5_init) as [[[a b0] c] d].
  repeat (apply Forall_app; split); apply le_bytes_lt.
Qed.

Lemma Forall_firstn {A} (P : A -> Prop) n (l : list A) : Forall P l -> Forall P (firstn n l).
Proof.
  revert l; induction n as [|n IH]; intros l H; [constructor|].
  destruct l as [|x l]; [constructor|]. inversion H; subst. cbn. constructor; auto.
Qed.

(* --- padding is injective: the message can be read back from the padded text --- *)
Fixpoint strip_zeros (l : bytes) : bytes :=     (* on the reversed text *)
  match l with 0 :: r => strip_zeros r | _ => l end.
Definition unpad (p : bytes) : bytes :=
  match strip_zeros (skipn 8 (rev p)) with
  | 128 :: m => rev m
  | _ => []
  end.
Lemma strip_zeros_repeat n l : strip_zeros (repeat 0 n ++ l) = strip_zeros l.
Proof. induction n as [|n IH]; cbn; [reflexivity|exact IH]. Qed.
Lemma rev_repeat {A} (x : A) n : rev (repeat x n) = repeat x n.
Proof.
  induction n as [|n IH]; [reflexivity|]. cbn [repeat rev]. rewrite IH.
  clear IH. induction n as [|n IH]; [reflexivity|]. cbn. now rewrite IH.
Qed.
Lemma unpad_pad msg : unpad (pad msg) = msg.
Proof.
  unfold unpad, pad. rewrite !rev_app_distr.
  set (lb := le_bytes 8 _). assert (Hl : length (rev lb) = 8%nat) by (rewrite rev_length; apply le_bytes_length).
  rewrite <- !app_assoc.
  rewrite skipn_app, Hl, Nat.sub_diag, skipn_all2 by lia. cbn [app skipn].
  rewrite rev_repeat, strip_zeros_repeat. cbn [rev app strip_zeros]. apply rev_involutive.
Qed.
Lemma md5_pad_injective_lemma m1 m2 : pad m1 = pad m2 -> m1 = m2.
Proof. intros H. rewrite <- (unpad_pad m1), <- (unpad_pad m2). now rewrite H. Qed.

(* the blocks fed to the compression function are the padded text, all of it *)
Lemma chunks_concat : forall n p, (length p <= 64 * n)%nat -> List.concat (chunks n p) = p.
Proof.
  induction n as [|n IH]; intros p H.
  - destruct p; [reflexivity|cbn in H; lia].
  - destruct p as [|x p]; [reflexivity|]. cbn [chunks List.concat].
    rewrite IH; [apply firstn_skipn|]. rewrite skipn_length. lia.
Qed.
Lemma md5_reads_whole_padded_message msg :
  List.concat (chunks (S (length (pad msg) / 64)) (pad msg)) = pad msg.
Proof.
  apply chunks_concat.
  pose proof (Nat.div_mod (length (pad msg)) 64 ltac:(lia)).
  pose proof (Nat.mod_upper_bound (length (pad msg)) 64 ltac:(lia)). lia.
Qed.

(* RFC 1321, appendix A.5 test suite *)
Definition hexstr (l : bytes) : bytes :=
  flat_map (fun c => let h := fun n => if n <? 10 then 48 + n else 87 + n in [h (c / 16); h (c mod 16)]) l.
Local Open Scope string_scope.
Lemma md5_rfc1321_vectors_lemma :
  hexstr (md5 []) = b "d41d8cd98f00b204e9800998ecf8427e" /\
  hexstr (md5 (b "a")) = b "0cc175b9c0f1b6a831c399e269772661" /\
  hexstr (md5 (b "abc")) = b "900150983cd24fb0d6963f7d28e17f72" /\
  hexstr (md5 (b "message digest")) = b "f96b697d7cb7938d525a2f31aaf161d0" /\
  hexstr (md5 (b "abcdefghijklmnopqrstuvwxyz")) = b "c3fcd3d76192e4007dfb496cca67e13b" /\
  hexstr (md5 (b "ABCDEFGHIJKLMNOPQRSTUVWXYZabcdefghijklmnopqrstuvwxyz0123456789")) = b "d174ab98d277d9f5a5611c2c9f419d9f" /\
  hexstr (md5 (b "12345678901234567890123456789012345678901234567890123456789012345678901234567890")) = b "57edf4a22be3c955ac49da2e2107b67a".
Proof. repeat split; vm_compute; reflexivity. Qed.
(* the documented example of add_file_data *)
Lemma slug_doc_example : checksum_slug (b "body{color:black}" ++ [10%N])%list = b "r3rltVhW".
Proof. vm_compute. reflexivity. Qed.
