(* C08 / C09, add_files_as: what the recursive walk publishes.  The state after the call is the state
   after one add_file_as per file below the directory, in walk order, and the name each is published
   under is  prefix ++ "/" ++ relative path  whenever the prefix is not empty (whatever it ends in:
   a prefix "lib/" gives "lib//a.txt"), and the relative path alone for the empty prefix. *)
From Coq Require Import Lia.
From Coq Require Import Permutation FinFun.
From Ructe Require Import Nom Utf8 Emit Compile Md5 Static Tables Build MapProofs StaticProofs ScriptNI PlanPaths.
Local Open Scope list_scope.

(* the documented rule for one level *)
Definition pfx (to r : bytes) : bytes := if beqb to [] then r else to ++ [47%N] ++ r.

(* relative paths of the files below a directory, in the order the walk meets them *)
Fixpoint rels (fuel : nat) (es : list (bytes * node)) : list bytes :=
  match fuel with O => [] | S f =>
    flat_map (fun e : bytes * node => let (name, x) := e in
                match x with File _ => [name] | Dir sub => map (fun r => name ++ [47%N] ++ r) (rels f sub) end) es
  end.
(* every entry has a name (true of every directory listing) *)
Fixpoint named (fuel : nat) (es : list (bytes * node)) : bool :=
  match fuel with O => true | S f =>
    forallb (fun e : bytes * node => let (name, x) := e in
               negb (beqb name []) && match x with File _ => true | Dir sub => named f sub end) es
  end.
(* (path on disk, published name) of the same files *)
Fixpoint walk (fuel : nat) (dir to : bytes) (es : list (bytes * node)) : list (bytes * bytes) :=
  match fuel with O => [] | S f =>
    flat_map (fun e : bytes * node => let (name, x) := e in
                match x with
                | File _ => [(dir ++ [47%N] ++ name, pfx to name)]
                | Dir sub => walk f (dir ++ [47%N] ++ name) (pfx to name) sub
                end) es
  end.

Lemma pfx_pfx to name r : name <> [] -> pfx (pfx to name) r = pfx to (name ++ [47%N] ++ r).
Proof.
  intros Hn. unfold pfx. destruct (beqb to []) eqn:E.
  - destruct (beqb name []) eqn:E2; [apply beqb_true in E2; congruence|reflexivity].
  - assert (F : beqb (to ++ [47%N] ++ name) [] = false).
    { apply beqb_false. apply beqb_false in E. destruct to; [congruence|discriminate]. }
    rewrite F. now rewrite <- !app_assoc.
Qed.

Lemma rels_fuel : forall n m es, S (dmax es) <= n -> S (dmax es) <= m -> rels n es = rels m es.
Proof.
  induction n as [|n IH]; intros m es Hn Hm; [lia|]. destruct m as [|m]; [lia|]. cbn [rels].
  assert (G : forall l, (forall nm x, In (nm, x) l -> In (nm, x) es) ->
    flat_map (fun e : bytes * node => let (name, x) := e in match x with File _ => [name] | Dir sub => map (fun r => name ++ [47%N] ++ r) (rels n sub) end) l =
    flat_map (fun e : bytes * node => let (name, x) := e in match x with File _ => [name] | Dir sub => map (fun r => name ++ [47%N] ++ r) (rels m sub) end) l).
  { induction l as [|[nm [c|sub]] l IHl]; intros Hl; [reflexivity| |]; cbn [flat_map].
    - f_equal. apply IHl. intros; apply Hl; now right.
    - f_equal; [|apply IHl; intros; apply Hl; now right].
      pose proof (dmax_in _ _ _ (Hl nm (Dir sub) (or_introl eq_refl))) as D. rewrite depth_dir in D.
      f_equal. apply IH; lia. }
  apply G. auto.
Qed.

(* ---- distinct names: in a tree whose directories list distinct names without '/', no two files get the same relative path ---- *)
Lemma rels_head : forall fuel es r, In r (rels fuel es) ->
  exists n x, In (n, x) es /\ (r = n \/ exists r', r = n ++ 47%N :: r').
Proof.
  destruct fuel as [|fuel]; [intros es r []|]. cbn [rels].
  induction es as [|[n [c|sub]] es IH]; intros r I; cbn [flat_map] in I; [destruct I| |]; apply in_app_iff in I; destruct I as [I|I].
  - destruct I as [<-|[]]. exists n, (File c). split; [now left|now left].
  - destruct (IH r I) as [m [y [Im H]]]. exists m, y. split; [now right|exact H].
  - apply in_map_iff in I. destruct I as [r' [<- _]]. exists n, (Dir sub). split; [now left|right; now exists r'].
  - destruct (IH r I) as [m [y [Im H]]]. exists m, y. split; [now right|exact H].
Qed.

Lemma rels_nodup : forall fuel es, wf_es es -> NoDup (rels fuel es).
Proof.
  induction fuel as [|fuel IH]; intros es W; [constructor|].
  induction es as [|[n x] es IHes]; [constructor|].
  inversion W as [es0 ND NS SUB]; subst. cbn [map] in ND. inversion ND as [|? ? NI ND']; subst.
  assert (W' : wf_es es).
  { constructor; [exact ND'|intros m y I; eapply NS; right; exact I|intros m sub I; eapply SUB; right; exact I]. }
  change (rels (S fuel) ((n, x) :: es)) with
    (match x with File _ => [n] | Dir sub => map (fun r => n ++ [47%N] ++ r) (rels fuel sub) end ++ rels (S fuel) es).
  apply NoDup_app_intro.
  - destruct x as [c|sub]; [constructor; [intros []|constructor]|].
    apply Injective_map_NoDup; [intros a c E; apply app_inv_head in E; now apply app_inv_head in E|apply IH; eapply SUB; left; reflexivity].
  - exact (IHes W').
  - intros r I1 I2.
    assert (H1 : r = n \/ exists r', r = n ++ 47%N :: r').
    { destruct x as [c|sub]; [destruct I1 as [<-|[]]; now left|].
      apply in_map_iff in I1. destruct I1 as [r' [<- _]]. right. now exists r'. }
    destruct (rels_head (S fuel) es r I2) as [m [y [Im H2]]].
    assert (Nn : nos n) by (eapply NS; left; reflexivity).
    assert (Nm : nos m) by (eapply NS; right; exact Im).
    assert (D : n <> m). { intros ->. apply NI. apply in_map_iff. exists (m, y). split; [reflexivity|exact Im]. }
    destruct H1 as [E1|[r1 E1]], H2 as [E2|[r2 E2]]; subst r.
    + congruence.
    + apply Nn. rewrite E2. apply in_app_iff. right. now left.
    + apply Nm. rewrite <- E2. apply in_app_iff. right. now left.
    + apply D. eapply split_unique; eassumption.
Qed.

Lemma pfx_inj to : Injective (pfx to).
Proof.
  intros a c. unfold pfx. destruct (beqb to []); [auto|]. intros E. apply app_inv_head in E. now apply app_inv_head in E.
Qed.

Section Walk.
  Variable uni_esc uni_alnum : N -> bool.
  Variable mm : mime_mode.
  Notation AFA := (add_files_as uni_esc uni_alnum mm).
  Definition publish (s : statics) (pu : bytes * bytes) : statics :=
    apply_op uni_esc uni_alnum mm s (OpFileAs (fst pu) (snd pu)).

  (* the walk is a sequence of add_file_as calls *)
  Lemma afa_is_walk : forall fuel s dir to es,
    st (AFA fuel s dir to es) = fold_left publish (walk fuel dir to es) (st s).
  Proof.
    induction fuel as [|fuel IH]; intros s dir to es; [reflexivity|]. cbn [add_files_as walk].
    change (st s) with (st (sannounce s dir)). generalize (sannounce s dir) as s0.
    induction es as [|[name [c|sub]] es IHes]; intros s0; [reflexivity| |]; cbn [fold_left flat_map].
    - rewrite IHes. reflexivity.
    - rewrite fold_left_app, IHes. f_equal. apply IH.
  Qed.

  (* the names follow the documented rule *)
  Lemma walk_names : forall fuel dir to es, named fuel es = true ->
    map snd (walk fuel dir to es) = map (pfx to) (rels fuel es).
  Proof.
    induction fuel as [|fuel IH]; intros dir to es; [reflexivity|]. cbn [named walk rels].
    induction es as [|[name [c|sub]] es IHes]; intros H; [reflexivity| |]; cbn [forallb flat_map] in *;
      apply andb_prop in H; destruct H as [H1 H2]; apply andb_prop in H1; destruct H1 as [Hn Hs];
      apply Bool.negb_true_iff in Hn; apply beqb_false in Hn.
    - cbn [app map]. f_equal. now apply IHes.
    - rewrite !map_app. f_equal; [|exact (IHes H2)]. rewrite (IH _ _ _ Hs), map_map. apply map_ext. intros r. now apply pfx_pfx.
  Qed.

  (* the paths are the directory plus the same relative paths *)
  Lemma walk_paths : forall fuel dir to es,
    map fst (walk fuel dir to es) = map (fun r => dir ++ [47%N] ++ r) (rels fuel es).
  Proof.
    induction fuel as [|fuel IH]; intros dir to es; [reflexivity|]. cbn [walk rels].
    induction es as [|[name [c|sub]] es IHes]; [reflexivity| |]; cbn [flat_map].
    - cbn [app map]. f_equal. apply IHes.
    - rewrite !map_app. f_equal; [|exact IHes]. rewrite IH, map_map. apply map_ext. intros r. now rewrite <- !app_assoc.
  Qed.

  (* and each publication appends one item that names the path and carries the name *)
  Definition item_of (pu : bytes * bytes) : bytes :=
    let ext := match name_and_ext (fst pu) with Some (_, e) => e | None => [] end in
    item_text uni_esc (fst pu) (rust_ident uni_alnum (snd pu)) (snd pu) (filecontent uni_esc (fst pu)) (mime_arg mm ext).
  Lemma publish_src : forall l s, src (fold_left publish l s) = src s ++ flat_map item_of l.
  Proof.
    induction l as [|pu l IH]; intros s; cbn [fold_left flat_map]; [now rewrite app_nil_r|].
    rewrite IH. unfold publish, item_of. cbn [apply_op add_static src]. now rewrite <- app_assoc.
  Qed.

  Lemma fold_left_ext' {X} (g1 g2 : sstate -> X -> sstate) (l : list X) :
    (forall s x, In x l -> g1 s x = g2 s x) -> forall s, fold_left g1 l s = fold_left g2 l s.
  Proof.
    induction l as [|x l IH]; intros H s; [reflexivity|]. cbn [fold_left]. rewrite (H s x (or_introl eq_refl)).
    apply IH. intros s0 y I. apply H. now right.
  Qed.
  Lemma afa_fuel' : forall n m es s dir to, S (dmax es) <= n -> S (dmax es) <= m -> AFA n s dir to es = AFA m s dir to es.
  Proof.
    induction n as [|n IH]; intros m es s dir to Hn Hm; [lia|]. destruct m as [|m]; [lia|].
    cbn [add_files_as]. apply fold_left_ext'. intros s0 [name [c|sub]] I; [reflexivity|].
    pose proof (dmax_in _ _ _ I) as D. rewrite depth_dir in D. apply IH; lia.
  Qed.

  Lemma add_files_as_spec : forall fuel s dir to es, S (dmax es) <= fuel -> named (S (dmax es)) es = true ->
    exists l, st (AFA fuel s dir to es) = fold_left publish l (st s) /\
              src (st (AFA fuel s dir to es)) = src (st s) ++ flat_map item_of l /\
              map snd l = map (pfx to) (rels (S (dmax es)) es) /\
              map fst l = map (fun r => dir ++ [47%N] ++ r) (rels (S (dmax es)) es).
  Proof.
    intros fuel s dir to es Hf Hn. exists (walk (S (dmax es)) dir to es).
    rewrite (afa_fuel' fuel (S (dmax es))) by lia.
    rewrite afa_is_walk. repeat split; [apply publish_src|now apply walk_names|apply walk_paths].
  Qed.
  (* the entry point of a build script: the fuel the model uses (the depth of the whole tree) is enough *)
  Lemma script_add_files_as_spec : forall tree base s rel to s',
    do_scall uni_esc uni_alnum mm tree base s (SAddFilesAs rel to) = Some s' ->
    exists es, find_node tree (split_path rel []) = Some (Dir es) /\
      (named (S (dmax es)) es = true ->
       exists l, st s' = fold_left publish l (st s) /\
                 src (st s') = src (st s) ++ flat_map item_of l /\
                 map snd l = map (pfx to) (rels (S (dmax es)) es) /\
                 map fst l = map (fun r => path_for base rel ++ [47%N] ++ r) (rels (S (dmax es)) es)).
  Proof.
    intros tree base s rel to s' H. cbn [do_scall] in H.
    destruct (find_node tree (split_path rel [])) as [[c|es]|] eqn:F; try discriminate.
    injection H as <-. exists es. split; [reflexivity|]. intros Hn.
    apply add_files_as_spec; [|exact Hn]. pose proof (find_node_depth _ _ _ F) as D. now rewrite depth_dir in D.
  Qed.
  (* add_files: the files directly in the directory, each through add_file; sub-directories are not entered *)
  Definition direct_files (es : list (bytes * node)) : list (bytes * bytes) :=
    flat_map (fun e : bytes * node => let (name, x) := e in match x with File c => [(name, c)] | Dir _ => [] end) es.
  Definition add_hashed (dir : bytes) (s : statics) (nc : bytes * bytes) : statics :=
    apply_op uni_esc uni_alnum mm s (OpFile (dir ++ [47%N] ++ fst nc) (snd nc)).
  Lemma add_files_spec : forall s dir es,
    st (add_files uni_esc uni_alnum mm s dir es) = fold_left (add_hashed dir) (direct_files es) (st s).
  Proof.
    intros s dir es. unfold add_files. change (st s) with (st (sannounce s dir)). generalize (sannounce s dir) as s0.
    induction es as [|[name [c|sub]] es IH]; intros s0; [reflexivity| |]; cbn [fold_left].
    - change (direct_files ((name, File c) :: es)) with ((name, c) :: direct_files es). cbn [fold_left].
      rewrite IH. apply f_equal. unfold add_file, add_hashed, sapply, sannounce. cbn [fst snd st apply_op].
      destruct (name_and_ext (dir ++ [47%N] ++ name)) as [[nm ext]|]; reflexivity.
    - change (direct_files ((name, Dir sub) :: es)) with (direct_files es). apply IH.
  Qed.
  (* both walks are sequences of the operations the STATICS theorems quantify over *)
  Definition ops_as (l : list (bytes * bytes)) : list sop := map (fun pu => OpFileAs (fst pu) (snd pu)) l.
  Definition ops_hashed (dir : bytes) (l : list (bytes * bytes)) : list sop := map (fun nc => OpFile (dir ++ [47%N] ++ fst nc) (snd nc)) l.
  Lemma fold_map {X} (g : X -> sop) (l : list X) : forall s,
    fold_left (fun s x => apply_op uni_esc uni_alnum mm s (g x)) l s = fold_left (apply_op uni_esc uni_alnum mm) (map g l) s.
  Proof. induction l as [|x l IH]; intros s; [reflexivity|]. cbn [map fold_left]. apply IH. Qed.
  Lemma walks_extend_a_run : forall header ops s, st s = run_ops uni_esc uni_alnum mm header ops ->
    (forall fuel dir to es, S (dmax es) <= fuel ->
       st (AFA fuel s dir to es) = run_ops uni_esc uni_alnum mm header (ops ++ ops_as (walk (S (dmax es)) dir to es))) /\
    (forall dir es,
       st (add_files uni_esc uni_alnum mm s dir es) = run_ops uni_esc uni_alnum mm header (ops ++ ops_hashed dir (direct_files es))).
  Proof.
    intros header ops s Hs. split.
    - intros fuel dir to es Hf. rewrite (afa_fuel' fuel (S (dmax es))) by lia. rewrite afa_is_walk, Hs.
      unfold run_ops. rewrite fold_left_app. unfold ops_as. rewrite <- fold_map. reflexivity.
    - intros dir es. rewrite add_files_spec, Hs. unfold run_ops. rewrite fold_left_app. unfold ops_hashed.
      rewrite <- fold_map. reflexivity.
  Qed.
  (* a walk over a well-formed tree publishes pairwise distinct names, so STATICS lists every file below the directory exactly once *)
  Lemma walk_names_distinct : forall fuel dir to es, named fuel es = true -> wf_es es -> NoDup (map snd (walk fuel dir to es)).
  Proof.
    intros fuel dir to es Hn W. rewrite walk_names by exact Hn. apply Injective_map_NoDup; [apply pfx_inj|now apply rels_nodup].
  Qed.
  Lemma pubs_ops_as l : map snd (pubs uni_alnum (ops_as l)) = map snd l.
  Proof.
    induction l as [|pu l IH]; [reflexivity|].
    change (ops_as (pu :: l)) with (OpFileAs (fst pu) (snd pu) :: ops_as l).
    change (pubs uni_alnum (OpFileAs (fst pu) (snd pu) :: ops_as l)) with ((rust_ident uni_alnum (snd pu), snd pu) :: pubs uni_alnum (ops_as l)).
    cbn [map snd]. now rewrite IH.
  Qed.
  Lemma walk_statics_complete : forall header s fuel dir to es, st s = empty_statics header ->
    S (dmax es) <= fuel -> named (S (dmax es)) es = true -> wf_es es ->
    Permutation (map fst (names_r (st (AFA fuel s dir to es)))) (map (pfx to) (rels (S (dmax es)) es)).
  Proof.
    intros header s fuel dir to es Hs Hf Hn W.
    destruct (walks_extend_a_run header [] s Hs) as [H _]. rewrite (H fuel dir to es Hf). cbn [app].
    assert (E : map snd (pubs uni_alnum (ops_as (walk (S (dmax es)) dir to es))) = map (pfx to) (rels (S (dmax es)) es)).
    { rewrite pubs_ops_as. now apply walk_names. }
    rewrite <- E. apply run_complete. rewrite E. apply Injective_map_NoDup; [apply pfx_inj|now apply rels_nodup].
  Qed.
End Walk.
