(* The literals ructe emits denote the bytes they were made from. *)
From Coq Require Import Lia ZArith Zify.
From Ructe Require Import Nom Utf8 Emit RustLit.
Local Open Scope N_scope.

Lemma hexval_hexd_table : forallb (fun n => match hexval (hexd n) with Some m => m =? n | None => false end)
                                  (map N.of_nat (seq 0 16)) = true.
Proof. vm_compute. reflexivity. Qed.
Lemma hexval_hexd n : n < 16 -> hexval (hexd n) = Some n.
Proof.
  intros H. pose proof hexval_hexd_table as T. rewrite forallb_forall in T.
  specialize (T n). destruct (hexval (hexd n)) as [m|].
  - f_equal. apply N.eqb_eq. apply T. apply in_map_iff. exists (N.to_nat n). split; [apply N2Nat.id|apply in_seq; lia].
  - exfalso. assert (false = true); [|discriminate]. apply T. apply in_map_iff. exists (N.to_nat n).
    split; [apply N2Nat.id|apply in_seq; lia].
Qed.

Ltac Zify.zify_post_hook ::= Z.to_euclidean_division_equations.

(* --- one byte through core::ascii::escape_default and back through the b"..." lexer --- *)
Lemma bstr_step_escape_default c rest : c < 256 ->
  bstr_step (escape_default c ++ rest) = LUnit [c] rest.
Proof.
  intros Hc. unfold escape_default.
  destruct (N.eqb c 9) eqn:E9; [apply N.eqb_eq in E9; subst; reflexivity|].
  destruct (N.eqb c 13) eqn:E13; [apply N.eqb_eq in E13; subst; reflexivity|].
  destruct (N.eqb c 10) eqn:E10; [apply N.eqb_eq in E10; subst; reflexivity|].
  destruct (N.eqb c 92) eqn:E92; [apply N.eqb_eq in E92; subst; reflexivity|].
  destruct (N.eqb c 39) eqn:E39; [apply N.eqb_eq in E39; subst; reflexivity|].
  destruct (N.eqb c 34) eqn:E34; [apply N.eqb_eq in E34; subst; reflexivity|].
  destruct ((32 <=? c) && (c <=? 126)) eqn:ER.
  - apply andb_true_iff in ER. destruct ER as [R1 R2]. apply N.leb_le in R1, R2.
    cbn [app bstr_step]. rewrite E34, E92, E13.
    assert (L : (c <? 128) = true) by (apply N.ltb_lt; lia). now rewrite L.
  - change (b "\x" ++ [hexd (c / 16); hexd (c mod 16)])%list with (92 :: 120 :: [hexd (c / 16); hexd (c mod 16)]).
    cbn [app bstr_step]. cbn [N.eqb Pos.eqb simple_escape].
    rewrite !hexval_hexd by lia.
    f_equal. f_equal. lia.
Qed.

Lemma lex_body_bytes d : Forall (fun c => c < 256) d -> forall rest fuel,
  (length d < fuel)%nat ->
  lex_body bstr_step fuel (flat_map escape_default d ++ 34 :: rest) = Some (d, rest).
Proof.
  induction 1 as [|c d Hc Hd IH]; intros rest fuel Hf.
  - destruct fuel; [cbn in Hf; lia|]. reflexivity.
  - destruct fuel as [|fuel]; [cbn in Hf; lia|]. cbn [flat_map lex_body]. rewrite <- app_assoc.
    rewrite bstr_step_escape_default by assumption.
    rewrite IH by (cbn in Hf; lia). reflexivity.
Qed.

Lemma escape_default_nonempty c : (1 <= length (escape_default c))%nat.
Proof.
  unfold escape_default.
  repeat match goal with |- context [if ?x then _ else _] => destruct x end; cbn; lia.
Qed.
Lemma flat_map_escape_len d : (length d <= length (flat_map escape_default d))%nat.
Proof.
  induction d as [|c d IH]; [cbn; lia|]. cbn [flat_map]. rewrite app_length. pose proof (escape_default_nonempty c).
  cbn [length]. lia.
Qed.

(* ByteString Display / the ASCII arm of write_code: b"<escape_default per byte>" *)
Lemma bytestr_literal_roundtrip d rest : Forall (fun c => c < 256) d ->
  lex_bytestr_lit (b "b""" ++ flat_map escape_default d ++ b """" ++ rest)%list = Some (d, rest).
Proof.
  intros H. change (b "b""" ++ flat_map escape_default d ++ b """" ++ rest)%list
              with (98 :: 34 :: (flat_map escape_default d ++ 34 :: rest))%list.
  cbn [lex_bytestr_lit]. apply lex_body_bytes; [exact H|].
  rewrite app_length. pose proof (flat_map_escape_len d). cbn [length]. lia.
Qed.

(* --- <str as Debug> on ASCII strings, back through the "..." lexer --- *)
Section D.
  Variable uni_esc : N -> bool.

  Lemma str_step_debug_char_ascii_table :
    forallb (fun c => match str_step (debug_char uni_esc c ++ [7]) with
                      | LUnit [x] [7] => x =? c | _ => false end) (map N.of_nat (seq 0 128)) = true.
  Proof. vm_compute. reflexivity. Qed.
End D.

(* ================= the "..." literal: <str as Debug> and back ================= *)
Local Open Scope list_scope.

(* ---- UTF-8: a decoded scalar re-encodes to the bytes it came from ---- *)
Lemma utf8_step_sound s cp r : utf8_step s = Some (cp, r) ->
  s = utf8_encode cp ++ r /\ is_scalar cp = true /\ (cp < 128 -> s = cp :: r).
Proof.
  unfold utf8_step. destruct s as [|c s]; [discriminate|].
  destruct (c <? 128) eqn:E1.
  { intros [= <- <-]. unfold utf8_encode, is_scalar. rewrite E1. apply N.ltb_lt in E1.
    split; [reflexivity|]. split; [|reflexivity].
    apply orb_true_iff. left. apply N.ltb_lt. lia. }
  apply N.ltb_ge in E1.
  destruct ((194 <=? c) && (c <=? 223)) eqn:E2.
  { apply andb_true_iff in E2. destruct E2 as [A B]. apply N.leb_le in A, B.
    destruct s as [|c1 s]; [discriminate|]. unfold cont.
    destruct ((128 <=? c1) && (c1 <=? 191)) eqn:C1; [|discriminate].
    apply andb_true_iff in C1. destruct C1 as [C1 C2]. apply N.leb_le in C1, C2.
    intros [= <- <-]. unfold utf8_encode, is_scalar.
    assert (X1 : ((c - 192) * 64 + (c1 - 128) <? 128) = false) by (apply N.ltb_ge; lia).
    assert (X2 : ((c - 192) * 64 + (c1 - 128) <? 2048) = true) by (apply N.ltb_lt; lia).
    rewrite X1, X2. split; [|split; [|lia]].
    - cbn [app]. f_equal; [lia|]. f_equal. lia.
    - apply orb_true_iff. left. apply N.ltb_lt. lia. }
  destruct ((224 <=? c) && (c <=? 239)) eqn:E3.
  { apply andb_true_iff in E3. destruct E3 as [A B]. apply N.leb_le in A, B.
    destruct s as [|c1 [|c2 s]]; try discriminate. unfold cont.
    match goal with |- (if ?g && ?h then _ else _) = _ -> _ => destruct g eqn:G; [|discriminate]; destruct h eqn:Hh; [|discriminate] end.
    apply andb_true_iff in Hh. destruct Hh as [D1 D2]. apply N.leb_le in D1, D2.
    intros [= <- <-]. unfold utf8_encode, is_scalar.
    assert (R1 : 128 <= c1 <= 191 /\ (c = 224 -> 160 <= c1) /\ (c = 237 -> c1 <= 159)).
    { destruct (c =? 224) eqn:Q1.
      - apply N.eqb_eq in Q1. apply andb_true_iff in G. destruct G as [G1 G2]. apply N.leb_le in G1, G2. lia.
      - apply N.eqb_neq in Q1. destruct (c =? 237) eqn:Q2.
        + apply N.eqb_eq in Q2. apply andb_true_iff in G. destruct G as [G1 G2]. apply N.leb_le in G1, G2. lia.
        + apply N.eqb_neq in Q2. apply andb_true_iff in G. destruct G as [G1 G2]. apply N.leb_le in G1, G2. lia. }
    set (cp := (c - 224) * 4096 + (c1 - 128) * 64 + (c2 - 128)).
    assert (Y1 : 2048 <= cp < 65536) by (unfold cp; lia).
    assert (Y2 : cp < 55296 \/ 57344 <= cp) by (unfold cp; lia).
    assert (X1 : (cp <? 128) = false) by (apply N.ltb_ge; lia).
    assert (X2 : (cp <? 2048) = false) by (apply N.ltb_ge; lia).
    assert (X3 : (cp <? 65536) = true) by (apply N.ltb_lt; lia).
    rewrite X1, X2, X3. split; [|split; [|lia]].
    - cbn [app]. unfold cp. f_equal; [lia|]. f_equal; [lia|]. f_equal. lia.
    - destruct Y2 as [Y2|Y2]; apply orb_true_iff; [left; apply N.ltb_lt; lia|right].
      apply andb_true_iff. split; apply N.leb_le; lia. }
  destruct ((240 <=? c) && (c <=? 244)) eqn:E4; [|discriminate].
  apply andb_true_iff in E4. destruct E4 as [A B]. apply N.leb_le in A, B.
  destruct s as [|c1 [|c2 [|c3 s]]]; try discriminate. unfold cont.
  match goal with |- (if ?g && ?h && ?k then _ else _) = _ -> _ =>
    destruct g eqn:G; [|discriminate]; destruct h eqn:Hh; [|discriminate]; destruct k eqn:Hk; [|discriminate] end.
  apply andb_true_iff in Hh. destruct Hh as [D1 D2]. apply N.leb_le in D1, D2.
  apply andb_true_iff in Hk. destruct Hk as [F1 F2]. apply N.leb_le in F1, F2.
  intros [= <- <-]. unfold utf8_encode, is_scalar.
  assert (R1 : 128 <= c1 <= 191 /\ (c = 240 -> 144 <= c1) /\ (c = 244 -> c1 <= 143)).
  { destruct (c =? 240) eqn:Q1.
    - apply N.eqb_eq in Q1. apply andb_true_iff in G. destruct G as [G1 G2]. apply N.leb_le in G1, G2. lia.
    - apply N.eqb_neq in Q1. destruct (c =? 244) eqn:Q2.
      + apply N.eqb_eq in Q2. apply andb_true_iff in G. destruct G as [G1 G2]. apply N.leb_le in G1, G2. lia.
      + apply N.eqb_neq in Q2. apply andb_true_iff in G. destruct G as [G1 G2]. apply N.leb_le in G1, G2. lia. }
  set (cp := (c - 240) * 262144 + (c1 - 128) * 4096 + (c2 - 128) * 64 + (c3 - 128)).
  assert (Y1 : 65536 <= cp <= 1114111) by (unfold cp; lia).
  assert (X1 : (cp <? 128) = false) by (apply N.ltb_ge; lia).
  assert (X2 : (cp <? 2048) = false) by (apply N.ltb_ge; lia).
  assert (X3 : (cp <? 65536) = false) by (apply N.ltb_ge; lia).
  rewrite X1, X2, X3. split; [|split; [|lia]].
  - cbn [app]. unfold cp. f_equal; [lia|]. f_equal; [lia|]. f_equal; [lia|]. f_equal. lia.
  - apply orb_true_iff. right. apply andb_true_iff. split; apply N.leb_le; lia.
Qed.

Lemma utf8_decode_aux_sound n : forall s cs, utf8_decode_aux n s = Some cs ->
  flat_map utf8_encode cs = s /\ Forall (fun c => is_scalar c = true) cs.
Proof.
  induction n as [|n IH]; intros s cs H.
  - destruct s; cbn in H; [inversion H; subst; split; [reflexivity|constructor]|discriminate].
  - destruct s as [|c s]; [cbn in H; inversion H; subst; split; [reflexivity|constructor]|].
    cbn [utf8_decode_aux] in H. destruct (utf8_step (c :: s)) as [[cp r]|] eqn:E; [|discriminate].
    destruct (utf8_decode_aux n r) as [l|] eqn:E2; [|discriminate]. inversion H; subst.
    destruct (utf8_step_sound _ _ _ E) as [A [B _]]. destruct (IH _ _ E2) as [C D].
    split; [cbn [flat_map]; rewrite C; now symmetry|constructor; assumption].
Qed.
Lemma utf8_decode_sound s cs : utf8_decode s = Some cs ->
  flat_map utf8_encode cs = s /\ Forall (fun c => is_scalar c = true) cs.
Proof. apply utf8_decode_aux_sound. Qed.

(* ---- {:x} and back through \u{..} ---- *)
Local Open Scope N_scope.
Fixpoint pow16 (k : nat) : N := match k with O => 1 | S k' => 16 * pow16 k' end.
Definition hexdigit (d : N) : Prop := d <> 125 /\ d <> 95 /\ exists v, hexval d = Some v /\ v < 16.
Definition dval (d : N) : N := match hexval d with Some v => v | None => 0 end.
Definition hexnum (ds : bytes) (a : N) : N := fold_left (fun a d => 16 * a + dval d) ds a.

Lemma hexd_digit_table : forallb (fun n => negb (hexd n =? 125) && negb (hexd n =? 95)) (map N.of_nat (seq 0 16)) = true.
Proof. vm_compute. reflexivity. Qed.
Lemma hexd_hexdigit n : n < 16 -> hexdigit (hexd n) /\ dval (hexd n) = n.
Proof.
  intros H. pose proof hexd_digit_table as T. rewrite forallb_forall in T.
  assert (I : In n (map N.of_nat (seq 0 16))).
  { apply in_map_iff. exists (N.to_nat n). split; [apply N2Nat.id|apply in_seq; lia]. }
  specialize (T n I). apply andb_true_iff in T. destruct T as [T1 T2].
  apply negb_true_iff in T1, T2. apply N.eqb_neq in T1, T2.
  unfold hexdigit, dval. rewrite (hexval_hexd n H). repeat split; try assumption. now exists n.
Qed.

Lemma hex_aux_spec : forall fuel k n acc, (1 <= k <= fuel)%nat -> n < pow16 k ->
  exists ds, hex_aux fuel n acc = (ds ++ acc)%list /\ (1 <= length ds <= k)%nat /\ Forall hexdigit ds /\
             forall a, hexnum ds a = a * pow16 (length ds) + n.
Proof.
  induction fuel as [|f IH]; intros k n acc Hk Hn; [lia|].
  cbn [hex_aux]. destruct (n <? 16) eqn:E.
  - apply N.ltb_lt in E. exists [hexd (n mod 16)].
    assert (M : n mod 16 = n) by (apply N.mod_small; exact E). rewrite M.
    destruct (hexd_hexdigit n E) as [D V].
    split; [reflexivity|]. split; [cbn; lia|]. split; [constructor; [exact D|constructor]|].
    intros a. cbn [hexnum fold_left length pow16]. rewrite V. lia.
  - apply N.ltb_ge in E.
    destruct k as [|[|k]]; [lia|cbn in Hn; lia|].
    assert (Hq : n / 16 < pow16 (S k)). { change (pow16 (S (S k))) with (16 * pow16 (S k)) in Hn. apply N.div_lt_upper_bound; lia. }
    destruct (IH (S k) (n / 16) (hexd (n mod 16) :: acc) ltac:(lia) Hq) as [ds [E1 [L [F V]]]].
    exists (ds ++ [hexd (n mod 16)])%list.
    assert (Hm : n mod 16 < 16) by (apply N.mod_lt; discriminate).
    destruct (hexd_hexdigit _ Hm) as [D Vd].
    split; [rewrite E1, <- app_assoc; reflexivity|].
    split; [rewrite app_length; cbn [length]; lia|].
    split; [apply Forall_app; split; [exact F|constructor; [exact D|constructor]]|].
    intros a. unfold hexnum. rewrite fold_left_app. fold (hexnum ds a). rewrite V.
    cbn [fold_left]. rewrite Vd, app_length. cbn [length]. rewrite Nat.add_1_r. cbn [pow16].
    pose proof (N.div_mod n 16 ltac:(discriminate)). lia.
Qed.

Lemma parse_u_digits ds : Forall hexdigit ds -> forall fuel acc k rest,
  (length ds < fuel)%nat -> (k + length ds <= 6)%nat -> (1 <= k + length ds)%nat ->
  parse_u fuel acc k (ds ++ 125 :: rest) = Some (hexnum ds acc, rest).
Proof.
  induction 1 as [|d ds Hd Hds IH]; intros fuel acc k rest Hf Hk H1.
  - destruct fuel; [cbn in Hf; lia|]. cbn [app parse_u]. rewrite N.eqb_refl.
    destruct k; [cbn in H1; lia|]. reflexivity.
  - destruct fuel as [|fuel]; [cbn in Hf; lia|]. cbn [app parse_u].
    destruct Hd as [D1 [D2 [v [Hv Hlt]]]].
    apply N.eqb_neq in D1, D2. rewrite D1, D2, Hv.
    cbn [length] in *. assert (L : Nat.leb 6 k = false) by (apply Nat.leb_gt; lia). rewrite L.
    rewrite IH by lia. f_equal. f_equal. cbn [hexnum fold_left]. unfold dval. now rewrite Hv.
Qed.

Lemma parse_u_hex cp rest : cp <= 1114111 ->
  parse_u 16 0 0 (hex cp ++ 125 :: rest) = Some (cp, rest).
Proof.
  intros H. unfold hex.
  destruct (hex_aux_spec 8 6 cp [] ltac:(lia) ltac:(cbn; lia)) as [ds [E [L [F V]]]].
  rewrite E, app_nil_r. rewrite parse_u_digits by (try assumption; lia).
  rewrite V. reflexivity.
Qed.

(* ---- one char through escape_debug and back ---- *)
Local Open Scope list_scope.
Section DebugRoundtrip.
  Variable uni_esc : N -> bool.

  Lemma str_step_u cp rest : is_scalar cp = true ->
    str_step (b "\u{" ++ hex cp ++ b "}" ++ rest) = LUnit (utf8_encode cp) rest.
  Proof.
    intros S. change (b "\u{" ++ hex cp ++ b "}" ++ rest) with (92%N :: 117%N :: 123%N :: (hex cp ++ 125%N :: rest)).
    cbn [str_step]. cbn [N.eqb Pos.eqb simple_escape].
    rewrite parse_u_hex; [now rewrite S|].
    unfold is_scalar in S. apply orb_true_iff in S. destruct S as [S|S].
    - apply N.ltb_lt in S. lia.
    - apply andb_true_iff in S. destruct S as [_ S]. apply N.leb_le in S. exact S.
  Qed.

  (* bytes >= 0x80 are copied one at a time *)
  Lemma lex_body_copy bs : Forall (fun x => (128 <= x)%N) bs -> forall fuel tail d r,
    lex_body str_step fuel tail = Some (d, r) ->
    lex_body str_step (length bs + fuel) (bs ++ tail) = Some (bs ++ d, r).
  Proof.
    induction 1 as [|x bs Hx Hbs IH]; intros fuel tail d r H; [exact H|].
    cbn [length Nat.add app lex_body str_step].
    assert (E1 : (x =? 34)%N = false) by (apply N.eqb_neq; lia).
    assert (E2 : (x =? 92)%N = false) by (apply N.eqb_neq; lia).
    assert (E3 : (x =? 13)%N = false) by (apply N.eqb_neq; lia).
    rewrite E1, E2, E3. rewrite (IH _ _ _ _ H). reflexivity.
  Qed.

  Lemma utf8_encode_high cp : (128 <= cp)%N -> Forall (fun x => (128 <= x)%N) (utf8_encode cp).
  Proof.
    intros H. unfold utf8_encode.
    assert (E : (cp <? 128)%N = false) by (apply N.ltb_ge; lia). rewrite E.
    destruct (cp <? 2048)%N; [|destruct (cp <? 65536)%N]; repeat constructor; lia.
  Qed.
  Lemma utf8_encode_len cp : (1 <= length (utf8_encode cp) <= 4)%nat.
  Proof. unfold utf8_encode. destruct (cp <? 128)%N; [|destruct (cp <? 2048)%N; [|destruct (cp <? 65536)%N]]; cbn; lia. Qed.

  (* lex_body is monotone in its fuel *)
  Lemma lex_body_mono step fuel : forall i d r, lex_body step fuel i = Some (d, r) ->
    forall fuel', (fuel <= fuel')%nat -> lex_body step fuel' i = Some (d, r).
  Proof.
    induction fuel as [|f IH]; intros i d r H fuel' L; [discriminate|].
    destruct fuel' as [|f']; [lia|]. cbn [lex_body] in *.
    destruct (step i) as [out rest|rest|]; [|exact H|discriminate].
    destruct (lex_body step f rest) as [[d0 r0]|] eqn:E; [|discriminate].
    rewrite (IH _ _ _ E f' ltac:(lia)). exact H.
  Qed.

  (* ASCII chars: by cases on the escape chain of debug_char *)
  Lemma str_step_debug_ascii c rest : (c < 128)%N ->
    str_step (debug_char uni_esc c ++ rest) = LUnit [c] rest.
  Proof.
    intros Hc. unfold debug_char.
    destruct (N.eqb c 0) eqn:E0; [apply N.eqb_eq in E0; subst; reflexivity|].
    destruct (N.eqb c 9) eqn:E9; [apply N.eqb_eq in E9; subst; reflexivity|].
    destruct (N.eqb c 13) eqn:E13; [apply N.eqb_eq in E13; subst; reflexivity|].
    destruct (N.eqb c 10) eqn:E10; [apply N.eqb_eq in E10; subst; reflexivity|].
    destruct (N.eqb c 92) eqn:E92; [apply N.eqb_eq in E92; subst; reflexivity|].
    destruct (N.eqb c 34) eqn:E34; [apply N.eqb_eq in E34; subst; reflexivity|].
    destruct ((c <? 32)%N || N.eqb c 127) eqn:EC.
    - rewrite <- !app_assoc. rewrite str_step_u.
      + unfold utf8_encode. assert (L : (c <? 128)%N = true) by (apply N.ltb_lt; lia). now rewrite L.
      + unfold is_scalar. apply orb_true_iff. left. apply N.ltb_lt. lia.
    - assert (L : (c <? 128)%N = true) by (apply N.ltb_lt; lia). rewrite L.
      cbn [app str_step]. now rewrite E34, E92, E13.
  Qed.

  Lemma debug_char_len c : (1 <= length (debug_char uni_esc c))%nat.
  Proof.
    unfold debug_char.
    repeat match goal with |- context [if ?x then _ else _] => destruct x end;
      try (cbn; lia); try (rewrite !app_length; cbn; lia).
    apply utf8_encode_len.
  Qed.

  (* the body of {:?} of a str, followed by the closing quote, lexes back to the str *)
  Lemma lex_body_debug cs : Forall (fun c => is_scalar c = true) cs -> forall rest,
    exists fuel, (fuel <= S (length (flat_map (debug_char uni_esc) cs)))%nat /\
                 lex_body str_step fuel (flat_map (debug_char uni_esc) cs ++ 34%N :: rest)
                 = Some (flat_map utf8_encode cs, rest).
  Proof.
    induction 1 as [|c cs Hc Hcs IH]; intros rest.
    - exists 1%nat. split; [cbn; lia|reflexivity].
    - destruct (IH rest) as [fuel [Lf Hf]]. cbn [flat_map]. rewrite <- app_assoc, app_length.
      pose proof (debug_char_len c) as DL.
      destruct (c <? 128)%N eqn:EA.
      + apply N.ltb_lt in EA. exists (S fuel). split; [lia|]. cbn [lex_body].
        rewrite (str_step_debug_ascii c _ EA). rewrite Hf.
        assert (U : utf8_encode c = [c]).
        { unfold utf8_encode. assert (L : (c <? 128)%N = true) by (apply N.ltb_lt; lia). now rewrite L. }
        now rewrite U.
      + apply N.ltb_ge in EA. unfold debug_char in *.
        assert (Z0 : N.eqb c 0 = false) by (apply N.eqb_neq; lia).
        assert (Z9 : N.eqb c 9 = false) by (apply N.eqb_neq; lia).
        assert (Z13 : N.eqb c 13 = false) by (apply N.eqb_neq; lia).
        assert (Z10 : N.eqb c 10 = false) by (apply N.eqb_neq; lia).
        assert (Z92 : N.eqb c 92 = false) by (apply N.eqb_neq; lia).
        assert (Z34 : N.eqb c 34 = false) by (apply N.eqb_neq; lia).
        assert (Z32 : (c <? 32)%N = false) by (apply N.ltb_ge; lia).
        assert (Z127 : N.eqb c 127 = false) by (apply N.eqb_neq; lia).
        assert (Z128 : (c <? 128)%N = false) by (apply N.ltb_ge; lia).
        rewrite Z0, Z9, Z13, Z10, Z92, Z34, Z32, Z127, Z128 in *. cbn [orb] in *.
        destruct (uni_esc c).
        * exists (S fuel). split; [lia|]. cbn [lex_body]. rewrite <- !app_assoc. rewrite (str_step_u c _ Hc). now rewrite Hf.
        * exists (length (utf8_encode c) + fuel)%nat. split; [lia|].
          apply lex_body_copy; [now apply utf8_encode_high|exact Hf].
  Qed.

  (* {:?} of a valid UTF-8 string is a string literal denoting exactly that string, and the
     literal ends at its closing quote *)
  Lemma str_literal_roundtrip s rest : utf8_valid s = true ->
    lex_str_lit (debug_str uni_esc s ++ rest) = Some (s, rest).
  Proof.
    unfold utf8_valid, debug_str. destruct (utf8_decode s) as [cs|] eqn:E; [intros _|discriminate].
    destruct (utf8_decode_sound _ _ E) as [R S].
    change (b """" ++ flat_map (debug_char uni_esc) cs ++ b """") with
           (34%N :: (flat_map (debug_char uni_esc) cs ++ [34%N])).
    cbn [app lex_str_lit]. rewrite <- app_assoc. cbn [app].
    destruct (lex_body_debug cs S rest) as [fuel [Lf Hf]].
    rewrite <- R.
    apply (lex_body_mono _ _ _ _ _ Hf). rewrite app_length. cbn [length]. lia.
  Qed.
End DebugRoundtrip.
