(* Facts about code emission (Model/Emit.v) for C03, C04, C05, C13, C14. *)
From Coq Require Import Lia.
From Ructe Require Import Nom Utf8 TemplateExpr Template Emit.
Local Open Scope list_scope.

Section E.
  Variable uni_esc : N -> bool.
  Notation write_code := (write_code uni_esc).
  Notation codes := (codes uni_esc).
  Notation write_rust := (write_rust uni_esc).

  (* the local fixpoints of write_code are [codes] *)
  Lemma codes_local l :
    (fix codes (l : list texpr) : bytes := match l with [] => [] | x :: r => write_code x ++ codes r end) l = codes l.
  Proof. induction l as [|x r IH]; [reflexivity|]. cbn [Emit.codes]. now rewrite <- IH. Qed.

  Definition arg_text (a : targ) : bytes :=
    match a with
    | ARust s => s
    | ABody [] => b "|_| Ok(())"
    | ABody v => b "#[allow(clippy::used_underscore_binding)] |mut _ructe_out_| {" ++ nl ++ codes v ++ b "Ok(())" ++ nl ++ b "}" ++ nl
    end.
  Fixpoint args_text (l : list targ) : bytes := match l with [] => [] | a :: r => b ", " ++ arg_text a ++ args_text r end.
  Fixpoint arms_text (l : list (bytes * list texpr)) : bytes :=
    match l with [] => [] | (p, body) :: r => nl ++ b "  " ++ p ++ b " => {" ++ codes body ++ b "}" ++ arms_text r end.

  (* one equation per construct: what write_code emits *)
  Lemma write_code_comment : write_code TComment = []. Proof. reflexivity. Qed.
  Lemma write_code_text t : write_code (TText t) = text_code uni_esc t. Proof. reflexivity. Qed.
  Lemma write_code_expr e : write_code (TExpr e) = e ++ b ".to_html(_ructe_out_.by_ref())?;" ++ nl. Proof. reflexivity. Qed.
  Lemma write_code_for name expr body :
    write_code (TFor name expr body) = b "for " ++ name ++ b " in " ++ expr ++ b " {" ++ nl ++ codes body ++ b "}" ++ nl.
  Proof. cbn [Emit.write_code]. now rewrite codes_local. Qed.
  Lemma write_code_if expr body els :
    write_code (TIf expr body els) =
      b "if " ++ expr ++ b " {" ++ nl ++ codes body ++ b "}" ++
      match els with
      | Some [TIf e2 b2 els2 as e] => b " else " ++ write_code e
      | Some body2 => b " else {" ++ nl ++ codes body2 ++ b "}" ++ nl
      | None => nl
      end.
  Proof.
    destruct els as [[|x [|y r]]|]; cbn [Emit.write_code]; rewrite ?codes_local; reflexivity.
  Qed.
  Lemma write_code_match expr arms :
    write_code (TMatch expr arms) = b "match " ++ expr ++ b " {" ++ arms_text arms ++ nl ++ b "}" ++ nl.
  Proof.
    cbn [Emit.write_code]. repeat f_equal.
    all: induction arms as [|[p body] r IH]; [reflexivity|]; cbn [arms_text]; rewrite <- IH, codes_local; reflexivity.
  Qed.
  Lemma write_code_call name args :
    write_code (TCall name args) = name ++ b "(_ructe_out_.by_ref()" ++ args_text args ++ b ")?;" ++ nl.
  Proof.
    cbn [Emit.write_code]. repeat f_equal.
    all: induction args as [|a r IH]; [reflexivity|]; cbn [args_text]; rewrite <- IH; do 2 f_equal;
      destruct a as [s|[|x v]]; try reflexivity; cbn [arg_text]; now rewrite codes_local.
  Qed.

  (* ---- C13 ---- *)
  Lemma split_colon_spec s : forall acc,
    match split_colon s acc with
    | Some (name, ty) => exists pre, rev acc ++ pre = name /\ s = pre ++ 58%N :: ty /\ Forall (fun c => c <> 58%N) pre
    | None => Forall (fun c => c <> 58%N) s
    end.
  Proof.
    induction s as [|c s IH]; intros acc; cbn [split_colon]; [constructor|].
    destruct (N.eqb c 58) eqn:E.
    - apply N.eqb_eq in E. subst c. exists []. rewrite app_nil_r. repeat split. constructor.
    - specialize (IH (c :: acc)). destruct (split_colon s (c :: acc)) as [[name ty]|].
      + destruct IH as [pre [H1 [H2 H3]]]. exists (c :: pre). cbn [rev] in H1. rewrite <- app_assoc in H1. cbn in H1.
        split; [exact H1|]. split; [now rewrite H2|]. constructor; [now apply N.eqb_neq|exact H3].
      + constructor; [now apply N.eqb_neq|exact IH].
  Qed.

  Lemma split_unique (name ty name' ty' : bytes) : name ++ 58%N :: ty = name' ++ 58%N :: ty' ->
    Forall (fun c => c <> 58%N) name -> Forall (fun c => c <> 58%N) name' -> name = name' /\ ty = ty'.
  Proof.
    revert name'. induction name as [|c name IH]; intros [|c' name'] Ha H1 H2; cbn in Ha.
    - inversion Ha. auto.
    - inversion Ha; subst. inversion H2; congruence.
    - inversion Ha; subst. inversion H1; congruence.
    - inversion Ha; subst. inversion H1; subst. inversion H2; subst.
      match goal with H : name ++ _ = name' ++ _ |- _ => destruct (IH name' H) as [-> ->]; auto end.
  Qed.

  (* a declared parameter reaches the signature verbatim unless it is <name>:<type> with the
     type, trimmed, exactly `Content`; then and only then it becomes the block parameter *)
  Lemma arg_code_cases a :
    (arg_code a = a /\
       forall name ty, a = name ++ 58%N :: ty -> Forall (fun c => c <> 58%N) name -> trim ty <> b "Content") \/
    (exists name ty, a = name ++ 58%N :: ty /\ Forall (fun c => c <> 58%N) name /\ trim ty = b "Content" /\
                     arg_code a = name ++ b ": impl FnOnce(&mut W) -> io::Result<()>").
  Proof.
    unfold arg_code. pose proof (split_colon_spec a []) as S. destruct (split_colon a []) as [[name ty]|].
    - destruct S as [pre [H1 [H2 H3]]]. cbn in H1. subst pre.
      destruct (beq (trim ty) (b "Content")) eqn:E.
      + right. exists name, ty. unfold beq in E. destruct (list_eq_dec N.eq_dec (trim ty) (b "Content")); [|discriminate]. tauto.
      + left. split; [reflexivity|]. intros name' ty' Ha Hn.
        assert (name' = name /\ ty' = ty) as [-> ->].
        { rewrite H2 in Ha. destruct (split_unique _ _ _ _ Ha H3 Hn) as [-> ->]. auto. }
        unfold beq in E. destruct (list_eq_dec N.eq_dec (trim ty) (b "Content")); [discriminate|assumption].
    - left. split; [reflexivity|]. intros name ty Ha Hn. exfalso. subst a. rewrite Forall_forall in S.
      apply (S 58%N); [apply in_app_iff; right; now left|reflexivity].
  Qed.

  (* the signature: sink first, then exactly the declared parameters, in declared order, one per
     line; the use lines in order, each followed by `;` *)
  Lemma write_rust_shape t name :
    write_rust t name =
      b "use std::io::{self, Write};" ++ nl ++ b "#[allow(clippy::useless_attribute, unused)]" ++ nl ++ b "use super::{Html,ToHtml};" ++ nl ++
      flat_map (fun l => l ++ b ";" ++ nl) (preamble t) ++
      nl ++ b "#[allow(clippy::used_underscore_binding)]" ++ nl ++
      b "pub fn " ++ name ++ b "<" ++ type_args t ++ (match type_args t with [] => [] | _ => b ", " end) ++ b "W>(" ++
      nl ++ b "  #[allow(unused_mut)] mut _ructe_out_: W," ++ nl ++
      flat_map (fun a => b "  " ++ arg_code a ++ b "," ++ nl) (args t) ++
      b ") -> io::Result<()>" ++ nl ++ b "where W: Write {" ++ nl ++ codes (body t) ++ b "Ok(())" ++ nl ++ b "}" ++ nl.
  Proof. reflexivity. Qed.

  Definition write_rust_head (t : template_t) (name : bytes) : bytes :=
    b "use std::io::{self, Write};" ++ nl ++ b "#[allow(clippy::useless_attribute, unused)]" ++ nl ++ b "use super::{Html,ToHtml};" ++ nl ++
    flat_map (fun l => l ++ b ";" ++ nl) (preamble t) ++
    nl ++ b "#[allow(clippy::used_underscore_binding)]" ++ nl ++
    b "pub fn " ++ name ++ b "<" ++ type_args t ++ (match type_args t with [] => [] | _ => b ", " end) ++ b "W>(" ++
    nl ++ b "  #[allow(unused_mut)] mut _ructe_out_: W," ++ nl ++
    flat_map (fun a => b "  " ++ arg_code a ++ b "," ++ nl) (args t) ++
    b ") -> io::Result<()>" ++ nl ++ b "where W: Write {" ++ nl.
  Lemma write_rust_split t name :
    write_rust t name = write_rust_head t name ++ codes (body t) ++ b "Ok(())" ++ nl ++ b "}" ++ nl.
  Proof. unfold Emit.write_rust, write_rust_head. rewrite <- !app_assoc. reflexivity. Qed.

  (* ---- C14: every statement write_code emits ends in `?;` + newline, or is a block whose
     statements do ---- *)
  Definition ends_q (s : bytes) : Prop := exists pre, s = pre ++ b "?;" ++ nl.
  Lemma text_code_q t : ends_q (text_code uni_esc t).
  Proof.
    unfold text_code. destruct (is_ascii t).
    - exists (b "_ructe_out_.write_all(b""" ++ escape_ascii t ++ b """)"). now rewrite <- !app_assoc.
    - exists (b "_ructe_out_.write_all(" ++ debug_str uni_esc t ++ b ".as_bytes())"). now rewrite <- !app_assoc.
  Qed.
End E.
