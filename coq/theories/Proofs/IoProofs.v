(* Proofs about Model/Io.v: the prefix theorems (every schedule), fuel sufficiency and
   fault-free completion, the escape/decode laws, buffers. *)
From Ructe Require Import Tables Io.

Arguments special c : simpl never.
Arguments entity c : simpl never.
Arguments max_entity_len : simpl never.

Definition prefix (p l : bytes) := exists q, l = p ++ q.
Lemma prefix_nil l : prefix [] l. Proof. exists l; reflexivity. Qed.
Lemma prefix_refl l : prefix l l. Proof. exists []; now rewrite app_nil_r. Qed.
Lemma prefix_app a p l : prefix p l -> prefix (a ++ p) (a ++ l).
Proof. intros [q ->]. exists q. now rewrite app_assoc. Qed.
Lemma prefix_app_r p a c : prefix p a -> prefix p (a ++ c).
Proof. intros [q ->]. exists (q ++ c). now rewrite app_assoc. Qed.
Lemma prefix_trans a c d : prefix a c -> prefix c d -> prefix a d.
Proof. intros [q ->] [r ->]. exists (q ++ r). now rewrite app_assoc. Qed.

Section Generic.
  Context {W : Type} (write : W -> bytes -> W * wres) (lg : W -> bytes) (T : bytes -> bytes).
  Hypothesis T_nil : T [] = [].
  Hypothesis T_app : forall a c, T (a ++ c) = T a ++ T c.
  (* the contract of one `write` call *)
  Definition WriteSpec := forall w d w' r, write w d = (w', r) ->
    exists q, lg w' = lg w ++ q /\
      match r with
      | WOk n => n <= length d /\ q = T (firstn n d)
      | WInt => q = []
      | WErr _ => prefix q (T d)
      end.
  Hypothesis HW : WriteSpec.

  Lemma write_all_spec : forall fuel w d w' r,
    write_all write fuel w d = (w', r) ->
    exists p, lg w' = lg w ++ p /\ prefix p (T d) /\ (r = Done -> p = T d).
  Proof.
    induction fuel as [|f IH]; intros w d w' r H.
    - destruct d; cbn in H; inversion H; subst; exists []; rewrite app_nil_r;
        (split; [reflexivity|split; [apply prefix_nil|]]); intros; try discriminate.
      now rewrite T_nil.
    - destruct d as [|c d].
      + cbn in H; inversion H; subst. exists []. rewrite app_nil_r, T_nil.
        split; [reflexivity|split; [apply prefix_nil|reflexivity]].
      + cbn [write_all] in H.
        destruct (write w (c :: d)) as [w1 r1] eqn:Ew.
        destruct (HW _ _ _ _ Ew) as [q [Hl Hr]].
        destruct r1 as [n| |e].
        * destruct Hr as [Hn ->]. destruct n as [|n].
          { inversion H; subst. exists []. cbn [firstn] in Hl. rewrite T_nil in Hl.
            split; [exact Hl|split; [apply prefix_nil|discriminate]]. }
          { apply IH in H. destruct H as [p [Hl2 [Hp Hs]]].
            exists (T (firstn (S n) (c :: d)) ++ p).
            rewrite Hl2, Hl, <- app_assoc. split; [reflexivity|].
            rewrite <- (firstn_skipn (S n) (c :: d)) at 2 4. rewrite T_app.
            split; [now apply prefix_app|]. intros A. now rewrite (Hs A). }
        * subst q. rewrite app_nil_r in Hl. apply IH in H. destruct H as [p [Hl2 HH]].
          exists p. rewrite Hl2, Hl. split; [reflexivity|exact HH].
        * inversion H; subst. exists q. split; [exact Hl|split; [exact Hr|discriminate]].
  Qed.

  Lemma write_pieces_spec : forall fuel ps w w' r,
    write_pieces write fuel w ps = (w', r) ->
    exists p, lg w' = lg w ++ p /\ prefix p (T (concat ps)) /\ (r = Done -> p = T (concat ps)).
  Proof.
    intros fuel ps; induction ps as [|x ps IH]; intros w w' r H; cbn in H.
    - inversion H; subst. exists []. rewrite app_nil_r. cbn. rewrite T_nil.
      split; [reflexivity|split; [apply prefix_nil|reflexivity]].
    - destruct (write_all write fuel w x) as [w1 r1] eqn:E.
      destruct (write_all_spec _ _ _ _ _ E) as [p1 [L1 [P1 S1]]].
      cbn [concat]. rewrite T_app.
      destruct r1.
      + apply IH in H. destruct H as [p2 [L2 [P2 S2]]]. rewrite (S1 eq_refl) in L1.
        exists (T x ++ p2). rewrite L2, L1, <- app_assoc. split; [reflexivity|].
        split; [now apply prefix_app|]. intros A. now rewrite (S2 A).
      + inversion H; subst. exists p1. split; [exact L1|]. split; [now apply prefix_app_r|discriminate].
      + inversion H; subst. exists p1. split; [exact L1|]. split; [now apply prefix_app_r|discriminate].
  Qed.
End Generic.

Lemma escape_app a c : escape (a ++ c) = escape a ++ escape c.
Proof. unfold escape. now rewrite flat_map_app. Qed.

Lemma sink_write_spec : WriteSpec sink_write log (fun x => x).
Proof.
  intros s d s' r H. unfold sink_write in H.
  destruct (sched s) as [|[k| |e] rest]; inversion H; subst; cbn [log].
  - exists d. split; [reflexivity|]. split; [lia|now rewrite firstn_all].
  - eexists; split; [reflexivity|]. split; [lia|reflexivity].
  - exists []. now rewrite app_nil_r.
  - exists []. rewrite app_nil_r. split; [reflexivity|apply prefix_nil].
Qed.

Lemma safe_run_le d : safe_run d <= length d.
Proof. induction d as [|c d IH]; cbn; [lia|]. destruct (special c); lia. Qed.
Lemma escape_firstn_safe d n : n <= safe_run d -> escape (firstn n d) = firstn n d.
Proof.
  revert n; induction d as [|c d IH]; intros n H; cbn in *.
  - now rewrite firstn_nil.
  - destruct (special c) eqn:E.
    + assert (n = 0) by lia. subst. reflexivity.
    + destruct n; [reflexivity|]. cbn. unfold esc1 at 1. rewrite E. cbn. f_equal. apply IH. lia.
Qed.

Lemma esc_write_spec F : WriteSpec (esc_write F) log escape.
Proof.
  intros s d s' r H. unfold esc_write in H.
  destruct (safe_run d) as [|n] eqn:En.
  - destruct d as [|c d].
    + inversion H; subst. exists []. rewrite app_nil_r. split; [reflexivity|]. split; [cbn; lia|reflexivity].
    + destruct (write_all sink_write F s (entity c)) as [s1 r1] eqn:Ew.
      apply (write_all_spec sink_write log (fun x => x) eq_refl (fun a c => eq_refl) sink_write_spec) in Ew.
      destruct Ew as [p [Hl [Hp Hs]]].
      assert (Ec : escape [c] = entity c).
      { cbn in En. destruct (special c) eqn:E; [|discriminate]. cbn. unfold esc1. rewrite E. now rewrite app_nil_r. }
      assert (Hpre : prefix p (escape (c :: d))).
      { change (c :: d) with ([c] ++ d). rewrite escape_app, Ec. now apply prefix_app_r. }
      destruct r1 as [|e|]; inversion H; subst.
      * exists p. split; [exact Hl|]. split; [cbn; lia|]. cbn [firstn]. rewrite Ec. now apply Hs.
      * exists p. split; [exact Hl|exact Hpre].
      * exists p. split; [exact Hl|exact Hpre].
  - pose proof (sink_write_spec _ _ _ _ H) as [q [Hl Hr]].
    pose proof (safe_run_le d) as Hle.
    exists q. split; [exact Hl|]. destruct r as [k| |e].
    + destruct Hr as [Hk ->]. rewrite firstn_length in Hk. split; [lia|].
      rewrite firstn_firstn. replace (Init.Nat.min k (S n)) with k by lia.
      rewrite escape_firstn_safe; [reflexivity|lia].
    + exact Hr.
    + destruct Hr as [t Ht]. cbv beta in Ht.
      exists (t ++ escape (skipn (S n) d)).
      rewrite <- (firstn_skipn (S n) d) at 1. rewrite escape_app, escape_firstn_safe by lia.
      rewrite Ht. now rewrite app_assoc.
Qed.

(* ---- the prefix theorems: every piece list, every schedule ---- *)
Lemma to_html_display_prefix : forall ps s s' r,
  to_html_display ps s = (s', r) ->
  exists p, log s' = log s ++ p /\ prefix p (escape (concat ps)) /\ (r = Done -> p = escape (concat ps)).
Proof.
  intros ps s s' r H. unfold to_html_display in H.
  eapply (write_pieces_spec _ log escape eq_refl escape_app (esc_write_spec _)); eauto.
Qed.
Lemma to_html_raw_prefix : forall ps s s' r,
  to_html_raw ps s = (s', r) ->
  exists p, log s' = log s ++ p /\ prefix p (concat ps) /\ (r = Done -> p = concat ps).
Proof.
  intros ps s s' r H. unfold to_html_raw in H.
  eapply (write_pieces_spec _ log (fun x => x) eq_refl (fun a c => eq_refl) sink_write_spec); eauto.
Qed.
Lemma to_html_buffer_prefix : forall buf s s' r,
  to_html_buffer buf s = (s', r) ->
  exists p, log s' = log s ++ p /\ prefix p buf /\ (r = Done -> p = buf).
Proof.
  intros buf s s' r H. unfold to_html_buffer in H.
  eapply (write_all_spec _ log (fun x => x) eq_refl (fun a c => eq_refl) sink_write_spec); eauto.
Qed.
Lemma to_html_prefix_all : forall v s s' r,
  to_html v s = (s', r) ->
  exists p, log s' = log s ++ p /\ prefix p (rendering v) /\ (r = Done -> p = rendering v).
Proof.
  intros [ps|ps|buf] s s' r H; cbn [to_html rendering] in *.
  - now apply to_html_display_prefix. - now apply to_html_raw_prefix. - now apply to_html_buffer_prefix.
Qed.

(* ---- progress: enough fuel, and fault-free schedules complete ---- *)
Fixpoint no_fault (l : list resp) : Prop :=
  match l with
  | [] => True
  | Accept O :: _ => False
  | Accept (S _) :: r => no_fault r
  | Interrupted :: r => no_fault r
  | Fail _ :: _ => False
  end.

Section Progress.
  Context {W : Type} (write : W -> bytes -> W * wres) (sc : W -> list resp).
  (* one call: the schedule only shrinks, strictly on Interrupted; under a fault-free schedule a
     call on non-empty data neither fails nor returns 0, and the rest stays fault-free *)
  Definition ProgSpec := forall w d w' r, write w d = (w', r) ->
    length (sc w') <= length (sc w) /\
    (r = WInt -> length (sc w') < length (sc w)) /\
    (no_fault (sc w) -> no_fault (sc w') /\
       (d <> [] -> match r with WOk O => False | WErr _ => False | _ => True end)).
  Hypothesis HP : ProgSpec.
  Hypothesis Hle : forall w d w' n, write w d = (w', WOk n) -> n <= length d.

  Lemma write_all_progress : forall fuel w d w' r,
    write_all write fuel w d = (w', r) ->
    length (sc w) + length d < fuel ->
    r <> OutOfFuel /\ length (sc w') <= length (sc w) /\
    (no_fault (sc w) -> r = Done /\ no_fault (sc w')).
  Proof.
    induction fuel as [|f IH]; intros w d w' r H Hf; [lia|].
    destruct d as [|c d].
    - cbn in H. inversion H; subst. split; [discriminate|]. split; [lia|]. intros A; split; [reflexivity|exact A].
    - cbn [write_all] in H. destruct (write w (c :: d)) as [w1 r1] eqn:Ew.
      destruct (HP _ _ _ _ Ew) as [L1 [L2 L3]].
      destruct r1 as [n| |e].
      + destruct n as [|n].
        * inversion H; subst. split; [discriminate|]. split; [lia|]. intros A.
          destruct (L3 A) as [_ B]. exfalso. apply B. discriminate.
        * pose proof (Hle _ _ _ _ Ew) as Hn. cbn [length] in Hn.
          assert (Hlen : length (skipn (S n) (c :: d)) = length (c :: d) - S n) by apply skipn_length.
          cbn [length] in Hlen.
          apply IH in H; [|cbn [length] in Hf; lia].
          destruct H as [H1 [H2 H3]]. split; [exact H1|]. split; [lia|].
          intros A. destruct (L3 A) as [B _]. apply H3. exact B.
      + specialize (L2 eq_refl). apply IH in H; [|cbn [length] in *; lia].
        destruct H as [H1 [H2 H3]]. split; [exact H1|]. split; [lia|].
        intros A. destruct (L3 A) as [B _]. apply H3. exact B.
      + inversion H; subst. split; [discriminate|]. split; [lia|]. intros A.
        destruct (L3 A) as [_ B]. exfalso. apply B. discriminate.
  Qed.

  Lemma write_pieces_progress : forall ps fuel w w' r,
    write_pieces write fuel w ps = (w', r) ->
    length (sc w) + length (concat ps) < fuel ->
    r <> OutOfFuel /\ (no_fault (sc w) -> r = Done).
  Proof.
    induction ps as [|x ps IH]; intros fuel w w' r H Hf; cbn in H.
    - inversion H; subst. split; [discriminate|reflexivity].
    - cbn [concat] in Hf. rewrite app_length in Hf.
      destruct (write_all write fuel w x) as [w1 r1] eqn:E.
      destruct (write_all_progress _ _ _ _ _ E ltac:(lia)) as [A [B C]].
      destruct r1.
      + apply IH in H; [|lia]. destruct H as [H1 H2]. split; [exact H1|].
        intros F. destruct (C F) as [_ F1]. now apply H2.
      + inversion H; subst. split; [discriminate|]. intros F. destruct (C F) as [X _]. discriminate.
      + exfalso. now apply A.
  Qed.
End Progress.

Lemma sink_write_prog : ProgSpec sink_write sched.
Proof.
  intros s d s' r H. unfold sink_write in H.
  destruct (sched s) as [|[k| |e] rest] eqn:Es; inversion H; subst; cbn [sched length].
  - split; [lia|]. split; [discriminate|]. intros _. split; [exact I|]. intros Hd.
    destruct d; [congruence|exact I].
  - split; [lia|]. split; [discriminate|]. intros A. destruct k; [destruct A|].
    split; [exact A|]. intros Hd. destruct d as [|c d]; [congruence|]. cbn. exact I.
  - split; [lia|]. split; [lia|]. intros A. split; [exact A|]. intros _. exact I.
  - split; [lia|]. split; [discriminate|]. intros A. destruct A.
Qed.
Lemma sink_write_le : forall s d s' n, sink_write s d = (s', WOk n) -> n <= length d.
Proof.
  intros s d s' n H. unfold sink_write in H.
  destruct (sched s) as [|[k| |e] rest]; inversion H; subst; lia.
Qed.

Lemma entity_len c : length (entity c) <= max_entity_len.
Proof.
  unfold entity, max_entity_len. generalize entity_default as dflt. intros dflt.
  induction entity_table as [|[k v] t IH]; cbn [lookupN fold_right snd]; [lia|].
  destruct (N.eqb c k); lia.
Qed.

(* the entities the writer can emit are non-empty (checked on the regenerated table) *)
Definition entities_nonempty : bool :=
  forallb (fun c => match entity c with [] => false | _ => true end) special_bytes.
Lemma memN_In c l : memN c l = true -> In c l.
Proof.
  induction l as [|x l IH]; cbn; [discriminate|]. intros H. apply orb_true_iff in H.
  destruct H as [H|H]; [left; symmetry; now apply N.eqb_eq|right; now apply IH].
Qed.
Lemma entity_nonempty c : entities_nonempty = true -> special c = true -> entity c <> [].
Proof.
  intros H Hs. unfold entities_nonempty in H. rewrite forallb_forall in H.
  specialize (H c (memN_In _ _ Hs)). destruct (entity c); [discriminate|discriminate].
Qed.

Lemma esc_write_prog F : entities_nonempty = true ->
  (forall s, length (sched s) + max_entity_len < F -> True) ->
  forall s d s' r, length (sched s) + max_entity_len < F ->
  esc_write F s d = (s', r) ->
    length (sched s') <= length (sched s) /\
    (r = WInt -> length (sched s') < length (sched s)) /\
    (no_fault (sched s) -> no_fault (sched s') /\
       (d <> [] -> match r with WOk O => False | WErr _ => False | _ => True end)).
Proof.
  intros Hne _ s d s' r HF H. unfold esc_write in H.
  destruct (safe_run d) as [|n] eqn:En.
  - destruct d as [|c d].
    + inversion H; subst. split; [lia|]. split; [discriminate|]. intros A. split; [exact A|]. congruence.
    + destruct (write_all sink_write F s (entity c)) as [s1 r1] eqn:Ew.
      pose proof (entity_len c) as Hl.
      destruct (write_all_progress sink_write sched sink_write_prog sink_write_le _ _ _ _ _ Ew ltac:(lia))
        as [A [B C]].
      destruct r1 as [|e|]; inversion H; subst.
      * split; [exact B|]. split; [discriminate|]. intros Fz. destruct (C Fz) as [_ Fz']. split; [exact Fz'|].
        intros _. exact I.
      * split; [exact B|]. split; [discriminate|]. intros Fz. destruct (C Fz) as [X _]. discriminate.
      * exfalso. now apply A.
  - assert (Hd : firstn (S n) d <> []).
    { destruct d; [cbn in En; discriminate|cbn; discriminate]. }
    destruct (sink_write_prog _ _ _ _ H) as [A [B C]].
    split; [exact A|]. split; [exact B|]. intros Fz. destruct (C Fz) as [C1 C2].
    split; [exact C1|]. intros _. now apply C2.
Qed.

(* esc_write with the fuel the model actually passes is a ProgSpec on the states reachable in
   to_html_display: its entity fuel was computed from the initial schedule, which only shrinks.
   We package that as a ProgSpec over sinks whose schedule is no longer than the initial one. *)
Record bsink (n : nat) := { bs : sink; bs_ok : length (sched bs) <= n }.

Lemma esc_write_le F : forall s d s' n, esc_write F s d = (s', WOk n) -> n <= length d.
Proof.
  intros s d s' n H. destruct (esc_write_spec F _ _ _ _ H) as [q [_ [Hn _]]]. exact Hn.
Qed.

Lemma write_all_esc_progress : entities_nonempty = true ->
  forall F fuel s d s' r,
  write_all (esc_write F) fuel s d = (s', r) ->
  length (sched s) + max_entity_len < F ->
  length (sched s) + length d < fuel ->
  r <> OutOfFuel /\ length (sched s') <= length (sched s) /\
  (no_fault (sched s) -> r = Done /\ no_fault (sched s')).
Proof.
  intros Hne F. induction fuel as [|f IH]; intros s d s' r H HF Hf; [lia|].
  destruct d as [|c d].
  - cbn in H. inversion H; subst. split; [discriminate|]. split; [lia|]. intros A; split; [reflexivity|exact A].
  - cbn [write_all] in H. destruct (esc_write F s (c :: d)) as [s1 r1] eqn:Ew.
    destruct (esc_write_prog F Hne (fun _ _ => I) _ _ _ _ HF Ew) as [L1 [L2 L3]].
    destruct r1 as [n| |e].
    + destruct n as [|n].
      * inversion H; subst. split; [discriminate|]. split; [lia|]. intros A.
        destruct (L3 A) as [_ B]. exfalso. apply B. discriminate.
      * pose proof (esc_write_le _ _ _ _ _ Ew) as Hn. cbn [length] in Hn.
        assert (Hlen : length (skipn (S n) (c :: d)) = length (c :: d) - S n) by apply skipn_length.
        cbn [length] in Hlen.
        apply IH in H; [|lia|cbn [length] in Hf; lia].
        destruct H as [H1 [H2 H3]]. split; [exact H1|]. split; [lia|].
        intros A. destruct (L3 A) as [B _]. apply H3. exact B.
    + specialize (L2 eq_refl). apply IH in H; [|lia|cbn [length] in *; lia].
      destruct H as [H1 [H2 H3]]. split; [exact H1|]. split; [lia|].
      intros A. destruct (L3 A) as [B _]. apply H3. exact B.
    + inversion H; subst. split; [discriminate|]. split; [lia|]. intros A.
      destruct (L3 A) as [_ B]. exfalso. apply B. discriminate.
Qed.

Lemma write_pieces_esc_progress : entities_nonempty = true ->
  forall F ps fuel s s' r,
  write_pieces (esc_write F) fuel s ps = (s', r) ->
  length (sched s) + max_entity_len < F ->
  length (sched s) + length (concat ps) < fuel ->
  r <> OutOfFuel /\ (no_fault (sched s) -> r = Done).
Proof.
  intros Hne F. induction ps as [|x ps IH]; intros fuel s s' r H HF Hf; cbn in H.
  - inversion H; subst. split; [discriminate|reflexivity].
  - cbn [concat] in Hf. rewrite app_length in Hf.
    destruct (write_all (esc_write F) fuel s x) as [s1 r1] eqn:E.
    destruct (write_all_esc_progress Hne _ _ _ _ _ _ E HF ltac:(lia)) as [A [B C]].
    destruct r1.
    + apply IH in H; [|lia|lia]. destruct H as [H1 H2]. split; [exact H1|].
      intros Fz. destruct (C Fz) as [_ F1]. now apply H2.
    + inversion H; subst. split; [discriminate|]. intros Fz. destruct (C Fz) as [X _]. discriminate.
    + exfalso. now apply A.
Qed.

Lemma to_html_fuel_and_completion : entities_nonempty = true ->
  forall v s s' r, to_html v s = (s', r) ->
  r <> OutOfFuel /\ (no_fault (sched s) -> r = Done).
Proof.
  intros Hne [ps|ps|buf] s s' r H; cbn [to_html] in H.
  - unfold to_html_display, fuel_of, ent_fuel in H.
    eapply write_pieces_esc_progress; eauto; lia.
  - unfold to_html_raw, fuel_of in H.
    eapply (write_pieces_progress sink_write sched sink_write_prog sink_write_le); eauto; lia.
  - unfold to_html_buffer in H.
    destruct (write_all_progress sink_write sched sink_write_prog sink_write_le _ _ _ _ _ H ltac:(lia))
      as [A [_ C]].
    split; [exact A|]. intros Fz. now destruct (C Fz).
Qed.

(* ---- to_buffer ---- *)
Lemma to_buffer_rendering : entities_nonempty = true -> forall v, to_buffer v = Some (rendering v).
Proof.
  intros Hne v. unfold to_buffer.
  destruct (to_html v {| sched := []; log := [] |}) as [s r] eqn:E.
  destruct (to_html_fuel_and_completion Hne _ _ _ _ E) as [_ C].
  specialize (C I). subst r.
  destruct (to_html_prefix_all _ _ _ _ E) as [p [L [_ S]]]. cbn in L. rewrite L, (S eq_refl). reflexivity.
Qed.

Lemma buffer_eq_spec a c : buffer_eq a c = true <-> a = c.
Proof. unfold buffer_eq. destruct (list_eq_dec N.eq_dec a c); split; congruence. Qed.
