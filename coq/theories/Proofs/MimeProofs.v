(* C19: facts about the translator-generated MIME tables, decided by computation against the
   current Tables.v, and the generic lookup laws. *)
From Coq Require Import Lia.
From Ructe Require Import Nom Utf8 Md5 Emit Tables Static MapProofs.
Local Open Scope string_scope.
Local Open Scope list_scope.

(* the registered media type(s) for a file suffix (IANA media type registry; several entries where
   more than one registration is in use) *)
Definition registry : list (bytes * list bytes) :=
  [ (b "css", [b "text/css"]); (b "js", [b "text/javascript"; b "application/javascript"]);
    (b "jsonp", [b "text/javascript"; b "application/javascript"]);
    (b "json", [b "application/json"]); (b "png", [b "image/png"]);
    (b "jpg", [b "image/jpeg"]); (b "jpeg", [b "image/jpeg"]); (b "svg", [b "image/svg+xml"]);
    (b "woff", [b "font/woff"]); (b "woff2", [b "font/woff2"]); (b "gif", [b "image/gif"]);
    (b "bmp", [b "image/bmp"]); (b "html", [b "text/html"]); (b "htm", [b "text/html"]);
    (b "ico", [b "image/x-icon"; b "image/vnd.microsoft.icon"]); (b "txt", [b "text/plain"]);
    (b "wasm", [b "application/wasm"]); (b "xml", [b "application/xml"; b "text/xml"]) ].
Definition generic_type : bytes := b "application/octet-stream".

(* http-types 2.x, mime/constants.rs: constant and essence type (hand-written: the crate is not
   on this machine) *)
Definition http_consts : list (bytes * bytes) :=
  [ (b "JAVASCRIPT", b "text/javascript"); (b "JSON", b "application/json"); (b "CSS", b "text/css");
    (b "HTML", b "text/html"); (b "SSE", b "text/event-stream"); (b "PLAIN", b "text/plain");
    (b "BYTE_STREAM", b "application/octet-stream"); (b "FORM", b "application/x-www-form-urlencoded");
    (b "MULTIPART_FORM", b "multipart/form-data"); (b "WASM", b "application/wasm"); (b "XML", b "application/xml");
    (b "BMP", b "image/bmp"); (b "JPEG", b "image/jpeg"); (b "PNG", b "image/png"); (b "SVG", b "image/svg+xml");
    (b "ICO", b "image/x-icon") ].

Fixpoint lookup_reg (k : bytes) (t : list (bytes * list bytes)) : option (list bytes) :=
  match t with [] => None | (k', v) :: r => if beqb k k' then Some v else lookup_reg k r end.
Definition memb (x : bytes) (l : list bytes) : bool := existsb (beqb x) l.

Definition rows_ok (rows : list (bytes * bytes)) (consts : list (bytes * bytes)) : bool :=
  forallb (fun '(suffix, c) =>
     match lookup_b c consts, lookup_reg suffix registry with
     | Some ty, Some allowed => memb ty allowed
     | _, _ => false end) rows.
Definition default_ok (d : bytes) (consts : list (bytes * bytes)) : bool :=
  match lookup_b d consts with Some ty => beqb ty generic_type | None => false end.
Definition keys_lower (rows : list (bytes * bytes)) : bool :=
  forallb (fun '(suffix, _) => beqb (map ascii_lower suffix) suffix) rows.

Lemma mime03_rows_ok : rows_ok mime03_rows mime03_consts = true. Proof. vm_compute. reflexivity. Qed.
Lemma http_rows_ok : rows_ok http_rows http_consts = true. Proof. vm_compute. reflexivity. Qed.
Lemma mime03_default_ok : default_ok mime03_default mime03_consts = true. Proof. vm_compute. reflexivity. Qed.
Lemma http_default_ok : default_ok http_default http_consts = true. Proof. vm_compute. reflexivity. Qed.
Lemma mime_arg_prefix_ok : mime_arg_pre = b "  mime: &mime::" /\ mime_arg_post = b "," ++ [10%N].
Proof. split; vm_compute; reflexivity. Qed.

(* the suffixes the property names are all in the mime03 table *)
Lemma named_suffixes_present :
  forallb (fun s => match lookup_b s mime03_rows with Some _ => true | None => false end)
          [b "css"; b "js"; b "json"; b "png"; b "jpg"; b "jpeg"; b "svg"; b "woff"; b "woff2"] = true.
Proof. vm_compute. reflexivity. Qed.

Lemma ascii_lower_idem c : ascii_lower (ascii_lower c) = ascii_lower c.
Proof.
  unfold ascii_lower. destruct ((65 <=? c) && (c <=? 90))%N eqn:E; [|now rewrite E].
  apply andb_true_iff in E. destruct E as [A B]. apply N.leb_le in A, B.
  assert (X : ((65 <=? c + 32) && (c + 32 <=? 90))%N = false).
  { apply andb_false_iff. right. apply N.leb_gt. lia. }
  now rewrite X.
Qed.

Section M.
  Variable mm : mime_mode.
  Lemma mime_case_insensitive_lemma s : mime_from_suffix mm s = mime_from_suffix mm (map ascii_lower s).
  Proof.
    unfold mime_from_suffix. rewrite map_map.
    assert (E : map (fun x => ascii_lower (ascii_lower x)) s = map ascii_lower s).
    { apply map_ext. apply ascii_lower_idem. }
    now rewrite E.
  Qed.
End M.

Lemma lookup_b_In k v t : lookup_b k t = Some v -> In (k, v) t.
Proof.
  induction t as [|[k' v'] r IH]; cbn; [discriminate|].
  destruct (beqb k k') eqn:E; [apply beqb_true in E; subst; intros [= ->]; now left|]. intros H. right. now apply IH.
Qed.

(* every constant a table can emit, default included, is defined by the crate *)
Definition consts_exist (rows : list (bytes * bytes)) (d : bytes) (consts : list (bytes * bytes)) : bool :=
  forallb (fun '(_, c) => match lookup_b c consts with Some _ => true | None => false end) rows &&
  match lookup_b d consts with Some _ => true | None => false end.
Lemma mime03_consts_exist : consts_exist mime03_rows mime03_default mime03_consts = true.
Proof. vm_compute. reflexivity. Qed.
Lemma http_consts_exist : consts_exist http_rows http_default http_consts = true.
Proof. vm_compute. reflexivity. Qed.

Lemma mime_from_suffix_in_consts mm s :
  match mm with
  | MNone => mime_from_suffix mm s = []
  | M03 => exists ty, lookup_b (mime_from_suffix mm s) mime03_consts = Some ty
  | MHttp => exists ty, lookup_b (mime_from_suffix mm s) http_consts = Some ty
  end.
Proof.
  destruct mm; [reflexivity| |]; unfold mime_from_suffix.
  - pose proof mime03_consts_exist as H. unfold consts_exist in H. apply andb_true_iff in H. destruct H as [H1 H2].
    destruct (lookup_b (map ascii_lower s) mime03_rows) as [c|] eqn:E.
    + rewrite forallb_forall in H1. specialize (H1 _ (lookup_b_In _ _ _ E)). cbv beta iota in H1.
      destruct (lookup_b c mime03_consts) as [ty|]; [now exists ty|discriminate].
    + destruct (lookup_b mime03_default mime03_consts) as [ty|]; [now exists ty|discriminate].
  - pose proof http_consts_exist as H. unfold consts_exist in H. apply andb_true_iff in H. destruct H as [H1 H2].
    destruct (lookup_b (map ascii_lower s) http_rows) as [c|] eqn:E.
    + rewrite forallb_forall in H1. specialize (H1 _ (lookup_b_In _ _ _ E)). cbv beta iota in H1.
      destruct (lookup_b c http_consts) as [ty|]; [now exists ty|discriminate].
    + destruct (lookup_b http_default http_consts) as [ty|]; [now exists ty|discriminate].
Qed.

(* the media type of the constant chosen for a suffix *)
Definition media_type (mm : mime_mode) (s : bytes) : option bytes :=
  match mm with
  | MNone => None
  | M03 => lookup_b (mime_from_suffix mm s) mime03_consts
  | MHttp => lookup_b (mime_from_suffix mm s) http_consts
  end.

Lemma media_type_registered mm s : mm <> MNone ->
  match lookup_b (map ascii_lower s) (match mm with M03 => mime03_rows | _ => http_rows end) with
  | Some _ => exists ty allowed, media_type mm s = Some ty /\
                                 lookup_reg (map ascii_lower s) registry = Some allowed /\ memb ty allowed = true
  | None => media_type mm s = Some generic_type
  end.
Proof.
  intros Hm. destruct mm; [congruence| |]; unfold media_type, mime_from_suffix.
  - destruct (lookup_b (map ascii_lower s) mime03_rows) as [c|] eqn:E.
    + pose proof mime03_rows_ok as R. unfold rows_ok in R. rewrite forallb_forall in R.
      specialize (R _ (lookup_b_In _ _ _ E)). cbv beta iota in R.
      destruct (lookup_b c mime03_consts) as [ty|]; [|discriminate].
      destruct (lookup_reg (map ascii_lower s) registry) as [al|]; [|discriminate].
      exists ty, al. auto.
    + pose proof mime03_default_ok as D. unfold default_ok in D.
      destruct (lookup_b mime03_default mime03_consts) as [ty|]; [|discriminate].
      apply beqb_true in D. now subst.
  - destruct (lookup_b (map ascii_lower s) http_rows) as [c|] eqn:E.
    + pose proof http_rows_ok as R. unfold rows_ok in R. rewrite forallb_forall in R.
      specialize (R _ (lookup_b_In _ _ _ E)). cbv beta iota in R.
      destruct (lookup_b c http_consts) as [ty|]; [|discriminate].
      destruct (lookup_reg (map ascii_lower s) registry) as [al|]; [|discriminate].
      exists ty, al. auto.
    + pose proof http_default_ok as D. unfold default_ok in D.
      destruct (lookup_b http_default http_consts) as [ty|]; [|discriminate].
      apply beqb_true in D. now subst.
Qed.
