(* C10, whole trees: wherever a template file sits in the directory tree, a successful
   compile_templates has generated its function in the mirrored directory, declared it in that
   directory's module text, and declared every directory on the way as `pub mod`. *)
From Coq Require Import Lia.
From Ructe Require Import Nom Utf8 Emit Compile Md5 Static Tables Build MapProofs BuildProofs.
Local Open Scope string_scope.
Local Open Scope list_scope.

Definition contains (x y : bytes) : Prop := exists pre post, x = pre ++ y ++ post.
Lemma contains_app_l x y z : contains x y -> contains (x ++ z) y.
Proof. intros [a [c ->]]. exists a, (c ++ z). now rewrite <- !app_assoc. Qed.
Lemma contains_app_r x y z : contains x y -> contains (z ++ x) y.
Proof. intros [a [c ->]]. exists (z ++ a), c. now rewrite <- !app_assoc. Qed.
Lemma contains_refl x : contains x x. Proof. exists [], []. now rewrite app_nil_r. Qed.

Section Mirror.
  Variable uni_esc : N -> bool.
  Variable compile : bytes -> bytes -> coutcome.
  Notation HE := (handle_entries uni_esc compile).

  (* the world and the text only grow *)
  Lemma he_grows fuel w f indir outdir es w' f' : HE fuel w f indir outdir es = BOk _ (w', f') ->
    exists d g, w' = wapp w d /\ f' = f ++ g.
  Proof.
    intros H. rewrite (handle_entries_frame uni_esc compile fuel w f indir outdir es) in H.
    destruct (HE fuel w_empty [] indir outdir es) as [[d g]| |]; try discriminate. cbn [lift2] in H.
    exists d, g. now inversion H.
  Qed.
  Lemma loop_grows rec (Hrec : framed rec) w f indir outdir es w' f' :
    entries_loop uni_esc compile rec w f indir outdir es = BOk _ (w', f') -> exists d g, w' = wapp w d /\ f' = f ++ g.
  Proof.
    intros H. rewrite (entries_loop_frame uni_esc compile rec Hrec w f indir outdir es) in H.
    destruct (entries_loop uni_esc compile rec w_empty [] indir outdir es) as [[d g]| |]; try discriminate. cbn [lift2] in H.
    exists d, g. now inversion H.
  Qed.

  (* where a file sits: the names of the (UTF-8 named) directories above it, and its entry *)
  Inductive at_path : list (bytes * node) -> list bytes -> bytes -> bytes -> Prop :=
  | at_here es filename content : In (filename, File content) es -> at_path es [] filename content
  | at_sub es d sub ds filename content : In (d, Dir sub) es -> utf8_valid d = true ->
      at_path sub ds filename content -> at_path es (d :: ds) filename content.
  Fixpoint dir_join (base : bytes) (ds : list bytes) : bytes :=
    match ds with [] => base | d :: r => dir_join (pjoin base d) r end.

  Definition tfile (outdir name : bytes) : bytes := pjoin outdir (b "template_" ++ name ++ b ".rs").

  (* one directory: an entry that is a parsing template leaves its file and its declaration *)
  Lemma loop_template rec (Hrec : framed rec) (stem s content code : bytes) : In s template_suffixes -> utf8_valid (stem ++ s) = true ->
    let name := stem ++ b "_" ++ skipn 4 s in
    compile name content = Accepted code ->
    forall (es : list (bytes * node)) w f indir outdir w' f', In (stem ++ s, File content) es ->
    entries_loop uni_esc compile rec w f indir outdir es = BOk _ (w', f') ->
    In (tfile outdir name, code) (plan w') /\ exists g, f' = f ++ g /\ contains g (mod_decl name).
  Proof.
    intros I V name C. induction es as [|e rest IH]; intros w f indir outdir w' f' Hin H; [destruct Hin|].
    rewrite (loop_cons uni_esc compile rec Hrec indir outdir w f e rest) in H.
    destruct (entry_delta uni_esc compile rec indir outdir e) as [[d g]| |] eqn:D; try discriminate.
    destruct Hin as [Ee|Hin]; [subst e|].
    - rewrite (template_entry_delta uni_esc compile rec indir outdir stem s content I V) in D. cbv zeta in D. fold name in D.
      unfold handle_template in D. rewrite C in D. inversion D; subst d g. clear D.
      destruct (loop_grows rec Hrec _ _ _ _ _ _ _ H) as [d2 [g2 [-> ->]]]. split.
      + cbn [wapp plan write_if_changed announce_read note_read say w_empty]. unfold tfile. rewrite !in_app_iff. cbn [In]. tauto.
      + exists (mod_decl name ++ g2). split; [now rewrite app_assoc|]. apply contains_app_l, contains_refl.
    - destruct (IH _ _ _ _ _ _ Hin H) as [P [g3 [-> Cg]]]. split; [exact P|].
      exists (g ++ g3). split; [now rewrite app_assoc|]. now apply contains_app_r.
  Qed.

  (* one directory: a sub-directory entry leaves `pub mod <d>;` in the text and a mod.rs holding what the recursion returned *)
  Lemma loop_subdir rec (Hrec : framed rec) (d : bytes) (sub : list (bytes * node)) : utf8_valid d = true ->
    forall (es : list (bytes * node)) w f indir outdir w' f', In (d, Dir sub) es ->
    entries_loop uni_esc compile rec w f indir outdir es = BOk _ (w', f') ->
    exists w1 w2 modrs, rec w1 modrs_header (indir ++ [47%N] ++ d) (pjoin outdir d) sub = BOk _ (w2, modrs) /\
      (forall pc, In pc (plan w2) -> In pc (plan w')) /\
      In (pjoin (pjoin outdir d) (b "mod.rs"), modrs) (plan w') /\
      exists g, f' = f ++ g /\ contains g (b "pub mod " ++ d ++ b ";" ++ [10%N; 10%N]).
  Proof.
    intros V. induction es as [|e rest IH]; intros w f indir outdir w' f' Hin H; [destruct Hin|].
    destruct Hin as [Ee|Hin]; [subst e|].
    - cbn [entries_loop] in H. rewrite V in H.
      destruct (rec (announce_read w (indir ++ [47%N] ++ d)) modrs_header (indir ++ [47%N] ++ d) (pjoin outdir d) sub) as [[w2 modrs]| |] eqn:R; try discriminate.
      destruct (loop_grows rec Hrec _ _ _ _ _ _ _ H) as [d2 [g2 [-> ->]]].
      exists (announce_read w (indir ++ [47%N] ++ d)), w2, modrs. split; [exact R|]. split; [|split].
      + intros pc Hp. cbn [wapp plan write_if_changed]. rewrite !in_app_iff. tauto.
      + cbn [wapp plan write_if_changed]. rewrite !in_app_iff. cbn [In]. tauto.
      + exists ((b "pub mod " ++ d ++ b ";" ++ [10%N; 10%N]) ++ g2). split; [now rewrite <- !app_assoc|]. apply contains_app_l, contains_refl.
    - rewrite (loop_cons uni_esc compile rec Hrec indir outdir w f e rest) in H.
      destruct (entry_delta uni_esc compile rec indir outdir e) as [[d0 g]| |] eqn:D; try discriminate.
      destruct (IH _ _ _ _ _ _ Hin H) as [w1 [w2 [modrs [R [P1 [P2 [g3 [-> Cg]]]]]]]].
      exists w1, w2, modrs. split; [exact R|]. split; [exact P1|]. split; [exact P2|].
      exists (g ++ g3). split; [now rewrite app_assoc|]. now apply contains_app_r.
  Qed.

  (* the whole tree *)
  Theorem tree_mirror_lemma (stem s content code : bytes) : In s template_suffixes -> utf8_valid (stem ++ s) = true ->
    let name := stem ++ b "_" ++ skipn 4 s in
    compile name content = Accepted code ->
    forall ds fuel es w f indir outdir w' f', at_path es ds (stem ++ s) content ->
    HE fuel w f indir outdir es = BOk _ (w', f') ->
    (* the function's file, in the mirrored directory *)
    In (tfile (dir_join outdir ds) name, code) (plan w') /\
    (* its declaration in that directory's module text: templates.rs (through f') for the root, a planned mod.rs below *)
    match ds with
    | [] => exists g, f' = f ++ g /\ contains g (mod_decl name)
    | d :: _ => (exists g, f' = f ++ g /\ contains g (b "pub mod " ++ d ++ b ";" ++ [10%N; 10%N])) /\
                exists modrs, In (pjoin (dir_join outdir ds) (b "mod.rs"), modrs) (plan w') /\ contains modrs (mod_decl name)
    end.
  Proof.
    intros I V name C. induction ds as [|d ds IH]; intros fuel es w f indir outdir w' f' A H.
    - inversion A as [es0 fn0 c0 Hin0|]; subst. destruct fuel as [|fuel]; [discriminate|]. cbn [handle_entries] in H. cbn [dir_join].
      exact (loop_template (HE fuel) (handle_entries_frame uni_esc compile fuel) stem s content code I V C es w f indir outdir w' f' Hin0 H).
    - inversion A as [|es0 d0 sub ds0 fn0 c0 Hin0 Hv Hsub]; subst. destruct fuel as [|fuel]; [discriminate|]. cbn [handle_entries] in H. cbn [dir_join].
      destruct (loop_subdir (HE fuel) (handle_entries_frame uni_esc compile fuel) d sub Hv es w f indir outdir w' f' Hin0 H)
        as [w1 [w2 [modrs [R [P1 [P2 [g [-> Cg]]]]]]]].
      specialize (IH fuel sub w1 modrs_header (indir ++ [47%N] ++ d) (pjoin outdir d) w2 modrs Hsub R). destruct IH as [F D].
      split; [apply P1; exact F|]. split; [exists g; split; [reflexivity|exact Cg]|].
      destruct ds as [|d2 ds'].
      + destruct D as [g2 [-> Cg2]]. cbn [dir_join]. exists (modrs_header ++ g2). split; [exact P2|]. now apply contains_app_r.
      + destruct D as [_ [modrs2 [Pm Cm]]]. exists modrs2. split; [apply P1; exact Pm|exact Cm].
  Qed.
  (* ---- the converse: nothing else is generated ---- *)
  (* where a directory sits *)
  Inductive dir_at : list (bytes * node) -> list bytes -> bytes -> list (bytes * node) -> Prop :=
  | dir_here es d sub : In (d, Dir sub) es -> utf8_valid d = true -> dir_at es [] d sub
  | dir_below es d0 sub0 ds d sub : In (d0, Dir sub0) es -> utf8_valid d0 = true ->
      dir_at sub0 ds d sub -> dir_at es (d0 :: ds) d sub.

  (* a planned write is the function of a template file, or the mod.rs of a directory *)
  Definition origin (es : list (bytes * node)) (outdir : bytes) (pc : bytes * bytes) : Prop :=
    (exists ds filename content s, at_path es ds filename content /\ utf8_valid filename = true /\
       In s template_suffixes /\ ends_with filename s = true /\
       fst pc = tfile (dir_join outdir ds) (suffix_name filename s) /\
       compile (suffix_name filename s) content = Accepted (snd pc)) \/
    (exists ds d sub, dir_at es ds d sub /\ fst pc = pjoin (dir_join outdir (ds ++ [d])) (b "mod.rs")).

  Lemma suffix_loop_origin ss : forall w f indir outdir filename content w' f',
    suffix_loop uni_esc compile w f indir outdir filename content ss = BOk _ (w', f') ->
    forall pc, In pc (plan w') -> In pc (plan w) \/
      exists s, In s ss /\ ends_with filename s = true /\ fst pc = tfile outdir (suffix_name filename s) /\
                compile (suffix_name filename s) content = Accepted (snd pc).
  Proof.
    induction ss as [|s ss IH]; intros w f indir outdir filename content w' f' H pc I.
    - cbn in H. inversion H; subst. now left.
    - cbn [suffix_loop] in H. destruct (ends_with filename s) eqn:E.
      + cbv zeta in H. unfold handle_template in H.
        destruct (compile (suffix_name filename s) content) as [code|diag| |] eqn:C; try discriminate.
        * destruct (IH _ _ _ _ _ _ _ _ H pc I) as [J|[s' [I' R]]].
          -- cbn [plan write_if_changed announce_read note_read say] in J. apply in_app_iff in J. destruct J as [J|[J|[]]]; [now left|].
             right. exists s. subst pc. cbn [fst snd]. split; [now left|]. split; [exact E|]. split; [reflexivity|exact C].
          -- right. exists s'. split; [now right|exact R].
        * destruct (IH _ _ _ _ _ _ _ _ H pc I) as [J|[s' [I' R]]].
          -- left. exact J.
          -- right. exists s'. split; [now right|exact R].
      + destruct (IH _ _ _ _ _ _ _ _ H pc I) as [J|[s' [I' R]]]; [now left|]. right. exists s'. split; [now right|exact R].
  Qed.

  Lemma origin_in_sub es d sub outdir pc : In (d, Dir sub) es -> utf8_valid d = true ->
    origin sub (pjoin outdir d) pc -> origin es outdir pc.
  Proof.
    intros I V [[ds [fn [c [s [A R]]]]]|[ds [d1 [sub1 [A R]]]]].
    - left. exists (d :: ds), fn, c, s. split; [now apply (at_sub es d sub)|exact R].
    - right. exists (d :: ds), d1, sub1. split; [now apply (dir_below es d sub)|exact R].
  Qed.
  Lemma origin_tail e es outdir pc : origin es outdir pc -> origin (e :: es) outdir pc.
  Proof.
    assert (AP : forall ds fn c, at_path es ds fn c -> at_path (e :: es) ds fn c).
    { intros ds fn c A. inversion A; subst; [apply at_here; now right|eapply at_sub; [right; eassumption|assumption|assumption]]. }
    assert (DP : forall ds d sub, dir_at es ds d sub -> dir_at (e :: es) ds d sub).
    { intros ds d sub A. inversion A; subst; [apply dir_here; [now right|assumption]|eapply dir_below; [right; eassumption|assumption|assumption]]. }
    intros [[ds [fn [c [s [A R]]]]]|[ds [d1 [sub1 [A R]]]]].
    - left. exists ds, fn, c, s. split; [now apply AP|exact R].
    - right. exists ds, d1, sub1. split; [now apply DP|exact R].
  Qed.

  Lemma loop_origin rec
    (Hrec : forall w f indir outdir sub w' f', rec w f indir outdir sub = BOk _ (w', f') ->
            forall pc, In pc (plan w') -> In pc (plan w) \/ origin sub outdir pc) :
    forall es w f indir outdir w' f', entries_loop uni_esc compile rec w f indir outdir es = BOk _ (w', f') ->
    forall pc, In pc (plan w') -> In pc (plan w) \/ origin es outdir pc.
  Proof.
    induction es as [|[filename [content|sub]] rest IH]; intros w f indir outdir w' f' H pc I.
    - cbn in H. inversion H; subst. now left.
    - cbn [entries_loop] in H. destruct (utf8_valid filename) eqn:V.
      + destruct (suffix_loop uni_esc compile w f indir outdir filename content template_suffixes) as [[w1 f1]| |] eqn:S; try discriminate.
        destruct (IH _ _ _ _ _ _ H pc I) as [J|J]; [|right; now apply origin_tail].
        destruct (suffix_loop_origin _ _ _ _ _ _ _ _ _ S pc J) as [K|[s [Is [E [P C]]]]]; [now left|].
        right. left. exists [], filename, content, s. cbn [dir_join]. split; [apply at_here; now left|]. tauto.
      + destruct (IH _ _ _ _ _ _ H pc I) as [J|J]; [now left|right; now apply origin_tail].
    - cbn [entries_loop] in H. destruct (utf8_valid filename) eqn:V.
      + destruct (rec (announce_read w (indir ++ [47%N] ++ filename)) modrs_header (indir ++ [47%N] ++ filename) (pjoin outdir filename) sub) as [[w2 modrs]| |] eqn:R; try discriminate.
        destruct (IH _ _ _ _ _ _ H pc I) as [J|J]; [|right; now apply origin_tail].
        cbn [plan write_if_changed] in J. apply in_app_iff in J. destruct J as [J|[J|[]]].
        * destruct (Hrec _ _ _ _ _ _ _ R pc J) as [K|K]; [now left|].
          right. apply (origin_in_sub _ filename sub); [now left|exact V|exact K].
        * right. right. exists [], filename, sub. subst pc. cbn [fst app dir_join]. split; [apply dir_here; [now left|exact V]|reflexivity].
      + destruct (IH _ _ _ _ _ _ H pc I) as [J|J]; [now left|right; now apply origin_tail].
  Qed.

  Theorem tree_mirror_converse_lemma fuel : forall w f indir outdir es w' f',
    HE fuel w f indir outdir es = BOk _ (w', f') ->
    forall pc, In pc (plan w') -> In pc (plan w) \/ origin es outdir pc.
  Proof.
    induction fuel as [|n IH]; intros w f indir outdir es w' f' H; [discriminate|].
    cbn [handle_entries] in H. exact (loop_origin (HE n) IH es w f indir outdir w' f' H).
  Qed.
  (* ---- the module text of a directory: one declaration per accepted template, one `pub mod` per
          (UTF-8 named) sub-directory, in entry order, and nothing else ---- *)
  Inductive ditem := DTemplate (name : bytes) | DDir (d : bytes).
  Definition render_item (i : ditem) : bytes :=
    match i with DTemplate name => mod_decl name | DDir d => b "pub mod " ++ d ++ b ";" ++ [10%N; 10%N] end.
  Definition item_justified (es : list (bytes * node)) (i : ditem) : Prop :=
    match i with
    | DTemplate name => exists fn content s code, In (fn, File content) es /\ utf8_valid fn = true /\ In s template_suffixes /\
                          ends_with fn s = true /\ name = suffix_name fn s /\ compile name content = Accepted code
    | DDir d => exists sub, In (d, Dir sub) es /\ utf8_valid d = true
    end.

  Lemma suffix_loop_decls ss : forall w f indir outdir filename content w' f',
    suffix_loop uni_esc compile w f indir outdir filename content ss = BOk _ (w', f') ->
    exists items, f' = f ++ flat_map render_item items /\
      Forall (fun i => exists s code, In s ss /\ ends_with filename s = true /\ i = DTemplate (suffix_name filename s) /\
                                      compile (suffix_name filename s) content = Accepted code) items.
  Proof.
    induction ss as [|s ss IH]; intros w f indir outdir filename content w' f' H.
    - cbn in H. inversion H; subst. exists []. cbn. now rewrite app_nil_r.
    - cbn [suffix_loop] in H. destruct (ends_with filename s) eqn:E.
      + cbv zeta in H. unfold handle_template in H.
        destruct (compile (suffix_name filename s) content) as [code|diag| |] eqn:C; try discriminate.
        * destruct (IH _ _ _ _ _ _ _ _ H) as [items [-> F]]. exists (DTemplate (suffix_name filename s) :: items). split.
          -- cbn [flat_map render_item]. now rewrite <- app_assoc.
          -- constructor; [exists s, code; repeat split; try assumption; now left|].
             eapply Forall_impl; [|exact F]. intros i [s' [c' [I' R]]]. exists s', c'. split; [now right|exact R].
        * destruct (IH _ _ _ _ _ _ _ _ H) as [items [-> F]]. exists items. split; [reflexivity|].
          eapply Forall_impl; [|exact F]. intros i [s' [c' [I' R]]]. exists s', c'. split; [now right|exact R].
      + destruct (IH _ _ _ _ _ _ _ _ H) as [items [-> F]]. exists items. split; [reflexivity|].
        eapply Forall_impl; [|exact F]. intros i [s' [c' [I' R]]]. exists s', c'. split; [now right|exact R].
  Qed.

  Lemma justified_tail e es i : item_justified es i -> item_justified (e :: es) i.
  Proof.
    destruct i as [name|d]; cbn [item_justified].
    - intros [fn [c [s [code [I R]]]]]. exists fn, c, s, code. split; [now right|exact R].
    - intros [sub [I V]]. exists sub. split; [now right|exact V].
  Qed.

  Theorem module_text_lemma rec : forall es w f indir outdir w' f',
    entries_loop uni_esc compile rec w f indir outdir es = BOk _ (w', f') ->
    exists items, f' = f ++ flat_map render_item items /\ Forall (item_justified es) items.
  Proof.
    induction es as [|[filename [content|sub]] rest IH]; intros w f indir outdir w' f' H.
    - cbn in H. inversion H; subst. exists []. cbn. now rewrite app_nil_r.
    - cbn [entries_loop] in H. destruct (utf8_valid filename) eqn:V.
      + destruct (suffix_loop uni_esc compile w f indir outdir filename content template_suffixes) as [[w1 f1]| |] eqn:S; try discriminate.
        destruct (suffix_loop_decls _ _ _ _ _ _ _ _ _ S) as [i1 [-> F1]]. destruct (IH _ _ _ _ _ _ H) as [i2 [-> F2]].
        exists (i1 ++ i2). split; [now rewrite flat_map_app, app_assoc|]. apply Forall_app. split.
        * eapply Forall_impl; [|exact F1]. intros i [s [code [I [E [-> C]]]]]. cbn [item_justified].
          exists filename, content, s, code. split; [now left|]. tauto.
        * eapply Forall_impl; [|exact F2]. intros i. apply justified_tail.
      + destruct (IH _ _ _ _ _ _ H) as [i2 [-> F2]]. exists i2. split; [reflexivity|].
        eapply Forall_impl; [|exact F2]. intros i. apply justified_tail.
    - cbn [entries_loop] in H. destruct (utf8_valid filename) eqn:V.
      + destruct (rec (announce_read w (indir ++ [47%N] ++ filename)) modrs_header (indir ++ [47%N] ++ filename) (pjoin outdir filename) sub) as [[w2 modrs]| |]; try discriminate.
        destruct (IH _ _ _ _ _ _ H) as [i2 [-> F2]]. exists (DDir filename :: i2). split.
        * cbn [flat_map render_item]. now rewrite <- !app_assoc.
        * constructor; [cbn [item_justified]; exists sub; split; [now left|exact V]|].
          eapply Forall_impl; [|exact F2]. intros i. apply justified_tail.
      + destruct (IH _ _ _ _ _ _ H) as [i2 [-> F2]]. exists i2. split; [reflexivity|].
        eapply Forall_impl; [|exact F2]. intros i. apply justified_tail.
  Qed.
  (* every file a declaration of the module text refers to is planned in this very run: with
     generated_files_equal_clean_build (C12) this makes every file reachable from templates.rs equal
     to the clean build's, whatever stale files an earlier build left beside them *)
  Definition item_planned (outdir : bytes) (w' : world) (i : ditem) : Prop :=
    match i with
    | DTemplate name => exists code, In (tfile outdir name, code) (plan w')
    | DDir d => exists modrs, In (pjoin (pjoin outdir d) (b "mod.rs"), modrs) (plan w')
    end.
  Lemma item_planned_mono outdir w d i : item_planned outdir w i -> item_planned outdir (wapp w d) i.
  Proof. destruct i; cbn [item_planned]; intros [x I]; exists x; cbn [plan wapp]; apply in_app_iff; now left. Qed.

  Lemma suffix_loop_grows ss w f indir outdir filename content w' f' :
    suffix_loop uni_esc compile w f indir outdir filename content ss = BOk _ (w', f') -> exists d, w' = wapp w d.
  Proof.
    intros H. rewrite suffix_loop_frame in H.
    destruct (suffix_loop uni_esc compile w_empty [] indir outdir filename content ss) as [[d g]| |]; try discriminate.
    cbn [lift2] in H. exists d. now inversion H.
  Qed.

  Lemma suffix_loop_planned ss : forall w f indir outdir filename content w' f',
    suffix_loop uni_esc compile w f indir outdir filename content ss = BOk _ (w', f') ->
    exists items, f' = f ++ flat_map render_item items /\ Forall (item_planned outdir w') items.
  Proof.
    induction ss as [|s ss IH]; intros w f indir outdir filename content w' f' H.
    - cbn in H. inversion H; subst. exists []. cbn. split; [now rewrite app_nil_r|constructor].
    - cbn [suffix_loop] in H. destruct (ends_with filename s) eqn:E; [|now apply IH in H].
      cbv zeta in H. unfold handle_template in H.
      destruct (compile (suffix_name filename s) content) as [code|diag| |] eqn:C; try discriminate.
      + destruct (suffix_loop_grows _ _ _ _ _ _ _ _ _ H) as [d ->]. destruct (IH _ _ _ _ _ _ _ _ H) as [items [-> F]].
        exists (DTemplate (suffix_name filename s) :: items). split; [cbn [flat_map render_item]; now rewrite <- app_assoc|].
        constructor; [|exact F]. cbn [item_planned]. exists code. cbn [plan wapp write_if_changed announce_read note_read say].
        unfold tfile. rewrite !in_app_iff. cbn [In]. tauto.
      + now apply IH in H.
  Qed.

  Theorem declared_files_planned_lemma rec (Hrec : framed rec) : forall es w f indir outdir w' f',
    entries_loop uni_esc compile rec w f indir outdir es = BOk _ (w', f') ->
    exists items, f' = f ++ flat_map render_item items /\ Forall (item_planned outdir w') items.
  Proof.
    induction es as [|[filename [content|sub]] rest IH]; intros w f indir outdir w' f' H.
    - cbn in H. inversion H; subst. exists []. cbn. split; [now rewrite app_nil_r|constructor].
    - cbn [entries_loop] in H. destruct (utf8_valid filename) eqn:V; [|now apply IH in H].
      destruct (suffix_loop uni_esc compile w f indir outdir filename content template_suffixes) as [[w1 f1]| |] eqn:S; try discriminate.
      destruct (suffix_loop_planned _ _ _ _ _ _ _ _ _ S) as [i1 [-> F1]].
      destruct (loop_grows rec Hrec _ _ _ _ _ _ _ H) as [d [g [-> _]]]. destruct (IH _ _ _ _ _ _ H) as [i2 [-> F2]].
      exists (i1 ++ i2). split; [now rewrite flat_map_app, app_assoc|]. apply Forall_app. split; [|exact F2].
      eapply Forall_impl; [|exact F1]. intros i. apply item_planned_mono.
    - cbn [entries_loop] in H. destruct (utf8_valid filename) eqn:V; [|now apply IH in H].
      destruct (rec (announce_read w (indir ++ [47%N] ++ filename)) modrs_header (indir ++ [47%N] ++ filename) (pjoin outdir filename) sub) as [[w2 modrs]| |]; try discriminate.
      destruct (loop_grows rec Hrec _ _ _ _ _ _ _ H) as [d [g [-> _]]]. destruct (IH _ _ _ _ _ _ H) as [i2 [-> F2]].
      exists (DDir filename :: i2). split; [cbn [flat_map render_item]; now rewrite <- !app_assoc|].
      constructor; [|exact F2]. cbn [item_planned]. exists modrs. cbn [plan wapp write_if_changed]. rewrite !in_app_iff. cbn [In]. tauto.
  Qed.
End Mirror.
