(* The fuel the model gives its recursive grammars is always enough: parse_template never answers
   Abort AFuel, so the NoFuel outcome of Model/Compile.v is unreachable and the fuelled model is a
   total description of the (unfuelled, recursive) Rust parsers. *)
From Coq Require Import Lia.
From Ructe Require Import Nom NomFacts FuelFacts Utf8 Spacelike Expression TemplateExpr Template Compile
     ParserProofs DiagProofs SpaceProofs ExprProofs.
Local Open Scope string_scope.
Local Open Scope list_scope.

(* structural search: nf goals by the closure lemmas, sfx side goals from [good] *)
Ltac sfx_solve := apply g_sfx; good_auto.
Ltac nf_leaf :=
  first [ assumption
        | apply nf_tag | apply nf_char | apply nf_take_while1 | apply nf_take_while0 | apply nf_one_of
        | (apply nf_eta; assumption) ].
Ltac nf_step :=
  first [ nf_leaf
        | apply nf_pmap | apply nf_value | apply nf_unitp | apply nf_opt | apply nf_context | apply nf_recognize
        | apply nf_map_res | apply nf_pnot
        | (apply nf_alt; repeat (apply Forall_cons || apply Forall_nil))
        | (apply nf_many0; [|sfx_solve]) | (apply nf_fold_many0_unit; [|sfx_solve])
        | (apply nf_many_till; [|sfx_solve|])
        | (apply nf_separated_list0; [|sfx_solve| |sfx_solve]) | (apply nf_separated_list1; [|sfx_solve| |sfx_solve])
        | (apply nf_escaped; [|sfx_solve| |sfx_solve])
        | (apply nf_delimited; [|sfx_solve| |sfx_solve|])
        | (apply nf_pair; [|sfx_solve|]) | (apply nf_preceded; [|sfx_solve|]) | (apply nf_terminated; [|sfx_solve|]) ].
Ltac nf_auto := unfold is_not, is_a, alpha1, digit1, multispace0, multispace1; repeat nf_step.

(* ---- leaves of the grammars: no recursion, any k ---- *)
Lemma nf_comment_tail k : nf k comment_tail. Proof. unfold comment_tail. nf_auto. Qed.
Lemma nf_comment k : nf k comment. Proof. unfold comment. pose proof (nf_comment_tail k). pose proof good_comment_tail. nf_auto. Qed.
Lemma nf_spacelike k : nf k spacelike. Proof. unfold spacelike. pose proof (nf_comment k). pose proof good_comment. nf_auto. Qed.
Lemma nf_rust_name k : nf k rust_name. Proof. unfold rust_name. nf_auto. Qed.
Lemma nf_quoted_string k : nf k quoted_string. Proof. unfold quoted_string. nf_auto. Qed.
Lemma nf_rust_comment k : nf k rust_comment. Proof. unfold rust_comment. nf_auto. Qed.
Lemma nf_slash_now k : nf k slash_now. Proof. unfold slash_now. nf_auto. Qed.
Lemma nf_prefix_alt k : nf k prefix_alt. Proof. unfold prefix_alt. nf_auto. Qed.

(* ---- src/expression.rs ---- *)
Definition erank (x : nt) (k : nat) : nat := match x with NInside | NExpr => 2 * k + 2 | _ => 2 * k + 1 end.

Section ExprStep.
  Variable self : nt -> parser bytes.
  Variable k : nat.
  Hypothesis Hg : forall y, good (self y).
  Hypothesis Hs : forall y, y <> NInside -> strict (self y).
  (* what the induction gives: groups at the same length, everything at smaller lengths *)
  Hypothesis Hlow : 0 < k -> forall y, nf (k - 1) (self y).

  Let HgE : forall y, good (fun j => self y j). Proof. intros y. apply good_eta, Hg. Qed.

  (* the item loop of a group: leaves plus nested groups, all at length j *)
  Ltac group_items j H :=
    pose proof (nf_quoted_string j); pose proof (nf_rust_comment j); pose proof (nf_slash_now j);
    assert (nf j (fun i => self NBrackets i)) by (apply nf_eta, H; discriminate);
    assert (nf j (fun i => self NBraces i)) by (apply nf_eta, H; discriminate);
    assert (nf j (fun i => self NParens i)) by (apply nf_eta, H; discriminate);
    nf_auto.

  Lemma nf_exprF_group x : x = NBrackets \/ x = NBraces \/ x = NParens -> nf k (exprF self x).
  Proof.
    pose proof good_quoted_string. pose proof good_rust_comment. pose proof good_slash_now.
    pose proof (HgE NBrackets). pose proof (HgE NBraces). pose proof (HgE NParens). pose proof (HgE NInside).
    intros [-> | [-> | ->]]; unfold exprF, exprF_gen; cbv zeta; apply nf_eta, nf_map_res, nf_recognize.
    - apply nf_delimited_strict; [apply nf_tag|apply strict_tag; discriminate| |sfx_solve|apply nf_tag].
      intros K. pose proof (fun y (_ : y <> NInside) => Hlow K y) as HL. group_items (k - 1) HL.
    - apply nf_delimited_strict; [apply nf_tag|apply strict_tag; discriminate| |sfx_solve|apply nf_tag].
      intros K. pose proof (fun y (_ : y <> NInside) => Hlow K y) as HL. group_items (k - 1) HL.
    - apply nf_delimited_strict; [apply nf_tag|apply strict_tag; discriminate| |sfx_solve|apply nf_tag].
      intros K. apply nf_eta, Hlow, K.
  Qed.

  Hypothesis Hsame : forall y, y <> NInside -> y <> NExpr -> nf k (self y).

  Lemma nf_exprF_inside : nf k (exprF self NInside).
  Proof.
    unfold exprF, exprF_gen; cbv zeta. apply nf_eta, nf_map_res, nf_recognize.
    pose proof good_quoted_string. pose proof good_rust_comment. pose proof good_slash_now.
    pose proof (HgE NBrackets). pose proof (HgE NBraces). pose proof (HgE NParens).
    pose proof (fun y (H1 : y <> NInside) => Hsame y H1) as HL.
    pose proof (nf_quoted_string k); pose proof (nf_rust_comment k); pose proof (nf_slash_now k).
    assert (nf k (fun i => self NBrackets i)) by (apply nf_eta, Hsame; discriminate).
    assert (nf k (fun i => self NBraces i)) by (apply nf_eta, Hsame; discriminate).
    assert (nf k (fun i => self NParens i)) by (apply nf_eta, Hsame; discriminate).
    nf_auto.
  Qed.

  Lemma nf_atom_alt : nf k (atom_alt self).
  Proof.
    unfold atom_alt. pose proof (nf_rust_name k). pose proof (nf_quoted_string k).
    assert (nf k (fun i => self NParens i)) by (apply nf_eta, Hsame; discriminate).
    assert (nf k (fun i => self NBrackets i)) by (apply nf_eta, Hsame; discriminate).
    nf_auto.
  Qed.
  Lemma nf_postfix_alt j : (forall y, nf j (self y)) -> nf j (postfix_alt self).
  Proof.
    intros H. unfold postfix_alt.
    assert (forall y, nf j (fun i => self y i)) by (intros; apply nf_eta, H).
    nf_auto; try apply H0.
  Qed.
  Lemma nf_exprF_expr : nf k (exprF self NExpr).
  Proof.
    unfold exprF, exprF_gen; cbv zeta. apply nf_eta, nf_map_res, nf_recognize, nf_context.
    apply nf_pair_strict.
    - apply nf_pair; [apply nf_prefix_alt|apply g_sfx, good_prefix_alt|]. apply (nf_ext k (atom_alt self)); [reflexivity|apply nf_atom_alt].
    - unfold pair. apply strict_bind_r; [apply good_prefix_alt|]. intros a0. apply strict_pmap.
      apply (strict_atom_alt (fun y j => self y j)). intros y Hy. apply strict_eta, Hs, Hy.
    - intros K. apply nf_fold_many0_unit.
      + apply (nf_postfix_alt (k - 1)). intros y. apply nf_eta, Hlow, K.
      + apply g_sfx. apply (good_postfix_alt (fun y j => self y j)). exact HgE.
  Qed.
End ExprStep.

Theorem expr_fuel n : forall k x, erank x k <= n -> nf k (expr_gram n x).
Proof.
  induction n as [|n IH]; intros k x Hr; [destruct x; cbn in Hr; lia|].
  cbn [expr_gram].
  assert (Hlow : 0 < k -> forall y, nf (k - 1) (expr_gram n y)).
  { intros K y. apply IH. destruct x, y; cbn in *; lia. }
  destruct x.
  - apply nf_exprF_expr; [apply good_expr_gram|apply strict_expr_gram|exact Hlow|].
    intros y H1 H2. apply IH. destruct y; try congruence; cbn in *; lia.
  - apply nf_exprF_group; [apply good_expr_gram|exact Hlow|tauto].
  - apply nf_exprF_inside; [apply good_expr_gram|].
    intros y H1 H2. apply IH. destruct y; try congruence; cbn in *; lia.
  - apply nf_exprF_group; [apply good_expr_gram|exact Hlow|tauto].
  - apply nf_exprF_group; [apply good_expr_gram|exact Hlow|tauto].
Qed.

(* ---- src/templateexpression.rs ---- *)
Lemma nf_rel_operator k : nf k rel_operator.
Proof. unfold rel_operator. pose proof (nf_spacelike k). pose proof good_spacelike. nf_auto. Qed.
Lemma nf_dispatch k : nf k dispatch. Proof. unfold dispatch. nf_auto. Qed.

Lemma nf_bind_opt_strict {A B} k (p : parser A) (f : option A -> parser B) :
  nf k p -> strict p -> nf k (f None) -> (0 < k -> forall a, nf (k - 1) (f (Some a))) -> nf k (bind (opt p) f).
Proof.
  intros Hp Sp Hn Hs i Hi. unfold bind, opt. destruct (p i) as [a r|e|a] eqn:E.
  - pose proof (Sp _ _ _ E). apply Hs; lia.
  - now apply Hn.
  - intros [= ->]. now apply (Hp i Hi).
Qed.

Section TexprFuel.
  Variable E : nt -> parser bytes.
  Hypothesis HEg : forall x, good (E x).
  Hypothesis HEs : forall x, x <> NInside -> strict (E x).

  Lemma strict_expression : strict (expression E).
  Proof. unfold expression. apply strict_eta, HEs. discriminate. Qed.

  Lemma logic_fuel n : forall k, k + 1 <= n -> (forall x, nf k (E x)) -> nf k (logic_expression E n).
  Proof.
    induction n as [|n IH]; intros k Hk HE; [lia|]. cbn [logic_expression].
    pose proof (good_expression E HEg). pose proof good_spacelike. pose proof good_rel_operator. pose proof (good_logic_expression E HEg n).
    assert (good (fun j => logic_expression E n j)) by now apply good_eta.
    assert (nf k (expression E)) by (unfold expression; apply nf_eta, HE).
    pose proof (nf_spacelike k). 
    apply nf_map_res, nf_recognize. apply nf_pair_strict.
    - nf_auto.
    - unfold pair. apply strict_bind_r; [good_auto|]. intros a0. apply strict_pmap, strict_expression.
    - intros K. pose proof (nf_rel_operator (k - 1)).
      assert (nf (k - 1) (fun j => logic_expression E n j)).
      { apply nf_eta, IH; [lia|]. intros x. eapply nf_mono; [|apply HE]. lia. }
      nf_auto.
  Qed.

  Variable ln : nat.

  Section Level.
    Variable j : nat.
    Hypothesis HE : forall x, nf j (E x).
    Hypothesis HL : nf j (logic_expression E ln).
    Variables te if2 : parser texpr.
    Hypothesis Gte : good te.
    Hypothesis Gif2 : good if2.
    Hypothesis Lte : 0 < j -> nf (j - 1) te.
    Hypothesis Lif2 : 0 < j -> nf (j - 1) if2.

    Let nfx : nf j (expression E). Proof. unfold expression. apply nf_eta, HE. Qed.
    Let gx := good_expression E HEg.

    Lemma nf_template_block : nf j (template_block te).
    Proof.
      unfold template_block. apply nf_preceded_strict; [apply nf_char|apply strict_char|]. intros K.
      pose proof (Lte K). nf_auto.
    Qed.
    Lemma nf_template_argument : nf j (template_argument E te).
    Proof.
      unfold template_argument. pose proof good_spacelike. pose proof (nf_spacelike j).
      apply nf_alt. repeat (apply Forall_cons || apply Forall_nil).
      - apply nf_pmap, nf_delimited_strict; [apply nf_char|apply strict_char| |sfx_solve|nf_auto].
        intros K. pose proof (Lte K). nf_auto.
      - nf_auto.
    Qed.
    Lemma nf_cond_expression : nf j (cond_expression E ln).
    Proof.
      pose proof good_spacelike. pose proof (nf_spacelike j).
      apply (nf_ext j (bind (opt (tag (b "let"))) (fun o => match o with
        | Some _ => pmap (fun '(lhs, rhs) => (b "let " ++ lhs ++ b " = " ++ rhs)%list)
                      (pair (preceded spacelike (context (b "Expected LHS expression in let binding") (expression E)))
                            (preceded (delimited spacelike (char 61) spacelike)
                                      (context (b "Expected RHS expression in let binding") (expression E))))
        | None => context (b "Expected expression") (logic_expression E ln) end))).
      - intros i. unfold cond_expression, bind. destruct (opt (tag (b "let")) i) as [[t|] r|e|k]; reflexivity.
      - apply nf_bind; [nf_auto|sfx_solve|]. intros [t|]; nf_auto.
    Qed.
    Lemma nf_loop_expression : nf j (loop_expression E).
    Proof. unfold loop_expression. nf_auto. Qed.
    Lemma nf_comma_expressions : nf j (comma_expressions E).
    Proof. unfold comma_expressions. nf_auto. Qed.
    Lemma nf_for_variable : nf j (for_variable E).
    Proof.
      unfold for_variable. pose proof good_spacelike. pose proof (nf_spacelike j). pose proof good_rust_name. pose proof (nf_rust_name j).
      pose proof (good_expr_in_braces E HEg). pose proof (good_comma_expressions E HEg). pose proof nf_comma_expressions.
      assert (nf j (expr_in_braces E)) by (unfold expr_in_braces; apply nf_eta, HE).
      nf_auto.
    Qed.
    Lemma nf_call_branch : nf j (call_branch E te).
    Proof.
      unfold call_branch. pose proof nf_template_argument. pose proof (good_template_argument E HEg te Gte).
      pose proof good_rust_name. pose proof (nf_rust_name j). pose proof good_spacelike. pose proof (nf_spacelike j).
      nf_auto.
    Qed.
    Lemma nf_for_branch : nf j (for_branch E te).
    Proof.
      unfold for_branch. pose proof nf_template_block. pose proof (good_template_block te Gte).
      pose proof nf_for_variable. pose proof (good_for_variable E HEg). pose proof nf_loop_expression. pose proof (good_loop_expression E HEg).
      pose proof good_spacelike. pose proof (nf_spacelike j).
      nf_auto.
    Qed.
    Lemma nf_match_branch : nf j (match_branch E te).
    Proof.
      unfold match_branch. pose proof nf_template_block. pose proof (good_template_block te Gte).
      pose proof good_spacelike. pose proof (nf_spacelike j).
      nf_auto.
    Qed.
    Lemma nf_paren_branch : nf j (paren_branch E).
    Proof.
      unfold paren_branch. pose proof (good_expr_inside_parens E HEg).
      assert (nf j (expr_inside_parens E)) by (unfold expr_inside_parens; apply nf_eta, HE).
      nf_auto.
    Qed.
    Lemma nf_text_branch : nf j text_branch. Proof. unfold text_branch. nf_auto. Qed.
    Lemma nf_if2_body : nf j (if2_body E ln te if2).
    Proof.
      unfold if2_body. pose proof nf_template_block. pose proof (good_template_block te Gte).
      pose proof nf_cond_expression. pose proof (good_cond_expression E HEg ln). pose proof good_spacelike. pose proof (nf_spacelike j).
      assert (nf j (preceded (tag (b "if")) (pmap (fun e => [e]) if2))).
      { apply nf_preceded_strict; [apply nf_tag|apply strict_tag; discriminate|]. intros K. apply nf_pmap, Lif2, K. }
      nf_auto.
    Qed.
    (* the branch taken after a dispatch token; the unreachable!() arm is a panic, not a fuel failure *)
    Lemma nf_te_branch_some t : nf j if2 -> nf j (te_branch E te if2 (Some t)).
    Proof.
      intros Hif. unfold te_branch.
      pose proof nf_call_branch. pose proof nf_for_branch. pose proof nf_match_branch. pose proof nf_paren_branch. pose proof (nf_comment_tail j).
      repeat match goal with |- nf _ (fun i => if ?c then _ else _) => destruct c end;
        try (apply nf_eta; nf_auto); try (intros i _; discriminate).
    Qed.
  End Level.

  Theorem texpr_fuel n : forall k x, k + 1 <= n -> (forall y, nf k (E y)) -> nf k (logic_expression E ln) ->
    nf k (texpr_gram E ln n x).
  Proof.
    induction n as [|n IH]; intros k x Hk HE HL; [lia|]. cbn [texpr_gram]. unfold texprF. cbv zeta.
    pose proof (good_texpr_gram E HEg ln n) as G.
    assert (Gte : good (fun j => texpr_gram E ln n TE j)) by apply good_eta, G.
    assert (Gif : good (fun j => texpr_gram E ln n IF2 j)) by apply good_eta, G.
    assert (Low : 0 < k -> forall y, nf (k - 1) (fun j => texpr_gram E ln n y j)).
    { intros K y. apply nf_eta, IH; [lia| |].
      - intros z. eapply nf_mono; [|apply HE]. lia.
      - eapply nf_mono; [|exact HL]. lia. }
    destruct x; apply nf_eta.
    - apply nf_bind_opt_strict; [apply nf_dispatch|apply strict_dispatch|apply nf_text_branch|].
      intros K t.
      assert (HE' : forall z, nf (k - 1) (E z)) by (intros z; eapply nf_mono; [|apply HE]; lia).
      assert (HL' : nf (k - 1) (logic_expression E ln)) by (eapply nf_mono; [|exact HL]; lia).
      apply nf_te_branch_some; try assumption; try apply (Low K IF2).
      intros K2. eapply nf_mono; [|apply (Low K TE)]. lia.
    - apply nf_if2_body; try assumption; intros K; apply (Low K).
  Qed.
End TexprFuel.

(* ---- src/template.rs ---- *)
Lemma nf_lifetime k : nf k lifetime.
Proof. unfold lifetime. pose proof good_spacelike. pose proof (nf_spacelike k). pose proof (nf_rust_name k). pose proof good_rust_name. nf_auto. Qed.

Definition tyrank (x : tynt) (k : nat) : nat := match x with TyExpr => 2 * k + 1 | TyComma => 2 * k + 2 end.

Theorem ty_fuel n : forall k x, tyrank x k <= n -> nf k (ty_gram n x).
Proof.
  induction n as [|n IH]; intros k x Hr; [destruct x; cbn in Hr; lia|].
  cbn [ty_gram]. unfold tyF. cbv zeta.
  pose proof (good_ty_gram n) as G.
  assert (GA : good (fun j => ty_gram n TyExpr j)) by apply good_eta, G.
  assert (GB : good (fun j => ty_gram n TyComma j)) by apply good_eta, G.
  pose proof good_spacelike. pose proof (nf_spacelike k). pose proof good_rust_name. pose proof (nf_rust_name k).
  pose proof good_lifetime. pose proof (nf_lifetime k).
  destruct x; apply nf_eta.
  - (* every recursive call sits behind an opening bracket *)
    cbn in Hr.
    assert (Low : 0 < k -> forall y, nf (k - 1) (fun j => ty_gram n y j)).
    { intros K y. apply nf_eta, IH. destruct y; cbn; lia. }
    assert (nf k (delimited (tag (b "[")) (unitp (fun j => ty_gram n TyExpr j)) (tag (b "]")))).
    { apply nf_delimited_strict; [apply nf_tag|apply strict_tag; discriminate| |sfx_solve|apply nf_tag]. intros K. apply nf_unitp, (Low K). }
    assert (nf k (delimited (tag (b "(")) (unitp (fun j => ty_gram n TyComma j)) (tag (b ")")))).
    { apply nf_delimited_strict; [apply nf_tag|apply strict_tag; discriminate| |sfx_solve|apply nf_tag]. intros K. apply nf_unitp, (Low K). }
    assert (nf k (delimited (tag (b "<")) (fun j => ty_gram n TyComma j) (tag (b ">")))).
    { apply nf_delimited_strict; [apply nf_tag|apply strict_tag; discriminate| |sfx_solve|apply nf_tag]. intros K. apply (Low K). }
    nf_auto.
  - cbn in Hr. assert (nf k (fun j => ty_gram n TyExpr j)) by (apply nf_eta, IH; cbn; lia).
    nf_auto.
Qed.

Lemma nf_end_of_file k : nf k end_of_file.
Proof. intros [|x i] _; discriminate. Qed.

Lemma nf_template k TY TEX : (forall x, good (TY x)) -> good TEX -> (forall x, nf k (TY x)) -> nf k TEX -> nf k (template TY TEX).
Proof.
  intros HTY HTEX NTY NTEX. pose proof good_spacelike. pose proof good_rust_name. pose proof good_end_of_file.
  pose proof (nf_spacelike k). pose proof (nf_rust_name k). pose proof (nf_end_of_file k).
  assert (good (fun j => TY TyExpr j)) by apply good_eta, HTY.
  assert (nf k (fun j => TY TyExpr j)) by apply nf_eta, NTY.
  assert (good (formal_argument TY)) by (unfold formal_argument; good_auto).
  assert (nf k (formal_argument TY)) by (unfold formal_argument; nf_auto).
  unfold template. nf_auto.
Qed.

(* the fuel of Model/Compile.v is enough for every source text *)
Theorem parse_fuel_sufficient_lemma src : parse_template src <> Abort AFuel.
Proof.
  unfold parse_template. cbv zeta. set (f := fuel_for src). set (k := List.length src).
  assert (F : f = 4 * k + 16) by reflexivity.
  assert (NE : forall x, nf k (expr_gram f x)) by (intros x; apply expr_fuel; destruct x; cbn; lia).
  assert (NT : nf k (template (ty_gram f) (texpr_gram (expr_gram f) f f TE))).
  { apply nf_template.
    - apply good_ty_gram.
    - apply good_texpr_gram, good_expr_gram.
    - intros x. apply ty_fuel. destruct x; cbn; lia.
    - apply texpr_fuel; try apply good_expr_gram; try apply strict_expr_gram; try exact NE; try lia.
      apply logic_fuel; try apply good_expr_gram; try apply strict_expr_gram; try exact NE; lia. }
  apply NT. unfold k. lia.
Qed.
Corollary compile_never_out_of_fuel_lemma ue name src : compile ue name src <> NoFuel.
Proof.
  unfold compile. pose proof (parse_fuel_sufficient_lemma src) as H.
  destruct (parse_template src) as [t r|e|[|]]; try discriminate; [|congruence].
  destruct (ParseResult.show_errors src e (b "cargo:warning=")); discriminate.
Qed.

(* ---- more fuel never changes an answer (FuelFacts.le_p) ---- *)
Lemma le_ext {A} (p p' q q' : parser A) : (forall i, p i = p' i) -> (forall i, q i = q' i) -> le_p p q -> le_p p' q'.
Proof. intros E1 E2 H i Hi. rewrite <- E1, <- E2 in *. now apply H. Qed.

Lemma exprF_mono self self' : (forall y, le_p (self y) (self' y)) -> forall x, le_p (exprF self x) (exprF self' x).
Proof.
  intros H x. assert (HE : forall y, le_p (fun j => self y j) (fun j => self' y j)) by (intros y; apply le_eta, H).
  unfold exprF, exprF_gen. destruct x; cbv zeta; apply le_eta; unfold atom_alt, postfix_alt; le_auto; apply HE.
Qed.
Lemma expr_gram_step n : forall x, le_p (expr_gram n x) (expr_gram (S n) x).
Proof.
  induction n as [|n IH]; intros x; [apply le_bot|]. cbn [expr_gram]. now apply exprF_mono.
Qed.
Theorem expr_gram_mono n m : n <= m -> forall x, le_p (expr_gram n x) (expr_gram m x).
Proof.
  induction 1 as [|m _ IH]; intros x; [apply le_refl|]. eapply le_trans; [apply IH|apply expr_gram_step].
Qed.

Section TexprMono.
  Variables E E' : nt -> parser bytes.
  Hypothesis HE : forall y, le_p (E y) (E' y).
  Let HEx : le_p (expression E) (expression E'). Proof. unfold expression. apply le_eta, HE. Qed.

  Lemma logic_mono n : forall m, n <= m -> le_p (logic_expression E n) (logic_expression E' m).
  Proof.
    induction n as [|n IH]; intros m Hm; [apply le_bot|]. destruct m as [|m]; [lia|]. cbn [logic_expression].
    assert (le_p (fun j => logic_expression E n j) (fun j => logic_expression E' m j)) by (apply le_eta, IH; lia).
    le_auto.
  Qed.
  Lemma cond_mono n m : n <= m -> le_p (cond_expression E n) (cond_expression E' m).
  Proof.
    intros Hm. pose proof (logic_mono n m Hm).
    apply (le_ext
      (bind (opt (tag (b "let"))) (fun o => match o with
        | Some _ => pmap (fun '(lhs, rhs) => (b "let " ++ lhs ++ b " = " ++ rhs)%list)
                      (pair (preceded spacelike (context (b "Expected LHS expression in let binding") (expression E)))
                            (preceded (delimited spacelike (char 61) spacelike)
                                      (context (b "Expected RHS expression in let binding") (expression E))))
        | None => context (b "Expected expression") (logic_expression E n) end))
      _
      (bind (opt (tag (b "let"))) (fun o => match o with
        | Some _ => pmap (fun '(lhs, rhs) => (b "let " ++ lhs ++ b " = " ++ rhs)%list)
                      (pair (preceded spacelike (context (b "Expected LHS expression in let binding") (expression E')))
                            (preceded (delimited spacelike (char 61) spacelike)
                                      (context (b "Expected RHS expression in let binding") (expression E'))))
        | None => context (b "Expected expression") (logic_expression E' m) end))).
    - intros i. unfold cond_expression, bind. destruct (opt (tag (b "let")) i) as [[t|] r|e|k]; reflexivity.
    - intros i. unfold cond_expression, bind. destruct (opt (tag (b "let")) i) as [[t|] r|e|k]; reflexivity.
    - apply le_bind; [apply le_refl|]. intros [t|]; le_auto.
  Qed.

  Variables ln ln' : nat.
  Hypothesis Hln : ln <= ln'.

  Lemma texprF_mono self self' : (forall y, le_p (self y) (self' y)) -> forall x, le_p (texprF E ln self x) (texprF E' ln' self' x).
  Proof.
    intros H x.
    assert (Hte : le_p (fun j => self TE j) (fun j => self' TE j)) by apply le_eta, H.
    assert (Hif : le_p (fun j => self IF2 j) (fun j => self' IF2 j)) by apply le_eta, H.
    pose proof (cond_mono ln ln' Hln) as Hc.
    assert (Hb : le_p (template_block (fun j => self TE j)) (template_block (fun j => self' TE j))) by (unfold template_block; le_auto).
    assert (Hei : le_p (expr_in_braces E) (expr_in_braces E')) by (unfold expr_in_braces; apply le_eta, HE).
    assert (Hep : le_p (expr_inside_parens E) (expr_inside_parens E')) by (unfold expr_inside_parens; apply le_eta, HE).
    assert (Hce : le_p (comma_expressions E) (comma_expressions E')) by (unfold comma_expressions; le_auto).
    unfold texprF. cbv zeta. destruct x; apply le_eta.
    - apply le_bind; [apply le_refl|]. intros [t|]; [|apply le_refl].
      unfold te_branch.
      repeat match goal with |- le_p (fun _ => if ?c then _ else _) (fun _ => if ?c then _ else _) => destruct c end;
        try apply le_refl; try (apply le_eta; assumption);
        apply le_eta; unfold call_branch, for_branch, match_branch, paren_branch, template_argument, for_variable, loop_expression; le_auto.
    - unfold if2_body. le_auto.
  Qed.
  Lemma texpr_gram_mono n : forall m, n <= m -> forall x, le_p (texpr_gram E ln n x) (texpr_gram E' ln' m x).
  Proof.
    induction n as [|n IH]; intros m Hm x; [apply le_bot|]. destruct m as [|m]; [lia|]. cbn [texpr_gram].
    apply texprF_mono. intros y. apply IH. lia.
  Qed.
End TexprMono.

Lemma tyF_mono self self' : (forall y, le_p (self y) (self' y)) -> forall x, le_p (tyF self x) (tyF self' x).
Proof.
  intros H x. assert (HA : le_p (fun j => self TyExpr j) (fun j => self' TyExpr j)) by apply le_eta, H.
  assert (HB : le_p (fun j => self TyComma j) (fun j => self' TyComma j)) by apply le_eta, H.
  unfold tyF. destruct x; cbv zeta; apply le_eta; le_auto.
Qed.
Theorem ty_gram_mono n : forall m, n <= m -> forall x, le_p (ty_gram n x) (ty_gram m x).
Proof.
  induction n as [|n IH]; intros m Hm x; [apply le_bot|]. destruct m as [|m]; [lia|]. cbn [ty_gram].
  apply tyF_mono. intros y. apply IH. lia.
Qed.

(* the whole template parser at any fuel above the one Compile.v uses gives the same answer *)
Definition parse_template_with (f : nat) (src : bytes) : res template_t :=
  template (ty_gram f) (texpr_gram (expr_gram f) f f TE) src.
Theorem parse_fuel_irrelevant_lemma src f : fuel_for src <= f -> parse_template_with f src = parse_template src.
Proof.
  intros Hf. unfold parse_template_with. change (parse_template src) with (parse_template_with (fuel_for src) src).
  unfold parse_template_with.
  assert (M : le_p (template (ty_gram (fuel_for src)) (texpr_gram (expr_gram (fuel_for src)) (fuel_for src) (fuel_for src) TE))
                   (template (ty_gram f) (texpr_gram (expr_gram f) f f TE))).
  { unfold template, formal_argument.
    assert (le_p (fun j => ty_gram (fuel_for src) TyExpr j) (fun j => ty_gram f TyExpr j)) by (apply le_eta, ty_gram_mono; exact Hf).
    assert (le_p (texpr_gram (expr_gram (fuel_for src)) (fuel_for src) (fuel_for src) TE) (texpr_gram (expr_gram f) f f TE)).
    { apply texpr_gram_mono; try exact Hf. intros y. now apply expr_gram_mono. }
    le_auto. }
  apply M. exact (parse_fuel_sufficient_lemma src).
Qed.
