(* C17, the other half: what is not announced cannot influence the output.  The walkers of the
   build script look at the input tree only through (a) the listing of the directories they visit
   and (b) the content of the files they read; both kinds of path are recorded in [reads] (hence
   announced: the Ann lemmas of BuildProofs).  Here: erasing everything else from the tree -- the content of
   files that are not templates, whatever lies below a directory that is skipped, the content of
   files add_files skips -- changes nothing, and [reads] is exactly the list of paths that survive
   the erasure. *)
From Coq Require Import Lia.
From Ructe Require Import Nom Utf8 Emit Compile Md5 Static Tables Build MapProofs BuildProofs.
Local Open Scope string_scope.
Local Open Scope list_scope.

Section NI.
  Variable uni_esc uni_alnum : N -> bool.
  Variable compile : bytes -> bytes -> coutcome.
  Variable mm : mime_mode.

  Definition is_template_name (filename : bytes) : bool :=
    utf8_valid filename && existsb (fun s => ends_with filename s) template_suffixes.

  (* what compile_templates can see of a directory: its entry names and kinds in order, the
     content of template files, and (recursively) the same of sub-directories with a UTF-8 name *)
  Fixpoint erase_t (t : node) : node :=
    match t with
    | File c => File c
    | Dir es => Dir ((fix go (l : list (bytes * node)) : list (bytes * node) :=
                        match l with
                        | [] => []
                        | (n, x) :: r => (n, match x with
                                                 | File c => File (if is_template_name n then c else [])
                                                 | Dir _ => if utf8_valid n then erase_t x else Dir []
                                                 end) :: go r
                        end) es)
    end.
  Definition erase_es (es : list (bytes * node)) : list (bytes * node) :=
    match erase_t (Dir es) with Dir l => l | File _ => [] end.
  Lemma erase_es_nil : erase_es [] = []. Proof. reflexivity. Qed.
  Lemma erase_es_file n c r : erase_es ((n, File c) :: r) = (n, File (if is_template_name n then c else [])) :: erase_es r.
  Proof. reflexivity. Qed.
  Lemma erase_es_dir n sub r : erase_es ((n, Dir sub) :: r) = (n, if utf8_valid n then Dir (erase_es sub) else Dir []) :: erase_es r.
  Proof. unfold erase_es. cbn [erase_t]. destruct (utf8_valid n); reflexivity. Qed.

  (* a file whose name carries no template suffix is never read *)
  Lemma suffix_loop_no_suffix ss : forall w f indir outdir filename c1 c2,
    existsb (fun s => ends_with filename s) ss = false ->
    suffix_loop uni_esc compile w f indir outdir filename c1 ss = suffix_loop uni_esc compile w f indir outdir filename c2 ss.
  Proof.
    induction ss as [|s ss IH]; intros w f indir outdir filename c1 c2 H; [reflexivity|].
    cbn [existsb] in H. apply orb_false_iff in H. destruct H as [H1 H2]. cbn [suffix_loop]. rewrite H1. now apply IH.
  Qed.

  Section Loop.
    Variable rec : world -> bytes -> bytes -> bytes -> list (bytes * node) -> bres (world * bytes).
    Hypothesis Hrec : forall w f i o sub, rec w f i o sub = rec w f i o (erase_es sub).
    Lemma entries_loop_erase : forall es w f indir outdir,
      entries_loop uni_esc compile rec w f indir outdir es = entries_loop uni_esc compile rec w f indir outdir (erase_es es).
    Proof.
      induction es as [|[n [c|sub]] rest IH]; intros w f indir outdir; [reflexivity| |].
      - rewrite erase_es_file. cbn [entries_loop]. unfold is_template_name. destruct (utf8_valid n) eqn:V; cbn [andb]; [|apply IH].
        destruct (existsb (fun s => ends_with n s) template_suffixes) eqn:X.
        + destruct (suffix_loop uni_esc compile w f indir outdir n c template_suffixes) as [[w' f']| |]; try reflexivity. apply IH.
        + rewrite (suffix_loop_no_suffix template_suffixes w f indir outdir n c [] X).
          destruct (suffix_loop uni_esc compile w f indir outdir n [] template_suffixes) as [[w' f']| |]; try reflexivity. apply IH.
      - rewrite erase_es_dir. cbn [entries_loop]. destruct (utf8_valid n) eqn:V; [|apply IH].
        rewrite (Hrec _ _ _ _ sub). destruct (rec _ _ _ _ (erase_es sub)) as [[w2 modrs]| |]; try reflexivity. apply IH.
    Qed.
  End Loop.

  Theorem handle_entries_erase fuel : forall w f indir outdir es,
    handle_entries uni_esc compile fuel w f indir outdir es = handle_entries uni_esc compile fuel w f indir outdir (erase_es es).
  Proof.
    induction fuel as [|fuel IH]; intros w f indir outdir es; [reflexivity|]. cbn [handle_entries].
    now apply entries_loop_erase.
  Qed.

  (* the paths compile_templates reads: the visited sub-directories and the template files, in visiting order *)
  Fixpoint reads_t (fuel : nat) (indir : bytes) (es : list (bytes * node)) : list bytes :=
    match fuel with O => [] | S fuel' =>
      flat_map (fun '(n, x) =>
        let path := indir ++ [47%N] ++ n in
        match x with
        | File _ => if utf8_valid n then map (fun _ => path) (filter (fun s => ends_with n s) template_suffixes) else []
        | Dir sub => if utf8_valid n then path :: reads_t fuel' path sub else []
        end) es
    end.

  Lemma reads_handle_template w name path outdir content w' b0 :
    handle_template uni_esc compile w name path outdir content = BOk _ (w', b0) -> reads w' = reads w.
  Proof. unfold handle_template. destruct (compile name content); intros [= <- <-]; reflexivity. Qed.
  Lemma reads_suffix_loop ss : forall w f indir outdir filename content w' f',
    suffix_loop uni_esc compile w f indir outdir filename content ss = BOk _ (w', f') ->
    reads w' = reads w ++ map (fun _ => indir ++ [47%N] ++ filename) (filter (fun s => ends_with filename s) ss).
  Proof.
    induction ss as [|s ss IH]; intros w f indir outdir filename content w' f'; cbn [suffix_loop filter map].
    - intros [= <- <-]. now rewrite app_nil_r.
    - destruct (ends_with filename s); [|apply IH].
      destruct (handle_template _ _ _ _ _ _ _) as [[w1 [|]]| |] eqn:HT; try discriminate;
        intros H; rewrite (IH _ _ _ _ _ _ _ _ H), (reads_handle_template _ _ _ _ _ _ _ HT); cbn [announce_read note_read say reads map];
        now rewrite <- app_assoc.
  Qed.
  Theorem reads_handle_entries fuel : forall w f indir outdir es w' f',
    handle_entries uni_esc compile fuel w f indir outdir es = BOk _ (w', f') -> reads w' = reads w ++ reads_t fuel indir es.
  Proof.
    induction fuel as [|fuel IH]; intros w f indir outdir es w' f'; [discriminate|]. cbn [handle_entries reads_t].
    revert w f. induction es as [|[n [c|sub]] rest IHes]; intros w f; cbn [entries_loop flat_map].
    - intros [= <- <-]. now rewrite app_nil_r.
    - destruct (utf8_valid n); [|apply IHes].
      destruct (suffix_loop uni_esc compile w f indir outdir n c template_suffixes) as [[w1 f1]| |] eqn:SL; try discriminate.
      intros H. rewrite (IHes _ _ H), (reads_suffix_loop _ _ _ _ _ _ _ _ _ SL). now rewrite <- app_assoc.
    - destruct (utf8_valid n); [|apply IHes].
      destruct (handle_entries uni_esc compile fuel _ _ _ _ sub) as [[w2 modrs]| |] eqn:HE; try discriminate.
      intros H. rewrite (IHes _ _ H). cbn [write_if_changed reads]. rewrite (IH _ _ _ _ _ _ _ HE). cbn [announce_read note_read say reads].
      rewrite <- !app_assoc. reflexivity.
  Qed.

  (* ---- static files ---- *)
  (* add_files looks at the regular files of one directory that have an extension; sub-directories
     are not entered and files without an extension are skipped without being read *)
  Definition erase_files (dir : bytes) (es : list (bytes * node)) : list (bytes * node) :=
    map (fun '(n, x) => match x with
                        | File c => (n, File (match name_and_ext (dir ++ [47%N] ++ n) with Some _ => c | None => [] end))
                        | Dir _ => (n, Dir []) end) es.
  Theorem add_files_erase s dir es :
    add_files uni_esc uni_alnum mm s dir es = add_files uni_esc uni_alnum mm s dir (erase_files dir es).
  Proof.
    unfold add_files. generalize (sannounce s dir). induction es as [|[n [c|sub]] rest IH]; intros s0; [reflexivity| |]; cbn [erase_files map fold_left].
    - assert (E : add_file uni_esc uni_alnum mm s0 (dir ++ [47%N] ++ n) c =
                  add_file uni_esc uni_alnum mm s0 (dir ++ [47%N] ++ n) (match name_and_ext (dir ++ [47%N] ++ n) with Some _ => c | None => [] end)).
      { unfold add_file. destruct (name_and_ext (dir ++ [47%N] ++ n)); reflexivity. }
      rewrite <- E. apply IH.
    - apply IH.
  Qed.
  (* add_files_as and add_file_as embed by path (include_bytes!): the content never reaches the
     generated text, only names and kinds do *)
  Fixpoint shape (t : node) : node :=
    match t with
    | File _ => File []
    | Dir es => Dir ((fix go (l : list (bytes * node)) := match l with [] => [] | (n, x) :: r => (n, shape x) :: go r end) es)
    end.
  Definition shape_es (es : list (bytes * node)) : list (bytes * node) := match shape (Dir es) with Dir l => l | File _ => [] end.
  Lemma shape_es_cons n x r : shape_es ((n, x) :: r) = (n, shape x) :: shape_es r. Proof. reflexivity. Qed.
  Lemma shape_dir sub : shape (Dir sub) = Dir (shape_es sub). Proof. reflexivity. Qed.
  Theorem add_files_as_shape fuel : forall s dir to es,
    add_files_as uni_esc uni_alnum mm fuel s dir to es = add_files_as uni_esc uni_alnum mm fuel s dir to (shape_es es).
  Proof.
    induction fuel as [|fuel IH]; intros s dir to es; [reflexivity|]. cbn [add_files_as].
    generalize (sannounce s dir). induction es as [|[n [c|sub]] rest IHes]; intros s0; [reflexivity| |]; rewrite shape_es_cons; cbn [fold_left shape].
    - apply IHes.
    - fold (shape_es sub). rewrite (IH _ _ _ sub). apply IHes.
  Qed.
End NI.

(* ---- what the static walkers read (and therefore announce): exactly what their views keep ---- *)
Section StaticReads.
  Variable uni_esc uni_alnum : N -> bool.
  Variable mm : mime_mode.

  Definition sreads (s : sstate) : list bytes := reads (sw s).

  (* add_files: the directory, then every regular file of it that has an extension *)
  Definition reads_files (dir : bytes) (es : list (bytes * node)) : list bytes :=
    flat_map (fun '(n, x) => match x with
                             | File _ => match name_and_ext (dir ++ [47%N] ++ n) with Some _ => [dir ++ [47%N] ++ n] | None => [] end
                             | Dir _ => [] end) es.
  Lemma reads_add_file s p c :
    sreads (add_file uni_esc uni_alnum mm s p c) = sreads s ++ match name_and_ext p with Some _ => [p] | None => [] end.
  Proof. unfold add_file, sreads. destruct (name_and_ext p); cbn; [reflexivity|now rewrite app_nil_r]. Qed.
  Theorem reads_add_files s dir es :
    sreads (add_files uni_esc uni_alnum mm s dir es) = sreads s ++ dir :: reads_files dir es.
  Proof.
    unfold add_files. replace (sreads s ++ dir :: reads_files dir es) with (sreads (sannounce s dir) ++ reads_files dir es)
      by (unfold sreads; cbn; now rewrite <- app_assoc).
    generalize (sannounce s dir). induction es as [|[n [c|sub]] rest IH]; intros s0; cbn [fold_left reads_files flat_map].
    - now rewrite app_nil_r.
    - rewrite IH, reads_add_file. unfold reads_files. now rewrite <- app_assoc.
    - rewrite IH. reflexivity.
  Qed.

  (* add_files_as: the directory, every regular file below it and every sub-directory, in walking order *)
  Fixpoint reads_as (fuel : nat) (dir : bytes) (es : list (bytes * node)) : list bytes :=
    match fuel with O => [] | S fuel' =>
      dir :: flat_map (fun '(n, x) => match x with
                                      | File _ => [dir ++ [47%N] ++ n]
                                      | Dir sub => reads_as fuel' (dir ++ [47%N] ++ n) sub end) es
    end.
  Theorem reads_add_files_as fuel : forall s dir to es,
    sreads (add_files_as uni_esc uni_alnum mm fuel s dir to es) = sreads s ++ reads_as fuel dir es.
  Proof.
    induction fuel as [|fuel IH]; intros s dir to es; cbn [add_files_as reads_as]; [now rewrite app_nil_r|].
    replace (sreads s ++ dir :: flat_map (fun '(n, x) => match x with File _ => [dir ++ [47%N] ++ n] | Dir sub => reads_as fuel (dir ++ [47%N] ++ n) sub end) es)
      with (sreads (sannounce s dir) ++ flat_map (fun '(n, x) => match x with File _ => [dir ++ [47%N] ++ n] | Dir sub => reads_as fuel (dir ++ [47%N] ++ n) sub end) es)
      by (unfold sreads; cbn; now rewrite <- app_assoc).
    generalize (sannounce s dir). induction es as [|[n [c|sub]] rest IHes]; intros s0; cbn [fold_left flat_map].
    - now rewrite app_nil_r.
    - rewrite IHes. unfold add_file_as, sreads. cbn. now rewrite <- app_assoc.
    - rewrite IHes, IH. now rewrite <- app_assoc.
  Qed.
End StaticReads.
