(* C11: the parser never panics, its error positions lie inside the input, show_errors is total,
   and every diagnostic is well-formed. *)
From Coq Require Import Lia.
From Ructe Require Import Nom NomFacts Utf8 Spacelike Expression TemplateExpr Template ParseResult Emit Compile ParserProofs.
Local Open Scope list_scope.

Lemma good_parse_template_parser f :
  good (template (ty_gram f) (texpr_gram (expr_gram f) f f TE)).
Proof.
  apply good_template; [apply good_ty_gram|]. apply good_texpr_gram. apply good_expr_gram.
Qed.

Lemma parse_template_no_panic src : parse_template src <> Abort APanic.
Proof. unfold parse_template. apply (g_np (good_parse_template_parser (fuel_for src))). Qed.
Lemma parse_template_errors_inside src e : parse_template src = Err e -> ebound (length src) e.
Proof. unfold parse_template. apply (g_epos (good_parse_template_parser (fuel_for src))). Qed.
Lemma parse_template_rest_suffix src t r : parse_template src = Ok t r -> exists c, src = c ++ r.
Proof. unfold parse_template. apply (g_sfx (good_parse_template_parser (fuel_for src))). Qed.

Lemma diags_total buf e : ebound (length buf) e -> exists l, diags buf e = Some l.
Proof.
  induction e as [|[rem k] e IH]; intros B; [now exists []|]. inversion B; subst. cbn [fst] in *.
  cbn [diags]. destruct (get_message k); [|now apply IH].
  assert (L : Nat.leb rem (length buf) = true) by now apply Nat.leb_le. rewrite L.
  destruct (IH H2) as [l ->]. eauto.
Qed.
Lemma show_errors_total_lemma buf e prefix : ebound (length buf) e -> exists d, show_errors buf e prefix = Some d.
Proof. intros B. unfold show_errors. destruct (diags_total buf e B) as [l ->]. eauto. Qed.

Lemma compile_never_panics_lemma ue name src : compile ue name src <> Panicked.
Proof.
  unfold compile. destruct (parse_template src) as [t r|e|[|]] eqn:E; try discriminate.
  - destruct (show_errors_total_lemma src e (b "cargo:warning=") (parse_template_errors_inside _ _ E)) as [d ->]. discriminate.
  - exfalso. now apply (parse_template_no_panic src).
Qed.

(* ---- where a diagnostic points ---- *)
Lemma last_nl_end_spec s : forall idx acc,
  acc <= idx ->
  let r := last_nl_end s idx acc in
  acc <= r <= idx + length s /\
  (r = acc \/ (idx < r /\ nth (r - idx - 1) s 0%N = 10%N)) /\
  (forall j, j < length s -> nth j s 0%N = 10%N -> idx + j < r).
Proof.
  induction s as [|c s IH]; intros idx acc L; cbn [last_nl_end length].
  - cbv zeta. split; [lia|]. split; [now left|]. intros j H; lia.
  - cbv zeta. destruct (N.eqb c 10) eqn:E.
    + specialize (IH (S idx) (S idx) (le_n _)). cbv zeta in IH. destruct IH as [I1 [I2 I3]].
      set (r := last_nl_end s (S idx) (S idx)) in *.
      split; [lia|]. split.
      * right. destruct I2 as [I2|[I2 I2']].
        { rewrite I2. split; [lia|]. replace (S idx - idx - 1) with 0 by lia. cbn. now apply N.eqb_eq. }
        { split; [lia|]. replace (r - idx - 1) with (S (r - S idx - 1)) by lia. exact I2'. }
      * intros j H1 H5. destruct j as [|j]; [lia|]. cbn [nth] in H5.
        assert (S idx + j < r); [|lia]. apply I3; [lia|exact H5].
    + specialize (IH (S idx) acc ltac:(lia)). cbv zeta in IH. destruct IH as [I1 [I2 I3]].
      set (r := last_nl_end s (S idx) acc) in *.
      split; [lia|]. split.
      * destruct I2 as [I2|[I2 I2']]; [now left|right]. split; [lia|].
        replace (r - idx - 1) with (S (r - S idx - 1)) by lia. exact I2'.
      * intros j H1 H5. destruct j as [|j].
        { cbn [nth] in H5. apply N.eqb_neq in E. congruence. }
        cbn [nth] in H5. assert (S idx + j < r); [|lia]. apply I3; [lia|exact H5].
Qed.

Lemma nth_firstn {A} (l : list A) : forall n j d, j < n -> nth j (firstn n l) d = nth j l d.
Proof.
  induction l as [|x l IH]; intros n j d H; [now rewrite firstn_nil|].
  destruct n; [lia|]. destruct j; [reflexivity|]. cbn. apply IH. lia.
Qed.

Lemma count_nl_firstn n buf : count_nl (firstn n buf) <= count_nl buf.
Proof.
  unfold count_nl. revert n. induction buf as [|c buf IH]; intros [|n]; cbn; try lia.
  specialize (IH n). destruct (N.eqb c 10); cbn; lia.
Qed.

Lemma lossy_step_shorter s : s <> [] -> length (lossy_step s) < length s.
Proof.
  destruct s as [|c r]; [congruence|]. intros _. cbn [lossy_step length].
  repeat match goal with
         | |- context [if ?x then _ else _] => destruct x
         | |- context [match ?l with [] => _ | _ :: _ => _ end] => destruct l
         end; cbn [length]; lia.
Qed.
Lemma lossy_count_aux_le n : forall s, lossy_count_aux n s <= length s.
Proof.
  induction n as [|n IH]; intros s; destruct s as [|c r]; cbn [lossy_count_aux length]; try lia.
  pose proof (lossy_step_shorter (c :: r) ltac:(discriminate)) as L. specialize (IH (lossy_step (c :: r))). cbn [length] in L. lia.
Qed.
Lemma lossy_char_count_le s : lossy_char_count s <= length s.
Proof. apply lossy_count_aux_le. Qed.

Lemma until_nl_no_nl s : Forall (fun c => c <> 10%N) (until_nl s).
Proof.
  unfold until_nl. induction s as [|c s IH]; cbn; [constructor|].
  destruct (N.eqb c 10) eqn:E; cbn; [constructor|].
  destruct (span (fun c0 => negb (N.eqb c0 10)) s) as [a t]. cbn in *. constructor; [now apply N.eqb_neq|exact IH].
Qed.
Lemma until_nl_prefix s : exists t, s = until_nl s ++ t /\ (t = [] \/ exists t', t = 10%N :: t').
Proof.
  unfold until_nl. induction s as [|c s IH]; cbn; [exists []; split; [reflexivity|now left]|].
  destruct (N.eqb c 10) eqn:E; cbn.
  - apply N.eqb_eq in E. subst. exists (10%N :: s). split; [reflexivity|right; eauto].
  - destruct IH as [t [Ht Hc]]. destruct (span (fun c0 => negb (N.eqb c0 10)) s) as [a t0]. cbn in *.
    exists t. split; [now rewrite <- Ht|exact Hc].
Qed.

(* every diagnostic produced for a position inside the input: the line number is between 1 and
   the number of lines, the caret column is between 1 and (bytes of that line) + 1, and the echoed
   line is that source line -- the maximal newline-free segment starting right after the previous
   newline -- or the placeholder exactly when the line is not valid UTF-8 *)
Lemma locate_wellformed buf pos msg : pos <= length buf ->
  let d := locate buf pos msg in
  let ls := last_nl_end (firstn pos buf) 0 0 in
  1 <= d_line_no d <= S (count_nl buf) /\
  d_line_no d = S (count_nl (firstn ls buf)) /\
  ls <= pos /\ (ls = 0 \/ nth (ls - 1) buf 0%N = 10%N) /\
  1 <= d_col d <= S (length (until_nl (skipn ls buf))) /\
  d_line d = (if utf8_valid (until_nl (skipn ls buf)) then until_nl (skipn ls buf) else b "(Failed to display line)") /\
  d_msg d = msg.
Proof.
  intros Hp d ls. subst d. unfold locate. cbn [d_line_no d_col d_line d_msg]. fold ls.
  pose proof (last_nl_end_spec (firstn pos buf) 0 0 (le_n _)) as S. cbv zeta in S. fold ls in S.
  destruct S as [S1 [S2 S3]]. rewrite firstn_length_le in S1 by exact Hp.
  pose proof (count_nl_firstn ls buf) as C.
  split; [lia|]. split; [reflexivity|]. split; [lia|]. split.
  - destruct S2 as [S2|[S2 S2']]; [now left|right]. replace (ls - 0 - 1) with (ls - 1) in S2' by lia.
    rewrite <- S2'. symmetry. apply nth_firstn. lia.
  - split; [|split; reflexivity].
    pose proof (lossy_char_count_le (firstn (pos - ls) (skipn ls buf))) as LC.
    split; [lia|].
    (* the segment up to pos holds no newline, so it is a prefix of the line *)
    assert (SEG : length (firstn (pos - ls) (skipn ls buf)) <= length (until_nl (skipn ls buf))).
    { destruct (until_nl_prefix (skipn ls buf)) as [t [Ht Hc]].
      destruct (Nat.le_gt_cases (pos - ls) (length (until_nl (skipn ls buf)))) as [Q|Q]; [rewrite firstn_length; lia|exfalso].
      destruct Hc as [->|[t' ->]].
      - rewrite app_nil_r in Ht. rewrite <- Ht in Q. rewrite skipn_length in Q. lia.
      - (* a newline sits at offset |line| < pos - ls after ls: contradicts the choice of ls *)
        set (k := length (until_nl (skipn ls buf))) in *.
        assert (N10 : nth (ls + k) buf 0%N = 10%N).
        { rewrite <- (firstn_skipn ls buf) at 1. rewrite app_nth2; rewrite firstn_length_le by lia; [|lia].
          replace (ls + k - ls) with k by lia. rewrite Ht. rewrite app_nth2 by (unfold k; lia). unfold k. now rewrite Nat.sub_diag. }
        assert (ls + k < pos) by lia.
        specialize (S3 (ls + k)). rewrite firstn_length_le in S3 by exact Hp.
        specialize (S3 ltac:(lia)). rewrite nth_firstn in S3 by lia. specialize (S3 N10). lia. }
    lia.
Qed.

(* ================= a rejection always carries a diagnostic ================= *)
Definition noerr {A} (p : parser A) := forall i e, p i <> Err e.
Definition has_msg (ne : nat * ekind) : Prop := get_message (snd ne) <> None.
Definition emsg {A} (p : parser A) := forall i e, p i = Err e -> Exists has_msg e.

Lemma noerr_emsg {A} (p : parser A) : noerr p -> emsg p.
Proof. intros H i e E. exfalso. exact (H i e E). Qed.
Lemma emsg_context {A} m (p : parser A) : emsg (context m p).
Proof.
  intros i e. unfold context. destruct (p i); try discriminate. intros [= <-]. left. cbn. discriminate.
Qed.
Lemma emsg_bind {A B} (p : parser A) (f : A -> parser B) : emsg p -> (forall a, emsg (f a)) -> emsg (bind p f).
Proof.
  intros Hp Hf i e. unfold bind. destruct (p i) as [a r|e1|k] eqn:E; try discriminate.
  - apply Hf. - intros [= <-]. now apply (Hp i).
Qed.
Lemma emsg_pmap {A B} (g : A -> B) p : emsg p -> emsg (pmap g p).
Proof. intros H i e. unfold pmap. destruct (p i) eqn:E; try discriminate. intros [= <-]. now apply (H i). Qed.
Lemma emsg_pair {A B} (p : parser A) (q : parser B) : emsg p -> emsg q -> emsg (pair p q).
Proof. intros. unfold pair. apply emsg_bind; [assumption|]. intros a. now apply emsg_pmap. Qed.
Lemma emsg_delimited {A B C} (p : parser A) (q : parser B) (r : parser C) : emsg p -> emsg q -> emsg r -> emsg (delimited p q r).
Proof.
  intros. unfold delimited, preceded, terminated. apply emsg_bind; [assumption|]. intros _.
  apply emsg_bind; [assumption|]. intros a. now apply emsg_pmap.
Qed.
Lemma noerr_opt {A} (p : parser A) : noerr (opt p).
Proof. intros i e. unfold opt. destruct (p i); discriminate. Qed.

Lemma noerr_many0_aux {A} (p : parser A) : strict p -> forall n i e, many0_aux p n i <> Err e.
Proof.
  intros S. induction n as [|n IH]; intros i e; cbn [many0_aux]; destruct (p i) as [a r|e1|k] eqn:E; try discriminate.
  - pose proof (S _ _ _ E). assert (X : Nat.eqb (length r) (length i) = false) by (apply Nat.eqb_neq; lia). rewrite X. discriminate.
  - pose proof (S _ _ _ E). assert (X : Nat.eqb (length r) (length i) = false) by (apply Nat.eqb_neq; lia). rewrite X.
    specialize (IH r). destruct (many0_aux p n r); try discriminate. intros [= ->]. now apply (IH e).
Qed.
Lemma noerr_many0 {A} (p : parser A) : strict p -> noerr (many0 p).
Proof. intros S i e. unfold many0. now apply noerr_many0_aux. Qed.
Lemma noerr_pmap {A B} (g : A -> B) p : noerr p -> noerr (pmap g p).
Proof. intros H i e. unfold pmap. destruct (p i) eqn:E; try discriminate. intros [= ->]. exact (H i e E). Qed.

Lemma noerr_sep_rest {A S} (sep : parser S) (f : parser A) : strict sep -> sfx f ->
  forall n i e, sep_rest sep f n i <> Err e.
Proof.
  intros SS SF. induction n as [|n IH]; intros i e; cbn [sep_rest]; destruct (sep i) as [s0 i1|es|ks] eqn:Es; try discriminate;
    destruct (f i1) as [a i2|ef|kf] eqn:Ef; try discriminate.
  - pose proof (SS _ _ _ Es). pose proof (sfx_len f SF _ _ _ Ef).
    assert (X : Nat.eqb (length i2) (length i) = false) by (apply Nat.eqb_neq; lia). rewrite X. discriminate.
  - pose proof (SS _ _ _ Es). pose proof (sfx_len f SF _ _ _ Ef).
    assert (X : Nat.eqb (length i2) (length i) = false) by (apply Nat.eqb_neq; lia). rewrite X.
    specialize (IH i2). destruct (sep_rest sep f n i2); try discriminate. intros [= ->]. now apply (IH e).
Qed.
Lemma noerr_separated_list0 {A S} (sep : parser S) (f : parser A) : strict sep -> sfx f -> noerr (separated_list0 sep f).
Proof.
  intros SS SF i e. unfold separated_list0. destruct (f i) as [a r|ef|kf]; try discriminate.
  pose proof (noerr_sep_rest sep f SS SF (length r) r) as N0. destruct (sep_rest sep f (length r) r); try discriminate.
  intros [= ->]. now apply (N0 e).
Qed.

Lemma emsg_many_till {A B} (f : parser A) (g : parser B) : emsg f -> strict f -> emsg (many_till f g).
Proof.
  intros EF SF i e. unfold many_till. generalize (length i) as n. intros n. revert i e.
  induction n as [|n IH]; intros i e; cbn [many_till_aux]; destruct (g i) as [x rg|eg|kg]; try discriminate;
    destruct (f i) as [a r|ef|kf] eqn:Ef; try discriminate.
  - pose proof (SF _ _ _ Ef). assert (X : Nat.eqb (length r) (length i) = false) by (apply Nat.eqb_neq; lia). rewrite X. discriminate.
  - intros [= <-]. right. now apply (EF i).
  - pose proof (SF _ _ _ Ef). assert (X : Nat.eqb (length r) (length i) = false) by (apply Nat.eqb_neq; lia). rewrite X.
    specialize (IH r). destruct (many_till_aux f g n r) as [[l x] r'|e1|k1]; try discriminate. intros [= <-]. now apply IH.
  - intros [= <-]. right. now apply (EF i).
Qed.

(* strictness *)
Lemma strict_tag t : t <> [] -> strict (tag t).
Proof.
  intros N0 i a r. unfold tag. destruct (strip_prefix t i) eqn:E; [|discriminate]. intros [= <- <-].
  apply strip_prefix_sfx in E. subst i. rewrite app_length. destruct t; [congruence|cbn; lia].
Qed.
Lemma strict_char c : strict (char c).
Proof. intros [|x i] a r; cbn; [discriminate|]. destruct (N.eqb x c); [|discriminate]. intros [= <- <-]. cbn. lia. Qed.
Lemma strict_take_while1 f : strict (take_while1 f).
Proof.
  intros i a r. unfold take_while1. pose proof (span_app f i) as S. destruct (span f i) as [[|x a'] r']; [discriminate|].
  intros [= <- <-]. cbn in S. rewrite S. cbn. rewrite app_length. lia.
Qed.
Lemma strict_bind_l {A B} (p : parser A) (f : A -> parser B) : strict p -> (forall a, sfx (f a)) -> strict (bind p f).
Proof.
  intros SP SF i b0 r. unfold bind. destruct (p i) as [a r1|e|k] eqn:E; try discriminate. intros H.
  pose proof (SP _ _ _ E). pose proof (sfx_len _ (SF a) _ _ _ H). lia.
Qed.
Lemma strict_pmap {A B} (g : A -> B) p : strict p -> strict (pmap g p).
Proof. intros H i b0 r. unfold pmap. destruct (p i) eqn:E; try discriminate. intros [= <- <-]. eauto. Qed.
Lemma strict_alt' {A} (ps : list (parser A)) : Forall strict ps -> forall last, strict (alt' ps last).
Proof.
  induction 1 as [|p ps Hp Hps IH]; intros last i a r; cbn [alt']; [discriminate|].
  destruct (p i) eqn:E; [intros [= <- <-]; eauto|apply IH|discriminate].
Qed.
Lemma strict_alt {A} (ps : list (parser A)) : Forall strict ps -> strict (alt ps).
Proof. intros. now apply strict_alt'. Qed.
Lemma strict_context {A} m (p : parser A) : strict p -> strict (context m p).
Proof. intros H i a r. unfold context. destruct (p i) eqn:E; try discriminate. intros [= <- <-]. eauto. Qed.
Lemma strict_map_res {A B} (p : parser A) (f : A -> option B) : strict p -> strict (map_res p f).
Proof. intros H i b0 r. unfold map_res. destruct (p i) eqn:E; try discriminate. destruct (f a); [|discriminate]. intros [= <- <-]. eauto. Qed.

Lemma strict_comment : strict comment.
Proof.
  unfold comment, preceded. apply strict_bind_l; [apply strict_tag; discriminate|]. intros _. apply good_comment_tail.
Qed.
Lemma noerr_spacelike : noerr spacelike.
Proof.
  unfold spacelike, unitp, value. apply noerr_pmap. apply noerr_many0. apply strict_alt.
  repeat constructor; [apply strict_comment|]. unfold unitp, value. apply strict_pmap. apply strict_take_while1.
Qed.

Section T.
  Variable TY : tynt -> parser unit.
  Variable TEX : parser texpr.
  Hypothesis HTY : forall x, good (TY x).
  Hypothesis HTEX : good TEX.
  Hypothesis STEX : strict TEX.

  Lemma emsg_template : emsg (template TY TEX).
  Proof.
    unfold template. apply emsg_pmap.
    assert (GS := good_spacelike). assert (GR := good_rust_name).
    assert (GTy : good (fun j => TY TyExpr j)) by apply good_eta, HTY.
    assert (GFA : good (formal_argument TY)) by (unfold formal_argument; good_auto).
    repeat apply emsg_pair.
    - apply noerr_emsg, noerr_spacelike.
    - apply noerr_emsg, noerr_many0. unfold delimited, preceded. apply strict_bind_l; [apply strict_tag; discriminate|].
      intros _. assert (G : good (terminated (map_res (is_not (b ";()")) to_str) (terminated (tag (b ";")) spacelike))) by good_auto. apply G.
    - apply emsg_context.
    - apply noerr_emsg, noerr_opt.
    - apply emsg_delimited; [apply emsg_context| |apply emsg_context].
      apply noerr_emsg, noerr_separated_list0.
      + unfold terminated. apply strict_bind_l; [apply strict_tag; discriminate|]. intros a.
        assert (G : good (pmap (fun _ : bytes => a) multispace0)) by good_auto. apply G.
      + assert (G : good (context (b "expected formal argument") (formal_argument TY))) by good_auto. apply G.
    - apply emsg_many_till; [apply emsg_context|now apply strict_context].
  Qed.
End T.

(* template_expression consumes at least one byte whenever it succeeds *)
Lemma strict_dispatch : strict dispatch.
Proof.
  unfold dispatch, preceded. apply strict_bind_l; [apply strict_char|]. intros _.
  assert (G2 : good (alt [ tag (b "*"); tag (b ":"); tag (b "@"); tag (b "{"); tag (b "}"); tag (b "(");
             terminated (alt [tag (b "if"); tag (b "for"); tag (b "match")]) (tag (b " ")); value [] (tag (b "")) ])) by good_auto.
  apply G2.
Qed.
Lemma strict_texpr_TE E ln n : (forall x, good (E x)) -> strict (texpr_gram E ln n TE).
Proof.
  intros HE. destruct n as [|n]; [intros i a r; discriminate|]. cbn [texpr_gram].
  pose proof (good_texpr_gram E HE ln n) as G.
  assert (HT : good (fun j => texpr_gram E ln n TE j)) by apply good_eta, G.
  assert (HI : good (fun j => texpr_gram E ln n IF2 j)) by apply good_eta, G.
  intros i a r. unfold texprF. cbv zeta. unfold bind.
  destruct (opt dispatch i) as [[t|] r1|e|k] eqn:Eo; try discriminate.
  - intros H.
    assert (L1 : length r1 < length i).
    { unfold opt in Eo. destruct (dispatch i) as [t' r'|e'|k'] eqn:Ed; try discriminate. inversion Eo; subst.
      exact (strict_dispatch _ _ _ Ed). }
    assert (GB : good (te_branch E (fun j => texpr_gram E ln n TE j) (fun j => texpr_gram E ln n IF2 j) (Some t))).
    { apply good_te_branch; try assumption. eauto. }
    pose proof (sfx_len _ (g_sfx GB) _ _ _ H). lia.
  - assert (r1 = i).
    { unfold opt in Eo. destruct (dispatch i); try discriminate. now inversion Eo. }
    subst r1. cbn [te_branch]. unfold text_branch. apply strict_pmap, strict_map_res, strict_take_while1.
Qed.

Lemma reject_has_diagnostic_lemma src e : parse_template src = Err e -> Exists has_msg e.
Proof.
  unfold parse_template.
  apply (emsg_template (ty_gram (fuel_for src)) (texpr_gram (expr_gram (fuel_for src)) (fuel_for src) (fuel_for src) TE)).
  - apply good_ty_gram.
  - apply strict_texpr_TE, good_expr_gram.
Qed.

Lemma diags_nonempty buf e l : Exists has_msg e -> diags buf e = Some l -> l <> [].
Proof.
  induction 1 as [[rem k] e Hm|[rem k] e Hex IH] in l |- *; cbn [diags]; unfold has_msg in *; cbn [snd] in *.
  - destruct (get_message k) as [m|]; [|congruence]. destruct (Nat.leb rem (length buf)); [|discriminate].
    destruct (diags buf e); [|discriminate]. intros [= <-]. discriminate.
  - destruct (get_message k) as [m|]; [|now apply IH]. destruct (Nat.leb rem (length buf)); [|discriminate].
    destruct (diags buf e); [|discriminate]. intros [= <-]. discriminate.
Qed.

Lemma diags_are_locates buf e l : diags buf e = Some l ->
  Forall (fun d => exists pos msg, pos <= length buf /\ d = locate buf pos msg) l.
Proof.
  revert l; induction e as [|[rem k] e IH]; intros l; cbn [diags]; [intros [= <-]; constructor|].
  destruct (get_message k) as [m|]; [|apply IH]. destruct (Nat.leb rem (length buf)) eqn:L; [|discriminate].
  destruct (diags buf e) as [t|]; [|discriminate]. intros [= <-]. constructor; [|now apply IH].
  exists (length buf - rem), m. split; [lia|reflexivity].
Qed.
