(* The completeness direction of the template-level parser: a declarative grammar of template
   expressions ([PI] and its companions) whose lexical pieces -- layout, Rust fragments -- are
   given by what the lexical parsers (spacelike, expression, cond_expression, loop_expression,
   for_variable, rust_name) do on the text at hand, and the theorem that template_expression
   returns exactly the AST the grammar derives.  Every way of laying out the same AST is a
   derivation of the same AST, so layout cannot change what is parsed (C15), blocks nest as written
   (C03), block arguments are captured in order (C04). *)
From Coq Require Import Lia.
From Ructe Require Import Nom NomFacts Utf8 Spacelike Expression TemplateExpr Template
     ParserProofs DiagProofs SpaceProofs TextProofs.
Local Open Scope string_scope.
Local Open Scope list_scope.

(* ---- evaluating combinators on inputs where the parts are known ---- *)
Lemma bind_ok {A B} (p : parser A) (f : A -> parser B) i a r : p i = Ok a r -> bind p f i = f a r.
Proof. intros H. unfold bind. now rewrite H. Qed.
Lemma pmap_ok {A B} (g : A -> B) (p : parser A) i a r : p i = Ok a r -> pmap g p i = Ok (g a) r.
Proof. intros H. unfold pmap. now rewrite H. Qed.
Lemma context_ok {A} m (p : parser A) i a r : p i = Ok a r -> context m p i = Ok a r.
Proof. intros H. unfold context. now rewrite H. Qed.
Lemma opt_ok {A} (p : parser A) i a r : p i = Ok a r -> opt p i = Ok (Some a) r.
Proof. intros H. unfold opt. now rewrite H. Qed.
Lemma opt_err {A} (p : parser A) i e : p i = Err e -> opt p i = Ok None i.
Proof. intros H. unfold opt. now rewrite H. Qed.
Lemma preceded_ok {A B} (p : parser A) (q : parser B) i a r : p i = Ok a r -> preceded p q i = q r.
Proof. intros H. unfold preceded. now apply bind_ok with (a := a). Qed.
Lemma terminated_ok {A B} (p : parser A) (q : parser B) i a r x r' : p i = Ok a r -> q r = Ok x r' -> terminated p q i = Ok a r'.
Proof. intros H1 H2. unfold terminated, bind, pmap. now rewrite H1, H2. Qed.
Lemma delimited_ok {A B C} (p : parser A) (q : parser B) (s : parser C) i a r1 x r2 y r3 :
  p i = Ok a r1 -> q r1 = Ok x r2 -> s r2 = Ok y r3 -> delimited p q s i = Ok x r3.
Proof. intros H1 H2 H3. unfold delimited. rewrite (preceded_ok _ _ _ _ _ H1). now apply terminated_ok with (r := r2) (x := y). Qed.
Lemma pair_ok {A B} (p : parser A) (q : parser B) i a r x r' : p i = Ok a r -> q r = Ok x r' -> pair p q i = Ok (a, x) r'.
Proof. intros H1 H2. unfold pair, bind, pmap. now rewrite H1, H2. Qed.
Lemma strip_prefix_app t r : strip_prefix t (t ++ r) = Some r.
Proof. induction t as [|x t IH]; [reflexivity|]. cbn [app strip_prefix]. now rewrite N.eqb_refl. Qed.
Lemma tag_ok t r : tag t (t ++ r) = Ok t r.
Proof. unfold tag. now rewrite strip_prefix_app. Qed.
Lemma char_ok c r : char c (c :: r) = Ok c r.
Proof. cbn [char]. now rewrite N.eqb_refl. Qed.
Lemma char_ne c x r : N.eqb x c = false -> exists e, char c (x :: r) = Err e.
Proof. intros H. cbn [char]. rewrite H. eexists. reflexivity. Qed.
Lemma alt'_first {A} (p : parser A) ps last i a r : p i = Ok a r -> alt' (p :: ps) last i = Ok a r.
Proof. intros H. cbn [alt']. now rewrite H. Qed.
Lemma alt'_skip {A} (p : parser A) ps last i e : p i = Err e -> alt' (p :: ps) last i = alt' ps e i.
Proof. intros H. cbn [alt']. now rewrite H. Qed.

(* ---- loops over a known chain of steps ---- *)
(* [steps f l i r]: running f repeatedly from i yields the items l one after the other and arrives
   at r, consuming at every step *)
Fixpoint steps {A} (f : parser A) (l : list A) (i r : bytes) : Prop :=
  match l with
  | [] => i = r
  | a :: l' => exists i1, f i = Ok a i1 /\ List.length i1 < List.length i /\ steps f l' i1 r
  end.

Lemma many_till_aux_fuel {A B} (f : parser A) (g : parser B) : sfx f -> forall n m i, List.length i <= n -> List.length i <= m ->
  many_till_aux f g n i = many_till_aux f g m i.
Proof.
  intros Hf.
  assert (Hnil : forall k, many_till_aux f g k [] = many_till_aux f g 0 []).
  { intros [|k]; [reflexivity|]. cbn [many_till_aux]. destruct (g []); try reflexivity. destruct (f []) as [a r| |] eqn:E; try reflexivity.
    pose proof (sfx_len f Hf _ _ _ E) as L. destruct r; [reflexivity|cbn [List.length] in L; lia]. }
  induction n as [|n IH]; intros m i Hn Hm.
  - destruct i; [|cbn [List.length] in Hn; lia]. symmetry. apply Hnil.
  - destruct m as [|m].
    + destruct i; [apply Hnil|cbn [List.length] in Hm; lia].
    + cbn [many_till_aux]. destruct (g i); try reflexivity. destruct (f i) as [a r| |] eqn:E; try reflexivity.
      pose proof (sfx_len f Hf _ _ _ E) as Hl.
      destruct (Nat.eqb_spec (List.length r) (List.length i)); [reflexivity|].
      rewrite (IH m r) by lia. reflexivity.
Qed.
Lemma many_till_step {A B} (f : parser A) (g : parser B) (Hf : sfx f) i :
  many_till f g i = match g i with
                    | Ok x r => Ok ([], x) r
                    | Abort k => Abort k
                    | Err _ => match f i with
                               | Err e => Err (push i ENom e)
                               | Abort k => Abort k
                               | Ok a r => if Nat.eqb (length r) (length i) then err1 i ENom
                                           else match many_till f g r with Ok (l, x) r' => Ok (a :: l, x) r' | Err e => Err e | Abort k => Abort k end
                               end
                    end.
Proof.
  unfold many_till. destruct i as [|x i]; cbn [many_till_aux List.length].
  - destruct (g []); try reflexivity. destruct (f []) as [a r| |] eqn:E; try reflexivity.
    pose proof (sfx_len f Hf _ _ _ E) as L. destruct r; [reflexivity|cbn [List.length] in L; lia].
  - destruct (g (x :: i)); try reflexivity. destruct (f (x :: i)) as [a r| |] eqn:E; try reflexivity.
    pose proof (sfx_len f Hf _ _ _ E) as Hl. cbn [List.length] in Hl.
    destruct (Nat.eqb_spec (List.length r) (S (List.length i))); [reflexivity|].
    rewrite (many_till_aux_fuel f g Hf (List.length i) (List.length r) r) by lia. reflexivity.
Qed.

(* many_till over a chain: the stop parser fails before every item and succeeds at the end *)
Lemma many_till_steps {A B} (f : parser A) (g : parser B) (Hf : sfx f) : forall l i r x r',
  steps f l i r -> (forall j a j', f j = Ok a j' -> exists e, g j = Err e) -> g r = Ok x r' ->
  many_till f g i = Ok (l, x) r'.
Proof.
  induction l as [|a l IH]; intros i r x r' S Hg Hend; cbn [steps] in S.
  - subst i. rewrite (many_till_step f g Hf). now rewrite Hend.
  - destruct S as [i1 [F [L S]]]. rewrite (many_till_step f g Hf). destruct (Hg _ _ _ F) as [e He]. rewrite He, F.
    destruct (Nat.eqb_spec (length i1) (length i)); [lia|]. now rewrite (IH _ _ _ _ S Hg Hend).
Qed.
(* many0 over a chain: the element parser fails where the chain ends *)
Lemma many0_steps {A} (f : parser A) (Hf : sfx f) : forall l i r e, steps f l i r -> f r = Err e -> many0 f i = Ok l r.
Proof.
  induction l as [|a l IH]; intros i r e S Hend; cbn [steps] in S.
  - subst i. rewrite (many0_step f Hf). now rewrite Hend.
  - destruct S as [i1 [F [L S]]]. rewrite (many0_step f Hf), F.
    destruct (Nat.eqb_spec (length i1) (length i)); [lia|]. now rewrite (IH _ _ _ S Hend).
Qed.
Lemma steps_context {A} m (f : parser A) : forall l i r, steps f l i r -> steps (context m f) l i r.
Proof.
  induction l as [|a l IH]; intros i r S; cbn [steps] in *; [exact S|].
  destruct S as [i1 [F [L S]]]. exists i1. split; [now apply context_ok|]. split; [exact L|now apply IH].
Qed.

(* ---- the declarative grammar ---- *)
Section Grammar.
  Variable E : nt -> parser bytes.
  Hypothesis HE : forall x, good (E x).
  Variable ln : nat.

  Notation sp i j := (spacelike i = Ok tt j).
  Definition kw_if : bytes := b "if ".
  Definition kw_for : bytes := b "for ".
  Definition kw_match : bytes := b "match ".

  (* [PI d t i r]: the text i starts with one template expression whose AST is t (nesting at most
     d) and continues with r.  Layout and Rust fragments are whatever the lexical parsers take. *)
  Inductive PI : nat -> texpr -> bytes -> bytes -> Prop :=
  | PI_text d run r : run <> [] -> Forall (fun c => plain c = true) run -> utf8_valid run = true -> text_stop r ->
      PI d (TText run) (run ++ r) r
  | PI_esc d c r : In c [64%N; 123%N; 125%N] -> PI d (TText [c]) (64%N :: c :: r) r
  | PI_cmt d i r : comment_tail i = Ok tt r -> PI d TComment (64%N :: 42%N :: i) r
  | PI_expr d e i r : dispatch (64%N :: i) = Ok [] i -> expression E i = Ok e r -> PI d (TExpr e) (64%N :: i) r
  | PI_paren d e i r : expr_inside_parens E i = Ok e (41%N :: r) -> PI d (TExpr (b "(" ++ e ++ b ")")) (64%N :: 40%N :: i) r
  | PI_call d name args i i1 r : rust_name i = Ok name (40%N :: i1) -> PArgs d args i1 (41%N :: r) ->
      PI (S d) (TCall name args) (64%N :: 58%N :: i) r
  | PI_if d t i r : PIf d t i r -> PI (S d) t (64%N :: kw_if ++ i) r
  | PI_for d name expr body i i1 i2 i3 i4 r :
      for_variable E i = Ok name (b "in" ++ i1) -> sp i1 i2 -> loop_expression E i2 = Ok expr i3 -> sp i3 (123%N :: i4) ->
      PIs d body i4 (125%N :: r) ->
      PI (S d) (TFor name expr body) (64%N :: kw_for ++ i) r
  | PI_match d e arms i i1 i2 i3 r :
      sp i i1 -> expression E i1 = Ok e i2 -> sp i2 (123%N :: i3) -> PArms d arms i3 r ->
      PI (S d) (TMatch e arms) (64%N :: kw_match ++ i) r
  (* what follows "@if " / "else if": condition, block, optional else *)
  with PIf : nat -> texpr -> bytes -> bytes -> Prop :=
  | PIf_mk d c body els i i1 i2 i3 i4 r :
      sp i i1 -> cond_expression E ln i1 = Ok c i2 -> sp i2 (123%N :: i3) -> PIs d body i3 (125%N :: i4) -> PElse d els i4 r ->
      PIf (S d) (TIf c body els) i r
  with PElse : nat -> option (list texpr) -> bytes -> bytes -> Prop :=
  | PElse_none d r : (exists e, delimited spacelike (tag (b "else")) spacelike r = Err e) -> PElse d None r r
  | PElse_block d body i i1 i2 r : sp i (b "else" ++ i1) -> sp i1 (123%N :: i2) -> PIs d body i2 (125%N :: r) ->
      PElse d (Some body) i r
  | PElse_if d t i i1 i2 r : sp i (b "else" ++ i1) -> sp i1 (b "if" ++ i2) -> PIf d t i2 r -> PElse d (Some [t]) i r
  (* a sequence of template expressions *)
  with PIs : nat -> list texpr -> bytes -> bytes -> Prop :=
  | PIs_nil d r : PIs d [] r r
  | PIs_cons d t l i i1 r : PI d t i i1 -> PIs d l i1 r -> PIs d (t :: l) i r
  (* call arguments, up to the closing parenthesis *)
  with PArgs : nat -> list targ -> bytes -> bytes -> Prop :=
  | PArgs_nil d r : (exists e, expression E (41%N :: r) = Err e) -> PArgs d [] (41%N :: r) (41%N :: r)
  | PArgs_cons d a l i i1 r : PArg d a i i1 -> PArgsRest d l i1 r -> PArgs d (a :: l) i r
  with PArgsRest : nat -> list targ -> bytes -> bytes -> Prop :=
  | PArgsRest_nil d r : PArgsRest d [] (41%N :: r) (41%N :: r)
  | PArgsRest_cons d a l i1 i2 i3 r : sp i1 i2 -> PArg d a i2 i3 -> PArgsRest d l i3 r -> PArgsRest d (a :: l) (44%N :: i1) r
  with PArg : nat -> targ -> bytes -> bytes -> Prop :=
  | PArg_body d items i i1 r : PIs d items i (125%N :: i1) -> sp i1 r -> PArg d (ABody items) (123%N :: i) r
  | PArg_rust d e i r : (forall t, i <> 123%N :: t) -> i <> [] -> expression E i = Ok e r -> PArg d (ARust e) i r
  (* match arms, up to the closing brace of the match *)
  with PArms : nat -> list (bytes * list texpr) -> bytes -> bytes -> Prop :=
  | PArms_nil d i r : sp i (125%N :: r) -> PArms d [] i r
  | PArms_cons d pat body arms i i1 i2 i3 i4 i5 r :
      sp i i1 -> (forall t, i1 <> 125%N :: t) -> expression E i1 = Ok pat i2 -> sp i2 (b "=>" ++ i3) -> sp i3 (123%N :: i4) ->
      PIs d body i4 (125%N :: i5) -> PArms d arms i5 r ->
      PArms d ((pat, body) :: arms) i r.

  Scheme PI_mind := Minimality for PI Sort Prop
    with PIf_mind := Minimality for PIf Sort Prop
    with PElse_mind := Minimality for PElse Sort Prop
    with PIs_mind := Minimality for PIs Sort Prop
    with PArgs_mind := Minimality for PArgs Sort Prop
    with PArgsRest_mind := Minimality for PArgsRest Sort Prop
    with PArg_mind := Minimality for PArg Sort Prop
    with PArms_mind := Minimality for PArms Sort Prop.
  Combined Scheme grammar_mind from PI_mind, PIf_mind, PElse_mind, PIs_mind, PArgs_mind, PArgsRest_mind, PArg_mind, PArms_mind.

  (* ---- one step of the parser for each production ---- *)
  Section Step.
    Variable m : nat.
    Notation te := (fun j => texpr_gram E ln m TE j).
    Notation if2 := (fun j => texpr_gram E ln m IF2 j).
    Notation TEs := (texpr_gram E ln (S m) TE).

    Let Gte : good te. Proof. apply good_eta, good_texpr_gram, HE. Qed.
    Let Gif2 : good if2. Proof. apply good_eta, good_texpr_gram, HE. Qed.

    Lemma te_not_rbrace k r a j : texpr_gram E ln k TE (125%N :: r) = Ok a j -> False.
    Proof. destruct k as [|k]; [discriminate|]. cbn. discriminate. Qed.
    Lemma te_progress k i a j : texpr_gram E ln k TE i = Ok a j -> List.length j < List.length i.
    Proof. apply (strict_texpr_TE E ln k HE). Qed.

    Lemma block_ok l i r : steps te l i (125%N :: r) -> template_block te (123%N :: i) = Ok l r.
    Proof.
      intros S. unfold template_block. rewrite (preceded_ok _ _ _ _ _ (char_ok 123 i)).
      assert (Gc : good (context (b "Error in expression starting here:") te)) by good_auto.
      assert (M : many_till (context (b "Error in expression starting here:") te) (char 125) i = Ok (l, 125%N) r);
        [|now rewrite (pmap_ok _ _ _ _ _ M)].
      apply (many_till_steps _ _ (g_sfx Gc) l i (125%N :: r) 125%N r).
      - now apply steps_context.
      - intros j a j' H. unfold context in H. destruct (te j) as [a0 j0| |] eqn:T; try discriminate.
        destruct j as [|x j]; [exists [(0, EChar 125%N)]; reflexivity|]. destruct (N.eqb x 125) eqn:X.
        + apply N.eqb_eq in X. subst x. exfalso. exact (te_not_rbrace _ _ _ _ T).
        + now apply char_ne.
      - apply char_ok.
    Qed.

    Lemma Step_cmt i r : comment_tail i = Ok tt r -> TEs (64%N :: 42%N :: i) = Ok TComment r.
    Proof.
      intros H. rewrite TE_unfold. assert (D : opt dispatch (64%N :: 42%N :: i) = Ok (Some (b "*")) i) by reflexivity.
      rewrite (bind_ok _ _ _ _ _ D). cbn [te_branch].
      change (beq (b "*") (b ":")) with false. change (beq (b "*") (b "@")) with false.
      change (beq (b "*") (b "{")) with false. change (beq (b "*") (b "}")) with false. change (beq (b "*") (b "*")) with true.
      cbv iota. unfold value. now rewrite (pmap_ok _ _ _ _ _ H).
    Qed.
    Lemma Step_expr e i r : dispatch (64%N :: i) = Ok [] i -> expression E i = Ok e r -> TEs (64%N :: i) = Ok (TExpr e) r.
    Proof.
      intros D H. rewrite TE_unfold. rewrite (bind_ok _ _ _ _ _ (opt_ok _ _ _ _ D)). cbn [te_branch].
      change (beq [] (b ":")) with false. change (beq [] (b "@")) with false. change (beq [] (b "{")) with false.
      change (beq [] (b "}")) with false. change (beq [] (b "*")) with false. change (beq [] (b "if")) with false.
      change (beq [] (b "for")) with false. change (beq [] (b "match")) with false. change (beq [] (b "(")) with false.
      change (beq [] []) with true. cbv iota. now apply pmap_ok.
    Qed.
    Lemma Step_paren e i r : expr_inside_parens E i = Ok e (41%N :: r) -> TEs (64%N :: 40%N :: i) = Ok (TExpr (b "(" ++ e ++ b ")")) r.
    Proof. intros H. change (64%N :: 40%N :: i) with (b "@(" ++ i). rewrite paren_form_lemma. now apply paren_branch_spec. Qed.
    Lemma Step_call name args i i1 r : rust_name i = Ok name (40%N :: i1) ->
      separated_list0 (terminated (tag (b ",")) spacelike) (template_argument E te) i1 = Ok args (41%N :: r) ->
      TEs (64%N :: 58%N :: i) = Ok (TCall name args) r.
    Proof.
      intros Hn Ha. rewrite TE_unfold. assert (D : opt dispatch (64%N :: 58%N :: i) = Ok (Some (b ":")) i) by reflexivity.
      rewrite (bind_ok _ _ _ _ _ D). cbn [te_branch]. change (beq (b ":") (b ":")) with true. cbv iota.
      unfold call_branch. rewrite (pmap_ok _ _ _ (name, args) r); [reflexivity|].
      eapply pair_ok; [exact Hn|]. eapply delimited_ok; [apply char_ok|exact Ha|apply char_ok].
    Qed.
    Lemma Step_if t i r : if2 i = Ok t r -> TEs (64%N :: kw_if ++ i) = Ok t r.
    Proof.
      intros H. rewrite TE_unfold. assert (D : opt dispatch (64%N :: kw_if ++ i) = Ok (Some (b "if")) i) by reflexivity.
      rewrite (bind_ok _ _ _ _ _ D). cbn [te_branch].
      change (beq (b "if") (b ":")) with false. change (beq (b "if") (b "@")) with false. change (beq (b "if") (b "{")) with false.
      change (beq (b "if") (b "}")) with false. change (beq (b "if") (b "*")) with false. change (beq (b "if") (b "if")) with true.
      cbv iota. exact H.
    Qed.
    Lemma Step_for name expr body i i1 i2 i3 i4 r :
      for_variable E i = Ok name (b "in" ++ i1) -> sp i1 i2 -> loop_expression E i2 = Ok expr i3 -> sp i3 (123%N :: i4) ->
      steps te body i4 (125%N :: r) ->
      TEs (64%N :: kw_for ++ i) = Ok (TFor name expr body) r.
    Proof.
      intros Hv S1 Hl S2 Hb. rewrite TE_unfold. assert (D : opt dispatch (64%N :: kw_for ++ i) = Ok (Some (b "for")) i) by reflexivity.
      rewrite (bind_ok _ _ _ _ _ D). cbn [te_branch].
      change (beq (b "for") (b ":")) with false. change (beq (b "for") (b "@")) with false. change (beq (b "for") (b "{")) with false.
      change (beq (b "for") (b "}")) with false. change (beq (b "for") (b "*")) with false. change (beq (b "for") (b "if")) with false.
      change (beq (b "for") (b "for")) with true. cbv iota.
      unfold for_branch. rewrite (pmap_ok _ _ _ (name, expr, body) r); [reflexivity|].
      eapply pair_ok; [eapply pair_ok; [exact Hv|]|].
      - eapply delimited_ok; [|apply context_ok; exact Hl|exact S2].
        eapply terminated_ok; [apply context_ok, tag_ok|exact S1].
      - apply context_ok. now apply block_ok.
    Qed.

    Lemma steps_len {A} (f : parser A) : forall l i r, steps f l i r -> List.length r <= List.length i.
    Proof.
      induction l as [|a l IH]; intros i r S; cbn [steps] in S; [subst; lia|].
      destruct S as [i1 [_ [L S]]]. specialize (IH _ _ S). lia.
    Qed.
    Lemma sp_len i j : sp i j -> List.length j <= List.length i.
    Proof. apply (sfx_len spacelike (g_sfx good_spacelike)). Qed.
    Lemma expression_len i e r : expression E i = Ok e r -> List.length r <= List.length i.
    Proof. apply (sfx_len _ (g_sfx (good_expression E HE))). Qed.

    (* the else part of an @if *)
    Definition else_part : parser (option (list texpr)) :=
      opt (preceded (delimited spacelike (tag (b "else")) spacelike)
                    (alt [ preceded (tag (b "if")) (pmap (fun e => [e]) if2); template_block te ])).
    Lemma else_none r : (exists e, delimited spacelike (tag (b "else")) spacelike r = Err e) -> else_part r = Ok None r.
    Proof. intros [e H]. unfold else_part. eapply opt_err. unfold preceded, bind. rewrite H. reflexivity. Qed.
    Lemma else_block body i i1 i2 r : sp i (b "else" ++ i1) -> sp i1 (123%N :: i2) -> steps te body i2 (125%N :: r) ->
      else_part i = Ok (Some body) r.
    Proof.
      intros S1 S2 Hb. unfold else_part. apply opt_ok.
      rewrite (preceded_ok _ _ _ _ _ (delimited_ok _ _ _ _ _ _ _ _ _ _ S1 (tag_ok _ _) S2)).
      unfold alt. assert (F : exists e, preceded (tag (b "if")) (pmap (fun e => [e]) if2) (123%N :: i2) = Err e) by (eexists; reflexivity).
      destruct F as [e F]. rewrite (alt'_skip _ _ _ _ _ F). apply alt'_first. now apply block_ok.
    Qed.
    Lemma else_if t i i1 i2 r : sp i (b "else" ++ i1) -> sp i1 (b "if" ++ i2) -> if2 i2 = Ok t r -> else_part i = Ok (Some [t]) r.
    Proof.
      intros S1 S2 H. unfold else_part. apply opt_ok.
      rewrite (preceded_ok _ _ _ _ _ (delimited_ok _ _ _ _ _ _ _ _ _ _ S1 (tag_ok _ _) S2)).
      unfold alt. apply alt'_first. rewrite (preceded_ok _ _ _ _ _ (tag_ok _ _)).
      exact (pmap_ok (fun e => [e]) if2 i2 t r H).
    Qed.
    Lemma Step_if2 c body els i i1 i2 i3 i4 r :
      sp i i1 -> cond_expression E ln i1 = Ok c i2 -> sp i2 (123%N :: i3) -> steps te body i3 (125%N :: i4) -> else_part i4 = Ok els r ->
      texpr_gram E ln (S m) IF2 i = Ok (TIf c body els) r.
    Proof.
      intros S1 Hc S2 Hb He. change (texpr_gram E ln (S m) IF2 i) with (if2_body E ln te if2 i).
      unfold if2_body. apply context_ok. rewrite (pmap_ok _ _ _ (c, body, els) r); [reflexivity|].
      eapply pair_ok; [eapply pair_ok|].
      - eapply delimited_ok; [exact S1|exact Hc|exact S2].
      - eapply block_ok. exact Hb.
      - exact He.
    Qed.

    (* @match *)
    Definition arm_parser : parser (bytes * list texpr) :=
      context (b "Error in match arm starting here:")
        (pair (delimited spacelike (expression E) spacelike) (preceded (terminated (tag (b "=>")) spacelike) (template_block te))).
    Definition arms_stop : parser N := preceded spacelike (char 125).
    Lemma good_arm_parser : good arm_parser.
    Proof. unfold arm_parser. pose proof good_spacelike. pose proof (good_expression E HE). pose proof (good_template_block te Gte). good_auto. Qed.
    Lemma arms_nil i r : sp i (125%N :: r) -> many_till arm_parser arms_stop i = Ok ([], 125%N) r.
    Proof.
      intros S. rewrite (many_till_step _ _ (g_sfx good_arm_parser)). unfold arms_stop.
      rewrite (preceded_ok _ _ _ _ _ S), char_ok. reflexivity.
    Qed.
    Lemma arms_cons pat body arms i i1 i2 i3 i4 i5 r :
      sp i i1 -> (forall t, i1 <> 125%N :: t) -> expression E i1 = Ok pat i2 -> sp i2 (b "=>" ++ i3) -> sp i3 (123%N :: i4) ->
      steps te body i4 (125%N :: i5) -> many_till arm_parser arms_stop i5 = Ok (arms, 125%N) r ->
      many_till arm_parser arms_stop i = Ok ((pat, body) :: arms, 125%N) r.
    Proof.
      intros S1 N1 He S2 S3 Hb Hr. rewrite (many_till_step _ _ (g_sfx good_arm_parser)).
      assert (F : exists e, arms_stop i = Err e).
      { unfold arms_stop. rewrite (preceded_ok _ _ _ _ _ S1). destruct i1 as [|x t]; [eexists; reflexivity|].
        apply char_ne. destruct (N.eqb x 125) eqn:X; [|reflexivity]. apply N.eqb_eq in X. subst x. exfalso. now apply (N1 t). }
      destruct F as [e F]. rewrite F.
      assert (A : arm_parser i = Ok (pat, body) i5).
      { unfold arm_parser. apply context_ok. eapply pair_ok; [eapply delimited_ok; [exact S1|exact He|exact S2]|].
        rewrite (preceded_ok _ _ _ _ _ (terminated_ok _ _ _ _ _ _ _ (tag_ok _ _) S3)). now apply block_ok. }
      rewrite A.
      pose proof (sp_len _ _ S1). pose proof (expression_len _ _ _ He). pose proof (sp_len _ _ S2). pose proof (sp_len _ _ S3).
      pose proof (steps_len _ _ _ _ Hb). rewrite app_length in *. cbn [List.length b map String.list_ascii_of_string] in *.
      destruct (Nat.eqb_spec (length i5) (length i)); [lia|]. now rewrite Hr.
    Qed.
    Lemma Step_match e arms i i1 i2 i3 r :
      sp i i1 -> expression E i1 = Ok e i2 -> sp i2 (123%N :: i3) -> many_till arm_parser arms_stop i3 = Ok (arms, 125%N) r ->
      TEs (64%N :: kw_match ++ i) = Ok (TMatch e arms) r.
    Proof.
      intros S1 He S2 Ha. rewrite TE_unfold. assert (D : opt dispatch (64%N :: kw_match ++ i) = Ok (Some (b "match")) i) by reflexivity.
      rewrite (bind_ok _ _ _ _ _ D). cbn [te_branch].
      change (beq (b "match") (b ":")) with false. change (beq (b "match") (b "@")) with false. change (beq (b "match") (b "{")) with false.
      change (beq (b "match") (b "}")) with false. change (beq (b "match") (b "*")) with false. change (beq (b "match") (b "if")) with false.
      change (beq (b "match") (b "for")) with false. change (beq (b "match") (b "match")) with true. cbv iota.
      unfold match_branch. apply context_ok. rewrite (pmap_ok _ _ _ (e, arms) r); [reflexivity|].
      eapply pair_ok; [eapply delimited_ok; [exact S1|exact He|exact S2]|].
      rewrite (preceded_ok _ _ _ _ _ (char_ok 123 i3)). fold arm_parser. fold arms_stop. now rewrite (pmap_ok _ _ _ _ _ Ha).
    Qed.

    (* call arguments *)
    Notation SEP := (terminated (tag (b ",")) spacelike).
    Notation ARG := (template_argument E te).
    Hypothesis Mpos : 0 < m.
    Lemma te_rbrace_err r : exists e, te (125%N :: r) = Err e.
    Proof. destruct m as [|k]; [lia|]. cbn. eexists. reflexivity. Qed.
    Lemma arg_body items i i1 r : steps te items i (125%N :: i1) -> sp i1 r -> ARG (123%N :: i) = Ok (ABody items) r.
    Proof.
      intros Hb S. unfold template_argument, alt. apply alt'_first. apply pmap_ok.
      destruct (te_rbrace_err i1) as [e Fe].
      eapply delimited_ok; [apply char_ok|apply (many0_steps te (g_sfx Gte) _ _ _ _ Hb Fe)|].
      eapply terminated_ok; [apply char_ok|exact S].
    Qed.
    Lemma arg_rust e i r : (forall t, i <> 123%N :: t) -> i <> [] -> expression E i = Ok e r -> ARG i = Ok (ARust e) r.
    Proof.
      intros N1 N2 He. unfold template_argument, alt.
      assert (F : exists e0, pmap ABody (delimited (char 123) (many0 te) (terminated (char 125) spacelike)) i = Err e0).
      { destruct i as [|x t]; [congruence|]. destruct (N.eqb x 123) eqn:X.
        - apply N.eqb_eq in X. subst x. exfalso. now apply (N1 t).
        - unfold pmap, delimited, preceded, bind. cbn [char]. rewrite X. eexists. reflexivity. }
      destruct F as [e0 F]. rewrite (alt'_skip _ _ _ _ _ F). apply alt'_first. now apply pmap_ok.
    Qed.
    Lemma arg_len a i r : ARG i = Ok a r -> List.length r <= List.length i.
    Proof. apply (sfx_len _ (g_sfx (good_template_argument E HE te Gte))). Qed.
    Lemma args_rest_nil n r : sep_rest SEP ARG n (41%N :: r) = Ok [] (41%N :: r).
    Proof. destruct n; reflexivity. Qed.
    Lemma args_rest_cons a l i1 i2 i3 r n : sp i1 i2 -> ARG i2 = Ok a i3 ->
      (forall k, List.length i3 <= k -> sep_rest SEP ARG k i3 = Ok l r) ->
      List.length (44%N :: i1) <= n -> sep_rest SEP ARG n (44%N :: i1) = Ok (a :: l) r.
    Proof.
      intros Hs Ha Hr Ln. destruct n as [|n]; [cbn [List.length] in Ln; lia|].
      cbn [sep_rest]. change (44%N :: i1) with (b "," ++ i1). rewrite (terminated_ok _ _ _ _ _ _ _ (tag_ok _ _) Hs), Ha.
      pose proof (sp_len _ _ Hs). pose proof (arg_len _ _ _ Ha). cbn [app b map String.list_ascii_of_string List.length] in *.
      destruct (Nat.eqb_spec (length i3) (S (length i1))); [lia|]. rewrite Hr by lia. reflexivity.
    Qed.
    Lemma args_nil r : (exists e, expression E (41%N :: r) = Err e) ->
      separated_list0 SEP ARG (41%N :: r) = Ok [] (41%N :: r).
    Proof.
      intros [e He]. unfold separated_list0.
      assert (F : exists e0, ARG (41%N :: r) = Err e0).
      { unfold template_argument, alt. cbn [alt']. unfold pmap at 1, delimited, preceded, bind. cbn [char].
        change (N.eqb 41 123) with false. cbv iota. unfold pmap. rewrite He. eexists. reflexivity. }
      destruct F as [e0 F]. now rewrite F.
    Qed.
    Lemma args_cons a l i i1 r : ARG i = Ok a i1 -> (forall k, List.length i1 <= k -> sep_rest SEP ARG k i1 = Ok l r) ->
      separated_list0 SEP ARG i = Ok (a :: l) r.
    Proof. intros Ha Hr. unfold separated_list0. rewrite Ha, Hr by lia. reflexivity. Qed.
  End Step.

  Notation TEm m := (fun j => texpr_gram E ln m TE j).
  Notation SEP := (terminated (tag (b ",")) spacelike).

  (* the parser returns the AST the grammar derives, at every fuel above the nesting depth *)
  Theorem grammar_complete :
    (forall d t i r, PI d t i r -> forall m, d < m -> texpr_gram E ln m TE i = Ok t r) /\
    (forall d t i r, PIf d t i r -> forall m, d < m -> texpr_gram E ln m IF2 i = Ok t r) /\
    (forall d els i r, PElse d els i r -> forall m, d < m -> else_part m i = Ok els r) /\
    (forall d l i r, PIs d l i r -> forall m, d < m -> steps (TEm m) l i r) /\
    (forall d l i r, PArgs d l i r -> forall m, d < m -> separated_list0 SEP (template_argument E (TEm m)) i = Ok l r) /\
    (forall d l i r, PArgsRest d l i r -> forall m, d < m -> forall k, List.length i <= k -> sep_rest SEP (template_argument E (TEm m)) k i = Ok l r) /\
    (forall d a i r, PArg d a i r -> forall m, d < m -> template_argument E (TEm m) i = Ok a r) /\
    (forall d arms i r, PArms d arms i r -> forall m, d < m -> many_till (arm_parser m) arms_stop i = Ok (arms, 125%N) r).
  Proof.
    apply grammar_mind.
    - (* text *) intros d run r H1 H2 H3 H4 m Hm. destruct m as [|m]; [lia|]. now apply text_run_capture_lemma.
    - (* escapes *) intros d c r Hc m Hm. destruct m as [|m]; [lia|].
      destruct (escape_tokens_lemma E ln m r) as [A [B C]]. cbn [In] in Hc.
      destruct Hc as [<-|[<-|[<-|[]]]]; assumption.
    - (* comment *) intros d i r H m Hm. destruct m as [|m]; [lia|]. now apply Step_cmt.
    - (* @expr *) intros d e i r D H m Hm. destruct m as [|m]; [lia|]. now apply Step_expr.
    - (* @( ) *) intros d e i r H m Hm. destruct m as [|m]; [lia|]. now apply Step_paren.
    - (* call *) intros d name args i i1 r Hn _ IH m Hm. destruct m as [|m]; [lia|].
      eapply Step_call; [exact Hn|]. apply IH. lia.
    - (* if *) intros d t i r _ IH m Hm. destruct m as [|m]; [lia|]. apply Step_if. apply IH. lia.
    - (* for *) intros d name expr body i i1 i2 i3 i4 r Hv S1 Hl S2 _ IH m Hm. destruct m as [|m]; [lia|].
      eapply Step_for; [exact Hv|exact S1|exact Hl|exact S2|]. apply IH. lia.
    - (* match *) intros d e arms i i1 i2 i3 r S1 He S2 _ IH m Hm. destruct m as [|m]; [lia|].
      eapply Step_match; [exact S1|exact He|exact S2|]. apply IH. lia.
    - (* if body *) intros d c body els i i1 i2 i3 i4 r S1 Hc S2 _ IHb _ IHe m Hm. destruct m as [|m]; [lia|].
      eapply Step_if2; [exact S1|exact Hc|exact S2|apply IHb; lia|apply IHe; lia].
    - (* no else *) intros d r H m Hm. now apply else_none.
    - (* else block *) intros d body i i1 i2 r S1 S2 _ IH m Hm. eapply else_block; [exact S1|exact S2|]. now apply IH.
    - (* else if *) intros d t i i1 i2 r S1 S2 _ IH m Hm. eapply else_if; [exact S1|exact S2|]. now apply IH.
    - (* items *) intros d r m Hm. reflexivity.
    - intros d t l i i1 r _ IH1 _ IH2 m Hm. cbn [steps]. exists i1. split; [now apply IH1|]. split; [|now apply IH2].
      apply (te_progress m i t). now apply IH1.
    - (* args *) intros d r H m Hm. apply args_nil; try lia; exact H.
    - intros d a l i i1 r _ IHa _ IHr m Hm. eapply args_cons; try lia; [now apply IHa|]. intros k Hk. now apply IHr.
    - intros d r m Hm k Hk. apply args_rest_nil; lia.
    - intros d a l i1 i2 i3 r S1 _ IHa _ IHr m Hm k Hk. eapply args_rest_cons; try lia; first [exact S1 | now apply IHa | (intros k2 Hk2; now apply IHr)].
    - (* one arg *) intros d items i i1 r _ IH S1 m Hm. eapply arg_body; try lia; [now apply IH|exact S1].
    - intros d e i r N1 N2 He m Hm. apply arg_rust; try lia; assumption.
    - (* arms *) intros d i r S1 m Hm. now apply arms_nil.
    - intros d pat body arms i i1 i2 i3 i4 i5 r S1 N1 He S2 S3 _ IHb _ IHa m Hm.
      eapply arms_cons; [exact S1|exact N1|exact He|exact S2|exact S3|now apply IHb|now apply IHa].
  Qed.

  (* a block, and the body of a whole template *)
  Corollary block_complete d l i r m : PIs d l i (125%N :: r) -> d < m -> template_block (TEm m) (123%N :: i) = Ok l r.
  Proof. intros H Hm. apply block_ok. now apply (proj1 (proj2 (proj2 (proj2 grammar_complete))) d l i _ H m Hm). Qed.
  Corollary body_complete d l i m : PIs d l i [] -> d < m ->
    many_till (context (b "Error in expression starting here:") (TEm m)) end_of_file i = Ok (l, tt) [].
  Proof.
    intros H Hm. pose proof (proj1 (proj2 (proj2 (proj2 grammar_complete))) d l i _ H m Hm) as S.
    assert (Gte : good (TEm m)) by apply good_eta, good_texpr_gram, HE.
    assert (Gc : good (context (b "Error in expression starting here:") (TEm m))) by good_auto.
    apply (many_till_steps _ _ (g_sfx Gc) l i [] tt []); [now apply steps_context| |reflexivity].
    intros j a j' Hj. unfold context in Hj. destruct (texpr_gram E ln m TE j) as [a0 j0| |] eqn:T; try discriminate.
    pose proof (te_progress m j a0 j0 T). destruct j; [cbn in *; lia|]. eexists. reflexivity.
  Qed.

  (* layout given syntactically *)
  Lemma sp_layout s rest : layout s -> stops rest -> spacelike (s ++ rest) = Ok tt rest.
  Proof. apply spacelike_skips_lemma. Qed.
End Grammar.

(* ---- building derivations for concrete texts ---- *)
(* evaluate the closed left-hand side of a lexical side condition, then unify *)
Ltac lex := match goal with |- ?l = _ => let v := eval vm_compute in l in change l with v end; reflexivity.

(* derivation search on concrete texts: the AST drives the choice of production, the lexical side
   conditions are evaluated *)
Ltac nobrace := intros ?t; discriminate.
Ltac pi_item :=
  lazymatch goal with
  | |- PI _ _ _ (TText ?t) _ _ => first [ apply PI_esc; cbn; tauto
                                        | eapply (PI_text _ _ _ t); [discriminate|repeat constructor|reflexivity|first [now left | right; eexists; eexists; split; reflexivity]] ]
  | |- PI _ _ _ TComment _ _ => apply PI_cmt; lex
  | |- PI _ _ _ (TExpr _) _ _ => first [ apply PI_paren; lex | apply PI_expr; [lex|lex] ]
  | |- PI _ _ _ (TCall _ _) _ _ => eapply PI_call; [lex|pi_args]
  | |- PI _ _ _ (TIf _ _ _) _ _ => apply PI_if; pi_if
  | |- PI _ _ _ (TFor _ _ _) _ _ => eapply PI_for; [lex|lex|lex|lex|pi_items]
  | |- PI _ _ _ (TMatch _ _) _ _ => eapply PI_match; [lex|lex|lex|pi_arms]
  end
with pi_items :=
  lazymatch goal with
  | |- PIs _ _ _ [] _ _ => apply PIs_nil
  | |- PIs _ _ _ (_ :: _) _ _ => eapply PIs_cons; [pi_item|pi_items]
  end
with pi_if :=
  eapply PIf_mk; [lex|lex|lex|pi_items|pi_else]
with pi_else :=
  lazymatch goal with
  | |- PElse _ _ _ None _ _ => apply PElse_none; eexists; lex
  | |- PElse _ _ _ (Some _) _ _ => first [ eapply PElse_block; [lex|lex|pi_items] | eapply PElse_if; [lex|lex|pi_if] ]
  end
with pi_args :=
  lazymatch goal with
  | |- PArgs _ _ _ [] _ _ => apply PArgs_nil; eexists; lex
  | |- PArgs _ _ _ (_ :: _) _ _ => eapply PArgs_cons; [pi_arg|pi_rest]
  end
with pi_rest :=
  lazymatch goal with
  | |- PArgsRest _ _ _ [] _ _ => apply PArgsRest_nil
  | |- PArgsRest _ _ _ (_ :: _) _ _ => eapply PArgsRest_cons; [lex|pi_arg|pi_rest]
  end
with pi_arg :=
  lazymatch goal with
  | |- PArg _ _ _ (ABody _) _ _ => eapply PArg_body; [pi_items|lex]
  | |- PArg _ _ _ (ARust _) _ _ => apply PArg_rust; [nobrace|discriminate|lex]
  end
with pi_arms :=
  lazymatch goal with
  | |- PArms _ _ _ [] _ _ => apply PArms_nil; lex
  | |- PArms _ _ _ (_ :: _) _ _ => eapply PArms_cons; [lex|nobrace|lex|lex|lex|pi_items|pi_arms]
  end.

Ltac concrete x := let v := eval vm_compute in x in change x with v.

(* ---- a whole template file: use lines, declaration, body ---- *)
Definition targs_parser : parser (option bytes) :=
  opt (delimited (terminated (tag (b "<")) multispace0)
         (context (b "expected type argument or '>'")
            (map_res (recognize (separated_list1 (terminated (tag (b ",")) multispace0)
                                   (context (b "expected lifetime declaration") (preceded (tag (b "'")) rust_name)))) to_str))
         (tag (b ">"))).
Definition args_parser (TY : tynt -> parser unit) : parser (list bytes) :=
  delimited
    (context (b "expected '('...')' template arguments declaration.") (terminated (tag (b "(")) multispace0))
    (separated_list0 (terminated (tag (b ",")) multispace0) (context (b "expected formal argument") (formal_argument TY)))
    (context (b "expected ',' or ')'.") (delimited multispace0 (tag (b ")")) spacelike)).

Section WholeTemplate.
  Variable E : nt -> parser bytes.
  Hypothesis HE : forall x, good (E x).
  Variable ln : nat.
  Variable TY : tynt -> parser unit.

  (* [PT t i]: the text i is a template whose AST is t *)
  Inductive PT : nat -> template_t -> bytes -> Prop :=
  | PT_mk d uses ta ar body i i1 i2 i3 i4 :
      spacelike i = Ok tt i1 ->
      steps use_line uses i1 (64%N :: i2) -> (exists e, use_line (64%N :: i2) = Err e) ->
      targs_parser i2 = Ok ta i3 -> args_parser TY i3 = Ok ar i4 ->
      PIs E ln d body i4 [] ->
      PT d {| preamble := uses; type_args := match ta with Some t => t | None => [] end; args := ar; body := body |} i.

  Lemma good_use_line : good use_line.
  Proof. unfold use_line. pose proof good_spacelike. good_auto. Qed.

  Lemma steps_ext {A} (f g : parser A) : (forall j, g j = f j) -> forall l i r, steps f l i r -> steps g l i r.
  Proof.
    intros Hfg. induction l as [|a l IH]; intros i r S; cbn [steps] in *; [exact S|].
    destruct S as [i1 [F [L S]]]. exists i1. split; [now rewrite Hfg|]. split; [exact L|now apply IH].
  Qed.
  Lemma body_complete_ext d l i m TEX : (forall j, TEX j = texpr_gram E ln m TE j) -> PIs E ln d l i [] -> d < m ->
    many_till (context (b "Error in expression starting here:") TEX) end_of_file i = Ok (l, tt) [].
  Proof.
    intros HX H Hm. pose proof (proj1 (proj2 (proj2 (proj2 (grammar_complete E HE ln)))) d l i _ H m Hm) as S.
    assert (Gte : good TEX).
    { apply (good_ext (fun j => texpr_gram E ln m TE j)); [intros j; symmetry; apply HX|apply good_eta, good_texpr_gram, HE]. }
    assert (Gc : good (context (b "Error in expression starting here:") TEX)) by good_auto.
    apply (many_till_steps _ _ (g_sfx Gc) l i [] tt []); [apply steps_context; now apply (steps_ext _ TEX HX) in S| |reflexivity].
    intros j a j' Hj. unfold context in Hj. rewrite HX in Hj. destruct (texpr_gram E ln m TE j) as [a0 j0| |] eqn:T; try discriminate.
    pose proof (te_progress E HE ln m j a0 j0 T). destruct j; [cbn in *; lia|]. eexists. reflexivity.
  Qed.

  Theorem template_complete d t i m TEX : (forall j, TEX j = texpr_gram E ln m TE j) -> PT d t i -> d < m ->
    template TY TEX i = Ok t [].
  Proof.
    intros HX H Hm. destruct H as [d uses ta ar body i i1 i2 i3 i4 S1 SU [e EU] HT HA HB].
    unfold template.
    rewrite (pmap_ok _ _ _ (tt, uses, b "@", ta, ar, (body, tt)) []); [reflexivity|].
    eapply pair_ok; [eapply pair_ok; [eapply pair_ok; [eapply pair_ok; [eapply pair_ok|]|]|]|].
    - exact S1.
    - exact (many0_steps use_line (g_sfx good_use_line) _ _ _ _ SU EU).
    - apply context_ok. change (64%N :: i2) with (b "@" ++ i2). apply tag_ok.
    - exact HT.
    - exact HA.
    - exact (body_complete_ext d body i4 m TEX HX HB Hm).
  Qed.
End WholeTemplate.
