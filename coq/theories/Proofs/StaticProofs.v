(* Proofs about Model/Static.v: path splitting, url names, the sorted maps, binary search,
   identifiers, static_name. *)
From Coq Require Import Lia Sorted Permutation.
From Ructe Require Import Nom Utf8 Md5 Emit Tables Static HashProofs.
Local Open Scope list_scope.

Definition no_byte (c : N) (l : bytes) : Prop := Forall (fun x => x <> c) l.

Lemma app_eq_len {A} (a c x y : list A) : length a = length c -> a ++ x = c ++ y -> a = c.
Proof.
  revert c; induction a as [|h a IH]; destruct c as [|k c]; cbn; intros L E; try discriminate; auto.
  inversion E; subst. f_equal. eapply IH; eauto.
Qed.

(* ---------------- last_comp / rsplit_dot / name_and_ext ---------------- *)
Lemma last_comp_plain f acc : no_byte 47 f -> last_comp f acc = rev acc ++ f.
Proof.
  revert acc; induction f as [|c f IH]; intros acc H; cbn [last_comp].
  - now rewrite app_nil_r.
  - inversion H; subst. destruct (N.eqb c 47) eqn:E; [apply N.eqb_eq in E; congruence|].
    rewrite IH by assumption. cbn [rev]. now rewrite <- app_assoc.
Qed.
Lemma last_comp_dir d f acc : no_byte 47 f -> last_comp (d ++ 47%N :: f) acc = f.
Proof.
  revert acc; induction d as [|c d IH]; intros acc H; cbn [app last_comp].
  - rewrite N.eqb_refl. now rewrite last_comp_plain.
  - destruct (N.eqb c 47); now rewrite IH.
Qed.

Lemma rsplit_dot_tail ext before cur seen : no_byte 46 ext ->
  rsplit_dot ext before cur seen = if seen then Some (before, cur ++ ext) else None.
Proof.
  revert cur; induction ext as [|c e IH]; intros cur H; cbn [rsplit_dot].
  - now rewrite app_nil_r.
  - inversion H; subst. destruct (N.eqb c 46) eqn:E; [apply N.eqb_eq in E; congruence|].
    rewrite IH by assumption. destruct seen; [|reflexivity]. now rewrite <- app_assoc.
Qed.
Lemma rsplit_dot_spec s ext : no_byte 46 ext -> forall before cur seen,
  rsplit_dot (s ++ 46%N :: ext) before cur seen =
  Some ((if seen then before ++ [46%N] ++ cur else cur) ++ s, ext).
Proof.
  intros He. induction s as [|c s IH]; intros before cur seen; cbn [app rsplit_dot].
  - rewrite N.eqb_refl. rewrite rsplit_dot_tail by assumption. cbn. now rewrite app_nil_r.
  - destruct (N.eqb c 46) eqn:E.
    + apply N.eqb_eq in E. subst c. rewrite IH. f_equal. f_equal.
      destruct seen; cbn; rewrite <- ?app_assoc; cbn; now rewrite ?app_nil_r.
    + rewrite IH. f_equal. f_equal. destruct seen; rewrite <- ?app_assoc; reflexivity.
Qed.

Lemma split_ext_spec stem ext : stem <> [] -> no_byte 46 ext ->
  split_ext (stem ++ 46%N :: ext) = Some (stem, ext).
Proof.
  intros Hs He. unfold split_ext. rewrite rsplit_dot_spec by assumption. cbn [app].
  destruct stem; [congruence|reflexivity].
Qed.

(* a path whose final component is stem.ext: split at the last dot of the final component *)
Lemma name_and_ext_file stem ext : stem <> [] -> no_byte 47 stem -> no_byte 46 ext -> no_byte 47 ext ->
  name_and_ext (stem ++ 46%N :: ext) = Some (stem, ext).
Proof.
  intros Hs H1 H2 H3. unfold name_and_ext. rewrite last_comp_plain.
  - cbn [rev app]. now apply split_ext_spec.
  - apply Forall_app. split; [assumption|]. constructor; [discriminate|assumption].
Qed.
Lemma name_and_ext_dir dir stem ext : stem <> [] -> no_byte 47 stem -> no_byte 46 ext -> no_byte 47 ext ->
  name_and_ext (dir ++ 47%N :: stem ++ 46%N :: ext) = Some (stem, ext).
Proof.
  intros Hs H1 H2 H3. unfold name_and_ext. rewrite last_comp_dir.
  - now apply split_ext_spec.
  - apply Forall_app. split; [assumption|]. constructor; [discriminate|assumption].
Qed.

(* ---------------- url names (C07) ---------------- *)
Section U.
  Variable uni_esc uni_alnum : N -> bool.
  Notation apply_op := (apply_op uni_esc uni_alnum).
  Notation add_static := (add_static uni_esc uni_alnum).

  Definition is_hashed (o : sop) : bool := match o with OpFileAs _ _ => false | _ => true end.
  Definition op_path (o : sop) : bytes := match o with OpFile p _ | OpFileAs p _ | OpData p _ => p end.
  Definition op_content (o : sop) : bytes := match o with OpFile _ c | OpData _ c => c | OpFileAs _ _ => [] end.

  (* the (identifier, url name) pair an operation publishes, if any: a function of the final
     path component and the content only *)
  Definition published (o : sop) : option (bytes * bytes) :=
    match o with
    | OpFileAs _ url => Some (rust_ident uni_alnum url, url)
    | OpFile p c | OpData p c =>
        match name_and_ext p with
        | Some (name, ext) => Some (rust_ident uni_alnum (name ++ b "_" ++ ext), hashed_url name ext c)
        | None => None end
    end.

  Lemma apply_op_maps mm s o :
    match published o with
    | Some (id, url) => names (apply_op mm s o) = insert id url (names s) /\
                        names_r (apply_op mm s o) = insert url id (names_r s)
    | None => apply_op mm s o = s
    end.
  Proof.
    destruct o as [p c|p u|p c]; cbn [published apply_op].
    - destruct (name_and_ext p) as [[n e]|]; [split; reflexivity|reflexivity].
    - split; reflexivity.
    - destruct (name_and_ext p) as [[n e]|]; [split; reflexivity|reflexivity].
  Qed.

  Lemma hashed_url_shape_lemma dir stem ext content (o : sop) :
    stem <> [] -> no_byte 47 stem -> no_byte 46 ext -> no_byte 47 ext ->
    (o = OpFile (dir ++ 47%N :: stem ++ 46%N :: ext) content \/
     o = OpData (dir ++ 47%N :: stem ++ 46%N :: ext) content \/
     o = OpFile (stem ++ 46%N :: ext) content \/ o = OpData (stem ++ 46%N :: ext) content) ->
    published o = Some (rust_ident uni_alnum (stem ++ b "_" ++ ext),
                        stem ++ b "-" ++ b64url (firstn 6 (md5 content)) ++ b "." ++ ext).
  Proof.
    intros Hs H1 H2 H3 [ -> | [ -> | [ -> | -> ] ] ]; cbn [published];
      rewrite ?name_and_ext_dir, ?name_and_ext_file by assumption; reflexivity.
  Qed.
End U.

(* ---------------- histories: what the maps hold after any sequence of operations ---------------- *)
From Ructe Require Import MapProofs.
Section H.
  Variable uni_esc uni_alnum : N -> bool.
  Variable mm : mime_mode.
  Variable header : bytes.
  Notation run := (run_ops uni_esc uni_alnum mm header).
  Notation pub := (published uni_alnum).

  Definition pubs (ops : list sop) : list (bytes * bytes) :=
    flat_map (fun o => match pub o with Some p => [p] | None => [] end) ops.

  Lemma run_snoc ops o : run (ops ++ [o]) = apply_op uni_esc uni_alnum mm (run ops) o.
  Proof. unfold run_ops. now rewrite fold_left_app. Qed.
  Lemma pubs_snoc ops o : pubs (ops ++ [o]) = pubs ops ++ match pub o with Some p => [p] | None => [] end.
  Proof. unfold pubs. rewrite flat_map_app. cbn. now rewrite app_nil_r. Qed.

  Lemma run_sorted ops : ssorted (map fst (names_r (run ops))) /\ ssorted (map fst (names (run ops))).
  Proof.
    induction ops as [|o ops IH] using rev_ind; [split; constructor|].
    rewrite run_snoc. pose proof (apply_op_maps uni_esc uni_alnum mm (run ops) o) as M.
    destruct (pub o) as [[id url]|].
    - destruct M as [M1 M2]. rewrite M1, M2. destruct IH. split; apply insert_keys_sorted; assumption.
    - rewrite M. exact IH.
  Qed.

  Lemma run_keys ops x :
    (In x (map fst (names_r (run ops))) <-> In x (map snd (pubs ops))) /\
    (In x (map fst (names (run ops))) <-> In x (map fst (pubs ops))).
  Proof.
    induction ops as [|o ops IH] using rev_ind; [cbn; tauto|].
    rewrite run_snoc, pubs_snoc, !map_app, !in_app_iff.
    pose proof (apply_op_maps uni_esc uni_alnum mm (run ops) o) as M.
    destruct (pub o) as [[id url]|].
    - destruct M as [M1 M2]. rewrite M1, M2, !insert_keys_in. cbn. intuition.
    - rewrite M. cbn. tauto.
  Qed.

  Lemma run_lookup ops : NoDup (map fst (pubs ops)) -> NoDup (map snd (pubs ops)) ->
    forall id url, In (id, url) (pubs ops) ->
      lookup url (names_r (run ops)) = Some id /\ lookup id (names (run ops)) = Some url.
  Proof.
    induction ops as [|o ops IH] using rev_ind; [intros _ _ id url []|].
    rewrite run_snoc, pubs_snoc, !map_app.
    pose proof (apply_op_maps uni_esc uni_alnum mm (run ops) o) as M.
    destruct (pub o) as [[i u]|].
    - cbn [map fst snd]. intros N1 N2 id url I.
      apply NoDup_remove in N1. apply NoDup_remove in N2. rewrite app_nil_r in N1, N2.
      destruct N1 as [N1 F1]. destruct N2 as [N2 F2].
      destruct M as [M1 M2]. rewrite M1, M2.
      apply in_app_iff in I. destruct I as [I|[[= <- <-]|[]]].
      + assert (url <> u). { intros ->. apply F2. change u with (snd (id, u)). now apply in_map. }
        assert (id <> i). { intros ->. apply F1. change i with (fst (i, url)). now apply in_map. }
        rewrite !lookup_insert_other by assumption. now apply IH.
      + now rewrite !lookup_insert_same.
    - cbn [map]. rewrite !app_nil_r. rewrite M. intros N1 N2 id url I. now apply IH.
  Qed.

  (* STATICS holds each added file exactly once *)
  Lemma run_complete ops : NoDup (map snd (pubs ops)) ->
    Permutation (map fst (names_r (run ops))) (map snd (pubs ops)).
  Proof.
    intros ND. apply NoDup_Permutation; [apply ssorted_nodup, run_sorted|exact ND|].
    intros x. apply run_keys.
  Qed.

  Lemma nth_map_fst (m : list (bytes * bytes)) i : i < length m ->
    exists v, nth_error m i = Some (nth i (map fst m) [], v).
  Proof.
    revert i; induction m as [|[k v] r IH]; intros i H; [cbn in H; lia|].
    destruct i; [exists v; reflexivity|]. cbn in H. cbn [map fst nth nth_error]. apply IH. lia.
  Qed.

  Lemma get_exact_lemma ops n : NoDup (map fst (pubs ops)) -> NoDup (map snd (pubs ops)) ->
    (forall id, In (id, n) (pubs ops) -> statics_get (run ops) n = Some (n, id)) /\
    (~ In n (map snd (pubs ops)) -> statics_get (run ops) n = None).
  Proof.
    intros N1 N2. unfold statics_get.
    pose proof (binary_search_correct_lemma (map fst (names_r (run ops))) n (proj1 (run_sorted ops))) as B.
    destruct (binary_search (map fst (names_r (run ops))) n) as [i|].
    - destruct B as [Hi En]. rewrite map_length in Hi.
      destruct (nth_map_fst _ _ Hi) as [v Ev]. rewrite En in Ev. split.
      + intros id I. rewrite Ev. f_equal. f_equal.
        destruct (run_lookup ops N1 N2 id n I) as [L _].
        apply nth_error_In in Ev.
        apply In_lookup in Ev; [congruence|apply ssorted_nodup, run_sorted].
      + intros NI. exfalso. apply NI. apply (proj1 (run_keys ops n)).
        apply nth_error_In in Ev. change n with (fst (n, v)). now apply in_map.
    - split; [|reflexivity]. intros id I. exfalso. apply B. apply (proj1 (run_keys ops n)).
      change n with (snd (id, n)). now apply in_map.
  Qed.
End H.

(* ---------------- identifiers (C16) ---------------- *)
Lemma utf8_decode_aux_ascii s : is_ascii s = true -> forall n, length s <= n -> utf8_decode_aux n s = Some s.
Proof.
  induction s as [|c s IH]; intros H n L; [destruct n; reflexivity|].
  cbn [is_ascii forallb] in H. apply andb_true_iff in H. destruct H as [Hc Hs].
  destruct n as [|n]; [cbn in L; lia|]. cbn [utf8_decode_aux utf8_step]. rewrite Hc.
  rewrite IH; [reflexivity|exact Hs|cbn in L; lia].
Qed.
Lemma utf8_decode_ascii s : is_ascii s = true -> utf8_decode s = Some s.
Proof. intros H. unfold utf8_decode. now apply utf8_decode_aux_ascii. Qed.

Definition subst_ident (c : N) : N := if is_alpha c || is_digit c then c else 95%N.
Definition ident_char (c : N) : bool := is_alpha c || is_digit c || N.eqb c 95.
Definition ident_ok (r : bytes) : bool :=
  match r with c :: _ => (is_alpha c || N.eqb c 95) && forallb ident_char r | [] => false end.

Section I.
  Variable uni_alnum : N -> bool.
  Lemma rust_ident_ascii s : is_ascii s = true ->
    rust_ident uni_alnum s =
      match map subst_ident s with
      | [] => [110%N]
      | c :: r => if is_digit c then 110%N :: c :: r else c :: r
      end.
  Proof.
    intros H. unfold rust_ident. rewrite (utf8_decode_ascii s H).
    assert (E : flat_map (fun c => if is_alnum_cp uni_alnum c then utf8_encode c else [95%N]) s = map subst_ident s).
    { clear -H. induction s as [|c s IH]; [reflexivity|].
      cbn [is_ascii forallb] in H. apply andb_true_iff in H. destruct H as [Hc Hs].
      cbn [flat_map map]. rewrite (IH Hs). unfold is_alnum_cp, subst_ident, utf8_encode. rewrite Hc.
      destruct (is_alpha c || is_digit c); reflexivity. }
    rewrite E. destruct (map subst_ident s); reflexivity.
  Qed.

  Lemma subst_ident_char c : ident_char (subst_ident c) = true.
  Proof.
    unfold ident_char, subst_ident. destruct (is_alpha c || is_digit c) eqn:E; [now rewrite E|reflexivity].
  Qed.
  Lemma is_digit_not_alpha c : is_digit c = true -> is_alpha c = false.
  Proof.
    unfold is_digit, is_alpha. intros H. apply andb_true_iff in H. destruct H as [H1 H2].
    apply N.leb_le in H1, H2.
    assert (A : (65 <=? c)%N = false) by (apply N.leb_gt; lia). rewrite A. cbn.
    assert (B : (97 <=? c)%N = false) by (apply N.leb_gt; lia). now rewrite B.
  Qed.

  Lemma rust_ident_ascii_legal s : is_ascii s = true -> ident_ok (rust_ident uni_alnum s) = true.
  Proof.
    intros H. rewrite (rust_ident_ascii s H).
    assert (F : forallb ident_char (map subst_ident s) = true).
    { apply forallb_forall. intros x Hx. apply in_map_iff in Hx. destruct Hx as [c [<- _]]. apply subst_ident_char. }
    destruct (map subst_ident s) as [|c r] eqn:E; [reflexivity|].
    destruct (is_digit c) eqn:D.
    - cbn [ident_ok]. change (forallb ident_char (110%N :: c :: r)) with (ident_char 110 && forallb ident_char (c :: r)).
      rewrite F. reflexivity.
    - cbn [ident_ok]. rewrite F, andb_true_r.
      cbn [forallb] in F. apply andb_true_iff in F. destruct F as [F _].
      unfold ident_char in F. rewrite D, orb_false_r in F. exact F.
  Qed.

  (* the identifier of a hashed entry point comes from stem_ext: it contains an underscore
     and has at least two characters, so it is neither `_` nor a keyword *)
  Lemma subst_ident_95 : subst_ident 95 = 95%N. Proof. reflexivity. Qed.
  Lemma rust_ident_hashed_has_underscore stem ext : stem <> [] -> is_ascii (stem ++ 95%N :: ext) = true ->
    In 95%N (rust_ident uni_alnum (stem ++ 95%N :: ext)) /\ 2 <= length (rust_ident uni_alnum (stem ++ 95%N :: ext)).
  Proof.
    intros Hs H. rewrite (rust_ident_ascii _ H). rewrite map_app. cbn [map]. rewrite subst_ident_95.
    destruct stem as [|c stem]; [congruence|]. cbn [map app].
    assert (I : In 95%N (subst_ident c :: map subst_ident stem ++ 95%N :: map subst_ident ext)).
    { right. apply in_app_iff. right. now left. }
    assert (L : 2 <= length (subst_ident c :: map subst_ident stem ++ 95%N :: map subst_ident ext)).
    { cbn [length]. rewrite app_length. cbn [length]. lia. }
    destruct (is_digit (subst_ident c)); [split; [now right|cbn [length] in *; lia]|split; assumption].
  Qed.
End I.

Local Open Scope string_scope.
Definition rust_keywords : list bytes := map b
  ["as";"break";"const";"continue";"crate";"else";"enum";"extern";"false";"fn";"for";"if";"impl";"in";"let";
   "loop";"match";"mod";"move";"mut";"pub";"ref";"return";"self";"Self";"static";"struct";"super";"trait";
   "true";"type";"unsafe";"use";"where";"while";"async";"await";"dyn";"abstract";"become";"box";"do";"final";
   "macro";"override";"priv";"typeof";"unsized";"virtual";"yield";"try";"gen"].
Lemma keywords_have_no_underscore : forallb (fun k => negb (mem 95 k)) rust_keywords = true.
Proof. vm_compute. reflexivity. Qed.
Lemma mem_In c l : In c l -> mem c l = true.
Proof.
  induction l as [|x l IH]; cbn; [tauto|]. intros [->|H]; [now rewrite N.eqb_refl|].
  rewrite (IH H). apply orb_true_r.
Qed.
Lemma not_keyword_if_underscore r : In 95%N r -> ~ In r rust_keywords.
Proof.
  intros H K. pose proof keywords_have_no_underscore as F. rewrite forallb_forall in F.
  specialize (F r K). rewrite (mem_In _ _ H) in F. discriminate.
Qed.

(* ---------------- sass static_name (C20) ---------------- *)
Local Open Scope list_scope.
Lemma rsplit_once_dot_eq s : forall bf cur sn, rsplit_once_dot s bf cur sn = rsplit_dot s bf cur sn.
Proof. induction s as [|c s IH]; intros; cbn; [reflexivity|]. destruct (N.eqb c 46); apply IH. Qed.

Lemma strip_prefix_app t r : strip_prefix t (t ++ r) = Some r.
Proof. induction t as [|x t IH]; cbn; [reflexivity|]. now rewrite N.eqb_refl. Qed.
Lemma strip_prefix_sound t : forall i r, strip_prefix t i = Some r -> i = t ++ r.
Proof.
  induction t as [|x t IH]; intros i r H; cbn in H; [now inversion H|].
  destruct i as [|y i]; [discriminate|]. destruct (N.eqb x y) eqn:E; [|discriminate].
  apply N.eqb_eq in E. subst y. cbn. f_equal. now apply IH.
Qed.
Lemma strip_suffix_app x e : strip_suffix_b e (x ++ e) = Some x.
Proof. unfold strip_suffix_b. rewrite rev_app_distr, strip_prefix_app. now rewrite rev_involutive. Qed.
Lemma strip_suffix_sound e s x : strip_suffix_b e s = Some x -> s = x ++ e.
Proof.
  unfold strip_suffix_b. destruct (strip_prefix (rev e) (rev s)) as [r|] eqn:E; [|discriminate].
  intros [= <-]. apply strip_prefix_sound in E. apply (f_equal (@rev N)) in E.
  rewrite rev_involutive, rev_app_distr, rev_involutive in E. exact E.
Qed.

Lemma is_url_name_for_hashed stem ext h : no_byte 46 ext -> length h = 8 ->
  is_url_name_for (stem ++ b "-" ++ h ++ b "." ++ ext) (stem ++ 46%N :: ext) = true.
Proof.
  intros He Hh. unfold is_url_name_for. apply orb_true_iff. right.
  rewrite rsplit_once_dot_eq, rsplit_dot_spec by assumption. cbn [app].
  rewrite strip_prefix_app.
  replace (b "-" ++ h ++ b "." ++ ext) with ((45%N :: h ++ [46%N]) ++ ext)
    by (cbn; now rewrite <- app_assoc).
  rewrite strip_suffix_app. cbn [length]. rewrite app_length, Hh. cbn [length Nat.add Nat.eqb andb].
  cbn [rev]. rewrite rev_app_distr. cbn. reflexivity.
Qed.

Lemma is_url_name_for_refl u : is_url_name_for u u = true.
Proof. unfold is_url_name_for. now rewrite beqb_refl. Qed.

(* what a successful match means *)
Lemma is_url_name_for_sound url name : is_url_name_for url name = true ->
  url = name \/
  exists stem ext h, rsplit_dot name [] [] false = Some (stem, ext) /\
                     url = stem ++ h ++ ext /\ length h = 10 /\ hd 0%N h = 45%N /\ last h 0%N = 46%N.
Proof.
  unfold is_url_name_for. intros H. apply orb_true_iff in H. destruct H as [H|H]; [left; now apply beqb_true|right].
  rewrite rsplit_once_dot_eq in H.
  destruct (rsplit_dot name [] [] false) as [[stem ext]|]; [|discriminate].
  destruct (strip_prefix stem url) as [u|] eqn:E1; [|discriminate].
  destruct (strip_suffix_b ext u) as [h|] eqn:E2; [|discriminate].
  apply strip_prefix_sound in E1. apply strip_suffix_sound in E2. subst.
  apply andb_true_iff in H. destruct H as [H H3]. apply andb_true_iff in H. destruct H as [H1 H2].
  exists stem, ext, h. split; [reflexivity|]. split; [reflexivity|].
  split; [now apply Nat.eqb_eq|].
  split.
  - destruct h; [discriminate|]. apply N.eqb_eq in H2. now subst.
  - destruct (rev h) as [|c r] eqn:R; [discriminate|]. apply N.eqb_eq in H3. subst c.
    apply (f_equal (@rev N)) in R. rewrite rev_involutive in R. rewrite R. cbn [rev].
    now rewrite last_last.
Qed.

Lemma find_name_found rid name m v : NoDup (map fst m) -> In (rid, v) m -> is_url_name_for v name = true ->
  find_name rid name m = Some v.
Proof.
  induction m as [|[k w] r IH]; intros ND I U; [destruct I|].
  cbn [find_name]. inversion ND; subst. destruct I as [[= -> ->]|I].
  - now rewrite beqb_refl, U.
  - destruct (beqb k rid) eqn:E.
    + apply beqb_true in E. subst k. exfalso. apply H1. change rid with (fst (rid, v)). now apply in_map.
    + cbn [andb]. now apply IH.
Qed.
Lemma find_name_sound rid name m v : find_name rid name m = Some v ->
  In (rid, v) m /\ is_url_name_for v name = true.
Proof.
  induction m as [|[k w] r IH]; cbn [find_name]; [discriminate|].
  destruct (beqb k rid && is_url_name_for w name) eqn:E.
  - intros [= <-]. apply andb_true_iff in E. destruct E as [E1 E2]. apply beqb_true in E1. subst k.
    split; [now left|exact E2].
  - intros H. destruct (IH H) as [A B]. split; [now right|exact B].
Qed.

Lemma insert_In k v m x : In x (insert k v m) -> x = (k, v) \/ In x m.
Proof.
  induction m as [|[k' v'] r IH]; cbn [insert]; [intros [<-|[]]; now left|].
  destruct (beqb k k'); [intros [<-|I]; [now left|right; now right]|].
  destruct (lex_lt k k'); [intros [<-|I]; [now left|now right]|].
  intros [<-|I]; [right; now left|]. destruct (IH I); [now left|right; now right].
Qed.

Section S20.
  Variable uni_esc uni_alnum : N -> bool.
  Variable mm : mime_mode.
  Variable header : bytes.
  Notation run := (run_ops uni_esc uni_alnum mm header).
  Notation pub := (published uni_alnum).

  Lemma In_pubs ops o p : In o ops -> pub o = Some p -> In p (pubs uni_alnum ops).
  Proof. intros I E. unfold pubs. apply in_flat_map. exists o. split; [exact I|]. rewrite E. now left. Qed.
  Lemma pubs_In ops p : In p (pubs uni_alnum ops) -> exists o, In o ops /\ pub o = Some p.
  Proof.
    unfold pubs. intros I. apply in_flat_map in I. destruct I as [o [Io Ip]]. exists o. split; [exact Io|].
    destruct (pub o) as [q|]; [destruct Ip as [->|[]]; reflexivity|destruct Ip].
  Qed.

  Lemma run_names_sub ops x : In x (names (run ops)) -> In x (pubs uni_alnum ops).
  Proof.
    induction ops as [|o ops IH] using rev_ind; [intros []|].
    rewrite run_snoc, pubs_snoc. pose proof (apply_op_maps uni_esc uni_alnum mm (run ops) o) as M.
    destruct (pub o) as [[i u]|].
    - destruct M as [M1 _]. rewrite M1. intros I. apply insert_In in I. apply in_app_iff.
      destruct I as [->|I]; [right; now left|left; now apply IH].
    - rewrite M, app_nil_r. exact IH.
  Qed.

  Lemma rust_ident_dot_underscore stem ext : is_ascii (stem ++ 46%N :: ext) = true ->
    rust_ident uni_alnum (stem ++ 46%N :: ext) = rust_ident uni_alnum (stem ++ b "_" ++ ext).
  Proof.
    intros H.
    assert (H' : is_ascii (stem ++ b "_" ++ ext) = true).
    { unfold is_ascii in *. rewrite forallb_app in *. cbn [forallb app] in *. exact H. }
    rewrite (rust_ident_ascii uni_alnum _ H), (rust_ident_ascii uni_alnum _ H').
    rewrite !map_app. reflexivity.
  Qed.

  (* every file added under a hashed name is found by its file name *)
  Lemma static_name_finds_hashed ops o path content stem ext :
    NoDup (map fst (pubs uni_alnum ops)) -> NoDup (map snd (pubs uni_alnum ops)) ->
    In o ops -> (o = OpFile path content \/ o = OpData path content) ->
    name_and_ext path = Some (stem, ext) -> no_byte 46 ext -> is_ascii (stem ++ 46%N :: ext) = true ->
    static_name uni_alnum (run ops) (stem ++ 46%N :: ext) = Some (hashed_url stem ext content).
  Proof.
    intros N1 N2 Io Ho Hn He Ha.
    assert (P : pub o = Some (rust_ident uni_alnum (stem ++ b "_" ++ ext), hashed_url stem ext content)).
    { destruct Ho as [-> | ->]; cbn [published]; now rewrite Hn. }
    pose proof (In_pubs ops o _ Io P) as Ip.
    destruct (run_lookup uni_esc uni_alnum mm header ops N1 N2 _ _ Ip) as [_ L].
    unfold static_name. rewrite (rust_ident_dot_underscore stem ext Ha).
    apply find_name_found.
    - apply ssorted_nodup. exact (proj2 (run_sorted uni_esc uni_alnum mm header ops)).
    - now apply lookup_In.
    - unfold hashed_url. apply is_url_name_for_hashed; [exact He|apply slug_length].
  Qed.

  (* a file added with add_file_as is found by its url name *)
  Lemma static_name_finds_as ops path url :
    NoDup (map fst (pubs uni_alnum ops)) -> NoDup (map snd (pubs uni_alnum ops)) ->
    In (OpFileAs path url) ops ->
    static_name uni_alnum (run ops) url = Some url.
  Proof.
    intros N1 N2 Io.
    pose proof (In_pubs ops _ _ Io eq_refl) as Ip.
    destruct (run_lookup uni_esc uni_alnum mm header ops N1 N2 _ _ Ip) as [_ L].
    unfold static_name. apply find_name_found.
    - apply ssorted_nodup. exact (proj2 (run_sorted uni_esc uni_alnum mm header ops)).
    - now apply lookup_In.
    - apply is_url_name_for_refl.
  Qed.

  (* whatever static_name returns is the url name some operation published under that very
     identifier, and it is the requested name itself or that name with a 8-character hash
     inserted before the extension *)
  Lemma static_name_sound ops g v : static_name uni_alnum (run ops) g = Some v ->
    (exists o, In o ops /\ pub o = Some (rust_ident uni_alnum g, v)) /\
    (v = g \/ exists stem ext h, rsplit_dot g [] [] false = Some (stem, ext) /\ v = stem ++ h ++ ext /\
                                 length h = 10 /\ hd 0%N h = 45%N /\ last h 0%N = 46%N).
  Proof.
    unfold static_name. intros H. apply find_name_sound in H. destruct H as [I U]. split.
    - apply pubs_In. now apply run_names_sub.
    - now apply is_url_name_for_sound.
  Qed.
End S20.

(* ---------------- the maps depend only on the set of additions (C18) ---------------- *)
Lemma lookup_none_lt k m : ssorted (map fst m) -> (forall k', In k' (map fst m) -> lex_lt k k' = true) -> lookup k m = None.
Proof.
  induction m as [|[k' v] r IH]; intros S H; [reflexivity|]. cbn [lookup].
  destruct (beqb k k') eqn:E.
  - apply beqb_true in E. subst k'. specialize (H k (or_introl eq_refl)). now rewrite lex_lt_irrefl in H.
  - apply IH; [eapply ssorted_tail; eauto|]. intros k2 I. apply H. now right.
Qed.
Lemma lookup_not_in k m : ~ In k (map fst m) -> lookup k m = None.
Proof.
  induction m as [|[k' v] r IH]; intros NI; [reflexivity|]. cbn [lookup].
  destruct (beqb k k') eqn:E; [apply beqb_true in E; subst; exfalso; apply NI; now left|].
  apply IH. intros I. apply NI. now right.
Qed.

Lemma sorted_assoc_ext m1 : forall m2, ssorted (map fst m1) -> ssorted (map fst m2) ->
  (forall k, lookup k m1 = lookup k m2) -> m1 = m2.
Proof.
  induction m1 as [|[k1 v1] r1 IH]; intros [|[k2 v2] r2] S1 S2 H.
  - reflexivity.
  - specialize (H k2). cbn in H. rewrite beqb_refl in H. discriminate.
  - specialize (H k1). cbn in H. rewrite beqb_refl in H. discriminate.
  - cbn [map fst] in S1, S2.
    pose proof (ssorted_head_lt _ _ S1) as L1. pose proof (ssorted_head_lt _ _ S2) as L2. rewrite Forall_forall in L1, L2.
    assert (K : k1 = k2).
    { destruct (list_eq_dec N.eq_dec k1 k2) as [->|NE]; [reflexivity|exfalso].
      destruct (lex_lt k1 k2) eqn:LT.
      - pose proof (H k1) as H1. cbn [lookup] in H1. rewrite beqb_refl in H1.
        destruct (beqb k1 k2) eqn:E; [apply beqb_true in E; congruence|].
        rewrite lookup_none_lt in H1; [discriminate|eapply ssorted_tail; eauto|].
        intros k' I. eapply lex_lt_trans; [exact LT|]. now apply L2.
      - pose proof (lex_lt_total _ _ LT NE) as GT.
        pose proof (H k2) as H2. cbn [lookup] in H2. rewrite beqb_refl in H2.
        destruct (beqb k2 k1) eqn:E; [apply beqb_true in E; congruence|].
        rewrite lookup_none_lt in H2; [discriminate|eapply ssorted_tail; eauto|].
        intros k' I. eapply lex_lt_trans; [exact GT|]. now apply L1. }
    subst k2. pose proof (H k1) as Hv. cbn [lookup] in Hv. rewrite beqb_refl in Hv. inversion Hv; subst v2.
    f_equal. apply IH; [eapply ssorted_tail; eauto|eapply ssorted_tail; eauto|].
    intros k. specialize (H k). cbn [lookup] in H. destruct (beqb k k1) eqn:E; [|exact H].
    apply beqb_true in E. subst k.
    rewrite !lookup_not_in; [reflexivity| |].
    + intros I. specialize (L2 _ I). now rewrite lex_lt_irrefl in L2.
    + intros I. specialize (L1 _ I). now rewrite lex_lt_irrefl in L1.
Qed.

Section Order.
  Variable uni_esc uni_alnum : N -> bool.
  Variable mm : mime_mode.
  Variable header : bytes.
  Notation run := (run_ops uni_esc uni_alnum mm header).

  Lemma pubs_perm ops ops' : Permutation ops ops' -> Permutation (pubs uni_alnum ops) (pubs uni_alnum ops').
  Proof.
    induction 1 as [|x l l' P IH|x y l|l l' l'' P1 IH1 P2 IH2]; cbn [pubs flat_map]; fold (pubs uni_alnum).
    - constructor.
    - now apply Permutation_app_head.
    - rewrite !app_assoc. apply Permutation_app_tail. apply Permutation_app_comm.
    - eapply perm_trans; eauto.
  Qed.

  Lemma names_r_lookup_char ops : NoDup (map fst (pubs uni_alnum ops)) -> NoDup (map snd (pubs uni_alnum ops)) ->
    forall url, lookup url (names_r (run ops)) =
      match find (fun p => beqb (snd p) url) (pubs uni_alnum ops) with Some p => Some (fst p) | None => None end.
  Proof.
    intros N1 N2 url. destruct (find (fun p => beqb (snd p) url) (pubs uni_alnum ops)) as [[id u]|] eqn:F.
    - apply find_some in F. destruct F as [I E]. cbn in E. apply beqb_true in E. subst u.
      exact (proj1 (run_lookup uni_esc uni_alnum mm header ops N1 N2 id url I)).
    - apply lookup_not_in. intros I. apply (proj1 (run_keys uni_esc uni_alnum mm header ops url)) in I.
      apply in_map_iff in I. destruct I as [[id u] [E I]]. cbn in E. subst u.
      pose proof (find_none _ _ F _ I) as X. cbn in X. now rewrite beqb_refl in X.
  Qed.

  (* the same additions in any order give the same url-name map, hence the same STATICS line *)
  Lemma names_r_order_independent ops ops' : Permutation ops ops' ->
    NoDup (map fst (pubs uni_alnum ops)) -> NoDup (map snd (pubs uni_alnum ops)) ->
    names_r (run ops) = names_r (run ops').
  Proof.
    intros P N1 N2. pose proof (pubs_perm _ _ P) as PP.
    assert (N1' : NoDup (map fst (pubs uni_alnum ops'))) by (eapply Permutation_NoDup; [apply Permutation_map; exact PP|exact N1]).
    assert (N2' : NoDup (map snd (pubs uni_alnum ops'))) by (eapply Permutation_NoDup; [apply Permutation_map; exact PP|exact N2]).
    apply sorted_assoc_ext; try apply run_sorted.
    intros url. destruct (in_dec (list_eq_dec N.eq_dec) url (map snd (pubs uni_alnum ops))) as [I|NI].
    - apply in_map_iff in I. destruct I as [[id u] [E I]]. cbn in E. subst u.
      rewrite (proj1 (run_lookup uni_esc uni_alnum mm header ops N1 N2 id url I)).
      symmetry. apply (run_lookup uni_esc uni_alnum mm header ops' N1' N2' id url). eapply Permutation_in; eauto.
    - rewrite !lookup_not_in; [reflexivity| |].
      + intros I. apply NI. apply (proj1 (run_keys uni_esc uni_alnum mm header ops' url)) in I.
        eapply Permutation_in; [apply Permutation_sym; apply Permutation_map; exact PP|exact I].
      + intros I. apply NI. now apply (proj1 (run_keys uni_esc uni_alnum mm header ops url)).
  Qed.
End Order.
