(* Proofs about Model/Static.v: path splitting, url names, the sorted maps, binary search,
   identifiers, static_name. *)
From Coq Require Import Lia Sorted Permutation.
From Ructe Require Import Nom Utf8 Md5 Emit Tables Static HashProofs.
Local Open Scope list_scope.

Definition no_byte (c : N) (l : bytes) : Prop := Forall (fun x => x <> c) l.

Lemma app_eq_len {A} (a c x y : list A) : length a = length c -> a ++ x = c ++ y -> a = c.
Proof.
  revert c; induction a as [|h a IH]; destruct c as [|k c]; cbn; intros L E; try discriminate; auto.
  inversion E; subst. f_equal. eapply IH; eauto.
Qed.

(* ---------------- last_comp / rsplit_dot / name_and_ext ---------------- *)
Lemma last_comp_plain f acc : no_byte 47 f -> last_comp f acc = rev acc ++ f.
Proof.
  revert acc; induction f as [|c f IH]; intros acc H; cbn [last_comp].
  - now rewrite app_nil_r.
  - inversion H; subst. destruct (N.eqb c 47) eqn:E; [apply N.eqb_eq in E; congruence|].
    rewrite IH by assumption. cbn [rev]. now rewrite <- app_assoc.
Qed.
Lemma last_comp_dir d f acc : no_byte 47 f -> last_comp (d ++ 47%N :: f) acc = f.
Proof.
  revert acc; induction d as [|c d IH]; intros acc H; cbn [app last_comp].
  - rewrite N.eqb_refl. now rewrite last_comp_plain.
  - destruct (N.eqb c 47); now rewrite IH.
Qed.

Lemma rsplit_dot_tail ext before cur seen : no_byte 46 ext ->
  rsplit_dot ext before cur seen = if seen then Some (before, cur ++ ext) else None.
Proof.
  revert cur; induction ext as [|c e IH]; intros cur H; cbn [rsplit_dot].
  - now rewrite app_nil_r.
  - inversion H; subst. destruct (N.eqb c 46) eqn:E; [apply N.eqb_eq in E; congruence|].
    rewrite IH by assumption. destruct seen; [|reflexivity]. now rewrite <- app_assoc.
Qed.
Lemma rsplit_dot_spec s ext : no_byte 46 ext -> forall before cur seen,
  rsplit_dot (s ++ 46%N :: ext) before cur seen =
  Some ((if seen then before ++ [46%N] ++ cur else cur) ++ s, ext).
Proof.
  intros He. induction s as [|c s IH]; intros before cur seen; cbn [app rsplit_dot].
  - rewrite N.eqb_refl. rewrite rsplit_dot_tail by assumption. cbn. now rewrite app_nil_r.
  - destruct (N.eqb c 46) eqn:E.
    + apply N.eqb_eq in E. subst c. rewrite IH. f_equal. f_equal.
      destruct seen; cbn; rewrite <- ?app_assoc; cbn; now rewrite ?app_nil_r.
    + rewrite IH. f_equal. f_equal. destruct seen; rewrite <- ?app_assoc; reflexivity.
Qed.

Lemma split_ext_spec stem ext : stem <> [] -> no_byte 46 ext ->
  split_ext (stem ++ 46%N :: ext) = Some (stem, ext).
Proof.
  intros Hs He. unfold split_ext. rewrite rsplit_dot_spec by assumption. cbn [app].
  destruct stem; [congruence|reflexivity].
Qed.

(* a path whose final component is stem.ext: split at the last dot of the final component *)
Lemma name_and_ext_file stem ext : stem <> [] -> no_byte 47 stem -> no_byte 46 ext -> no_byte 47 ext ->
  name_and_ext (stem ++ 46%N :: ext) = Some (stem, ext).
Proof.
  intros Hs H1 H2 H3. unfold name_and_ext. rewrite last_comp_plain.
  - cbn [rev app]. now apply split_ext_spec.
  - apply Forall_app. split; [assumption|]. constructor; [discriminate|assumption].
Qed.
Lemma name_and_ext_dir dir stem ext : stem <> [] -> no_byte 47 stem -> no_byte 46 ext -> no_byte 47 ext ->
  name_and_ext (dir ++ 47%N :: stem ++ 46%N :: ext) = Some (stem, ext).
Proof.
  intros Hs H1 H2 H3. unfold name_and_ext. rewrite last_comp_dir.
  - now apply split_ext_spec.
  - apply Forall_app. split; [assumption|]. constructor; [discriminate|assumption].
Qed.

(* ---------------- url names (C07) ---------------- *)
Section U.
  Variable uni_esc uni_alnum : N -> bool.
  Notation apply_op := (apply_op uni_esc uni_alnum).
  Notation add_static := (add_static uni_esc uni_alnum).

  Definition is_hashed (o : sop) : bool := match o with OpFileAs _ _ => false | _ => true end.
  Definition op_path (o : sop) : bytes := match o with OpFile p _ | OpFileAs p _ | OpData p _ => p end.
  Definition op_content (o : sop) : bytes := match o with OpFile _ c | OpData _ c => c | OpFileAs _ _ => [] end.

  (* the (identifier, url name) pair an operation publishes, if any: a function of the final
     path component and the content only *)
  Definition published (o : sop) : option (bytes * bytes) :=
    match o with
    | OpFileAs _ url => Some (rust_ident uni_alnum url, url)
    | OpFile p c | OpData p c =>
        match name_and_ext p with
        | Some (name, ext) => Some (rust_ident uni_alnum (name ++ b "_" ++ ext), hashed_url name ext c)
        | None => None end
    end.

  Lemma apply_op_maps mm s o :
    match published o with
    | Some (id, url) => names (apply_op mm s o) = insert id url (names s) /\
                        names_r (apply_op mm s o) = insert url id (names_r s)
    | None => apply_op mm s o = s
    end.
  Proof.
    destruct o as [p c|p u|p c]; cbn [published apply_op].
    - destruct (name_and_ext p) as [[n e]|]; [split; reflexivity|reflexivity].
    - split; reflexivity.
    - destruct (name_and_ext p) as [[n e]|]; [split; reflexivity|reflexivity].
  Qed.

  Lemma hashed_url_shape_lemma dir stem ext content (o : sop) :
    stem <> [] -> no_byte 47 stem -> no_byte 46 ext -> no_byte 47 ext ->
    (o = OpFile (dir ++ 47%N :: stem ++ 46%N :: ext) content \/
     o = OpData (dir ++ 47%N :: stem ++ 46%N :: ext) content \/
     o = OpFile (stem ++ 46%N :: ext) content \/ o = OpData (stem ++ 46%N :: ext) content) ->
    published o = Some (rust_ident uni_alnum (stem ++ b "_" ++ ext),
                        stem ++ b "-" ++ b64url (firstn 6 (md5 content)) ++ b "." ++ ext).
  Proof.
    intros Hs H1 H2 H3 [ -> | [ -> | [ -> | -> ] ] ]; cbn [published];
      rewrite ?name_and_ext_dir, ?name_and_ext_file by assumption; reflexivity.
  Qed.
End U.
