(* The escape / decode laws of C02, proved from computable conditions on the table that the
   translator regenerates from src/templates/utils.rs (each condition is discharged by
   vm_compute against the current table in Props/C02.v). *)
From Ructe Require Import Tables Io IoProofs.

Definition is_none {A} (o : option A) : bool := match o with None => true | Some _ => false end.

(* (1) the entities form a prefix-free code *)
Definition codes_prefix_free : bool :=
  forallb (fun c => forallb (fun c' =>
     N.eqb c c' || (is_none (strip_pre (entity c') (entity c)) && is_none (strip_pre (entity c) (entity c'))))
     special_bytes) special_bytes.
(* (2) every entity is `&` followed by bytes that are not special *)
Definition entity_shape_ok : bool :=
  forallb (fun c => match entity c with
                    | h :: t => N.eqb h 38 && special h && forallb (fun x => negb (special x)) t
                    | [] => false end) special_bytes.

Lemma In_memN c l : In c l -> memN c l = true.
Proof.
  induction l as [|x l IH]; cbn; [tauto|]. intros [->|H]; [now rewrite N.eqb_refl|].
  rewrite (IH H). apply orb_true_r.
Qed.

Lemma strip_pre_app e r : strip_pre e (e ++ r) = Some r.
Proof. induction e as [|x e IH]; cbn; [reflexivity|]. now rewrite N.eqb_refl. Qed.

Lemma strip_pre_comparable a : forall c r x, strip_pre a (c ++ r) = Some x ->
  strip_pre a c <> None \/ strip_pre c a <> None.
Proof.
  induction a as [|y a IH]; intros c r x H; cbn in *.
  - left. destruct c; discriminate.
  - destruct c as [|z c]; cbn in *.
    + right. discriminate.
    + destruct (N.eqb y z) eqn:E; [|discriminate].
      apply N.eqb_eq in E. subst z. rewrite N.eqb_refl.
      eapply IH; eauto.
Qed.

Lemma decode_first_hit : codes_prefix_free = true -> forall c rest, special c = true ->
  decode_first all_entities (entity c ++ rest) = Some (c, rest).
Proof.
  intros Hpf c rest Hs. unfold all_entities.
  unfold codes_prefix_free in Hpf. rewrite forallb_forall in Hpf.
  pose proof (Hpf c (memN_In _ _ Hs)) as Hc. rewrite forallb_forall in Hc.
  pose proof (memN_In _ _ Hs) as Hin. unfold special in Hs.
  revert Hin Hc. generalize special_bytes as l.
  induction l as [|c0 l IH]; intros Hin Hc; [destruct Hin|].
  cbn [map decode_first].
  destruct (N.eqb c c0) eqn:E.
  - apply N.eqb_eq in E. subst c0. now rewrite strip_pre_app.
  - pose proof (Hc c0 (or_introl eq_refl)) as H0. rewrite E in H0. cbn in H0.
    apply andb_true_iff in H0. destruct H0 as [A B].
    destruct (strip_pre (entity c0) (entity c ++ rest)) eqn:S.
    + exfalso. destruct (strip_pre_comparable _ _ _ _ S) as [X|X]; apply X.
      * destruct (strip_pre (entity c0) (entity c)); [discriminate|reflexivity].
      * destruct (strip_pre (entity c) (entity c0)); [discriminate|reflexivity].
    + apply IH.
      * destruct Hin as [->|Hin]; [rewrite N.eqb_refl in E; discriminate|exact Hin].
      * intros x Hx. apply Hc. now right.
Qed.

Lemma entity_head c : entity_shape_ok = true -> special c = true ->
  exists t, entity c = 38%N :: t /\ special 38 = true /\ Forall (fun x => special x = false) t.
Proof.
  intros H Hs. unfold entity_shape_ok in H. rewrite forallb_forall in H.
  specialize (H c (memN_In _ _ Hs)). destruct (entity c) as [|h t]; [discriminate|].
  apply andb_true_iff in H. destruct H as [H1 H3]. apply andb_true_iff in H1. destruct H1 as [H1 H2].
  apply N.eqb_eq in H1. subst h. exists t. split; [reflexivity|]. split; [exact H2|].
  rewrite forallb_forall in H3. apply Forall_forall. intros x Hx. specialize (H3 x Hx).
  now apply negb_true_iff in H3.
Qed.

Lemma decode_first_miss : entity_shape_ok = true -> forall c rest, special c = false ->
  decode_first all_entities (c :: rest) = None.
Proof.
  intros Hsh c rest Hc. unfold all_entities.
  assert (Hall : forall x, In x special_bytes -> special x = true) by (intros; now apply In_memN).
  revert Hall. generalize special_bytes as l. induction l as [|c0 l IH]; intros Hall; [reflexivity|].
  cbn [map decode_first].
  destruct (entity_head c0 Hsh (Hall c0 (or_introl eq_refl))) as [t [Et [Ha _]]]. rewrite Et.
  cbn [strip_pre]. destruct (N.eqb 38 c) eqn:E.
  - apply N.eqb_eq in E. subst c. congruence.
  - apply IH. intros x Hx. apply Hall. now right.
Qed.

Lemma decode_escape_fuel : codes_prefix_free = true -> entity_shape_ok = true ->
  forall s n, length s <= n -> html_decode_aux n (escape s) = s.
Proof.
  intros Hpf Hsh. induction s as [|c s IH]; intros n Hn.
  - destruct n; reflexivity.
  - destruct n as [|n]; [cbn in Hn; lia|]. cbn [length] in Hn.
    change (escape (c :: s)) with (esc1 c ++ escape s). unfold esc1.
    destruct (special c) eqn:Hs.
    + destruct (entity_head c Hsh Hs) as [t [Et _]].
      cbn [html_decode_aux]. rewrite Et at 1. cbn [app].
      replace (38%N :: t ++ escape s) with (entity c ++ escape s) by (rewrite Et; reflexivity).
      rewrite (decode_first_hit Hpf c (escape s) Hs). f_equal. apply IH. lia.
    + cbn [app html_decode_aux]. rewrite (decode_first_miss Hsh c (escape s) Hs). f_equal. apply IH. lia.
Qed.

Lemma escape_length : entity_shape_ok = true -> forall s, length s <= length (escape s).
Proof.
  intros Hsh. induction s as [|c s IH]; [cbn; lia|].
  change (escape (c :: s)) with (esc1 c ++ escape s). rewrite app_length. unfold esc1.
  destruct (special c) eqn:Hs; cbn [length]; [|lia].
  destruct (entity_head c Hsh Hs) as [t [Et _]]. rewrite Et. cbn [length]. lia.
Qed.

Lemma decode_escape_lemma : codes_prefix_free = true -> entity_shape_ok = true ->
  forall s, html_decode (escape s) = s.
Proof.
  intros Hpf Hsh s. unfold html_decode. apply decode_escape_fuel; auto. now apply escape_length.
Qed.

(* no raw special byte other than the `&` that starts a reference survives *)
Lemma escape_only_amp : entity_shape_ok = true -> forall s,
  Forall (fun x => special x = true -> x = 38%N) (escape s).
Proof.
  intros Hsh. induction s as [|c s IH]; [constructor|].
  change (escape (c :: s)) with (esc1 c ++ escape s). apply Forall_app. split; [|exact IH].
  unfold esc1. destruct (special c) eqn:Hs.
  - destruct (entity_head c Hsh Hs) as [t [Et [_ Ht]]]. rewrite Et. constructor; [reflexivity|].
    eapply Forall_impl; [|exact Ht]. cbn. intros a Ha Hb. congruence.
  - constructor; [congruence|constructor].
Qed.

(* the output is the concatenation, in order, of one chunk per input byte: the byte itself if
   it is not special, its entity otherwise -- so every `&` in the output starts a reference *)
Lemma escape_chunks s : escape s = concat (map esc1 s).
Proof. unfold escape. apply flat_map_concat_map. Qed.

Lemma escape_passthrough_lemma s : Forall (fun c => special c = false) s -> escape s = s.
Proof.
  induction 1 as [|c s Hc _ IH]; [reflexivity|].
  change (escape (c :: s)) with (esc1 c ++ escape s). unfold esc1. rewrite Hc, IH. reflexivity.
Qed.
