(* Comments and layout: comment_tail skips exactly up to the first "*@"; spacelike skips any run
   of whitespace and closed comments (C01, C15). *)
From Coq Require Import Lia.
From Ructe Require Import Nom NomFacts Spacelike ParserProofs.
Local Open Scope list_scope.

(* ---- many0 without its internal fuel ---- *)
Lemma many0_aux_fuel {A} (p : parser A) : sfx p -> forall n m i, List.length i <= n -> List.length i <= m ->
  many0_aux p n i = many0_aux p m i.
Proof.
  intros Hp.
  assert (Hnil : forall k, many0_aux p k [] = many0_aux p 0 []).
  { intros [|k]; [reflexivity|]. cbn [many0_aux]. destruct (p []) as [a r| |] eqn:E; try reflexivity.
    pose proof (sfx_len p Hp _ _ _ E) as L. destruct r; [reflexivity|cbn [List.length] in L; lia]. }
  induction n as [|n IH]; intros m i Hn Hm.
  - destruct i; [|cbn [List.length] in Hn; lia]. symmetry. apply Hnil.
  - destruct m as [|m].
    + destruct i; [apply Hnil|cbn [List.length] in Hm; lia].
    + cbn [many0_aux]. destruct (p i) as [a r| |] eqn:E; try reflexivity.
      pose proof (sfx_len p Hp _ _ _ E) as Hl.
      destruct (Nat.eqb_spec (List.length r) (List.length i)); [reflexivity|].
      rewrite (IH m r) by lia. reflexivity.
Qed.
Lemma many0_aux_enough {A} (p : parser A) : sfx p -> forall n i, List.length i <= n ->
  many0_aux p n i = many0_aux p (List.length i) i.
Proof. intros Hp n i H. apply many0_aux_fuel; [exact Hp|exact H|lia]. Qed.
Lemma many0_step {A} (p : parser A) (Hp : sfx p) i :
  many0 p i = match p i with
              | Err _ => Ok [] i
              | Abort k => Abort k
              | Ok a r => if Nat.eqb (length r) (length i) then err1 i ENom
                          else match many0 p r with Ok l r' => Ok (a :: l) r' | Err e => Err e | Abort k => Abort k end
              end.
Proof.
  unfold many0. destruct i as [|x i]; cbn [many0_aux List.length].
  - destruct (p []) as [a r| |] eqn:E; try reflexivity.
    pose proof (sfx_len p Hp _ _ _ E) as L. destruct r; [reflexivity|cbn [List.length] in L; lia].
  - destruct (p (x :: i)) as [a r| |] eqn:E; try reflexivity.
    pose proof (sfx_len p Hp _ _ _ E) as Hl. cbn [List.length] in Hl.
    destruct (Nat.eqb_spec (List.length r) (S (List.length i))); [reflexivity|].
    rewrite (many0_aux_enough p Hp (List.length i) r) by lia. reflexivity.
Qed.

(* ---- span on a concatenation ---- *)
Lemma span_app_stop (f : N -> bool) a c : (c = [] \/ exists x t, c = x :: t /\ f x = false) ->
  span f (a ++ c) = (fst (span f a), snd (span f a) ++ c).
Proof.
  intros Hc. induction a as [|y a IH]; cbn [app span].
  - destruct Hc as [->|[x [t [-> Hx]]]]; cbn; [reflexivity|now rewrite Hx].
  - destruct (f y); [|reflexivity]. rewrite IH. destruct (span f a). reflexivity.
Qed.
Lemma span_snd_suffix (f : N -> bool) a : exists pre, a = pre ++ snd (span f a) /\ fst (span f a) = pre.
Proof. exists (fst (span f a)). split; [apply span_app|reflexivity]. Qed.
Lemma span_snd_stop (f : N -> bool) a : snd (span f a) = [] \/ exists x t, snd (span f a) = x :: t /\ f x = false.
Proof.
  induction a as [|y a IH]; cbn [span]; [now left|]. destruct (f y) eqn:E.
  - destruct (span f a) as [u v]. cbn [snd] in *. exact IH.
  - right. exists y, a. split; [reflexivity|exact E].
Qed.

(* ---- comments ---- *)
Local Open Scope string_scope.
Local Open Scope list_scope.
Fixpoint no_close (s : bytes) : bool :=      (* no "*@" inside *)
  match s with
  | [] => true
  | x :: r => if N.eqb x 42 then match r with y :: _ => negb (N.eqb y 64) && no_close r | [] => true end
              else no_close r
  end.
Definition cmt_item : parser unit :=
  alt [ unitp (is_not (b "*")); unitp (terminated (tag (b "*")) (pnot (tag (b "@")))) ].
Lemma good_cmt_item : good cmt_item. Proof. unfold cmt_item. good_auto. Qed.

Definition nonstar (c : N) : bool := negb (mem c (b "*")).
Lemma nonstar_spec c : nonstar c = negb (N.eqb c 42).
Proof. unfold nonstar. cbn. now rewrite orb_false_r. Qed.

Lemma no_close_tail x r : no_close (x :: r) = true -> no_close r = true.
Proof.
  cbn [no_close]. destruct (N.eqb x 42); [|auto]. destruct r as [|y t]; [reflexivity|].
  intros H. apply andb_true_iff in H. tauto.
Qed.
Lemma no_close_suffix a c : no_close (a ++ c) = true -> no_close c = true.
Proof. induction a as [|x a IH]; intros H; [exact H|]. apply IH. eapply no_close_tail. exact H. Qed.

(* one step of the comment body scanner *)
Lemma cmt_item_star_at r : exists e, cmt_item (42%N :: 64%N :: r) = Err e.
Proof. unfold cmt_item, alt. cbn. eauto. Qed.
Lemma cmt_item_star_other c r : N.eqb c 64 = false -> cmt_item (42%N :: c :: r) = Ok tt (c :: r).
Proof.
  intros H. unfold cmt_item, alt. cbn.
  unfold unitp, value, pmap, terminated, bind, pmap, tag, pnot. cbn [strip_prefix].
  rewrite N.eqb_refl. cbn [strip_prefix]. rewrite (N.eqb_sym 64 c), H. reflexivity.
Qed.
Lemma cmt_item_star_end : cmt_item [42%N] = Ok tt [].
Proof. reflexivity. Qed.
Lemma cmt_item_nonstar c r : N.eqb c 42 = false ->
  cmt_item (c :: r) = Ok tt (snd (span nonstar (c :: r))).
Proof.
  intros H. unfold cmt_item, alt. cbn [alt']. unfold unitp, value, pmap, is_not, take_while1.
  fold nonstar. cbn [span]. rewrite nonstar_spec, H. cbn [negb].
  destruct (span nonstar r) as [a t]. reflexivity.
Qed.

Lemma many0_cmt_items : forall n body rest, List.length body <= n -> no_close body = true ->
  exists l, many0 cmt_item (body ++ b "*@" ++ rest) = Ok l (b "*@" ++ rest).
Proof.
  induction n as [|n IH]; intros body rest Hn Hc.
  - destruct body; [|cbn in Hn; lia]. rewrite (many0_step _ (g_sfx good_cmt_item)).
    destruct (cmt_item_star_at rest) as [e He]. change ([] ++ b "*@" ++ rest) with (42%N :: 64%N :: rest). rewrite He. eauto.
  - destruct body as [|c body].
    + rewrite (many0_step _ (g_sfx good_cmt_item)).
      destruct (cmt_item_star_at rest) as [e He]. change ([] ++ b "*@" ++ rest) with (42%N :: 64%N :: rest). rewrite He. eauto.
    + rewrite (many0_step _ (g_sfx good_cmt_item)). cbn [app]. destruct (N.eqb c 42) eqn:Ec.
      * apply N.eqb_eq in Ec. subst c.
        assert (Hnext : exists x t, body ++ b "*@" ++ rest = x :: t /\ N.eqb x 64 = false).
        { destruct body as [|y body']; [exists 42%N, (64%N :: rest); split; reflexivity|].
          exists y, (body' ++ b "*@" ++ rest). split; [reflexivity|]. cbn [no_close] in Hc. rewrite N.eqb_refl in Hc.
          apply andb_true_iff in Hc. destruct Hc as [Hc _]. now apply negb_true_iff in Hc. }
        destruct Hnext as [x [t [Ex Hx]]]. rewrite Ex. rewrite (cmt_item_star_other x t Hx).
        assert (X : Nat.eqb (List.length (x :: t)) (List.length (42%N :: x :: t)) = false) by (apply Nat.eqb_neq; cbn; lia).
        rewrite X. rewrite <- Ex.
        destruct (IH body rest ltac:(cbn in Hn; lia) (no_close_tail _ _ Hc)) as [l Hl]. rewrite Hl. eauto.
      * rewrite (cmt_item_nonstar c _ Ec).
        change (c :: body ++ b "*@" ++ rest) with ((c :: body) ++ b "*@" ++ rest).
        rewrite (span_app_stop nonstar (c :: body) (b "*@" ++ rest)); [|right; exists 42%N, (64%N :: rest); split; reflexivity].
        cbn [snd].
        destruct (span_snd_suffix nonstar (c :: body)) as [pre [Hpre Hfst]].
        assert (Lpre : pre <> []).
        { rewrite <- Hfst. cbn [span]. rewrite nonstar_spec, Ec. cbn. destruct (span nonstar body). discriminate. }
        set (tl := snd (span nonstar (c :: body))) in *.
        assert (Ltl : List.length tl < List.length (c :: body)).
        { rewrite Hpre. rewrite app_length. destruct pre; [congruence|cbn; lia]. }
        assert (X : Nat.eqb (List.length (tl ++ b "*@" ++ rest)) (List.length ((c :: body) ++ b "*@" ++ rest)) = false).
        { apply Nat.eqb_neq. rewrite !app_length. lia. }
        rewrite X.
        assert (Ctl : no_close tl = true) by (apply (no_close_suffix pre); now rewrite <- Hpre).
        destruct (IH tl rest ltac:(cbn in Hn, Ltl; lia) Ctl) as [l Hl]. rewrite Hl. eauto.
Qed.

(* a comment body without "*@" is skipped exactly up to its terminator, whatever follows *)
Lemma comment_tail_skips body rest : no_close body = true ->
  comment_tail (body ++ b "*@" ++ rest) = Ok tt rest.
Proof.
  intros H. unfold comment_tail, preceded, bind. fold cmt_item.
  destruct (many0_cmt_items (List.length body) body rest (le_n _) H) as [l ->].
  unfold unitp, value, pmap, tag. change (b "*@" ++ rest) with (42%N :: 64%N :: rest). cbn. reflexivity.
Qed.
Lemma comment_skips body rest : no_close body = true ->
  comment (b "@*" ++ body ++ b "*@" ++ rest) = Ok tt rest.
Proof.
  intros H. unfold comment, preceded, bind, tag. change (b "@*" ++ body ++ b "*@" ++ rest) with (64%N :: 42%N :: (body ++ b "*@" ++ rest)).
  cbn [strip_prefix b map String.list_ascii_of_string]. cbn. now apply comment_tail_skips.
Qed.

(* ---- spacelike: any run of whitespace and closed comments is skipped ---- *)
Inductive layout : bytes -> Prop :=
| L_nil : layout []
| L_ws c s : is_space c = true -> layout s -> layout (c :: s)
| L_cmt body s : no_close body = true -> layout s -> layout (b "@*" ++ body ++ b "*@" ++ s).

(* what follows the run neither is whitespace nor opens a comment *)
Definition stops (rest : bytes) : Prop :=
  match rest with
  | [] => True
  | x :: t => is_space x = false /\ (x = 64%N -> match t with y :: _ => y <> 42%N | [] => True end)
  end.

Definition sp_item : parser unit := alt [ comment; unitp multispace1 ].
Lemma good_sp_item : good sp_item. Proof. unfold sp_item. pose proof good_comment. good_auto. Qed.

Lemma is_space_not_at c : is_space c = true -> N.eqb 64 c = false.
Proof.
  unfold is_space. intros H. destruct (N.eqb 64 c) eqn:E; [|reflexivity]. apply N.eqb_eq in E. subst c. discriminate.
Qed.

Lemma comment_stop rest : stops rest -> exists e, comment rest = Err e.
Proof.
  intros St. unfold comment, preceded, bind, tag. change (b "@*") with [64%N; 42%N].
  assert (S : strip_prefix [64%N; 42%N] rest = None).
  { destruct rest as [|x t]; [reflexivity|]. destruct St as [_ Hc]. cbn [strip_prefix].
    destruct (N.eqb 64 x) eqn:E; [|reflexivity]. apply N.eqb_eq in E. specialize (Hc (eq_sym E)).
    destruct t as [|y t']; [reflexivity|]. destruct (N.eqb 42 y) eqn:E2; [apply N.eqb_eq in E2; congruence|reflexivity]. }
  rewrite S. unfold err1. eauto.
Qed.
Lemma sp_item_stop rest : stops rest -> exists e, sp_item rest = Err e.
Proof.
  intros St. unfold sp_item, alt. cbn [alt']. destruct (comment_stop rest St) as [e ->].
  unfold unitp, value, pmap, multispace1, take_while1.
  destruct rest as [|x t]; [cbn; eauto|]. destruct St as [Hs _]. cbn [span]. rewrite Hs. cbn. eauto.
Qed.

Lemma comment_fails_on_space c s : is_space c = true -> exists e, comment (c :: s) = Err e.
Proof.
  intros H. unfold comment, preceded, bind, tag. change (b "@*") with [64%N; 42%N]. cbn [strip_prefix].
  rewrite (is_space_not_at c H). unfold err1. eauto.
Qed.
Lemma sp_item_ws c s : is_space c = true -> sp_item (c :: s) = Ok tt (snd (span is_space (c :: s))).
Proof.
  intros H. unfold sp_item, alt. cbn [alt']. destruct (comment_fails_on_space c s H) as [e ->].
  unfold unitp, value, pmap, multispace1, take_while1. cbn [span]. rewrite H.
  destruct (span is_space s) as [a t]. reflexivity.
Qed.
Lemma sp_item_cmt body s : no_close body = true -> sp_item (b "@*" ++ body ++ b "*@" ++ s) = Ok tt s.
Proof. intros H. unfold sp_item, alt. cbn [alt']. now rewrite comment_skips. Qed.

Lemma layout_drop_spaces s : layout s -> layout (snd (span is_space s)).
Proof.
  induction 1 as [|c s Hc Hs IH|body s Hb Hs IH].
  - constructor.
  - cbn [span]. rewrite Hc. destruct (span is_space s) as [a t]. exact IH.
  - change (b "@*" ++ body ++ b "*@" ++ s) with (64%N :: (42%N :: body ++ b "*@" ++ s)). cbn [span].
    change (is_space 64) with false. cbv iota. cbn [snd]. now apply (L_cmt body s).
Qed.

Lemma many0_sp_items : forall n s rest, List.length s <= n -> layout s -> stops rest ->
  exists l, many0 sp_item (s ++ rest) = Ok l rest.
Proof.
  induction n as [|n IH]; intros s rest Hn L St.
  - destruct s; [|cbn in Hn; lia]. rewrite (many0_step _ (g_sfx good_sp_item)). cbn [app].
    destruct (sp_item_stop rest St) as [e ->]. eauto.
  - inversion L as [|c s1 Hc Hs1|body s1 Hb Hs1]; subst.
    + rewrite (many0_step _ (g_sfx good_sp_item)). cbn [app]. destruct (sp_item_stop rest St) as [e ->]. eauto.
    + rewrite (many0_step _ (g_sfx good_sp_item)). cbn [app]. rewrite (sp_item_ws c _ Hc).
      change (c :: s1 ++ rest) with ((c :: s1) ++ rest).
      rewrite (span_app_stop is_space (c :: s1) rest).
      2: { destruct rest as [|x t]; [now left|right]. exists x, t. split; [reflexivity|apply St]. }
      cbn [snd]. set (tl := snd (span is_space (c :: s1))).
      destruct (span_snd_suffix is_space (c :: s1)) as [pre [Hpre Hfst]]. fold tl in Hpre.
      assert (Lpre : pre <> []).
      { rewrite <- Hfst. cbn [span]. rewrite Hc. destruct (span is_space s1). discriminate. }
      assert (Ltl : List.length tl < List.length (c :: s1)).
      { rewrite Hpre. rewrite app_length. destruct pre; [congruence|cbn; lia]. }
      assert (X : Nat.eqb (List.length (tl ++ rest)) (List.length ((c :: s1) ++ rest)) = false).
      { apply Nat.eqb_neq. rewrite !app_length. lia. }
      rewrite X.
      destruct (IH tl rest ltac:(cbn in Hn, Ltl; lia) (layout_drop_spaces _ L) St) as [l ->]. eauto.
    + rewrite (many0_step _ (g_sfx good_sp_item)). rewrite <- !app_assoc. rewrite (sp_item_cmt body _ Hb).
      assert (X : Nat.eqb (List.length (s1 ++ rest)) (List.length (b "@*" ++ body ++ b "*@" ++ s1 ++ rest)) = false).
      { apply Nat.eqb_neq. rewrite !app_length. cbn. lia. }
      rewrite X.
      assert (Ls : List.length s1 <= n). { rewrite !app_length in Hn. cbn in Hn. lia. }
      destruct (IH s1 rest Ls Hs1 St) as [l ->]. eauto.
Qed.

Lemma spacelike_skips_lemma s rest : layout s -> stops rest -> spacelike (s ++ rest) = Ok tt rest.
Proof.
  intros L St. change (spacelike (s ++ rest)) with (pmap (fun _ => tt) (many0 sp_item) (s ++ rest)). unfold pmap.
  destruct (many0_sp_items (List.length s) s rest (le_n _) L St) as [l ->]. reflexivity.
Qed.
